import JaqalModel.Model.Builder
/-! Lemmas about the builder model used by C07: fuel independence, dependence on the context only through
the names occurring in an expression, and the memo-table invariant. -/
namespace Jaqal.Builder
open Jaqal

/-! ### `valStep` is a congruence in its two function arguments -/

theorem valStep_congr {get get' : String → Option Val} {rec rec' : BSx → M Val} {l : List BSx}
    (hr : ∀ x ∈ l, rec x = rec' x) (hg : ∀ s, BSx.str s ∈ l → get s = get' s) :
    valStep get rec l = valStep get' rec' l := by
  unfold valStep
  split
  · rfl
  · rename_i cmd args
    split
    · split
      · rename_i name size
        rw [hr size (by simp)]
      · rfl
    · split
      · rfl
      · split
        · split
          · rename_i ident index
            rw [hr ident (by simp), hr index (by simp)]
          · rfl
        · split
          · split
            · rename_i name srcE rest
              have hsrc : mapSource get srcE = mapSource get' srcE := by
                cases srcE <;> try rfl
                rename_i s
                simp only [mapSource, hg s (by simp)]
              rw [hsrc]
              split
              · rfl
              · rename_i idxE
                rw [hr idxE (by simp)]
              · rename_i a b c
                rw [hr a (by simp), hr b (by simp), hr c (by simp)]
              · rfl
            · rfl
          · rfl
  · rfl

/-! ### Fuel -/

theorem buildVal_atom_fuel (ctx : Ctx) (f f' : Nat) (e : BSx) (h : ∀ l, e ≠ .list l) :
    buildVal ctx f e = buildVal ctx f' e := by
  cases e with
  | list l => exact absurd rfl (h l)
  | val v => cases f <;> cases f' <;> cases v <;> rfl
  | _ => cases f <;> cases f' <;> rfl

theorem depth_le_of_mem {x : BSx} {l : List BSx} (h : x ∈ l) : x.depth ≤ BSx.depthList l := by
  induction l with
  | nil => cases h
  | cons y ys ih =>
    simp only [BSx.depthList]
    rcases List.mem_cons.1 h with rfl | h
    · exact Nat.le_max_left _ _
    · exact Nat.le_trans (ih h) (Nat.le_max_right _ _)

theorem buildVal_fuel (ctx : Ctx) : ∀ (f f' : Nat) (e : BSx), e.depth ≤ f → e.depth ≤ f' →
    buildVal ctx f e = buildVal ctx f' e := by
  intro f
  induction f with
  | zero =>
    intro f' e h _
    cases e with
    | list l => simp [BSx.depth] at h
    | _ => exact buildVal_atom_fuel ctx _ _ _ (by intro l; simp)
  | succ f ih =>
    intro f' e h h'
    cases e with
    | list l =>
      cases f' with
      | zero => simp [BSx.depth] at h'
      | succ f' =>
        simp only [BSx.depth, Nat.add_le_add_iff_right] at h h'
        show valStep ctx.get (buildVal ctx f) l = valStep ctx.get (buildVal ctx f') l
        exact valStep_congr (fun x hx => ih f' x (Nat.le_trans (depth_le_of_mem hx) h)
          (Nat.le_trans (depth_le_of_mem hx) h')) (fun _ _ => rfl)
    | _ => exact buildVal_atom_fuel ctx _ _ _ (by intro l; simp)

/-! ### A value depends on the context only through the names occurring in the expression -/

mutual
theorem entsOf_length (ctx ctx' : Ctx) : ∀ e : BSx, (entsOf ctx e).length = (entsOf ctx' e).length
  | .str _ => by simp [entsOf]
  | .int _ => by simp [entsOf]
  | .flt _ => by simp [entsOf]
  | .none => by simp [entsOf]
  | .val _ => by simp [entsOf]
  | .list l => by simp only [entsOf]; exact entsOfList_length ctx ctx' l
theorem entsOfList_length (ctx ctx' : Ctx) : ∀ l : List BSx, (entsOfList ctx l).length = (entsOfList ctx' l).length
  | [] => by simp [entsOfList]
  | x :: xs => by
    simp only [entsOfList, List.length_append]
    rw [entsOf_length ctx ctx' x, entsOfList_length ctx ctx' xs]
end

theorem entsOfList_mem {ctx ctx' : Ctx} : ∀ {l : List BSx}, entsOfList ctx l = entsOfList ctx' l →
    ∀ x ∈ l, entsOf ctx x = entsOf ctx' x := by
  intro l
  induction l with
  | nil => intro _ x hx; cases hx
  | cons y ys ih =>
    intro h x hx
    simp only [entsOfList] at h
    have h2 := List.append_inj h (entsOf_length ctx ctx' y)
    rcases List.mem_cons.1 hx with rfl | hx
    · exact h2.1
    · exact ih h2.2 x hx

theorem buildVal_ents {ctx ctx' : Ctx} : ∀ (f : Nat) (e : BSx), entsOf ctx e = entsOf ctx' e →
    buildVal ctx f e = buildVal ctx' f e := by
  intro f
  induction f with
  | zero =>
    intro e h
    cases e with
    | str s =>
      simp only [entsOf, List.cons.injEq, and_true] at h
      simp [buildVal, lookupId, h]
    | list l => rfl
    | val v => cases v <;> rfl
    | _ => rfl
  | succ f ih =>
    intro e h
    cases e with
    | str s =>
      simp only [entsOf, List.cons.injEq, and_true] at h
      simp [buildVal, lookupId, h]
    | list l =>
      simp only [entsOf] at h
      show valStep ctx.get (buildVal ctx f) l = valStep ctx'.get (buildVal ctx' f) l
      refine valStep_congr (fun x hx => ih x (entsOfList_mem h x hx)) ?_
      intro s hs
      have := entsOfList_mem h _ hs
      simpa [entsOf] using this
    | val v => cases v <;> rfl
    | _ => rfl

theorem mapM_congr {α β : Type} {f g : α → M β} : ∀ {l : List α}, (∀ x ∈ l, f x = g x) → l.mapM f = l.mapM g := by
  intro l
  induction l with
  | nil => intro _; rfl
  | cons x xs ih =>
    intro h
    simp only [List.mapM_cons]
    rw [h x (by simp), ih (fun y hy => h y (by simp [hy]))]

/-! ### The dictionary's `==` on today's argument tuples is structural equality -/

mutual
theorem keyEq_eq : ∀ (a b : BSx), BSx.keyEq a b = true → a = b
  | .list a, .list b, h => by
    simp only [BSx.keyEq] at h
    rw [keyEqList_eq a b h]
  | .str a, .str b, h => by simp only [BSx.keyEq, beq_iff_eq] at h; rw [h]
  | .int a, .int b, h => by simp only [BSx.keyEq, beq_iff_eq] at h; rw [h]
  | .flt a, .flt b, h => by simp only [BSx.keyEq, decide_eq_true_eq] at h; rw [h]
  | .none, .none, _ => rfl
  | .val a, .val b, h => by simp only [BSx.keyEq, decide_eq_true_eq] at h; rw [h]
  | .str _, .int _, h | .str _, .flt _, h | .str _, .none, h | .str _, .list _, h
  | .str _, .val _, h | .int _, .str _, h | .int _, .none, h | .int _, .list _, h | .int _, .flt _, h
  | .int _, .val _, h | .flt _, .str _, h | .flt _, .none, h | .flt _, .list _, h | .flt _, .int _, h
  | .flt _, .val _, h | .none, .str _, h | .none, .int _, h | .none, .flt _, h
  | .none, .list _, h | .none, .val _, h | .list _, .str _, h | .list _, .int _, h
  | .list _, .flt _, h | .list _, .none, h | .list _, .val _, h | .val _, .str _, h
  | .val _, .int _, h | .val _, .flt _, h | .val _, .none, h | .val _, .list _, h => by
    simp [BSx.keyEq] at h
theorem keyEqList_eq : ∀ (a b : List BSx), BSx.keyEqList a b = true → a = b
  | [], [], _ => rfl
  | x :: xs, y :: ys, h => by
    simp only [BSx.keyEqList, Bool.and_eq_true] at h
    rw [keyEq_eq x y h.1, keyEqList_eq xs ys h.2]
  | [], _ :: _, h => by simp [BSx.keyEqList] at h
  | _ :: _, [], h => by simp [BSx.keyEqList] at h
end

/-! ### The memo-table invariant -/

/-- `g'` binds every name `g` binds, to the same definition -/
def GExt (g g' : GCtx) : Prop := ∀ n e, g.lookup n = some e → g'.lookup n = some e

theorem GExt.refl (g : GCtx) : GExt g g := fun _ _ h => h
theorem GExt.trans {a b c : GCtx} (h1 : GExt a b) (h2 : GExt b c) : GExt a c := fun n e h => h2 n e (h1 n e h)

/-- "every memo entry equals what building that gate statement returns in any context that agrees with the key" -/
def EntryOK (cfg : Config) (g : GCtx) (k : Key) (s : Stmt) : Prop :=
  (g.lookup k.name).isSome = true ∧
  ∀ (ctx : Ctx) (f : Nat), BSx.depthList k.args ≤ f → entsOfList ctx k.args = k.ents →
    buildGateFresh cfg (buildVal ctx f) k.name k.args g = .ok (s, g)

def MemoOK (cfg : Config) (m : Memo) (g : GCtx) : Prop := ∀ k s, (k, s) ∈ m → EntryOK cfg g k s

theorem buildGateFresh_found {cfg : Config} {recV : BSx → M Val} {name : String} {args : List BSx} {g : GCtx}
    {e : GEntry} (h : g.lookup name = some e) :
    buildGateFresh cfg recV name args g = (do let vals ← args.mapM recV; let s ← callDef e.toDef vals; pure (s, g)) := by
  simp only [buildGateFresh, getGateDef, h, pure_bind]

theorem buildGateFresh_ok {cfg : Config} {recV : BSx → M Val} {name : String} {args : List BSx} {g g' : GCtx}
    {s : Stmt} (h : buildGateFresh cfg recV name args g = .ok (s, g')) :
    ∃ e, g'.lookup name = some e ∧ GExt g g' ∧ (do let vals ← args.mapM recV; callDef e.toDef vals) = .ok s := by
  unfold buildGateFresh getGateDef at h
  cases hl : List.lookup name g with
  | some e =>
    simp only [hl] at h
    refine ⟨e, ?_, ?_, ?_⟩
    · cases hm : args.mapM recV with
      | error x => simp [hm, bind, Except.bind, pure, Except.pure] at h
      | ok vals =>
        cases hc : callDef e.toDef vals with
        | error x => simp [hm, hc, bind, Except.bind, pure, Except.pure] at h
        | ok s' =>
          simp [hm, hc, bind, Except.bind, pure, Except.pure] at h
          rw [← h.2]; exact hl
    · cases hm : args.mapM recV with
      | error x => simp [hm, bind, Except.bind, pure, Except.pure] at h
      | ok vals =>
        cases hc : callDef e.toDef vals with
        | error x => simp [hm, hc, bind, Except.bind, pure, Except.pure] at h
        | ok s' =>
          simp [hm, hc, bind, Except.bind, pure, Except.pure] at h
          rw [← h.2]; exact GExt.refl g
    · cases hm : args.mapM recV with
      | error x => simp [hm, bind, Except.bind, pure, Except.pure] at h
      | ok vals =>
        cases hc : callDef e.toDef vals with
        | error x => simp [hm, hc, bind, Except.bind, pure, Except.pure] at h
        | ok s' =>
          simp [hm, hc, bind, Except.bind, pure, Except.pure] at h
          simp [bind, Except.bind, hc, h.1]
  | none =>
    simp only [hl] at h
    by_cases ha : cfg.anonymousAllowed = true
    · simp only [ha, if_true] at h
      refine ⟨.gdef (anonDef name args.length), ?_, ?_, ?_⟩
      · cases hm : args.mapM recV with
        | error x => simp [hm, bind, Except.bind, pure, Except.pure] at h
        | ok vals =>
          cases hc : callDef (anonDef name args.length) vals with
          | error x => simp [hm, hc, bind, Except.bind, pure, Except.pure] at h
          | ok s' =>
            simp [hm, hc, bind, Except.bind, pure, Except.pure] at h
            rw [← h.2]; simp [List.lookup]
      · cases hm : args.mapM recV with
        | error x => simp [hm, bind, Except.bind, pure, Except.pure] at h
        | ok vals =>
          cases hc : callDef (anonDef name args.length) vals with
          | error x => simp [hm, hc, bind, Except.bind, pure, Except.pure] at h
          | ok s' =>
            simp [hm, hc, bind, Except.bind, pure, Except.pure] at h
            rw [← h.2]
            intro n e hn
            simp only [List.lookup]
            by_cases hnn : n = name
            · subst hnn; rw [hl] at hn; cases hn
            · have : (n == name) = false := by simpa using hnn
              simp [this, hn]
      · cases hm : args.mapM recV with
        | error x => simp [hm, bind, Except.bind, pure, Except.pure] at h
        | ok vals =>
          cases hc : callDef (anonDef name args.length) vals with
          | error x => simp [hm, hc, bind, Except.bind, pure, Except.pure] at h
          | ok s' =>
            simp [hm, hc, bind, Except.bind, pure, Except.pure] at h
            simp [bind, Except.bind, hc, h.1, GEntry.toDef]
    · simp [ha, bind, Except.bind, throw, throwThe, MonadExceptOf.throw] at h

theorem EntryOK.ext {cfg : Config} {g g' : GCtx} {k : Key} {s : Stmt} (hx : GExt g g') (h : EntryOK cfg g k s) :
    EntryOK cfg g' k s := by
  obtain ⟨h2, h3⟩ := h
  cases hl : List.lookup k.name g with
  | none => simp [hl] at h2
  | some e =>
    have hl' := hx _ _ hl
    refine ⟨by simp [hl'], ?_⟩
    intro ctx f hd he
    have := h3 ctx f hd he
    rw [buildGateFresh_found hl] at this
    rw [buildGateFresh_found hl']
    cases hm : k.args.mapM (buildVal ctx f) with
    | error x => simp [hm, bind, Except.bind] at this
    | ok vals =>
      cases hc : callDef e.toDef vals with
      | error x => simp [hm, hc, bind, Except.bind] at this
      | ok s' =>
        simp [hm, hc, bind, Except.bind, pure, Except.pure] at this
        simp [bind, Except.bind, pure, Except.pure, hc, this]

theorem MemoOK.ext {cfg : Config} {m : Memo} {g g' : GCtx} (hx : GExt g g') (h : MemoOK cfg m g) : MemoOK cfg m g' :=
  fun k s hk => (h k s hk).ext hx

theorem Memo.find_some {bv : Bool} {m : Memo} {key : Key} {s : Stmt} (h : Memo.find bv m key = some s) :
    ∃ k, (k, s) ∈ m ∧ Key.eqv bv k key = true := by
  induction m with
  | nil => simp [Memo.find] at h
  | cons p ps ih =>
    obtain ⟨k', g⟩ := p
    simp only [Memo.find] at h
    by_cases he : Key.eqv bv k' key = true
    · simp only [he, if_true, Option.some.injEq] at h
      exact ⟨k', by simp [h], he⟩
    · simp only [he] at h
      obtain ⟨k, hk, hk'⟩ := ih h
      exact ⟨k, by simp [hk], hk'⟩


/-! ### Simulation: building with the memo table (today's key) and without it -/

/-- the two runs end with the same error, or with the same object, the same gate context, a valid memo table,
and a gate context extending the initial one `g0` -/
def Sim (cfg : Config) {α : Type} (g0 : GCtx) (r r' : M (α × St)) : Prop :=
  match r, r' with
  | .error a, .error b => a = b
  | .ok (o, s), .ok (o', s') => o = o' ∧ s.gctx = s'.gctx ∧ MemoOK cfg s.memo s.gctx ∧ GExt g0 s.gctx
  | _, _ => False

theorem throw_eq {α : Type} (e : Err) : (throw e : M α) = Except.error e := rfl

@[simp] theorem Sim.err (cfg : Config) {α : Type} (g0 : GCtx) (e : Err) :
    Sim cfg (α := α) g0 (Except.error e) (Except.error e) := by simp [Sim]

theorem Sim.ok_intro {cfg : Config} {α : Type} {g0 : GCtx} {o o' : α} {s s' : St} (ho : o = o')
    (hg : s.gctx = s'.gctx) (hm : MemoOK cfg s.memo s.gctx) (hx : GExt g0 s.gctx) :
    Sim cfg g0 (Except.ok (o, s)) (Except.ok (o', s')) := ⟨ho, hg, hm, hx⟩

theorem Sim.ok_elim {cfg : Config} {α : Type} {g0 : GCtx} {o o' : α} {s s' : St}
    (h : Sim cfg g0 (Except.ok (o, s)) (Except.ok (o', s'))) :
    o = o' ∧ s.gctx = s'.gctx ∧ MemoOK cfg s.memo s.gctx ∧ GExt g0 s.gctx := h

theorem Key.eqv_eq {k key : Key} (h : Key.eqv false k key = true) : k = key := by
  simp only [Key.eqv, Bool.and_eq_true, beq_iff_eq, decide_eq_true_eq, Bool.false_eq_true, if_false] at h
  obtain ⟨⟨h1, h2⟩, h3⟩ := h
  have := keyEqList_eq _ _ h2
  cases k; cases key; simp_all

theorem buildGateMemo_sim (cfg : Config) (ctx : Ctx) (f : Nat) (name : String) (gargs : List BSx) (st st' : St)
    (hg : st.gctx = st'.gctx) (hm : MemoOK cfg st.memo st.gctx)
    (hd' : BSx.depthList gargs ≤ f) :
    Sim cfg st.gctx (buildGateMemo cfg .new ctx (buildVal ctx f) name gargs st)
      (buildGateMemo cfg .off ctx (buildVal ctx f) name gargs st') := by
  unfold buildGateMemo
  match name, gargs, hd' with
  | name, gargs, hd' =>
    simp only [show (KeyMode.new = KeyMode.off) = False from by simp, if_false, if_true]
    simp only [KeyMode.numByValue]
    cases hf : Memo.find false st.memo (mkKey .new ctx name gargs) with
    | some g =>
      obtain ⟨k, hk, hkeq⟩ := Memo.find_some hf
      have hok := hm k g hk
      have hkk : k = mkKey .new ctx name gargs := Key.eqv_eq hkeq
      subst hkk
      have h3 := hok.2 ctx f (by simpa [mkKey] using hd') (by simp [mkKey])
      simp only [mkKey] at h3
      rw [← hg]
      simp only [h3]
      simp [Sim, hm, GExt.refl, bind, Except.bind, pure, Except.pure]
    | none =>
      rw [← hg]
      cases hb : buildGateFresh cfg (buildVal ctx f) name gargs st.gctx with
      | error e => simp [Sim, bind, Except.bind]
      | ok p =>
        obtain ⟨s, g'⟩ := p
        obtain ⟨e, hl, hx, hcall⟩ := buildGateFresh_ok hb
        simp only [Sim, bind, Except.bind, pure, Except.pure, true_and]
        refine ⟨?_, hx⟩
        intro k s' hks
        rcases List.mem_cons.1 hks with heq | hks
        · cases heq
          refine ⟨by simp [mkKey, hl], ?_⟩
          intro ctx2 f2 hd2 he2
          simp only [mkKey, if_neg (show ¬ (KeyMode.new = KeyMode.old) by simp)] at hd2 he2 ⊢
          rw [buildGateFresh_found hl]
          have hmm : gargs.mapM (buildVal ctx2 f2) = gargs.mapM (buildVal ctx f) := by
            apply mapM_congr
            intro x hx
            rw [buildVal_ents f2 x (entsOfList_mem he2 x hx)]
            exact buildVal_fuel ctx f2 f x (Nat.le_trans (depth_le_of_mem hx) hd2)
              (Nat.le_trans (depth_le_of_mem hx) hd')
          rw [hmm]
          cases hmv : gargs.mapM (buildVal ctx f) with
          | error x => simp [hmv, bind, Except.bind] at hcall
          | ok vals =>
            simp only [hmv, bind, Except.bind] at hcall
            simp [bind, Except.bind, hcall, pure, Except.pure]
        · exact (hm k s' hks).ext hx

theorem buildGate_sim (cfg : Config) (ctx : Ctx) (f : Nat) (args : List BSx) (st st' : St)
    (hg : st.gctx = st'.gctx) (hm : MemoOK cfg st.memo st.gctx)
    (hd : BSx.depthList args ≤ f) :
    Sim cfg st.gctx (buildGate cfg .new ctx (buildVal ctx f) args st)
      (buildGate cfg .off ctx (buildVal ctx f) args st') := by
  unfold buildGate
  match args, hd with
  | [], _ => simp [throw_eq]
  | .str name :: gargs, hd =>
    simp only [BSx.depthList, BSx.depth] at hd
    have hd' : BSx.depthList gargs ≤ f := Nat.le_trans (Nat.le_max_right _ _) hd
    simp only []
    rw [← hg]
    cases nestingCheck ctx st.gctx name with
    | error e => exact Sim.err cfg st.gctx e
    | ok u => exact buildGateMemo_sim cfg ctx f name gargs st st' hg hm hd'
  | .int _ :: _, _ | .flt _ :: _, _ | .none :: _, _ | .list _ :: _, _ | .val _ :: _, _ => simp [throw_eq]

theorem mapMSt_sim (cfg : Config) {fA fA' : BSx → St → M (Obj × St)} : ∀ (l : List BSx),
    (∀ x ∈ l, ∀ s s', s.gctx = s'.gctx → MemoOK cfg s.memo s.gctx → Sim cfg s.gctx (fA x s) (fA' x s')) →
    ∀ st st', st.gctx = st'.gctx → MemoOK cfg st.memo st.gctx →
      Sim cfg st.gctx (mapMSt fA l st) (mapMSt fA' l st') := by
  intro l
  induction l with
  | nil => intro _ st st' hg hm; exact Sim.ok_intro rfl hg hm (GExt.refl _)
  | cons x xs ih =>
    intro h st st' hg hm
    have h1 := h x (by simp) st st' hg hm
    simp only [mapMSt]
    cases ha : fA x st with
    | error e =>
      cases hb : fA' x st' with
      | error e' => rw [ha, hb] at h1; simpa [Sim, bind, Except.bind] using h1
      | ok p => rw [ha, hb] at h1; simp [Sim] at h1
    | ok p =>
      cases hb : fA' x st' with
      | error e' => rw [ha, hb] at h1; simp [Sim] at h1
      | ok p' =>
        obtain ⟨o, s1⟩ := p
        obtain ⟨o', s1'⟩ := p'
        rw [ha, hb] at h1
        simp only [Sim] at h1
        obtain ⟨ho, hg1, hm1, hx1⟩ := h1
        have h2 := ih (fun y hy => h y (by simp [hy])) s1 s1' hg1 hm1
        simp only [bind, Except.bind]
        cases hc : mapMSt fA xs s1 with
        | error e =>
          cases hd : mapMSt fA' xs s1' with
          | error e' => rw [hc, hd] at h2; simpa [Sim] using h2
          | ok q => rw [hc, hd] at h2; simp [Sim] at h2
        | ok q =>
          cases hd : mapMSt fA' xs s1' with
          | error e' => rw [hc, hd] at h2; simp [Sim] at h2
          | ok q' =>
            obtain ⟨os, s2⟩ := q
            obtain ⟨os', s2'⟩ := q'
            rw [hc, hd] at h2
            simp only [Sim] at h2
            obtain ⟨hos, hg2, hm2, hx2⟩ := h2
            exact Sim.ok_intro (by rw [ho, hos]) hg2 hm2 (hx1.trans hx2)

theorem Sim.bind {cfg : Config} {α β : Type} {g0 : GCtx} {r r' : M (α × St)} (h : Sim cfg g0 r r')
    {k k' : α × St → M (β × St)}
    (hk : ∀ o s s', s.gctx = s'.gctx → MemoOK cfg s.memo s.gctx → GExt g0 s.gctx → Sim cfg g0 (k (o, s)) (k' (o, s'))) :
    Sim cfg g0 (r >>= k) (r' >>= k') := by
  cases r with
  | error e =>
    cases r' with
    | error e' =>
      have : e = e' := h
      subst this
      exact Sim.err cfg g0 e
    | ok p => simp [Sim] at h
  | ok p =>
    cases r' with
    | error e' => simp [Sim] at h
    | ok p' =>
      obtain ⟨o, s⟩ := p
      obtain ⟨o', s'⟩ := p'
      obtain ⟨ho, hg, hm, hx⟩ := Sim.ok_elim h
      subst ho
      exact hk o s s' hg hm hx

/-- a state-free computation followed by returning the (related) states -/
theorem Sim.lift {cfg : Config} {α β : Type} {g0 : GCtx} (m : M β) (h : β → α) {s s' : St}
    (hg : s.gctx = s'.gctx) (hm : MemoOK cfg s.memo s.gctx) (hx : GExt g0 s.gctx) :
    Sim cfg g0 (m >>= fun b => pure (h b, s)) (m >>= fun b => pure (h b, s')) := by
  cases m with
  | error e => exact Sim.err cfg g0 e
  | ok b => exact Sim.ok_intro rfl hg hm hx

/-- a state-free computation in front of two related computations -/
theorem Sim.pre {cfg : Config} {α β : Type} {g0 : GCtx} (m : M β) {k k' : β → M (α × St)}
    (hk : ∀ b, Sim cfg g0 (k b) (k' b)) : Sim cfg g0 (m >>= k) (m >>= k') := by
  cases m with
  | error e => exact Sim.err cfg g0 e
  | ok b => exact hk b

theorem anyStep_sim (cfg : Config) (recA recA' : Ctx → BSx → St → M (Obj × St)) (ctx : Ctx) (f : Nat) (l : List BSx)
    (hrec : ∀ c x, x ∈ l → ∀ s s', s.gctx = s'.gctx → MemoOK cfg s.memo s.gctx →
      Sim cfg s.gctx (recA c x s) (recA' c x s'))
    (hd : BSx.depthList l ≤ f) (st st' : St)
    (hg : st.gctx = st'.gctx) (hm : MemoOK cfg st.memo st.gctx) :
    Sim cfg st.gctx (anyStep cfg .new recA (buildVal ctx f) ctx l st)
      (anyStep cfg .off recA' (buildVal ctx f) ctx l st') := by
  unfold anyStep
  match l, hrec, hd with
  | [], _, _ => simp [throw_eq]
  | .str cmd :: args, hrec, hd =>
    simp only [BSx.depthList, BSx.depth] at hd
    have hd' : BSx.depthList args ≤ f := Nat.le_trans (Nat.le_max_right _ _) hd
    have hrec' : ∀ c x, x ∈ args → ∀ s s', s.gctx = s'.gctx → MemoOK cfg s.memo s.gctx →
      Sim cfg s.gctx (recA c x s) (recA' c x s') := fun c x hx => hrec c x (by simp [hx])
    have hblock : ∀ (c : Ctx) (as : List BSx) (par sub : Bool), (∀ x ∈ as, x ∈ args) →
        Sim cfg st.gctx
          (mapMSt (recA c) as st >>= fun p => do
            let ss ← asStmts p.1
            pure (Obj.stmt (Stmt.block par sub (Val.int 1) ss), p.2))
          (mapMSt (recA' c) as st' >>= fun p => do
            let ss ← asStmts p.1
            pure (Obj.stmt (Stmt.block par sub (Val.int 1) ss), p.2)) := by
      intro c as par sub has
      apply Sim.bind (mapMSt_sim cfg as (fun x hx => hrec' c x (has x hx)) st st' hg hm)
      intro o s s' hg1 hm1 hx1
      exact Sim.lift (asStmts o) _ hg1 hm1 hx1
    by_cases h1 : cmd = "gate"
    · simp only [h1, if_true]
      apply Sim.bind (buildGate_sim cfg ctx f args st st' hg hm hd')
      intro o s s' hg1 hm1 hx1
      exact Sim.ok_intro rfl hg1 hm1 hx1
    simp only [h1, if_false]
    by_cases h2 : cmd = "sequential_block" ∨ cmd = "block"
    · simp only [h2, if_true]
      exact hblock _ args false false (fun _ h => h)
    simp only [h2, if_false]
    by_cases h3 : cmd = "parallel_block"
    · simp only [h3, if_true]
      exact hblock _ args true false (fun _ h => h)
    simp only [h3, if_false]
    by_cases h4 : cmd = "unscheduled_block"
    · simp only [h4, if_true]
      exact hblock _ args false false (fun _ h => h)
    simp only [h4, if_false]
    by_cases h5 : cmd = "subcircuit_block"
    · simp only [h5, if_true]
      by_cases hflag : (ctx.inSub || ctx.inPar) = true
      · simp [hflag, throw_eq]
      · simp only [hflag]
        apply Sim.bind (mapMSt_sim cfg args.tail (fun x hx => hrec' _ x (List.mem_of_mem_tail hx)) st st' hg hm)
        intro o s s' hg1 hm1 hx1
        cases args with
        | nil => simp [throw_eq]
        | cons countE rest =>
          simp only []
          apply Sim.pre
          intro count
          apply Sim.pre
          intro _
          exact Sim.lift (asStmts o) _ hg1 hm1 hx1
    simp only [h5, if_false]
    by_cases h6 : cmd = "loop"
    · simp only [h6, if_true]
      match args, hrec' with
      | [countE, blockE], hrec' =>
        simp only []
        apply Sim.pre
        intro count
        apply Sim.bind (hrec' ctx blockE (by simp) st st' hg hm)
        intro o s s' hg1 hm1 hx1
        cases o with
        | stmt b =>
          simp only []
          exact Sim.lift (validateCount count) (fun _ => Obj.stmt (Stmt.loop count b)) hg1 hm1 hx1
        | val v =>
          cases v with
          | none =>
            simp only []
            exact Sim.lift (validateCount count)
              (fun _ => Obj.stmt (Stmt.loop count (.block false false (.int 1) []))) hg1 hm1 hx1
          | _ => simp [throw_eq]
        | _ => simp [throw_eq]
      | [], _ | [_], _ | _ :: _ :: _ :: _, _ => simp [throw_eq]
    simp only [h6, if_false]
    by_cases h7 : cmd = "case"
    · simp only [h7, if_true]
      match args, hrec' with
      | [stateE, blockE], hrec' =>
        simp only []
        apply Sim.pre
        intro _
        apply Sim.bind (hrec' ctx blockE (by simp) st st' hg hm)
        intro o s s' hg1 hm1 hx1
        exact Sim.ok_intro rfl hg1 hm1 hx1
      | [], _ | [_], _ | _ :: _ :: _ :: _, _ => simp [throw_eq]
    simp only [h7, if_false]
    by_cases h8 : cmd = "branch"
    · simp only [h8, if_true]
      apply Sim.bind (mapMSt_sim cfg args (fun x hx => hrec' _ x hx) st st' hg hm)
      intro o s s' hg1 hm1 hx1
      simp [throw_eq]
    simp only [h8, if_false]
    by_cases h9 : cmd = "macro"
    · simp only [h9, if_true]
      by_cases hlen : args.length < 2
      · simp [hlen, throw_eq]
      · simp only [hlen, if_false]
        match args, hrec' with
        | [], _ => simp [throw_eq]
        | nameE :: rest, hrec' =>
          simp only []
          apply Sim.pre
          intro name
          rw [← hg]
          by_cases hdef : (List.lookup name st.gctx).isSome = true
          · simp only [if_pos hdef]
            exact Sim.err cfg st.gctx (Err.jaqal "redefine-gate")
          · simp only [if_neg hdef]
            apply Sim.pre
            intro params
            cases hlast : rest.getLast? with
            | none => simp [throw_eq]
            | some blockE =>
              simp only []
              have hmem : blockE ∈ rest := List.mem_of_getLast? hlast
              apply Sim.bind (hrec' _ blockE (by simp [hmem]) st st' hg hm)
              intro o s s' hg1 hm1 hx1
              cases o with
              | stmt b =>
                cases b with
                | block par sub it body => exact Sim.ok_intro rfl hg1 hm1 hx1
                | _ => simp [throw_eq]
              | _ => simp [throw_eq]
    simp only [h9, if_false]
    by_cases h10 : cmd = "usepulses"
    · simp only [h10, if_true]
      match args with
      | [nameE, filt] =>
        simp only []
        by_cases hstar : (!isStar filt) = true
        · simp only [if_pos hstar]
          exact Sim.err cfg st.gctx _
        · simp only [if_neg hstar]
          cases nameE with
          | str name => exact Sim.ok_intro rfl hg hm (GExt.refl _)
          | _ => simp [throw_eq]
      | [] | [_] | _ :: _ :: _ :: _ => simp [throw_eq]
    simp only [h10, if_false]
    by_cases h11 : cmd = "circuit"
    · simp [h11, throw_eq]
    simp only [h11, if_false]
    exact Sim.lift _ Obj.val hg hm (GExt.refl _)
  | .int _ :: _, _, _ | .flt _ :: _, _, _ | .none :: _, _, _ | .list _ :: _, _, _ | .val _ :: _, _, _ =>
    simp [throw_eq]


theorem buildAny_atom (cfg : Config) (mode : KeyMode) (f : Nat) (ctx : Ctx) (e : BSx) (st : St)
    (h : ∀ l, e ≠ .list l) :
    buildAny cfg mode f ctx e st = (buildVal ctx f e >>= fun v => pure (Obj.val v, st)) := by
  cases e with
  | list l => exact absurd rfl (h l)
  | _ => cases f <;> rfl

theorem buildAny_sim (cfg : Config) : ∀ (f : Nat) (ctx : Ctx) (e : BSx) (st st' : St), e.depth ≤ f →
    st.gctx = st'.gctx → MemoOK cfg st.memo st.gctx →
    Sim cfg st.gctx (buildAny cfg .new f ctx e st) (buildAny cfg .off f ctx e st') := by
  intro f
  induction f with
  | zero =>
    intro ctx e st st' hd hg hm
    cases e with
    | list l => simp [BSx.depth] at hd
    | _ =>
      rw [buildAny_atom _ _ _ _ _ _ (by intro l; simp), buildAny_atom _ _ _ _ _ _ (by intro l; simp)]
      exact Sim.lift _ Obj.val hg hm (GExt.refl _)
  | succ f ih =>
    intro ctx e st st' hd hg hm
    cases e with
    | list l =>
      simp only [BSx.depth, Nat.add_le_add_iff_right] at hd
      show Sim cfg st.gctx (anyStep cfg .new (buildAny cfg .new f) (buildVal ctx f) ctx l st)
        (anyStep cfg .off (buildAny cfg .off f) (buildVal ctx f) ctx l st')
      apply anyStep_sim cfg _ _ ctx f l _ hd st st' hg hm
      intro c x hx s s' hgs hms
      exact ih c x s s' (Nat.le_trans (depth_le_of_mem hx) hd) hgs hms
    | _ =>
      rw [buildAny_atom _ _ _ _ _ _ (by intro l; simp), buildAny_atom _ _ _ _ _ _ (by intro l; simp)]
      exact Sim.lift _ Obj.val hg hm (GExt.refl _)

theorem bind_ok {α β : Type} {m : M α} {k : α → M β} {b : β} (h : (m >>= k) = .ok b) :
    ∃ a, m = .ok a ∧ k a = .ok b := by
  cases m with
  | error e => simp [bind, Except.bind] at h
  | ok a => exact ⟨a, rfl, h⟩

def headCmd : BSx → Option String
  | .list (.str c :: _) => some c
  | _ => Option.none

/-- building the expression cannot touch the memo table or the gate context -/
def statePure (c : BSx) : Bool :=
  match headCmd c with
  | some cmd => cmd = "register" || cmd = "map" || cmd = "let" || cmd = "array_item" || cmd = "usepulses"
  | Option.none => true

def notUse (c : BSx) : Bool := headCmd c != some "usepulses"

/-- every `usepulses` child comes before the first child that can build a gate statement -/
def orderOK : List BSx → Bool
  | [] => true
  | c :: cs => if statePure c then orderOK cs else cs.all notUse

theorem anyStep_usepulses {cfg : Config} {mode : KeyMode} {recA : Ctx → BSx → St → M (Obj × St)} {recV : BSx → M Val}
    {ctx : Ctx} {l : List BSx} {st s1 : St} {n : String}
    (h : anyStep cfg mode recA recV ctx l st = .ok (.usepulses n, s1)) : ∃ args, l = .str "usepulses" :: args := by
  unfold anyStep at h
  match l, h with
  | [], h => simp [throw_eq] at h
  | .str cmd :: args, h =>
    by_cases h10 : cmd = "usepulses"
    · exact ⟨args, by rw [h10]⟩
    exfalso
    by_cases h1 : cmd = "gate"
    · simp only [h1, if_true] at h
      obtain ⟨a, _, h2⟩ := bind_ok h
      cases h2
    simp only [h1, if_false] at h
    by_cases h2 : cmd = "sequential_block" ∨ cmd = "block"
    · simp only [h2, if_true] at h
      obtain ⟨a, _, h2⟩ := bind_ok h
      obtain ⟨b, _, h3⟩ := bind_ok h2
      cases h3
    simp only [h2, if_false] at h
    by_cases h3 : cmd = "parallel_block"
    · simp only [h3, if_true] at h
      obtain ⟨a, _, h2⟩ := bind_ok h
      obtain ⟨b, _, h3⟩ := bind_ok h2
      cases h3
    simp only [h3, if_false] at h
    by_cases h4 : cmd = "unscheduled_block"
    · simp only [h4, if_true] at h
      obtain ⟨a, _, h2⟩ := bind_ok h
      obtain ⟨b, _, h3⟩ := bind_ok h2
      cases h3
    simp only [h4, if_false] at h
    by_cases h5 : cmd = "subcircuit_block"
    · simp only [h5, if_true] at h
      split at h
      · simp [throw_eq] at h
      · obtain ⟨a, _, h2⟩ := bind_ok h
        split at h2
        · simp [throw_eq] at h2
        · obtain ⟨b, _, h3⟩ := bind_ok h2
          obtain ⟨c, _, h4⟩ := bind_ok h3
          obtain ⟨d, _, h5⟩ := bind_ok h4
          cases h5
    simp only [h5, if_false] at h
    by_cases h6 : cmd = "loop"
    · simp only [h6, if_true] at h
      split at h
      · obtain ⟨a, _, h2⟩ := bind_ok h
        obtain ⟨b, _, h3⟩ := bind_ok h2
        split at h3
        · obtain ⟨c, _, h4⟩ := bind_ok h3
          cases h4
        · obtain ⟨c, _, h4⟩ := bind_ok h3
          cases h4
        · simp [throw_eq] at h3
      · simp [throw_eq] at h
    simp only [h6, if_false] at h
    by_cases h7 : cmd = "case"
    · simp only [h7, if_true] at h
      split at h
      · obtain ⟨a, _, h2⟩ := bind_ok h
        obtain ⟨b, _, h3⟩ := bind_ok h2
        cases h3
      · simp [throw_eq] at h
    simp only [h7, if_false] at h
    by_cases h8 : cmd = "branch"
    · simp only [h8, if_true] at h
      obtain ⟨a, _, h2⟩ := bind_ok h
      simp [throw_eq] at h2
    simp only [h8, if_false] at h
    by_cases h9 : cmd = "macro"
    · simp only [h9, if_true] at h
      split at h
      · simp [throw_eq] at h
      · split at h
        · obtain ⟨a, _, h2⟩ := bind_ok h
          split at h2
          · simp [throw_eq, bind, Except.bind] at h2
          · obtain ⟨b, _, h3⟩ := bind_ok h2
            split at h3
            · simp [throw_eq] at h3
            · obtain ⟨c, _, h4⟩ := bind_ok h3
              split at h4
              · cases h4
              · simp [throw_eq] at h4
        · simp [throw_eq] at h
    simp only [h9, if_false, h10] at h
    by_cases h11 : cmd = "circuit"
    · simp [h11, throw_eq] at h
    simp only [h11, if_false] at h
    obtain ⟨a, _, h2⟩ := bind_ok h
    cases h2
  | .int _ :: _, h | .flt _ :: _, h | .none :: _, h | .list _ :: _, h | .val _ :: _, h => simp [throw_eq] at h


theorem buildAny_usepulses {cfg : Config} {mode : KeyMode} {f : Nat} {ctx : Ctx} {c : BSx} {st s1 : St} {n : String}
    (h : buildAny cfg mode f ctx c st = .ok (.usepulses n, s1)) : headCmd c = some "usepulses" := by
  cases c with
  | list l =>
    cases f with
    | zero => simp [buildAny, throw_eq] at h
    | succ f =>
      obtain ⟨args, hl⟩ := anyStep_usepulses (show anyStep cfg mode (buildAny cfg mode f) (buildVal ctx f) ctx l st = _ from h)
      rw [hl]; rfl
  | _ =>
    rw [buildAny_atom _ _ _ _ _ _ (by intro l; simp)] at h
    obtain ⟨a, _, h2⟩ := bind_ok h
    cases h2

theorem buildAny_statePure {cfg : Config} {mode : KeyMode} {f : Nat} {ctx : Ctx} {c : BSx} {st s1 : St} {o : Obj}
    (hp : statePure c = true) (h : buildAny cfg mode f ctx c st = .ok (o, s1)) : s1 = st := by
  have hval : ∀ (m : M Val), (m >>= fun v => pure (Obj.val v, st)) = Except.ok (o, s1) → s1 = st := by
    intro m hm
    obtain ⟨a, _, h2⟩ := bind_ok hm
    cases h2; rfl
  cases c with
  | list l =>
    cases f with
    | zero => simp [buildAny, throw_eq] at h
    | succ f =>
      have h' : anyStep cfg mode (buildAny cfg mode f) (buildVal ctx f) ctx l st = .ok (o, s1) := h
      match l, hp, h' with
      | [], _, h' => simp [anyStep, throw_eq] at h'
      | .str cmd :: args, hp, h' =>
        simp only [statePure, headCmd, Bool.or_eq_true, decide_eq_true_eq] at hp
        rcases hp with (((hc | hc) | hc) | hc) | hc <;> subst hc
        · simp [anyStep] at h'; exact hval _ h'
        · simp [anyStep] at h'; exact hval _ h'
        · simp [anyStep] at h'; exact hval _ h'
        · simp [anyStep] at h'; exact hval _ h'
        · simp only [anyStep, show ("usepulses" = "gate") = False from by decide, if_false,
            show ("usepulses" = "sequential_block" ∨ "usepulses" = "block") = False from by decide,
            show ("usepulses" = "parallel_block") = False from by decide,
            show ("usepulses" = "unscheduled_block") = False from by decide,
            show ("usepulses" = "subcircuit_block") = False from by decide,
            show ("usepulses" = "loop") = False from by decide,
            show ("usepulses" = "case") = False from by decide,
            show ("usepulses" = "branch") = False from by decide,
            show ("usepulses" = "macro") = False from by decide, if_true] at h'
          split at h'
          · split at h'
            · simp [throw_eq, bind, Except.bind] at h'
            · split at h'
              · cases h'; rfl
              · simp [throw_eq] at h'
          · simp [throw_eq] at h'
      | .int _ :: _, _, h' | .flt _ :: _, _, h' | .none :: _, _, h' | .list _ :: _, _, h' | .val _ :: _, _, h' =>
        simp [anyStep, throw_eq] at h'
  | _ =>
    rw [buildAny_atom _ _ _ _ _ _ (by intro l; simp)] at h
    exact hval _ h


/-! ### Circuit level -/

/-- forget the memo table -/
def Acc.erase (a : Acc) : Acc := { a with st := { a.st with memo := [] } }

/-- what a successful `usepulses` step is: nothing but a record of the statement when autoload is off; otherwise no
statement or macro has been built yet, the module exists, and both gate tables are updated and the memo table reset -/
theorem stepTail_usepulses_ok {cfg : Config} {mode : KeyMode} {inject : Option (List (String × GateDef))} {acc a1 : Acc}
    {n : String} {st : St} (h : stepTail cfg mode inject acc (.usepulses n) st = .ok a1) :
    (cfg.autoload = false ∧ a1 = { acc with st := st, usepulses := acc.usepulses ++ [n] }) ∨
    (cfg.autoload = true ∧ (mode ≠ .noReset → acc.stmts = [] ∧ acc.macros = []) ∧ ∃ gs, cfg.imports n = some gs ∧
      a1 = { acc with st := { memo := if mode = .noReset then st.memo else [],
                              gctx := updateGates GEntry.gdef inject gs st.gctx },
                      usepulses := acc.usepulses ++ [n], natives := updateGates id inject gs acc.natives }) := by
  simp only [stepTail] at h
  by_cases ha : cfg.autoload = true
  · simp only [ha, if_true] at h
    right
    by_cases hne : (mode != .noReset && (!acc.stmts.isEmpty || !acc.macros.isEmpty)) = true
    · simp [hne, throw_eq] at h
    · rw [if_neg hne] at h
      have hs : mode ≠ .noReset → acc.stmts = [] ∧ acc.macros = [] := by
        intro hm
        cases h1 : acc.stmts <;> cases h2 : acc.macros <;> simp [h1, h2, hm] at hne ⊢
      cases hi : cfg.imports n with
      | none => simp [hi, throw_eq] at h
      | some gs =>
        simp only [hi, pure, Except.pure] at h
        cases h
        exact ⟨ha, hs, gs, rfl, rfl⟩
  · simp only [ha] at h
    cases h
    left
    exact ⟨by simpa using ha, rfl⟩

theorem stepTail_erase (cfg : Config) (mode : KeyMode) (hmode : mode ≠ .noReset)
    (inject : Option (List (String × GateDef))) (acc : Acc) (o : Obj) (s : St) :
    (stepTail cfg mode inject acc o s).map Acc.erase = stepTail cfg .off inject acc.erase o { s with memo := [] } := by
  cases o with
  | val v =>
    cases v <;> simp only [stepTail, throw_eq, Except.map] <;>
      (simp only [Acc.erase]; cases addVar acc.ctx _ _ <;> rfl)
  | «macro» m =>
    simp only [stepTail]
    cases rebuildMacro s.gctx m with
    | error e => rfl
    | ok m' =>
      simp only [bind, Except.bind]
      by_cases hl : (List.lookup m'.name s.gctx).isSome = true
      · simp [hl, throw_eq, Except.map]
      · simp [hl, Except.map, pure, Except.pure, Acc.erase]
  | stmt st => rfl
  | case => rfl
  | usepulses n =>
    simp only [stepTail]
    by_cases ha : cfg.autoload = true
    · simp only [ha, if_true]
      have hm1 : (mode != KeyMode.noReset) = true := by simpa using hmode
      have hm2 : (KeyMode.off != KeyMode.noReset) = true := by decide
      simp only [hm1, hm2, Bool.true_and]
      by_cases hne : (!acc.stmts.isEmpty || !acc.macros.isEmpty) = true
      · have hne' : (!acc.erase.stmts.isEmpty || !acc.erase.macros.isEmpty) = true := hne
        rw [if_pos hne, if_pos hne']; rfl
      · have hne' : ¬ (!acc.erase.stmts.isEmpty || !acc.erase.macros.isEmpty) = true := hne
        rw [if_neg hne, if_neg hne']
        cases cfg.imports n with
        | none => rfl
        | some gs => simp [Except.map, pure, Except.pure, Acc.erase]
    · simp only [ha]; rfl

/-- every step of `build_circuit` keeps the memo table valid: the table survives additions to the gate context, and
it is emptied when a `usepulses` statement loads gates -/
theorem stepTail_memoOK {cfg : Config} {inject : Option (List (String × GateDef))} {acc a1 : Acc} {o : Obj} {s : St}
    (hm : MemoOK cfg s.memo s.gctx) (h : stepTail cfg .new inject acc o s = .ok a1) :
    MemoOK cfg a1.st.memo a1.st.gctx := by
  cases o with
  | val v =>
    cases v <;> simp only [stepTail, throw_eq] at h <;> first
      | cases h
      | (obtain ⟨c, _, h2⟩ := bind_ok h; cases h2; exact hm)
  | «macro» m =>
    simp only [stepTail] at h
    obtain ⟨m', _, h2⟩ := bind_ok h
    by_cases hl : (List.lookup m'.name s.gctx).isSome = true
    · simp [hl, throw_eq, bind, Except.bind] at h2
    · simp [hl, pure, Except.pure] at h2
      rw [← h2]
      refine hm.ext ?_
      intro n e hn
      simp only [List.lookup]
      by_cases hnn : n = m'.name
      · subst hnn; simp [hn] at hl
      · have : (n == m'.name) = false := by simpa using hnn
        simp [this, hn]
  | stmt st => cases h; exact hm
  | case => cases h
  | usepulses n =>
    rcases stepTail_usepulses_ok h with ⟨_, rfl⟩ | ⟨_, _, gs, _, rfl⟩
    · exact hm
    · intro k s0 hk
      cases hk

theorem map_erase_congr {r r' : M Acc} (h : r.map Acc.erase = r'.map Acc.erase) :
    (∃ e, r = .error e ∧ r' = .error e) ∨ (∃ a a', r = .ok a ∧ r' = .ok a' ∧ a.erase = a'.erase) := by
  cases r with
  | error e =>
    cases r' with
    | error e' => simp [Except.map] at h; exact Or.inl ⟨e, rfl, by rw [h]⟩
    | ok a' => simp [Except.map] at h
  | ok a =>
    cases r' with
    | error e' => simp [Except.map] at h
    | ok a' => simp [Except.map] at h; exact Or.inr ⟨a, a', rfl, rfl, h⟩

theorem circuitLoop_sim (cfg : Config) (inject : Option (List (String × GateDef))) (fuel : Nat) :
    ∀ (cs : List BSx) (acc acc' : Acc), acc.erase = acc'.erase → MemoOK cfg acc.st.memo acc.st.gctx →
    (∀ c ∈ cs, c.depth ≤ fuel) →
    (circuitLoop cfg .new inject fuel acc cs).map Acc.erase = (circuitLoop cfg .off inject fuel acc' cs).map Acc.erase := by
  intro cs
  induction cs with
  | nil => intro acc acc' he _ _; simp [circuitLoop, Except.map, pure, Except.pure, he]
  | cons c cs ih =>
    intro acc acc' he hm hcs
    have hctx : acc.ctx = acc'.ctx := by
      have := congrArg Acc.ctx he; simpa [Acc.erase] using this
    have hg : acc.st.gctx = acc'.st.gctx := by
      have := congrArg (fun a => a.st.gctx) he; simpa [Acc.erase] using this
    have hsim := buildAny_sim cfg fuel acc.ctx c acc.st acc'.st (hcs c (by simp)) hg hm
    simp only [circuitLoop, circuitStep]
    rw [← hctx]
    cases hb : buildAny cfg .new fuel acc.ctx c acc.st with
    | error e =>
      cases hb' : buildAny cfg .off fuel acc.ctx c acc'.st with
      | error e' =>
        rw [hb, hb'] at hsim
        have : e = e' := hsim
        subst this; rfl
      | ok p => rw [hb, hb'] at hsim; simp [Sim] at hsim
    | ok p =>
      cases hb' : buildAny cfg .off fuel acc.ctx c acc'.st with
      | error e' => rw [hb, hb'] at hsim; simp [Sim] at hsim
      | ok p' =>
        obtain ⟨o, s⟩ := p
        obtain ⟨o', s'⟩ := p'
        rw [hb, hb'] at hsim
        obtain ⟨ho, hgs, hms, hxs⟩ := Sim.ok_elim hsim
        subst ho
        have htail : (stepTail cfg .new inject acc o s).map Acc.erase
            = (stepTail cfg .off inject acc' o s').map Acc.erase := by
          rw [stepTail_erase _ _ (by decide), stepTail_erase _ _ (by decide), he]
          have : ({ s with memo := [] } : St) = { s' with memo := [] } := by
            cases s; cases s'; simp_all
          rw [this]
        simp only [bind, Except.bind]
        rcases map_erase_congr htail with ⟨e, h1, h2⟩ | ⟨a1, a1', h1, h2, he1⟩
        · rw [h1, h2]
        · rw [h1, h2]
          simp only []
          exact ih a1 a1' he1 (stepTail_memoOK hms h1) (fun d hd => hcs d (by simp [hd]))


/-! ### Parser-shaped expressions -/

def headerChild (c : BSx) : Bool :=
  match headCmd c with
  | some cmd => cmd = "register" || cmd = "map" || cmd = "let" || cmd = "usepulses"
  | Option.none => false

def bodyChild (c : BSx) : Bool :=
  match headCmd c with
  | some cmd => cmd = "gate" || cmd = "macro" || cmd = "loop" || cmd = "sequential_block" || cmd = "parallel_block" ||
      cmd = "subcircuit_block" || cmd = "branch"
  | Option.none => false

/-- The shape of what `parse_to_sexpression` returns: `["circuit", header…, body…]` with every header statement
(register, map, let, usepulses) before every body statement (gate, macro, loop, blocks, branch). The grammar enforces
it (`top_statement` raises "Header statement … found after body statement"). -/
def ParserShaped (e : BSx) : Prop :=
  ∃ hdr body, e = .list (.str "circuit" :: (hdr ++ body)) ∧ (∀ c ∈ hdr, headerChild c = true) ∧
    (∀ c ∈ body, bodyChild c = true)

theorem headerChild_statePure {c : BSx} (h : headerChild c = true) : statePure c = true := by
  unfold headerChild at h
  unfold statePure
  cases hc : headCmd c with
  | none => rfl
  | some cmd =>
    simp only [hc, Bool.or_eq_true, decide_eq_true_eq] at h ⊢
    rcases h with ((h | h) | h) | h <;> simp [h]

theorem bodyChild_notUse {c : BSx} (h : bodyChild c = true) : notUse c = true := by
  unfold bodyChild at h
  unfold notUse
  cases hc : headCmd c with
  | none => rfl
  | some cmd =>
    simp only [hc, Bool.or_eq_true, decide_eq_true_eq] at h
    rcases h with (((((h | h) | h) | h) | h) | h) | h <;> subst h <;> decide


end Jaqal.Builder
