import JaqalProofs.Lemmas.BuilderNames
import Mathlib.Data.List.Perm.Subperm
namespace Jaqal.Builder
open Jaqal

/-- the error classes C16 allows the builder: `JaqalError`, and the `ImportError` of a `usepulses` load -/
def Good (e : Err) : Prop := (∃ r, e = .jaqal r) ∨ e = .importErr

theorem Good.jaqal (r : String) : Good (.jaqal r) := Or.inl ⟨r, rfl⟩

/-- every error of the computation is a good one -/
def Total {α : Type} (m : M α) : Prop := ∀ e, m = .error e → Good e

theorem Total.ok {α : Type} (a : α) : Total (Except.ok a : M α) := by intro e h; cases h
theorem Total.pure {α : Type} (a : α) : Total (pure a : M α) := by intro e h; cases h
theorem Total.throw {α : Type} (r : String) : Total (throw (.jaqal r) : M α) := by
  intro e h; cases h; exact Good.jaqal r
theorem Total.err {α : Type} (r : String) : Total (Except.error (.jaqal r) : M α) := by
  intro e h; cases h; exact Good.jaqal r

theorem Total.bind {α β : Type} {m : M α} {k : α → M β} (hm : Total m) (hk : ∀ a, m = .ok a → Total (k a)) :
    Total (m >>= k) := by
  intro e h
  cases hmm : m with
  | error e' =>
    rw [hmm] at h
    cases h
    exact hm _ hmm
  | ok a =>
    rw [hmm] at h
    exact hk a hmm e h

/-! ### Typing of the values a parser-produced program puts into the context -/

/-- a Python int, or a let-constant whose value is one -/
def isIntC : Val → Bool
  | .int _ => true
  | .const _ (.int _) => true
  | _ => false

/-- a register all of whose sizes and slice bounds are ints or integer constants, and whose sources are registers -/
def RegT : Val → Bool
  | .regF _ size => isIntC size
  | .regA _ src => RegT src
  | .regS _ src a b s => RegT src && isIntC a && isIntC b && isIntC s
  | _ => false

/-- what the context of a parser-produced program holds: numeric let-constants, untyped macro parameters, well-typed
registers, and single-qubit aliases of well-typed registers with an integer index -/
def ValT : Val → Bool
  | .const _ (.int _) => true
  | .const _ (.flt _) => true
  | .param _ .none => true
  | .qubit _ src idx => RegT src && isIntC idx
  | v => RegT v

def CtxT (ctx : Ctx) : Prop := ∀ n v, ctx.get n = some v → ValT v = true
/-- the header context: no macro parameters -/
def TopT (ctx : Ctx) : Prop := ∀ n v, ctx.get n = some v → ValT v = true ∧ isParam v = false

theorem RegT_isRegister {v : Val} (h : RegT v = true) : isRegister v = true := by
  cases v <;> simp [RegT] at h <;> rfl

theorem RegT_not_av {v : Val} (h : RegT v = true) : isAV v = false := by
  cases v <;> simp [RegT] at h <;> rfl

theorem ValT_reg {v : Val} (hv : ValT v = true) (hr : isRegister v = true) : RegT v = true := by
  cases v <;> simp [isRegister] at hr <;> simpa [ValT] using hv

theorem resolveInt_intC {v : Val} (h : isIntC v = true) : ∃ i, Resolve.resolveInt [] v = .ok i := by
  cases v with
  | int i => exact ⟨i, rfl⟩
  | const n x =>
    cases x <;> simp [isIntC] at h
    rename_i i
    exact ⟨i, rfl⟩
  | _ => simp [isIntC] at h

theorem startOr0_intC {v : Val} (h : isIntC v = true) : isIntC (Resolve.startOr0 v) = true := by
  cases v with
  | int i =>
    unfold Resolve.startOr0
    split <;> simp_all [isIntC]
  | const n x =>
    cases x <;> simp [isIntC] at h
    rfl
  | _ => simp [isIntC] at h

theorem stepOr1_intC {v : Val} (h : isIntC v = true) : isIntC (Resolve.stepOr1 v) = true := by
  cases v <;> simp [isIntC] at h <;> simpa [Resolve.stepOr1, isIntC] using h

/-- `reg.size` of a well-typed register is an int or an integer constant, or raises JaqalError (zero step) -/
theorem resolveSize_RegT : ∀ (v : Val), RegT v = true →
    (∃ sz, Resolve.resolveSize [] v = .ok sz ∧ isIntC sz = true) ∨ (∃ r, Resolve.resolveSize [] v = .error (.jaqal r))
  | .regF n size, h => by
    left; exact ⟨size, rfl, by simpa [RegT] using h⟩
  | .regA n src, h => by
    have hs : RegT src = true := by simpa [RegT] using h
    have ih := resolveSize_RegT src hs
    have hr := RegT_isRegister hs
    cases src <;> simp [isRegister] at hr <;> simpa [Resolve.resolveSize] using ih
  | .regS n src a b s, h => by
    simp only [RegT, Bool.and_eq_true] at h
    obtain ⟨⟨⟨hs, ha⟩, hb⟩, hst⟩ := h
    have hr := RegT_isRegister hs
    obtain ⟨ia, hia⟩ := resolveInt_intC (startOr0_intC ha)
    obtain ⟨is, his⟩ := resolveInt_intC (stepOr1_intC hst)
    obtain ⟨ib, hib⟩ := resolveInt_intC hb
    have key : Resolve.resolveSize [] (.regS n src a b s) =
        (if is = 0 then .error (.jaqal "zero-step") else (Resolve.rangeLen ia ib is >>= fun l => pure (.int l))) := by
      cases src <;> simp [isRegister] at hr <;>
        simp [Resolve.resolveSize, hia, his, hib, bind, Except.bind]
    rw [key]
    by_cases hz : is = 0
    · right; exact ⟨"zero-step", by simp [hz]⟩
    · left
      rw [if_neg hz, rangeLen_eq hz]
      exact ⟨_, rfl, rfl⟩
  | .int _, h | .flt _, h | .const _ _, h | .param _ _, h | .qubit _ _ _, h | .none, h | .str _, h => by
    simp [RegT] at h

theorem regSize_RegT {v : Val} (h : RegT v = true) :
    (∃ sz, regSize v = .ok sz ∧ isIntC sz = true) ∨ (∃ r, regSize v = .error (.jaqal r)) := by
  unfold regSize
  rcases resolveSize_RegT v h with ⟨sz, hs, hi⟩ | ⟨r, hr⟩
  · left; rw [hs]; exact ⟨sz, rfl, hi⟩
  · right; rw [hr]; exact ⟨r, rfl⟩

theorem pyIntOfSize_intC {sz : Val} (h : isIntC sz = true) : ∃ k, pyIntOfSize sz = .ok k := by
  cases sz with
  | int i => exact ⟨i, rfl⟩
  | const n x =>
    cases x <;> simp [isIntC] at h
    rename_i i
    exact ⟨i, rfl⟩
  | _ => simp [isIntC] at h


theorem pyLt_num {a b : Val} (ha : a.isNum = true) (hb : b.isNum = true) : ∃ r, pyLt a b = .ok r := by
  cases a <;> simp [Val.isNum] at ha <;> cases b <;> simp [Val.isNum] at hb <;> exact ⟨_, rfl⟩
theorem pyLe_num {a b : Val} (ha : a.isNum = true) (hb : b.isNum = true) : ∃ r, pyLe a b = .ok r := by
  cases a <;> simp [Val.isNum] at ha <;> cases b <;> simp [Val.isNum] at hb <;> exact ⟨_, rfl⟩

/-- the size used by the checks: `int(reg.size)` of a well-typed register -/
theorem sizeInt_RegT {v : Val} (h : RegT v = true) :
    (∃ k, (regSize v >>= pyIntOfSize) = .ok k) ∨ (∃ r, (regSize v >>= pyIntOfSize) = .error (.jaqal r)) := by
  rcases regSize_RegT h with ⟨sz, hs, hi⟩ | ⟨r, hr⟩
  · obtain ⟨k, hk⟩ := pyIntOfSize_intC hi
    left; exact ⟨k, by rw [hs]; exact hk⟩
  · right; exact ⟨r, by rw [hr]; rfl⟩

theorem indexIntegralCheck_total (idx : Val) : Total (indexIntegralCheck idx) := by
  intro e h
  cases idx <;> simp [indexIntegralCheck, throw_eq, pure, Except.pure] at h <;> try (rw [← h]; exact Good.jaqal _)
  rename_i d
  split at h
  · cases h; exact Good.jaqal _
  · cases h

theorem indexIntegralCheck_ok {idx : Val} (h : indexIntegralCheck idx = .ok ()) : idx.isNum = true := by
  cases idx <;> simp_all [indexIntegralCheck, Val.isNum, throw_eq]

theorem indexRangeCheck_total {src idx : Val} (hsrc : RegT src = true) (hnum : idx.isNum = true) :
    Total (indexRangeCheck src idx) := by
  intro e h
  unfold indexRangeCheck at h
  rcases sizeInt_RegT hsrc with ⟨k, hk⟩ | ⟨r, hr⟩
  · rw [hk] at h
    simp only [] at h
    obtain ⟨r1, hr1⟩ := pyLt_num hnum (show (Val.int 0).isNum = true from rfl)
    obtain ⟨r2, hr2⟩ := pyLe_num (show (Val.int k).isNum = true from rfl) hnum
    simp only [hr1, hr2, bind, Except.bind, pure, Except.pure] at h
    split at h
    · cases h; exact Good.jaqal _
    · cases h
  · rw [hr] at h
    cases h

theorem qubitCheck_total {src idx : Val} (hs : RegT src = true ∨ isParam src = true) : Total (qubitCheck src idx) := by
  intro e h
  unfold qubitCheck at h
  by_cases h0 : (idx == Val.none || src == Val.none) = true
  · simp [h0, throw_eq, bind, Except.bind] at h; rw [← h]; exact Good.jaqal _
  simp only [h0, Bool.false_eq_true, if_false, pure_bind] at h
  by_cases hav : (isAV idx || isAV src) = true
  · simp only [hav, if_true] at h
    by_cases c1 : (!(idx.isNum || isAV idx) || isFractional idx) = true
    · rw [if_pos c1] at h; simp [throw_eq, bind, Except.bind] at h; rw [← h]; exact Good.jaqal _
    rw [if_neg c1] at h
    by_cases c2 : (isAV idx && !kindIntOrNone (avKind idx)) = true
    · simp [c2, throw_eq, bind, Except.bind] at h; rw [← h]; exact Good.jaqal _
    simp only [c2, Bool.false_eq_true, if_false, pure_bind] at h
    by_cases c3 : (isAV src && !kindRegOrNone (avKind src)) = true
    · simp [c3, throw_eq] at h; rw [← h]; exact Good.jaqal _
    · simp [c3] at h
      cases h
  · simp only [hav, Bool.false_eq_true, if_false] at h
    have hsrc : RegT src = true := by
      rcases hs with hs | hs
      · exact hs
      · cases src <;> simp [isParam] at hs
        simp [isAV] at hav
    exact Total.bind (indexIntegralCheck_total idx)
      (fun _ hok => indexRangeCheck_total hsrc (indexIntegralCheck_ok (by cases ‹Unit›; exact hok))) e h


theorem qubitCheck_ok_numOrAV {src idx : Val} (h : qubitCheck src idx = .ok ()) : idx.isNum = true ∨ isAV idx = true := by
  unfold qubitCheck at h
  by_cases h0 : (idx == Val.none || src == Val.none) = true
  · simp [h0, throw_eq, bind, Except.bind] at h
  simp only [h0, Bool.false_eq_true, if_false, pure_bind] at h
  by_cases hav : (isAV idx || isAV src) = true
  · simp only [hav, if_true] at h
    by_cases c1 : (!(idx.isNum || isAV idx) || isFractional idx) = true
    · rw [if_pos c1] at h; simp [throw_eq, bind, Except.bind] at h
    · cases hn : idx.isNum <;> cases ha : isAV idx <;> simp [hn, ha] at c1 ⊢
  · simp only [hav, Bool.false_eq_true, if_false] at h
    obtain ⟨u, hu, _⟩ := bind_ok h
    exact Or.inl (indexIntegralCheck_ok (by cases u; exact hu))

/-- an accepted index that is an int literal or a context value of a header context is an int or an integer constant -/
theorem qubitCheck_ok_intC {src idx : Val} (h : qubitCheck src idx = .ok ())
    (hi : (∃ i, idx = .int i) ∨ (ValT idx = true ∧ isParam idx = false)) : isIntC idx = true := by
  rcases hi with ⟨i, rfl⟩ | ⟨hv, hp⟩
  · rfl
  · unfold qubitCheck at h
    by_cases h0 : (idx == Val.none || src == Val.none) = true
    · simp [h0, throw_eq, bind, Except.bind] at h
    simp only [h0, Bool.false_eq_true, if_false, pure_bind] at h
    by_cases hav : (isAV idx || isAV src) = true
    · simp only [hav, if_true] at h
      by_cases c1 : (!(idx.isNum || isAV idx) || isFractional idx) = true
      · rw [if_pos c1] at h; simp [throw_eq, bind, Except.bind] at h
      rw [if_neg c1] at h
      by_cases c2 : (isAV idx && !kindIntOrNone (avKind idx)) = true
      · simp [c2, throw_eq, bind, Except.bind] at h
      · -- a constant of integer kind
        cases idx with
        | const n x =>
          cases x <;> simp [ValT, RegT] at hv
          · rfl
          · simp [isAV, avKind, GateDef.constKind, kindIntOrNone] at c2
        | param n k => simp [isParam] at hp
        | int i => rfl
        | _ => simp [ValT, RegT, Val.isNum, isAV, isFractional] at hv c1
    · simp only [hav, Bool.false_eq_true, if_false] at h
      obtain ⟨u, hu, _⟩ := bind_ok h
      have := indexIntegralCheck_ok (by cases u; exact hu)
      cases idx <;> simp [Val.isNum] at this <;> simp [ValT, RegT, isIntC] at hv ⊢

theorem pyRangeArg_int (i : Int) : pyRangeArg (.int i) = .ok i := rfl

theorem sliceKnownCheck_total {src : Val} {a b s : Int} (hsrc : RegT src = true) (hs0 : s ≠ 0) :
    Total (sliceKnownCheck src (.int a) (.int b) (.int s)) := by
  intro e h
  unfold sliceKnownCheck at h
  simp only [pyLt_int, bind, Except.bind, pure, Except.pure] at h
  by_cases ha : a < 0
  · simp [ha, throw_eq] at h; rw [← h]; exact Good.jaqal _
  simp only [ha, decide_false, Bool.false_eq_true, if_false] at h
  rcases regSize_RegT hsrc with ⟨sz, hsz, hi⟩ | ⟨r, hr⟩
  · rw [hsz] at h
    simp only [] at h
    cases sz with
    | int k =>
      have hk : ((Val.int k == Val.none) || isAV (.int k)) = false := rfl
      simp only [hk, Bool.false_eq_true, if_false, pyLt_int, pyLe_int, startOr0_int, Resolve.stepOr1, pyRangeArg_int,
        rangeLen_eq hs0] at h
      split at h
      · cases h; exact Good.jaqal _
      · split at h
        · split at h
          · cases h; exact Good.jaqal _
          · cases h
        · cases h
    | const n x =>
      have hk : ((Val.const n x == Val.none) || isAV (.const n x)) = true := by simp [isAV]
      simp only [hk, if_true] at h
      cases h
    | _ => simp [isIntC] at hi
  · rw [hr] at h
    cases h
    exact Good.jaqal _

theorem sliceCheck_total {src start stop step : Val} (hs : RegT src = true ∨ isParam src = true) :
    Total (sliceCheck src start stop step) := by
  intro e h
  unfold sliceCheck at h
  by_cases c0 : (!((isIntLit start || isAV start) && (isIntLit stop || isAV stop) && (isIntLit step || isAV step))) = true
  · simp [c0, throw_eq, bind, Except.bind] at h; rw [← h]; exact Good.jaqal _
  simp only [c0, Bool.false_eq_true, if_false, pure_bind] at h
  by_cases cz : (isIntLit step && pyEq0 step) = true
  · simp [cz, throw_eq, bind, Except.bind] at h; rw [← h]; exact Good.jaqal _
  simp only [cz, Bool.false_eq_true, if_false, pure_bind] at h
  by_cases hav : (isAV start || isAV stop || isAV step || isAV src) = true
  · simp only [hav, if_true] at h
    by_cases c1 : (isAV start && !kindIntOrNone (avKind start)) = true
    · simp [c1, throw_eq, bind, Except.bind] at h; rw [← h]; exact Good.jaqal _
    simp only [c1, Bool.false_eq_true, if_false, pure_bind] at h
    by_cases c2 : (isAV stop && !kindIntOrNone (avKind stop)) = true
    · simp [c2, throw_eq, bind, Except.bind] at h; rw [← h]; exact Good.jaqal _
    simp only [c2, Bool.false_eq_true, if_false, pure_bind] at h
    by_cases c3 : (isAV step && !kindIntOrNone (avKind step)) = true
    · simp [c3, throw_eq, bind, Except.bind] at h; rw [← h]; exact Good.jaqal _
    simp only [c3, Bool.false_eq_true, if_false, pure_bind] at h
    by_cases c4 : (isAV src && !kindRegOrNone (avKind src)) = true
    · simp [c4, throw_eq] at h; rw [← h]; exact Good.jaqal _
    · simp [c4] at h
      cases h
  · simp only [hav, Bool.false_eq_true, if_false] at h
    simp only [Bool.or_eq_true, not_or, Bool.not_eq_true] at hav
    obtain ⟨⟨⟨h1, h2⟩, h3⟩, h4⟩ := hav
    have hsrc : RegT src = true := by
      rcases hs with hs | hs
      · exact hs
      · cases src <;> simp [isParam] at hs
        simp [isAV] at h4
    simp only [h1, h2, h3, Bool.or_false, Bool.not_eq_true', Bool.and_eq_false_iff, not_or, Bool.not_eq_false] at c0
    cases start <;> simp [isIntLit] at c0
    cases stop <;> simp [isIntLit] at c0
    cases step <;> simp [isIntLit] at c0
    rename_i a b sv
    have hs0 : sv ≠ 0 := by
      intro hz; subst hz; simp [isIntLit, pyEq0, Val.toNum?, Num.veq] at cz
    exact sliceKnownCheck_total hsrc hs0 e h

/-- the bounds of an accepted slice in a header context are ints or integer constants -/
theorem sliceCheck_ok_intC {src start stop step : Val} (h : sliceCheck src start stop step = .ok ())
    (hp : isParam start = false ∧ isParam stop = false ∧ isParam step = false)
    (hv : ∀ v, (v = start ∨ v = stop ∨ v = step) → isAV v = true → ValT v = true) :
    isIntC start = true ∧ isIntC stop = true ∧ isIntC step = true := by
  unfold sliceCheck at h
  by_cases c0 : (!((isIntLit start || isAV start) && (isIntLit stop || isAV stop) && (isIntLit step || isAV step))) = true
  · simp [c0, throw_eq, bind, Except.bind] at h
  simp only [c0, Bool.false_eq_true, if_false, pure_bind] at h
  have hb : ∀ v, (v = start ∨ v = stop ∨ v = step) → (isIntLit v || isAV v) = true := by
    simp only [Bool.not_eq_true', Bool.and_eq_false_iff, not_or, Bool.not_eq_false] at c0
    intro v hvv
    rcases hvv with rfl | rfl | rfl
    · exact c0.1.1
    · exact c0.1.2
    · exact c0.2
  by_cases cz : (isIntLit step && pyEq0 step) = true
  · simp [cz, throw_eq, bind, Except.bind] at h
  simp only [cz, Bool.false_eq_true, if_false, pure_bind] at h
  have key : ∀ v, (v = start ∨ v = stop ∨ v = step) → isParam v = false →
      (isAV v = true → kindIntOrNone (avKind v) = true) → isIntC v = true := by
    intro v hvv hpv hk
    have h1 := hb v hvv
    cases v with
    | int i => rfl
    | const n x =>
      have := hv _ hvv (by simp [isAV])
      cases x <;> simp [ValT, RegT] at this
      · rfl
      · have := hk (by simp [isAV])
        simp [avKind, GateDef.constKind, kindIntOrNone] at this
    | param n k => simp [isParam] at hpv
    | _ => simp [isIntLit, isAV] at h1
  by_cases hav : (isAV start || isAV stop || isAV step || isAV src) = true
  · simp only [hav, if_true] at h
    by_cases c1 : (isAV start && !kindIntOrNone (avKind start)) = true
    · simp [c1, throw_eq, bind, Except.bind] at h
    simp only [c1, Bool.false_eq_true, if_false, pure_bind] at h
    by_cases c2 : (isAV stop && !kindIntOrNone (avKind stop)) = true
    · simp [c2, throw_eq, bind, Except.bind] at h
    simp only [c2, Bool.false_eq_true, if_false, pure_bind] at h
    by_cases c3 : (isAV step && !kindIntOrNone (avKind step)) = true
    · simp [c3, throw_eq, bind, Except.bind] at h
    refine ⟨key start (Or.inl rfl) hp.1 ?_, key stop (Or.inr (Or.inl rfl)) hp.2.1 ?_,
      key step (Or.inr (Or.inr rfl)) hp.2.2 ?_⟩
    · intro ha; cases hk : kindIntOrNone (avKind start) <;> simp [ha, hk] at c1 ⊢
    · intro ha; cases hk : kindIntOrNone (avKind stop) <;> simp [ha, hk] at c2 ⊢
    · intro ha; cases hk : kindIntOrNone (avKind step) <;> simp [ha, hk] at c3 ⊢
  · simp only [Bool.or_eq_true, not_or, Bool.not_eq_true] at hav
    obtain ⟨⟨⟨h1, h2⟩, h3⟩, _⟩ := hav
    refine ⟨key start (Or.inl rfl) hp.1 ?_, key stop (Or.inr (Or.inl rfl)) hp.2.1 ?_,
      key step (Or.inr (Or.inr rfl)) hp.2.2 ?_⟩
    · intro ha; rw [h1] at ha; cases ha
    · intro ha; rw [h2] at ha; cases ha
    · intro ha; rw [h3] at ha; cases ha


/-! ## The shapes `parse_to_sexpression` returns -/

def isStr : BSx → Bool
  | .str _ => true
  | _ => false

/-- `let_or_int`: an integer literal or an identifier -/
def isIntOrId : BSx → Bool
  | .int _ => true
  | .str _ => true
  | _ => false

/-- a slice bound: `let_or_int` or `None` -/
def isBound : BSx → Bool
  | .none => true
  | e => isIntOrId e

/-- `gate_arg`: identifier, number, or `("array_item", name, let_or_int)` -/
def isGateArg : BSx → Bool
  | .str _ => true
  | .int _ => true
  | .flt _ => true
  | .list [.str "array_item", .str _, idx] => isIntOrId idx
  | _ => false

/-- an int literal, or a value of the context -/
def IdxOK (ctx : Ctx) (v : Val) : Prop := (∃ i, v = .int i) ∨ (∃ n, ctx.get n = some v)

theorem buildVal_intOrId {ctx : Ctx} {f : Nat} {e : BSx} (he : isIntOrId e = true) :
    Total (buildVal ctx f e) ∧ ∀ v, buildVal ctx f e = .ok v → IdxOK ctx v := by
  cases e with
  | int i =>
    have : buildVal ctx f (.int i) = .ok (.int i) := by cases f <;> rfl
    rw [this]
    exact ⟨Total.ok _, fun v hv => by cases hv; exact Or.inl ⟨i, rfl⟩⟩
  | str s =>
    have : buildVal ctx f (.str s) = lookupId ctx s := by cases f <;> rfl
    rw [this]
    unfold lookupId
    cases hg : ctx.get s with
    | none => exact ⟨Total.throw _, fun v hv => by cases hv⟩
    | some w => exact ⟨Total.pure _, fun v hv => by cases hv; exact Or.inr ⟨s, hg⟩⟩
  | _ => simp [isIntOrId] at he

theorem asIntegerV_idx {ctx : Ctx} (hc : CtxT ctx) {v : Val} (h : IdxOK ctx v) : asIntegerV v = v := by
  rcases h with ⟨i, rfl⟩ | ⟨n, hn⟩
  · rfl
  · have := hc n v hn
    cases v <;> simp [ValT, RegT] at this <;> rfl

theorem itemName_some {an : String} {idx : Val} (h : idx.isNum = true ∨ isAV idx = true) (hf : ∀ d, idx ≠ .flt d) :
    ∃ s, itemName an idx = some s := by
  cases idx <;> simp [Val.isNum, isAV] at h
  · exact ⟨_, rfl⟩
  · exact absurd rfl (hf _)
  · exact ⟨_, rfl⟩
  · exact ⟨_, rfl⟩

theorem getItem_total {ctx : Ctx} (hc : CtxT ctx) {arr idx : Val} (ha : ValT arr = true)
    (hr : isRegister arr = true ∨ isParam arr = true) (hi : IdxOK ctx idx) : Total (getItem arr idx) := by
  have hsrc : RegT arr = true ∨ isParam arr = true := by
    rcases hr with hr | hr
    · exact Or.inl (ValT_reg ha hr)
    · exact Or.inr hr
  have hnf : ∀ d, idx ≠ .flt d := by
    intro d hd
    rcases hi with ⟨i, hi⟩ | ⟨n, hn⟩
    · rw [hd] at hi; cases hi
    · have := hc n idx hn
      rw [hd] at this; simp [ValT, RegT] at this
  intro e h
  unfold getItem at h
  cases hn : arr.name? with
  | none =>
    rcases hr with hr | hr <;> cases arr <;> simp [isRegister, isParam] at hr <;> simp [Val.name?] at hn
  | some an =>
    simp only [hn] at h
    cases hit : itemName an idx with
    | some s =>
      simp only [hit] at h
      unfold mkQubit at h
      exact Total.bind (qubitCheck_total hsrc) (fun _ _ => Total.pure _) e h
    | none =>
      simp only [hit] at h
      cases hq : mkQubit an arr idx with
      | error e' =>
        rw [hq] at h
        cases h
        unfold mkQubit at hq
        exact Total.bind (qubitCheck_total hsrc) (fun _ _ => Total.pure _) _ hq
      | ok q =>
        unfold mkQubit at hq
        obtain ⟨u, hu, _⟩ := bind_ok hq
        obtain ⟨s, hs⟩ := itemName_some (an := an) (qubitCheck_ok_numOrAV (by cases u; exact hu)) hnf
        rw [hs] at hit; cases hit


theorem cmd_ne {a b : String} (h : (a == b) = false) : ¬ a = b := by
  intro hh; subst hh; simp at h

/-- `("array_item", name, let_or_int)` -/
theorem valStep_arrayItem_total {ctx : Ctx} (hc : CtxT ctx) {f : Nat} {a : String} {idx : BSx}
    (hi : isIntOrId idx = true) :
    Total (valStep ctx.get (buildVal ctx f) [.str "array_item", .str a, idx]) := by
  intro e h
  simp only [valStep, show ("array_item" = "register") = False from by decide,
    show ("array_item" = "let") = False from by decide, if_false, if_true] at h
  have ha : buildVal ctx f (.str a) = lookupId ctx a := by cases f <;> rfl
  rw [ha] at h
  unfold lookupId at h
  cases hg : ctx.get a with
  | none => simp [hg, throw_eq, bind, Except.bind] at h; rw [← h]; exact Good.jaqal _
  | some arr =>
    simp only [hg, pure_bind] at h
    obtain ⟨hti, hoki⟩ := buildVal_intOrId (ctx := ctx) (f := f) hi
    cases hb : buildVal ctx f idx with
    | error e' =>
      rw [hb] at h
      cases h
      exact hti _ hb
    | ok iv =>
      rw [hb] at h
      simp only [bind, Except.bind] at h
      have hidx := hoki iv hb
      rw [asIntegerV_idx hc hidx] at h
      by_cases hr : (!(isRegister arr || isParam arr)) = true
      · simp [hr, throw_eq] at h; rw [← h]; exact Good.jaqal _
      · simp only [hr, Bool.false_eq_true, if_false, pure, Except.pure] at h
        have hr' : isRegister arr = true ∨ isParam arr = true := by
          cases h1 : isRegister arr <;> cases h2 : isParam arr <;> simp [h1, h2] at hr ⊢
        exact getItem_total hc (hc a arr hg) hr' hidx e h

theorem buildVal_gateArg_total {ctx : Ctx} (hc : CtxT ctx) {f : Nat} {a : BSx} (ha : isGateArg a = true)
    (hd : a.depth ≤ f) : Total (buildVal ctx f a) := by
  cases a with
  | str s =>
    have : buildVal ctx f (.str s) = lookupId ctx s := by cases f <;> rfl
    rw [this]; unfold lookupId
    cases ctx.get s with
    | none => exact Total.throw _
    | some w => exact Total.pure _
  | int i => have : buildVal ctx f (.int i) = .ok (.int i) := by cases f <;> rfl
             rw [this]; exact Total.ok _
  | flt d => have : buildVal ctx f (.flt d) = .ok (.flt d) := by cases f <;> rfl
             rw [this]; exact Total.ok _
  | list l =>
    cases f with
    | zero => simp [BSx.depth] at hd
    | succ f =>
      show Total (valStep ctx.get (buildVal ctx f) l)
      unfold isGateArg at ha
      split at ha
      · rename_i heq; cases heq
      · rename_i heq; cases heq
      · rename_i heq; cases heq
      · rename_i a idx heq
        cases heq
        exact valStep_arrayItem_total hc ha
      · cases ha
  | none => simp [isGateArg] at ha
  | val v => simp [isGateArg] at ha


/-! ### Header statements -/

theorem TopT.ctxT {ctx : Ctx} (h : TopT ctx) : CtxT ctx := fun n v hv => (h n v hv).1

/-- a value that is an int literal or comes from a header context -/
def TopVal (ctx : Ctx) (v : Val) : Prop := (∃ i, v = .int i) ∨ (ValT v = true ∧ isParam v = false)

theorem IdxOK.top {ctx : Ctx} (ht : TopT ctx) {v : Val} (h : IdxOK ctx v) : TopVal ctx v := by
  rcases h with h | ⟨n, hn⟩
  · exact Or.inl h
  · exact Or.inr (ht n v hn)

theorem mkRegister_total (n : String) (sz : Val) : Total (mkRegister n sz) := by
  intro e h
  unfold mkRegister at h
  split at h
  · cases h; exact Good.jaqal _
  · split at h
    · cases h; exact Good.jaqal _
    · cases h
  · split at h
    · cases h; exact Good.jaqal _
    · cases h
  · split at h
    · cases h; exact Good.jaqal _
    · split at h
      · cases h; exact Good.jaqal _
      · cases h

theorem mkRegister_ok_typed {ctx : Ctx} {n : String} {sz v : Val} (h : mkRegister n sz = .ok v) (hs : TopVal ctx sz) :
    ValT v = true ∧ isParam v = false := by
  rcases hs with ⟨i, rfl⟩ | ⟨hv, hp⟩
  · unfold mkRegister at h
    simp only [] at h
    split at h
    · cases h
    · cases h; exact ⟨rfl, rfl⟩
  · cases sz with
    | const m x =>
      cases x <;> simp [ValT, RegT] at hv
      · simp only [mkRegister, isAV, avKind, GateDef.constKind, pure, Except.pure] at h
        simp at h
        subst h; exact ⟨rfl, rfl⟩
      · simp [mkRegister, isAV, avKind, GateDef.constKind, throw_eq] at h
    | param m k => simp [isParam] at hp
    | int i => simp [mkRegister, pure, Except.pure, throw_eq] at h; split at h <;> simp at h; subst h; exact ⟨rfl, rfl⟩
    | flt d => simp [ValT, RegT] at hv
    | none => simp [ValT, RegT] at hv
    | str s => simp [ValT, RegT] at hv
    | qubit a b c => simp [mkRegister, isAV, throw_eq] at h
    | regF a b => simp [mkRegister, isAV, throw_eq] at h
    | regA a b => simp [mkRegister, isAV, throw_eq] at h
    | regS a b c d e => simp [mkRegister, isAV, throw_eq] at h

theorem mapSource_top {ctx : Ctx} (ht : TopT ctx) (s : String) :
    Total (mapSource ctx.get (.str s)) ∧ ∀ v, mapSource ctx.get (.str s) = .ok v → RegT v = true := by
  simp only [mapSource]
  cases hg : ctx.get s with
  | none => exact ⟨Total.throw _, fun v hv => by cases hv⟩
  | some w =>
    simp only []
    by_cases hw : (isRegister w || isParam w) = true
    · simp only [hw, if_true]
      refine ⟨Total.pure _, ?_⟩
      intro v hv
      cases hv
      obtain ⟨h1, h2⟩ := ht s w hg
      simp only [h2, Bool.or_false] at hw
      exact ValT_reg h1 hw
    · simp only [hw]
      exact ⟨Total.throw _, fun v hv => by cases hv⟩


/-- a header statement either fails with a good error or yields a well-typed, non-parameter value -/
def HPost (r : M Val) : Prop := Total r ∧ ∀ v, r = .ok v → ValT v = true ∧ isParam v = false

theorem HPost.err (r : String) : HPost (Except.error (.jaqal r)) := ⟨Total.err r, fun v hv => by cases hv⟩

theorem valStep_register {ctx : Ctx} (ht : TopT ctx) {f : Nat} {n : String} {size : BSx} (hs : isIntOrId size = true) :
    HPost (valStep ctx.get (buildVal ctx f) [.str "register", .str n, size]) := by
  simp only [valStep, if_true, strOf, pure_bind]
  obtain ⟨hti, hoki⟩ := buildVal_intOrId (ctx := ctx) (f := f) hs
  cases hb : buildVal ctx f size with
  | error e => exact ⟨fun e' h => by cases h; exact hti _ hb, fun v hv => by cases hv⟩
  | ok sz =>
    simp only [bind, Except.bind]
    rw [asIntegerV_idx ht.ctxT (hoki sz hb)]
    exact ⟨mkRegister_total n sz, fun v hv => mkRegister_ok_typed hv ((hoki sz hb).top ht)⟩

theorem valStep_let {ctx : Ctx} {f : Nat} {n : String} {value : BSx}
    (hv : (∃ i, value = .int i) ∨ ∃ d, value = .flt d) :
    HPost (valStep ctx.get (buildVal ctx f) [.str "let", .str n, value]) := by
  simp only [valStep, show ("let" = "register") = False from by decide, if_false, if_true, strOf, pure_bind]
  rcases hv with ⟨i, rfl⟩ | ⟨d, rfl⟩
  · exact ⟨Total.pure _, fun v hv => by cases hv; exact ⟨rfl, rfl⟩⟩
  · refine ⟨Total.pure _, fun v hv => ?_⟩
    simp only [mkConstant, pure, Except.pure, Except.ok.injEq] at hv
    subst hv
    simp only [asIntegerV, Num.asInteger]
    split <;> exact ⟨rfl, rfl⟩

theorem map_reduce {get : String → Option Val} {rec : BSx → M Val} (name srcE : BSx) (rest : List BSx) :
    valStep get rec (.str "map" :: name :: srcE :: rest) =
      (mapSource get srcE >>= fun src =>
        match rest with
        | [] => do
          let n ← strOf name
          pure (.regA n src)
        | [idxE] => do
          let n ← strOf name
          let idx ← rec idxE
          mkQubit n src (asIntegerV idx)
        | [startE, stopE, stepE] => do
          let n ← strOf name
          let start0 ← rec startE
          let start := if asIntegerV start0 == .none then .int 0 else asIntegerV start0
          let stop0 ← rec stopE
          let stop ← defaultStop src (asIntegerV stop0)
          let step0 ← rec stepE
          let step := if asIntegerV step0 == .none then .int 1 else asIntegerV step0
          mkSlice n src start stop step
        | _ => throw (.jaqal "map-wrong-number-of-arguments")) := by
  simp only [valStep, show ("map" = "register") = False from by decide, show ("map" = "let") = False from by decide,
    show ("map" = "array_item") = False from by decide, if_false, if_true]
  rfl

theorem valStep_map1 {ctx : Ctx} (ht : TopT ctx) {f : Nat} {n s : String} :
    HPost (valStep ctx.get (buildVal ctx f) [.str "map", .str n, .str s]) := by
  rw [map_reduce]
  obtain ⟨hts, hoks⟩ := mapSource_top ht s
  cases hm : mapSource ctx.get (.str s) with
  | error e => exact ⟨fun e' h => by cases h; exact hts _ hm, fun v hv => by cases hv⟩
  | ok src =>
    simp only [bind, Except.bind, strOf, pure, Except.pure]
    refine ⟨Total.ok _, fun v hv => ?_⟩
    cases hv
    exact ⟨by simpa [ValT, RegT] using hoks src hm, rfl⟩

theorem valStep_map2 {ctx : Ctx} (ht : TopT ctx) {f : Nat} {n s : String} {idxE : BSx} (hi : isIntOrId idxE = true) :
    HPost (valStep ctx.get (buildVal ctx f) [.str "map", .str n, .str s, idxE]) := by
  rw [map_reduce]
  obtain ⟨hts, hoks⟩ := mapSource_top ht s
  cases hm : mapSource ctx.get (.str s) with
  | error e => exact ⟨fun e' h => by cases h; exact hts _ hm, fun v hv => by cases hv⟩
  | ok src =>
    have hsrc := hoks src hm
    simp only [bind, Except.bind, strOf, pure, Except.pure]
    obtain ⟨hti, hoki⟩ := buildVal_intOrId (ctx := ctx) (f := f) hi
    cases hb : buildVal ctx f idxE with
    | error e => exact ⟨fun e' h => by cases h; exact hti _ hb, fun v hv => by cases hv⟩
    | ok idx =>
      simp only []
      rw [asIntegerV_idx ht.ctxT (hoki idx hb)]
      have hidx := (hoki idx hb).top ht
      refine ⟨?_, ?_⟩
      · unfold mkQubit
        exact Total.bind (qubitCheck_total (Or.inl hsrc)) (fun _ _ => Total.pure _)
      · intro v hv
        unfold mkQubit at hv
        obtain ⟨u, hu, hv2⟩ := bind_ok hv
        cases hv2
        have := qubitCheck_ok_intC (by cases u; exact hu) hidx
        exact ⟨by simp [ValT, hsrc, this], rfl⟩


theorem buildVal_bound {ctx : Ctx} {f : Nat} {e : BSx} (he : isBound e = true) :
    Total (buildVal ctx f e) ∧ ∀ v, buildVal ctx f e = .ok v → v = .none ∨ IdxOK ctx v := by
  cases e with
  | none =>
    have : buildVal ctx f .none = .ok .none := by cases f <;> rfl
    rw [this]
    exact ⟨Total.ok _, fun v hv => by cases hv; exact Or.inl rfl⟩
  | int i =>
    obtain ⟨h1, h2⟩ := buildVal_intOrId (ctx := ctx) (f := f) (e := .int i) rfl
    exact ⟨h1, fun v hv => Or.inr (h2 v hv)⟩
  | str s =>
    obtain ⟨h1, h2⟩ := buildVal_intOrId (ctx := ctx) (f := f) (e := .str s) rfl
    exact ⟨h1, fun v hv => Or.inr (h2 v hv)⟩
  | _ => simp [isBound, isIntOrId] at he

theorem TopVal.not_none {ctx : Ctx} {v : Val} (h : TopVal ctx v) : (v == Val.none) = false := by
  rcases h with ⟨i, rfl⟩ | ⟨hv, _⟩
  · rfl
  · cases v <;> simp [ValT, RegT] at hv <;> rfl

theorem TopVal.isParam {ctx : Ctx} {v : Val} (h : TopVal ctx v) : isParam v = false := by
  rcases h with ⟨i, rfl⟩ | ⟨_, hp⟩
  · rfl
  · exact hp

theorem TopVal.av {ctx : Ctx} {v : Val} (h : TopVal ctx v) : isAV v = true → ValT v = true := by
  rcases h with ⟨i, rfl⟩ | ⟨hv, _⟩
  · intro h; cases h
  · exact fun _ => hv

theorem TopVal.ofIntC {ctx : Ctx} {v : Val} (h : isIntC v = true) : TopVal ctx v := by
  cases v with
  | int i => exact Or.inl ⟨i, rfl⟩
  | const n x =>
    cases x <;> simp [isIntC] at h
    exact Or.inr ⟨rfl, rfl⟩
  | _ => simp [isIntC] at h

theorem valStep_map3 {ctx : Ctx} (ht : TopT ctx) {f : Nat} {n s : String} {a b c : BSx}
    (ha : isBound a = true) (hb : isBound b = true) (hc : isBound c = true) :
    HPost (valStep ctx.get (buildVal ctx f) [.str "map", .str n, .str s, a, b, c]) := by
  rw [map_reduce]
  obtain ⟨hts, hoks⟩ := mapSource_top ht s
  cases hm : mapSource ctx.get (.str s) with
  | error e => exact ⟨fun e' h => by cases h; exact hts _ hm, fun v hv => by cases hv⟩
  | ok src =>
    have hsrc := hoks src hm
    simp only [bind, Except.bind, strOf, pure, Except.pure]
    obtain ⟨hta, hoka⟩ := buildVal_bound (ctx := ctx) (f := f) ha
    obtain ⟨htb, hokb⟩ := buildVal_bound (ctx := ctx) (f := f) hb
    obtain ⟨htc, hokc⟩ := buildVal_bound (ctx := ctx) (f := f) hc
    cases hra : buildVal ctx f a with
    | error e => exact ⟨fun e' h => by cases h; exact hta _ hra, fun v hv => by cases hv⟩
    | ok va =>
      cases hrb : buildVal ctx f b with
      | error e => exact ⟨fun e' h => by cases h; exact htb _ hrb, fun v hv => by cases hv⟩
      | ok vb =>
        simp only []
        have hasI : ∀ w, (w = Val.none ∨ IdxOK ctx w) → asIntegerV w = w := by
          intro w hw
          rcases hw with rfl | hw
          · rfl
          · exact asIntegerV_idx ht.ctxT hw
        rw [hasI va (hoka va hra), hasI vb (hokb vb hrb)]
        -- the start and the stop after defaulting
        have hstart : TopVal ctx (if (va == Val.none) = true then Val.int 0 else va) := by
          rcases hoka va hra with rfl | h
          · exact Or.inl ⟨0, rfl⟩
          · have := (h.top ht).not_none
            simp only [this, Bool.false_eq_true, if_false]; exact h.top ht
        have hstopT : ∀ (stop : Val), defaultStop src vb = .ok stop → TopVal ctx stop := by
          intro stop hst
          unfold defaultStop at hst
          rcases hokb vb hrb with rfl | h
          · simp only [beq_self_eq_true, if_true] at hst
            have hreg := RegT_isRegister hsrc
            rcases regSize_RegT hsrc with ⟨sz, hsz, hi⟩ | ⟨r, hr⟩
            · cases src <;> simp [isRegister] at hreg <;> (simp only [hsz] at hst; cases hst; exact TopVal.ofIntC hi)
            · cases src <;> simp [isRegister] at hreg <;> (simp only [hr] at hst; cases hst)
          · have := (h.top ht).not_none
            simp only [this, Bool.false_eq_true, if_false, pure, Except.pure] at hst
            cases hst; exact h.top ht
        have hstopTot : Total (defaultStop src vb) := by
          unfold defaultStop
          by_cases hvb : (vb == Val.none) = true
          · simp only [hvb, if_true]
            have hreg := RegT_isRegister hsrc
            rcases regSize_RegT hsrc with ⟨sz, hsz, hi⟩ | ⟨r, hr⟩
            · cases src <;> simp [isRegister] at hreg <;> (simp only [hsz]; exact Total.ok _)
            · cases src <;> simp [isRegister] at hreg <;> (simp only [hr]; exact Total.err _)
          · simp only [hvb]; exact Total.pure _
        cases hstop : defaultStop src vb with
        | error e => exact ⟨fun e' h => by cases h; exact hstopTot _ hstop, fun v hv => by cases hv⟩
        | ok stop =>
          simp only []
          cases hrc : buildVal ctx f c with
          | error e => exact ⟨fun e' h => by cases h; exact htc _ hrc, fun v hv => by cases hv⟩
          | ok vc =>
            simp only []
            rw [hasI vc (hokc vc hrc)]
            have hstep : TopVal ctx (if (vc == Val.none) = true then Val.int 1 else vc) := by
              rcases hokc vc hrc with rfl | h
              · exact Or.inl ⟨1, rfl⟩
              · have := (h.top ht).not_none
                simp only [this, Bool.false_eq_true, if_false]; exact h.top ht
            have hstopV := hstopT stop hstop
            refine ⟨?_, ?_⟩
            · unfold mkSlice
              exact Total.bind (sliceCheck_total (Or.inl hsrc)) (fun _ _ => Total.pure _)
            · intro v hv
              unfold mkSlice at hv
              obtain ⟨u, hu, hv2⟩ := bind_ok hv
              cases hv2
              have := sliceCheck_ok_intC (by cases u; exact hu)
                ⟨hstart.isParam, hstopV.isParam, hstep.isParam⟩
                (by
                  intro w hw haw
                  rcases hw with rfl | rfl | rfl
                  · exact hstart.av haw
                  · exact hstopV.av haw
                  · exact hstep.av haw)
              refine ⟨?_, rfl⟩
              show RegT (Val.regS n src _ stop _) = true
              simp only [RegT, hsrc, this.1, this.2.1, this.2.2, Bool.and_self]

/-- a header statement other than `usepulses` -/
def isPHeaderV : BSx → Bool
  | .list [.str "register", .str _, size] => isIntOrId size
  | .list [.str "let", .str _, .int _] => true
  | .list [.str "let", .str _, .flt _] => true
  | .list [.str "map", .str _, .str _] => true
  | .list [.str "map", .str _, .str _, idx] => isIntOrId idx
  | .list [.str "map", .str _, .str _, a, b, c] => isBound a && isBound b && isBound c
  | _ => false

theorem valStep_header {ctx : Ctx} (ht : TopT ctx) {f : Nat} {l : List BSx} (hh : isPHeaderV (.list l) = true) :
    HPost (valStep ctx.get (buildVal ctx f) l) := by
  unfold isPHeaderV at hh
  split at hh
  · rename_i n size heq; cases heq; exact valStep_register ht hh
  · rename_i n i heq; cases heq; exact valStep_let (Or.inl ⟨_, rfl⟩)
  · rename_i n d heq; cases heq; exact valStep_let (Or.inr ⟨_, rfl⟩)
  · rename_i n s heq; cases heq; exact valStep_map1 ht
  · rename_i n s idx heq; cases heq; exact valStep_map2 ht hh
  · rename_i n s a b c heq; cases heq
    simp only [Bool.and_eq_true] at hh
    exact valStep_map3 ht hh.1.1 hh.1.2 hh.2
  · cases hh



/-! ### `AbstractGate.call`: after the count check every parameter is bound (no `KeyError`) -/

theorem odSet_keys (k : String) (v : Val) : ∀ (l : List (String × Val)),
    (odSet k v l).map (·.1) = if k ∈ l.map (·.1) then l.map (·.1) else l.map (·.1) ++ [k] := by
  intro l
  induction l with
  | nil => simp [odSet]
  | cons q qs ih =>
    obtain ⟨k', v'⟩ := q
    simp only [odSet]
    by_cases hk : (k' == k) = true
    · have : k' = k := by simpa using hk
      subst this
      simp [hk]
    · have hne : ¬ k' = k := by simpa using hk
      rw [if_neg hk]
      simp only [List.map_cons, ih, List.mem_cons]
      by_cases hm : k ∈ qs.map (·.1)
      · simp [hm]
      · have hne' : ¬ k = k' := fun h => hne h.symm
        simp [hm, hne']

theorem foldl_odSet_keys : ∀ (zs init : List (String × Val)), (init.map (·.1)).Nodup →
    ((zs.foldl (fun acc p => odSet p.1 p.2 acc) init).map (·.1)).Nodup ∧
    (∀ k, k ∈ (zs.foldl (fun acc p => odSet p.1 p.2 acc) init).map (·.1) → k ∈ init.map (·.1) ∨ k ∈ zs.map (·.1)) := by
  intro zs
  induction zs with
  | nil => intro init h; exact ⟨h, fun k hk => Or.inl hk⟩
  | cons z zs ih =>
    intro init h
    simp only [List.foldl_cons]
    have hnd : ((odSet z.1 z.2 init).map (·.1)).Nodup := by
      rw [odSet_keys]
      by_cases hm : z.1 ∈ init.map (·.1)
      · simp only [hm, if_true]; exact h
      · simp only [hm, if_false]
        rw [List.nodup_append]
        refine ⟨h, by simp, ?_⟩
        intro a ha b hb
        simp only [List.mem_singleton] at hb
        subst hb
        intro hab; subst hab; exact hm ha
    obtain ⟨h1, h2⟩ := ih (odSet z.1 z.2 init) hnd
    refine ⟨h1, ?_⟩
    intro k hk
    rcases h2 k hk with hk | hk
    · rw [odSet_keys] at hk
      by_cases hm : z.1 ∈ init.map (·.1)
      · simp only [hm, if_true] at hk; exact Or.inl hk
      · simp only [hm, if_false, List.mem_append, List.mem_singleton] at hk
        rcases hk with hk | hk
        · exact Or.inl hk
        · exact Or.inr (by simp [hk])
    · exact Or.inr (by simp [hk])

theorem odGet?_isSome_of_mem {n : String} : ∀ {l : List (String × Val)}, n ∈ l.map (·.1) →
    ∃ v, GateDef.odGet? l n = some v := by
  intro l
  induction l with
  | nil => intro h; cases h
  | cons q qs ih =>
    intro h
    obtain ⟨k, v⟩ := q
    simp only [GateDef.odGet?]
    by_cases hk : k = n
    · exact ⟨v, by simp [hk]⟩
    · simp only [hk, if_false]
      simp only [List.map_cons, List.mem_cons] at h
      rcases h with h | h
      · exact absurd h.symm hk
      · exact ih h

/-- pigeonhole: a duplicate-free list of keys drawn from `names` that is as long as `names` contains every name -/
theorem keys_cover {keys names : List String} (hnd : keys.Nodup) (hsub : ∀ k ∈ keys, k ∈ names)
    (hlen : names.length = keys.length) : ∀ n ∈ names, n ∈ keys := by
  intro n hn
  by_contra hnot
  have hsub' : keys ⊆ names.filter (fun x => x != n) := by
    intro k hk
    simp only [List.mem_filter, bne_iff_ne, ne_eq]
    exact ⟨hsub k hk, fun h => hnot (h ▸ hk)⟩
  have h1 : keys.length ≤ (names.filter (fun x => x != n)).length := (hnd.subperm hsub').length_le
  have h2 : (names.filter (fun x => x != n)).length < names.length := by
    rw [List.length_filter_lt_length_iff_exists]
    exact ⟨n, hn, by simp⟩
  omega

theorem validateAll_total : ∀ (ps : List (String × Kind)) (bound : List (String × Val)),
    (∀ p ∈ ps, p.1 ∈ bound.map (·.1)) → Total (GateDef.validateAll ps bound) := by
  intro ps
  induction ps with
  | nil => intro bound _; exact Total.pure _
  | cons q qs ih =>
    intro bound h
    obtain ⟨n, k⟩ := q
    simp only [GateDef.validateAll]
    obtain ⟨v, hv⟩ := odGet?_isSome_of_mem (h (n, k) (by simp))
    simp only [hv]
    refine Total.bind ?_ (fun _ _ => ih bound (fun p hp => h p (by simp [hp])))
    intro e he
    cases k <;> simp only [GateDef.validate] at he <;>
      (repeat' split at he) <;> first | (cases he; exact Or.inl ⟨"type-check", rfl⟩) | cases he

theorem callDef_total (gd : GateDef) (vals : List Val) : Total (callDef gd vals) := by
  intro e h
  unfold callDef at h
  simp only [bind, Except.bind] at h
  split at h
  · cases h; exact Good.jaqal _
  · simp only [pure, Except.pure] at h
    split at h
    · cases h; exact Good.jaqal _
    · rename_i hlen
      simp only [ne_eq, not_not] at hlen
      obtain ⟨hnd, hsub⟩ := foldl_odSet_keys ((gd.params.map (·.1)).zip vals) [] (by simp)
      have hcover := keys_cover hnd
        (names := gd.params.map (·.1))
        (by
          intro k hk
          rcases hsub k hk with hk | hk
          · simp at hk
          · obtain ⟨p, hp, rfl⟩ := List.mem_map.1 hk
            exact (List.of_mem_zip hp).1)
        (by simpa using hlen)
      have hall : ∀ p ∈ gd.params, p.1 ∈ (List.foldl (fun acc p => odSet p.1 p.2 acc) []
          ((List.map (fun x => x.1) gd.params).zip vals)).map (·.1) :=
        fun p hp => hcover p.1 (List.mem_map.2 ⟨p, hp, rfl⟩)
      cases hva : GateDef.validateAll gd.params
          (List.foldl (fun acc p => odSet p.1 p.2 acc) [] ((List.map (fun x => x.1) gd.params).zip vals)) with
      | error e' =>
        rw [hva] at h
        cases h
        exact validateAll_total _ _ hall _ hva
      | ok u => rw [hva] at h; cases h



/-! ### Statements -/

/-- a statement expression either fails with a good error or is built to a statement -/
def SPost (r : M (Obj × St)) : Prop := Total r ∧ ∀ o s1, r = .ok (o, s1) → ∃ s, o = .stmt s

theorem mapM_total {α β : Type} {f : α → M β} : ∀ {l : List α}, (∀ x ∈ l, Total (f x)) → Total (l.mapM f) := by
  intro l
  induction l with
  | nil => intro _; exact Total.pure _
  | cons x xs ih =>
    intro h
    simp only [List.mapM_cons]
    exact Total.bind (h x (by simp)) (fun _ _ =>
      Total.bind (ih (fun y hy => h y (by simp [hy]))) (fun _ _ => Total.pure _))

theorem mapMSt_total {fA : BSx → St → M (Obj × St)} : ∀ (l : List BSx) (st : St),
    (∀ x ∈ l, ∀ s, Total (fA x s)) → Total (mapMSt fA l st) := by
  intro l
  induction l with
  | nil => intro st _; exact Total.pure _
  | cons x xs ih =>
    intro st h
    simp only [mapMSt]
    refine Total.bind (h x (by simp) st) (fun p _ => ?_)
    exact Total.bind (ih p.2 (fun y hy => h y (by simp [hy]))) (fun _ _ => Total.pure _)

theorem mapMSt_stmts {fA : BSx → St → M (Obj × St)} : ∀ (l : List BSx) (st s1 : St) (os : List Obj),
    (∀ x ∈ l, ∀ s, SPost (fA x s)) → mapMSt fA l st = .ok (os, s1) → ∀ o ∈ os, ∃ s, o = Obj.stmt s := by
  intro l
  induction l with
  | nil =>
    intro st s1 os _ h
    simp only [mapMSt, pure, Except.pure] at h
    cases h
    intro o ho; cases ho
  | cons x xs ih =>
    intro st s1 os hf h
    simp only [mapMSt] at h
    obtain ⟨p, hp, h1⟩ := bind_ok h
    obtain ⟨o, s2⟩ := p
    obtain ⟨q, hq, h2⟩ := bind_ok h1
    obtain ⟨os', s3⟩ := q
    cases h2
    intro o' ho'
    rcases List.mem_cons.1 ho' with rfl | ho'
    · exact (hf x (by simp) st).2 _ _ hp
    · exact ih s2 _ os' (fun y hy => hf y (by simp [hy])) hq o' ho'

theorem asStmts_of_stmts : ∀ {os : List Obj}, (∀ o ∈ os, ∃ s, o = Obj.stmt s) → ∃ ss, asStmts os = .ok ss := by
  intro os
  induction os with
  | nil => intro _; exact ⟨[], rfl⟩
  | cons o os ih =>
    intro h
    obtain ⟨s, rfl⟩ := h o (by simp)
    obtain ⟨ss, hss⟩ := ih (fun o' ho' => h o' (by simp [ho']))
    exact ⟨s :: ss, by simp [asStmts, hss, bind, Except.bind, pure, Except.pure]⟩

/-- a block: the members are built, then they must all be statements -/
theorem block_spost {fA : BSx → St → M (Obj × St)} {l : List BSx} {st : St} {par sub : Bool} {it : Val}
    (h : ∀ x ∈ l, ∀ s, SPost (fA x s)) :
    SPost (mapMSt fA l st >>= fun p => do
      let ss ← asStmts p.1
      pure (Obj.stmt (Stmt.block par sub it ss), p.2)) := by
  refine ⟨?_, ?_⟩
  · refine Total.bind (mapMSt_total l st (fun x hx s => (h x hx s).1)) (fun p hp => ?_)
    obtain ⟨os, s1⟩ := p
    obtain ⟨ss, hss⟩ := asStmts_of_stmts (mapMSt_stmts l st s1 os h hp)
    simp only [hss]
    exact Total.pure _
  · intro o s1 hr
    obtain ⟨p, _, h2⟩ := bind_ok hr
    obtain ⟨ss, _, h3⟩ := bind_ok h2
    simp only [pure, Except.pure, Except.ok.injEq, Prod.mk.injEq] at h3
    exact ⟨_, h3.1.symm⟩

theorem validateCount_total (v : Val) : Total (validateCount v) := by
  intro e h
  unfold validateCount at h
  split at h
  · cases h
  · split at h
    · cases h
    · cases h; exact Good.jaqal _

theorem buildGate_spost {cfg : Config} {mode : KeyMode} {ctx : Ctx} (hc : CtxT ctx) {f : Nat} {name : String}
    {gargs : List BSx} (hg : ∀ a ∈ gargs, isGateArg a = true) (hd : BSx.depthList gargs ≤ f) (st : St) :
    Total (buildGate cfg mode ctx (buildVal ctx f) (.str name :: gargs) st) := by
  simp only [buildGate]
  refine Total.bind ?_ (fun _ _ => ?_)
  · unfold nestingCheck
    split
    · exact Total.throw _
    · exact Total.pure _
  unfold buildGateMemo
  simp only []
  cases (if mode = KeyMode.off then Option.none else Memo.find mode.numByValue st.memo (mkKey mode ctx name gargs)) with
  | some g => exact Total.pure _
  | none =>
    simp only []
    refine Total.bind ?_ (fun _ _ => Total.pure _)
    unfold buildGateFresh
    refine Total.bind ?_ (fun q _ => ?_)
    · intro e h
      unfold getGateDef at h
      split at h
      · cases h
      · split at h
        · cases h
        · cases h; exact Good.jaqal _
    · refine Total.bind (mapM_total (fun a ha => buildVal_gateArg_total hc (hg a ha)
        (Nat.le_trans (depth_le_of_mem ha) hd))) (fun vals _ => ?_)
      exact Total.bind (callDef_total _ _) (fun _ _ => Total.pure _)


mutual
/-- a statement inside a block: gate, loop, sequential / parallel / subcircuit block, branch -/
def isPStmt : BSx → Bool
  | .list (.str cmd :: args) =>
    if cmd = "gate" then
      match args with
      | .str _ :: gargs => gargs.all isGateArg
      | _ => false
    else if cmd = "loop" then
      match args with
      | [count, block] => isIntOrId count && isPStmt block
      | _ => false
    else if cmd = "sequential_block" ∨ cmd = "parallel_block" then isPStmts args
    else if cmd = "subcircuit_block" then
      match args with
      | count :: stmts => (isIntOrId count) && isPStmts stmts
      | [] => false
    else if cmd = "branch" then isPCases args
    else false
  | _ => false
def isPStmts : List BSx → Bool
  | [] => true
  | s :: ss => isPStmt s && isPStmts ss
/-- `["case", int, block]` -/
def isPCases : List BSx → Bool
  | [] => true
  | .list [.str "case", .int _, block] :: cs => isPStmt block && isPCases cs
  | _ :: _ => false
end

def isPCaseE (e : BSx) : Prop := ∃ i block, e = .list [.str "case", .int i, block] ∧ isPStmt block = true

theorem isPStmts_mem : ∀ {l : List BSx}, isPStmts l = true → ∀ x ∈ l, isPStmt x = true := by
  intro l
  induction l with
  | nil => intro _ x hx; cases hx
  | cons y ys ih =>
    intro h x hx
    simp only [isPStmts, Bool.and_eq_true] at h
    rcases List.mem_cons.1 hx with rfl | hx
    · exact h.1
    · exact ih h.2 x hx

theorem isPCases_mem : ∀ {l : List BSx}, isPCases l = true → ∀ x ∈ l, isPCaseE x := by
  intro l
  induction l with
  | nil => intro _ x hx; cases hx
  | cons y ys ih =>
    intro h x hx
    unfold isPCases at h
    split at h
    · rename_i heq; cases heq
    · rename_i i block cs heq
      cases heq
      simp only [Bool.and_eq_true] at h
      rcases List.mem_cons.1 hx with rfl | hx
      · exact ⟨i, block, rfl, h.1⟩
      · exact ih h.2 x hx
    · cases h

theorem depthList_cons_le {x : BSx} {xs : List BSx} {f : Nat} (h : BSx.depthList (x :: xs) ≤ f) :
    x.depth ≤ f ∧ BSx.depthList xs ≤ f := by
  simp only [BSx.depthList] at h
  exact ⟨Nat.le_trans (Nat.le_max_left _ _) h, Nat.le_trans (Nat.le_max_right _ _) h⟩

theorem buildAny_total (cfg : Config) (mode : KeyMode) : ∀ (f : Nat) (ctx : Ctx) (e : BSx) (st : St), CtxT ctx →
    e.depth ≤ f →
    (isPStmt e = true → SPost (buildAny cfg mode f ctx e st)) ∧ (isPCaseE e → Total (buildAny cfg mode f ctx e st)) := by
  intro f
  induction f with
  | zero =>
    intro ctx e st hc hd
    refine ⟨fun h => ?_, fun h => ?_⟩
    · cases e with
      | list l => simp [BSx.depth] at hd
      | _ => simp [isPStmt] at h
    · obtain ⟨i, b, rfl, _⟩ := h
      simp [BSx.depth] at hd
  | succ f ih =>
    intro ctx e st hc hd
    have ihS : ∀ c x s, CtxT c → x.depth ≤ f → isPStmt x = true → SPost (buildAny cfg mode f c x s) :=
      fun c x s hcc hdx hx => (ih c x s hcc hdx).1 hx
    refine ⟨fun h => ?_, fun h => ?_⟩
    · -- statements
      cases e with
      | list l =>
        simp only [BSx.depth, Nat.add_le_add_iff_right] at hd
        show SPost (anyStep cfg mode (buildAny cfg mode f) (buildVal ctx f) ctx l st)
        unfold isPStmt at h
        split at h
        · rename_i cmd args heq
          cases heq
          obtain ⟨_, hda⟩ := depthList_cons_le hd
          by_cases h1 : cmd = "gate"
          · subst h1
            simp only [if_true] at h
            split at h
            · rename_i name gargs
              obtain ⟨_, hdg⟩ := depthList_cons_le hda
              have hg : ∀ a ∈ gargs, isGateArg a = true := by simpa [List.all_eq_true] using h
              simp only [anyStep, if_true]
              refine ⟨Total.bind (buildGate_spost hc hg hdg st) (fun _ _ => Total.pure _), ?_⟩
              intro o s1 hr
              obtain ⟨p, _, h2⟩ := bind_ok hr
              simp only [pure, Except.pure, Except.ok.injEq, Prod.mk.injEq] at h2
              exact ⟨_, h2.1.symm⟩
            · cases h
          simp only [h1, if_false] at h
          by_cases h2 : cmd = "loop"
          · subst h2
            simp only [if_true] at h
            split at h
            · rename_i count block
              simp only [Bool.and_eq_true] at h
              obtain ⟨_, hdb'⟩ := depthList_cons_le hda
              obtain ⟨hdb, _⟩ := depthList_cons_le hdb'
              simp only [anyStep, show ("loop" = "gate") = False from by decide,
                show ("loop" = "sequential_block" ∨ "loop" = "block") = False from by decide,
                show ("loop" = "parallel_block") = False from by decide,
                show ("loop" = "unscheduled_block") = False from by decide,
                show ("loop" = "subcircuit_block") = False from by decide, if_false, if_true]
              have hb := ihS ctx block st hc hdb h.2
              refine ⟨?_, ?_⟩
              · refine Total.bind (buildVal_intOrId h.1).1 (fun cnt _ => ?_)
                refine Total.bind hb.1 (fun p hp => ?_)
                obtain ⟨o, s1⟩ := p
                obtain ⟨s, rfl⟩ := hb.2 o s1 hp
                exact Total.bind (validateCount_total _) (fun _ _ => Total.pure _)
              · intro o s1 hr
                obtain ⟨cnt, _, h3⟩ := bind_ok hr
                obtain ⟨p, hp, h4⟩ := bind_ok h3
                obtain ⟨o', s2⟩ := p
                obtain ⟨s, rfl⟩ := hb.2 o' s2 hp
                obtain ⟨_, _, h5⟩ := bind_ok h4
                simp only [pure, Except.pure, Except.ok.injEq, Prod.mk.injEq] at h5
                exact ⟨_, h5.1.symm⟩
            · cases h
          simp only [h2, if_false] at h
          by_cases h3 : cmd = "sequential_block" ∨ cmd = "parallel_block"
          · simp only [h3, if_true] at h
            have hmem : ∀ x ∈ args, ∀ (c : Ctx), CtxT c → ∀ s, SPost (buildAny cfg mode f c x s) :=
              fun x hx c hcc s => ihS c x s hcc (Nat.le_trans (depth_le_of_mem hx) hda) (isPStmts_mem h x hx)
            rcases h3 with h3 | h3
            · subst h3
              simp only [anyStep, show ("sequential_block" = "gate") = False from by decide, if_false,
                if_true, true_or]
              exact block_spost (fun x hx s => hmem x hx { ctx with inSeq := true } (fun n v hv => hc n v hv) s)
            · subst h3
              simp only [anyStep, show ("parallel_block" = "gate") = False from by decide, if_false,
                show ("parallel_block" = "sequential_block" ∨ "parallel_block" = "block") = False from by decide,
                if_true]
              exact block_spost (fun x hx s => hmem x hx { ctx with inPar := true } (fun n v hv => hc n v hv) s)
          simp only [h3, if_false] at h
          by_cases h4 : cmd = "subcircuit_block"
          · subst h4
            simp only [if_true] at h
            split at h
            · rename_i count stmts
              simp only [Bool.and_eq_true] at h
              obtain ⟨_, hds⟩ := depthList_cons_le hda
              have hmem : ∀ x ∈ stmts, ∀ (c : Ctx), CtxT c → ∀ s, SPost (buildAny cfg mode f c x s) :=
                fun x hx c hcc s => ihS c x s hcc (Nat.le_trans (depth_le_of_mem hx) hds) (isPStmts_mem h.2 x hx)
              simp only [anyStep, show ("subcircuit_block" = "gate") = False from by decide, if_false,
                show ("subcircuit_block" = "sequential_block" ∨ "subcircuit_block" = "block") = False from by decide,
                show ("subcircuit_block" = "parallel_block") = False from by decide,
                show ("subcircuit_block" = "unscheduled_block") = False from by decide, if_true, List.tail_cons]
              by_cases hflag : (ctx.inSub || ctx.inPar) = true
              · simp only [hflag, if_true]
                exact ⟨Total.throw _, fun o s1 hr => by cases hr⟩
              · simp only [hflag, Bool.false_eq_true, if_false]
                have hkids : ∀ x ∈ stmts, ∀ s, SPost (buildAny cfg mode f { ctx with inSub := true } x s) :=
                  fun x hx s => hmem x hx { ctx with inSub := true } (fun n v hv => hc n v hv) s
                have hcount : Total (subCount (buildVal ctx f) count) := by
                  unfold subCount
                  split
                  · exact Total.pure _
                  · exact Total.pure _
                  · exact (buildVal_intOrId h.1).1
                refine ⟨?_, ?_⟩
                · refine Total.bind (mapMSt_total stmts st (fun x hx s => (hkids x hx s).1)) (fun p hp => ?_)
                  obtain ⟨os, s1⟩ := p
                  obtain ⟨ss, hss⟩ := asStmts_of_stmts (mapMSt_stmts stmts st s1 os hkids hp)
                  refine Total.bind hcount (fun cnt _ => ?_)
                  refine Total.bind (validateCount_total _) (fun _ _ => ?_)
                  simp only [hss]
                  exact Total.pure _
                · intro o s1 hr
                  obtain ⟨p, _, h5⟩ := bind_ok hr
                  obtain ⟨cnt, _, h6⟩ := bind_ok h5
                  obtain ⟨_, _, h7⟩ := bind_ok h6
                  obtain ⟨ss, _, h8⟩ := bind_ok h7
                  simp only [pure, Except.pure, Except.ok.injEq, Prod.mk.injEq] at h8
                  exact ⟨_, h8.1.symm⟩
            · cases h
          simp only [h4, if_false] at h
          by_cases h5 : cmd = "branch"
          · subst h5
            simp only [if_true] at h
            simp only [anyStep, show ("branch" = "gate") = False from by decide, if_false,
              show ("branch" = "sequential_block" ∨ "branch" = "block") = False from by decide,
              show ("branch" = "parallel_block") = False from by decide,
              show ("branch" = "unscheduled_block") = False from by decide,
              show ("branch" = "subcircuit_block") = False from by decide,
              show ("branch" = "loop") = False from by decide,
              show ("branch" = "case") = False from by decide, if_true]
            refine ⟨?_, ?_⟩
            · refine Total.bind (mapMSt_total args st (fun x hx s => ?_)) (fun _ _ => Total.throw _)
              exact (ih ctx x s hc (Nat.le_trans (depth_le_of_mem hx) hda)).2 (isPCases_mem h x hx)
            · intro o s1 hr
              obtain ⟨p, _, h6⟩ := bind_ok hr
              cases h6
          · simp [h5] at h
        · cases h
      | _ => simp [isPStmt] at h
    · -- a case of a branch
      obtain ⟨i, block, rfl, hb⟩ := h
      simp only [BSx.depth, Nat.add_le_add_iff_right] at hd
      obtain ⟨_, hd1⟩ := depthList_cons_le hd
      obtain ⟨_, hd2⟩ := depthList_cons_le hd1
      obtain ⟨hdb, _⟩ := depthList_cons_le hd2
      show Total (anyStep cfg mode (buildAny cfg mode f) (buildVal ctx f) ctx [.str "case", .int i, block] st)
      simp only [anyStep, show ("case" = "gate") = False from by decide, if_false,
        show ("case" = "sequential_block" ∨ "case" = "block") = False from by decide,
        show ("case" = "parallel_block") = False from by decide,
        show ("case" = "unscheduled_block") = False from by decide,
        show ("case" = "subcircuit_block") = False from by decide,
        show ("case" = "loop") = False from by decide, if_true]
      have hbl := ihS ctx block st hc hdb hb
      refine Total.bind (buildVal_intOrId (e := .int i) rfl).1 (fun _ _ => ?_)
      exact Total.bind hbl.1 (fun _ _ => Total.pure _)



/-! ### Parser-produced expressions contain no embedded objects -/

theorem isIntOrId_noVals {e : BSx} (h : isIntOrId e = true) : e.noVals = true := by
  cases e <;> simp [isIntOrId] at h <;> rfl

theorem isBound_noVals {e : BSx} (h : isBound e = true) : e.noVals = true := by
  cases e <;> simp [isBound, isIntOrId] at h <;> rfl

theorem isGateArg_noVals {e : BSx} (h : isGateArg e = true) : e.noVals = true := by
  unfold isGateArg at h
  split at h
  · rfl
  · rfl
  · rfl
  · simp [BSx.noVals, BSx.noValsList, isIntOrId_noVals h]
  · cases h

theorem noValsList_of_forall : ∀ {l : List BSx}, (∀ x ∈ l, x.noVals = true) → BSx.noValsList l = true := by
  intro l
  induction l with
  | nil => intro _; rfl
  | cons y ys ih =>
    intro h
    simp only [BSx.noValsList, Bool.and_eq_true]
    exact ⟨h y (by simp), ih (fun x hx => h x (by simp [hx]))⟩

theorem isPStmt_noVals : ∀ (f : Nat) (e : BSx), e.depth ≤ f →
    (isPStmt e = true → e.noVals = true) ∧ (isPCaseE e → e.noVals = true) := by
  intro f
  induction f with
  | zero =>
    intro e hd
    refine ⟨fun h => ?_, fun h => ?_⟩
    · cases e with
      | list l => simp [BSx.depth] at hd
      | _ => simp [isPStmt] at h
    · obtain ⟨i, b, rfl, _⟩ := h
      simp [BSx.depth] at hd
  | succ f ih =>
    intro e hd
    refine ⟨fun h => ?_, fun h => ?_⟩
    · cases e with
      | list l =>
        simp only [BSx.depth, Nat.add_le_add_iff_right] at hd
        simp only [BSx.noVals]
        unfold isPStmt at h
        split at h
        · rename_i cmd args heq
          cases heq
          obtain ⟨_, hda⟩ := depthList_cons_le hd
          simp only [BSx.noValsList, BSx.noVals, Bool.true_and]
          by_cases h1 : cmd = "gate"
          · simp only [h1, if_true] at h
            split at h
            · rename_i name gargs
              simp only [BSx.noValsList, BSx.noVals, Bool.true_and]
              have hg : ∀ a ∈ gargs, isGateArg a = true := by simpa [List.all_eq_true] using h
              exact noValsList_of_forall (fun a ha => isGateArg_noVals (hg a ha))
            · cases h
          simp only [h1, if_false] at h
          by_cases h2 : cmd = "loop"
          · simp only [h2, if_true] at h
            split at h
            · rename_i count block
              simp only [Bool.and_eq_true] at h
              obtain ⟨_, hdb'⟩ := depthList_cons_le hda
              simp only [BSx.noValsList, Bool.and_eq_true, and_true]
              exact ⟨isIntOrId_noVals h.1, (ih block (depthList_cons_le hdb').1).1 h.2⟩
            · cases h
          simp only [h2, if_false] at h
          by_cases h3 : cmd = "sequential_block" ∨ cmd = "parallel_block"
          · simp only [h3, if_true] at h
            exact noValsList_of_forall (fun x hx =>
              (ih x (Nat.le_trans (depth_le_of_mem hx) hda)).1 (isPStmts_mem h x hx))
          simp only [h3, if_false] at h
          by_cases h4 : cmd = "subcircuit_block"
          · simp only [h4, if_true] at h
            split at h
            · rename_i count stmts
              simp only [Bool.and_eq_true] at h
              obtain ⟨_, hds⟩ := depthList_cons_le hda
              simp only [BSx.noValsList, Bool.and_eq_true]
              exact ⟨isIntOrId_noVals h.1, noValsList_of_forall (fun x hx =>
                (ih x (Nat.le_trans (depth_le_of_mem hx) hds)).1 (isPStmts_mem h.2 x hx))⟩
            · cases h
          simp only [h4, if_false] at h
          by_cases h5 : cmd = "branch"
          · simp only [h5, if_true] at h
            exact noValsList_of_forall (fun x hx =>
              (ih x (Nat.le_trans (depth_le_of_mem hx) hda)).2 (isPCases_mem h x hx))
          · simp [h5] at h
        · cases h
      | _ => simp [isPStmt] at h
    · obtain ⟨i, block, rfl, hb⟩ := h
      simp only [BSx.depth, Nat.add_le_add_iff_right] at hd
      obtain ⟨_, hd1⟩ := depthList_cons_le hd
      obtain ⟨_, hd2⟩ := depthList_cons_le hd1
      simp only [BSx.noVals, BSx.noValsList, Bool.true_and, Bool.and_true]
      exact (ih block (depthList_cons_le hd2).1).1 hb


/-! ### Top-level children -/

/-- a header statement -/
def isPHeader (c : BSx) : Bool :=
  isPHeaderV c ||
    (match c with
     | .list [.str "usepulses", .str _, .str "*"] => true
     | _ => false)

/-- a body statement at top level: a statement or a macro definition `["macro", name, param…, block]` -/
def isPBody : BSx → Bool
  | .list (.str "macro" :: .str _ :: rest) =>
    (rest.dropLast.all isStr) &&
      (match rest.getLast? with
       | some b => isPStmt b          -- the grammar: a sequential or a parallel block
       | Option.none => false)
  | e => isPStmt e

/-- exactly the S-expressions the parser produces: `["circuit", child…]`, every child a header or a body statement
(their order — header first — is not needed here) -/
def ParserSx (e : BSx) : Prop :=
  ∃ cs, e = .list (.str "circuit" :: cs) ∧ ∀ c ∈ cs, isPHeader c = true ∨ isPBody c = true

theorem isPHeaderV_noVals {c : BSx} (h : isPHeaderV c = true) : c.noVals = true := by
  unfold isPHeaderV at h
  split at h
  · simp [BSx.noVals, BSx.noValsList, isIntOrId_noVals h]
  · rfl
  · rfl
  · rfl
  · simp [BSx.noVals, BSx.noValsList, isIntOrId_noVals h]
  · simp only [Bool.and_eq_true] at h
    simp [BSx.noVals, BSx.noValsList, isBound_noVals h.1.1, isBound_noVals h.1.2, isBound_noVals h.2]
  · cases h

/-- what a top-level child is built to -/
def TPost (ctx : Ctx) (st : St) (r : M (Obj × St)) : Prop :=
  Total r ∧ ∀ o s1, r = .ok (o, s1) →
    (∃ v, o = .val v ∧ ValT v = true ∧ isParam v = false ∧ s1 = st) ∨ (∃ n, o = .usepulses n) ∨
    (∃ s, o = .stmt s) ∨ (∃ m, o = .macro m)

theorem buildAny_header_total {cfg : Config} {mode : KeyMode} {f : Nat} {ctx : Ctx} {c : BSx} {st : St}
    (ht : TopT ctx) (hh : isPHeader c = true) (hd : c.depth ≤ f) : TPost ctx st (buildAny cfg mode f ctx c st) := by
  unfold isPHeader at hh
  by_cases hv : isPHeaderV c = true
  · -- a value statement
    cases c with
    | list l =>
      cases f with
      | zero => simp [BSx.depth] at hd
      | succ f =>
        have hp := valStep_header (f := f) ht hv
        have hfall : anyStep cfg mode (buildAny cfg mode f) (buildVal ctx f) ctx l st =
            (valStep ctx.get (buildVal ctx f) l >>= fun v => pure (Obj.val v, st)) := by
          unfold isPHeaderV at hv
          split at hv <;> first
            | (rename_i heq; cases heq; simp [anyStep])
            | cases hv
        show TPost ctx st (anyStep cfg mode (buildAny cfg mode f) (buildVal ctx f) ctx l st)
        rw [hfall]
        refine ⟨Total.bind hp.1 (fun _ _ => Total.pure _), ?_⟩
        intro o s1 hr
        obtain ⟨v, hvv, h2⟩ := bind_ok hr
        cases h2
        exact Or.inl ⟨v, rfl, (hp.2 v hvv).1, (hp.2 v hvv).2, rfl⟩
    | _ => simp [isPHeaderV] at hv
  · simp only [hv, Bool.false_or] at hh
    split at hh
    · rename_i n
      cases f with
      | zero => simp [BSx.depth] at hd
      | succ f =>
        have : buildAny cfg mode (f+1) ctx (.list [.str "usepulses", .str n, .str "*"]) st
            = .ok (.usepulses n, st) := by
          show anyStep cfg mode (buildAny cfg mode f) (buildVal ctx f) ctx [.str "usepulses", .str n, .str "*"] st = _
          simp [anyStep, isStar, pure, Except.pure]
        rw [this]
        exact ⟨Total.ok _, fun o s1 hr => by cases hr; exact Or.inr (Or.inl ⟨n, rfl⟩)⟩
    · cases hh

theorem mapM_macroParam : ∀ (l : List BSx), l.all isStr = true →
    ∃ ps : List (String × Kind), l.mapM macroParam = .ok ps ∧ ∀ p ∈ ps, p.2 = Kind.none := by
  intro l
  induction l with
  | nil => intro _; exact ⟨[], rfl, fun p hp => by cases hp⟩
  | cons x xs ih =>
    intro h
    simp only [List.all_cons, Bool.and_eq_true] at h
    obtain ⟨ps, hps, hk⟩ := ih h.2
    cases x <;> simp [isStr] at h
    rename_i s
    refine ⟨(s, Kind.none) :: ps, ?_, ?_⟩
    · simp [List.mapM_cons, macroParam, hps, bind, Except.bind, pure, Except.pure]
    · intro p hp
      rcases List.mem_cons.1 hp with rfl | hp
      · rfl
      · exact hk p hp

theorem withParams_ctxT {ctx : Ctx} (hc : CtxT ctx) {ps : List (String × Kind)} (hk : ∀ p ∈ ps, p.2 = Kind.none) :
    CtxT (ctx.withParams ps) := by
  intro n v h
  simp only [Ctx.get, Ctx.withParams] at h
  rcases lookup_append_some h with h | h
  · have : ∀ (l : List (String × Kind)), (∀ p ∈ l, p.2 = Kind.none) →
        (l.map (fun p => (p.1, Val.param p.1 p.2))).lookup n = some v → ∃ m, v = .param m .none := by
      intro l
      induction l with
      | nil => intro _ h; simp at h
      | cons q qs ih =>
        intro hq h
        simp only [List.map_cons, List.lookup] at h
        by_cases hkk : (n == q.1) = true
        · simp only [hkk, Option.some.injEq] at h
          exact ⟨q.1, by rw [← h, hq q (by simp)]⟩
        · simp only [hkk] at h; exact ih (fun p hp => hq p (by simp [hp])) h
    obtain ⟨m, hv⟩ := this ps.reverse (fun p hp => hk p (by simpa using hp)) h
    subst hv; rfl
  · exact hc n v h

theorem buildAny_body_total {cfg : Config} {mode : KeyMode} {f : Nat} {ctx : Ctx} {c : BSx} {st : St}
    (hc : CtxT ctx) (hb : isPBody c = true) (hd : c.depth ≤ f) : TPost ctx st (buildAny cfg mode f ctx c st) := by
  have hstmt : isPStmt c = true → TPost ctx st (buildAny cfg mode f ctx c st) := by
    intro hs
    have := (buildAny_total cfg mode f ctx c st hc hd).1 hs
    exact ⟨this.1, fun o s1 hr => Or.inr (Or.inr (Or.inl (this.2 o s1 hr)))⟩
  unfold isPBody at hb
  split at hb
  · rename_i n rest
    simp only [Bool.and_eq_true] at hb
    cases f with
    | zero => simp [BSx.depth] at hd
    | succ f =>
      simp only [BSx.depth, Nat.add_le_add_iff_right] at hd
      obtain ⟨_, hd1⟩ := depthList_cons_le hd
      obtain ⟨_, hd2⟩ := depthList_cons_le hd1
      show TPost ctx st (anyStep cfg mode (buildAny cfg mode f) (buildVal ctx f) ctx (.str "macro" :: .str n :: rest) st)
      simp only [anyStep, show ("macro" = "gate") = False from by decide, if_false,
        show ("macro" = "sequential_block" ∨ "macro" = "block") = False from by decide,
        show ("macro" = "parallel_block") = False from by decide,
        show ("macro" = "unscheduled_block") = False from by decide,
        show ("macro" = "subcircuit_block") = False from by decide,
        show ("macro" = "loop") = False from by decide,
        show ("macro" = "case") = False from by decide,
        show ("macro" = "branch") = False from by decide, if_true]
      by_cases hlen : (List.length (BSx.str n :: rest)) < 2
      · simp only [hlen, if_true]
        exact ⟨Total.throw _, fun o s1 hr => by cases hr⟩
      · simp only [hlen, if_false, strOf, pure_bind]
        by_cases hdef : (List.lookup n st.gctx).isSome = true
        · simp only [if_pos hdef]
          refine ⟨?_, fun o s1 hr => ?_⟩
          · intro e he; cases he; exact Good.jaqal _
          · cases hr
        · simp only [if_neg hdef, pure_bind]
          obtain ⟨ps, hps, hk⟩ := mapM_macroParam _ hb.1
          simp only [hps, bind, Except.bind]
          cases hlast : rest.getLast? with
          | none => simp [hlast] at hb
          | some blockE =>
            simp only [hlast] at hb
            simp only []
            have hmem : blockE ∈ rest := List.mem_of_getLast? hlast
            have hsp := (buildAny_total cfg mode f (ctx.withParams ps) blockE st
              (withParams_ctxT hc hk) (Nat.le_trans (depth_le_of_mem hmem) hd2)).1 hb.2
            refine ⟨?_, ?_⟩
            · intro e he
              cases hr : buildAny cfg mode f (ctx.withParams ps) blockE st with
              | error e' => rw [hr] at he; cases he; exact hsp.1 _ hr
              | ok p =>
                rw [hr] at he
                simp only [] at he
                split at he
                · cases he
                · cases he; exact Good.jaqal _
            · intro o s1 hr
              cases hr2 : buildAny cfg mode f (ctx.withParams ps) blockE st with
              | error e' => rw [hr2] at hr; cases hr
              | ok p =>
                rw [hr2] at hr
                simp only [] at hr
                split at hr
                · simp only [pure, Except.pure, Except.ok.injEq, Prod.mk.injEq] at hr
                  exact Or.inr (Or.inr (Or.inr ⟨_, hr.1.symm⟩))
                · cases hr
  · exact hstmt hb


/-! ### `rebuild_macro_in_context` and the dispatch of `build_circuit` -/

mutual
theorem rebuildStmt_total (g : GCtx) : ∀ (s : Stmt), StmtOK s → StmtKnown g s → Total (rebuildStmt g s)
  | .gate name gd args, hok, hkn => by
    simp only [rebuildStmt]
    obtain ⟨e, hl, hd⟩ := hkn gd (by simp [gateDefsOf])
    have hname : gd.name = name := hok.1
    rw [hname] at hl
    rw [hl]
    cases e with
    | gdef g0 => exact Total.pure _
    | «macro» m =>
      simp only []
      split
      · have htag : gd.tag = DefTag.macro := by rw [← hd]; rfl
        simp only [htag, beq_self_eq_true, if_true]
        exact Total.pure _
      · exact Total.bind (callDef_total _ _) (fun _ _ => Total.pure _)
  | .block par sub it body, hok, hkn => by
    simp only [rebuildStmt]
    have hb : ∀ s ∈ body, StmtKnown g s := by
      intro s hsm gd hgd
      exact hkn gd (by simp only [gateDefsOf]; exact mem_gateDefsOfList.2 ⟨s, hsm, hgd⟩)
    refine Total.bind (rebuildList_total g body hok.2 hb) (fun p _ => ?_)
    split
    · exact Total.pure _
    · exact Total.pure _
  | .loop c b, hok, hkn => by
    simp only [rebuildStmt]
    refine Total.bind (rebuildStmt_total g b hok.2 (fun gd hgd => hkn gd (by simpa [gateDefsOf] using hgd))) (fun p _ => ?_)
    split
    · exact Total.pure _
    · exact Total.pure _
theorem rebuildList_total (g : GCtx) : ∀ (l : List Stmt), StmtsOK l → (∀ s ∈ l, StmtKnown g s) → Total (rebuildList g l)
  | [], _, _ => by simp only [rebuildList]; exact Total.pure _
  | s :: ss, hok, hkn => by
    simp only [rebuildList]
    refine Total.bind (rebuildStmt_total g s hok.1 (hkn s (by simp))) (fun _ _ => ?_)
    exact Total.bind (rebuildList_total g ss hok.2 (fun x hx => hkn x (by simp [hx]))) (fun _ _ => Total.pure _)
end

theorem addVar_total (ctx : Ctx) (n : String) (v : Val) : Total (addVar ctx n v) := by
  intro e h
  unfold addVar at h
  split at h
  · cases h; exact Good.jaqal _
  · cases h

theorem stepTail_total {cfg : Config} {mode : KeyMode} {inject : Option (List (String × GateDef))} {acc : Acc} {o : Obj}
    {st : St} (hcase : o ≠ .case)
    (hm : ∀ m, o = .macro m → StmtOK m.body ∧ StmtKnown st.gctx m.body) :
    Total (stepTail cfg mode inject acc o st) := by
  cases o with
  | val v =>
    cases v <;> simp only [stepTail] <;> first
      | exact Total.throw _
      | exact Total.bind (addVar_total _ _ _) (fun _ _ => Total.pure _)
  | «macro» m =>
    simp only [stepTail]
    obtain ⟨h1, h2⟩ := hm m rfl
    refine Total.bind ?_ (fun m' _ => ?_)
    · unfold rebuildMacro
      exact Total.bind (rebuildStmt_total st.gctx m.body h1 h2) (fun _ _ => Total.pure _)
    · by_cases hl : (List.lookup m'.name st.gctx).isSome = true
      · simp only [hl, if_true]
        exact Total.bind (Total.throw _) (fun _ _ => Total.pure _)
      · simp only [hl]
        exact Total.pure _
  | stmt s => simp only [stepTail]; exact Total.pure _
  | case => exact absurd rfl hcase
  | usepulses n =>
    simp only [stepTail]
    by_cases ha : cfg.autoload = true
    · simp only [ha, if_true]
      split
      · exact Total.throw _
      · cases cfg.imports n with
        | none => intro e he; cases he; exact Or.inr rfl
        | some gs => exact Total.pure _
    · simp only [ha]; exact Total.pure _


theorem stepTail_topT {cfg : Config} {mode : KeyMode} {inject : Option (List (String × GateDef))} {acc a1 : Acc}
    {o : Obj} {st : St} (ht : TopT acc.ctx) (hv : ∀ v, o = .val v → ValT v = true ∧ isParam v = false)
    (h : stepTail cfg mode inject acc o st = .ok a1) : TopT a1.ctx := by
  have hadd : ∀ (n : String) (v : Val) (c : Ctx), ValT v = true ∧ isParam v = false → addVar acc.ctx n v = .ok c →
      TopT c := by
    intro n v c hvv hc
    obtain ⟨hvars, _⟩ := addVar_vars hc
    intro n' v' hl
    simp only [Ctx.get, hvars, List.lookup] at hl
    by_cases hk : (n' == n) = true
    · simp only [hk, Option.some.injEq] at hl; subst hl; exact hvv
    · simp only [hk] at hl; exact ht n' v' hl
  cases o with
  | val v =>
    have hvv := hv v rfl
    cases v <;> simp only [stepTail, throw_eq] at h <;> first
      | cases h
      | (obtain ⟨c, hc, h2⟩ := bind_ok h; cases h2; exact hadd _ _ c hvv hc)
  | «macro» m =>
    simp only [stepTail] at h
    obtain ⟨m', _, h2⟩ := bind_ok h
    by_cases hl : (List.lookup m'.name st.gctx).isSome = true
    · simp [hl, throw_eq, bind, Except.bind] at h2
    · simp [hl, pure, Except.pure] at h2; rw [← h2]; exact ht
  | stmt s => simp only [stepTail, pure, Except.pure] at h; cases h; exact ht
  | case => simp [stepTail, throw_eq] at h
  | usepulses n =>
    rcases stepTail_usepulses_ok h with ⟨_, rfl⟩ | ⟨_, _, gs, _, rfl⟩
    · exact ht
    · exact ht

/-- the invariant of the loop of `build_circuit` on parser-produced input -/
structure TInv (cfg : Config) (acc : Acc) : Prop where
  top : TopT acc.ctx
  ok : AccOK acc
  g : GInv cfg acc

theorem isPBody_noVals {c : BSx} (hb : isPBody c = true) : c.noVals = true := by
  unfold isPBody at hb
  split at hb
  · rename_i n rest
    simp only [Bool.and_eq_true] at hb
    simp only [BSx.noVals, BSx.noValsList, Bool.true_and]
    apply noValsList_of_forall
    intro x hx
    -- `x` is a parameter name or the body
    rcases List.eq_nil_or_concat rest with hnil | ⟨init, last, hrest⟩
    · subst hnil; cases hx
    · rw [List.concat_eq_append] at hrest
      subst hrest
      simp only [List.dropLast_concat, List.getLast?_concat] at hb
      rcases List.mem_append.1 hx with hx | hx
      · have := List.all_eq_true.1 hb.1 x hx
        cases x <;> simp [isStr] at this <;> rfl
      · simp only [List.mem_singleton] at hx
        subst hx
        exact (isPStmt_noVals x.depth x (Nat.le_refl _)).1 hb.2
  · exact (isPStmt_noVals c.depth c (Nat.le_refl _)).1 hb

theorem isPHeader_noVals {c : BSx} (h : isPHeader c = true) : c.noVals = true := by
  unfold isPHeader at h
  by_cases hv : isPHeaderV c = true
  · exact isPHeaderV_noVals hv
  · simp only [hv, Bool.false_or] at h
    split at h
    · rfl
    · cases h

theorem circuitLoop_total {cfg : Config} {mode : KeyMode} (hmode : mode ≠ .noReset)
    {inject : Option (List (String × GateDef))} {fuel : Nat} :
    ∀ (cs : List BSx) (acc : Acc), TInv cfg acc →
    (∀ c ∈ cs, (isPHeader c = true ∨ isPBody c = true) ∧ c.depth ≤ fuel) →
    Total (circuitLoop cfg mode inject fuel acc cs) := by
  intro cs
  induction cs with
  | nil => intro acc _ _; exact Total.pure _
  | cons c cs ih =>
    intro acc hinv hcs
    obtain ⟨hshape, hdep⟩ := hcs c (by simp)
    simp only [circuitLoop, circuitStep]
    have hnv : c.noVals = true := by
      rcases hshape with h | h
      · exact isPHeader_noVals h
      · exact isPBody_noVals h
    have hpost : TPost acc.ctx acc.st (buildAny cfg mode fuel acc.ctx c acc.st) := by
      rcases hshape with h | h
      · exact buildAny_header_total hinv.top h hdep
      · exact buildAny_body_total hinv.top.ctxT h hdep
    refine Total.bind (Total.bind hpost.1 (fun p hp => ?_)) (fun a2 ha2 => ?_)
    · -- the dispatch on the built object
      obtain ⟨o, st⟩ := p
      obtain ⟨hobj, hmemo⟩ := buildAny_ok fuel acc.ctx c acc.st st o hinv.ok.ctx hnv hinv.ok.memo hp
      have hk := buildAny_known fuel acc.ctx c acc.st st o hinv.g.b.k hp
      refine stepTail_total ?_ ?_
      · intro hcase
        rcases hpost.2 o st hp with ⟨v, hv, _⟩ | ⟨n, hn⟩ | ⟨s, hs⟩ | ⟨m, hm⟩ <;> simp_all
      · intro m hm
        subst hm
        exact ⟨hobj, hk.obj⟩
    · -- the invariant after the step
      obtain ⟨p, hp, h3⟩ := bind_ok ha2
      obtain ⟨o, st⟩ := p
      obtain ⟨hobj, hmemo⟩ := buildAny_ok fuel acc.ctx c acc.st st o hinv.ok.ctx hnv hinv.ok.memo hp
      have hk := buildAny_known fuel acc.ctx c acc.st st o hinv.g.b.k hp
      have hinv2 : TInv cfg a2 := by
        refine ⟨?_, stepTail_ok hinv.ok hobj hmemo h3,
          stepTail_general hmode hinv.g hk (fun ho => buildAny_pure_obj hp ho) h3⟩
        refine stepTail_topT hinv.top ?_ h3
        intro v hv
        change o = Obj.val v at hv
        rcases hpost.2 o st hp with ⟨v', hv', h1, h2, _⟩ | ⟨n, hn⟩ | ⟨s, hs⟩ | ⟨m, hm⟩
        · rw [hv] at hv'; cases hv'; exact ⟨h1, h2⟩
        · rw [hv] at hn; cases hn
        · rw [hv] at hs; cases hs
        · rw [hv] at hm; cases hm
      exact ih a2 hinv2 (fun d hd => hcs d (by simp [hd]))


end Jaqal.Builder
