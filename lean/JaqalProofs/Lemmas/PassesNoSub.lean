import JaqalProofs.Lemmas.PassesCountsOK
import JaqalProofs.Lemmas.BuiltWellFormedFull
import JaqalProofs.Props.C06
/-!
# Once the subcircuit blocks are gone they stay gone (lemmas for `Props/C19Parsed.lean`)

`NoSubC c`: no subcircuit block anywhere in the body or in a macro body (`ExpandSubcircuits.hasSub`, loops included).
`expand_subcircuits` establishes it (`subs_noSub`), each of the four passes keeps it from a `Legal` circuit (`apply_noSub`): the
rebuilds of the fill-in passes keep the subcircuit flag of every block (`FillIn.Rel`), `expand_macros` copies it (`mkBlock par sub …`)
and only splices in macro bodies, which have none.  A circuit without subcircuit blocks has none inside a parallel block.
-/
set_option linter.unusedSimpArgs false
set_option linter.unusedVariables false
namespace Jaqal.UnitTimingCircuit
open Jaqal Jaqal.Builder Jaqal.ExpandSubcircuits

def NoSubC (c : Circuit) : Prop := hasSub c.body = false ∧ ∀ m ∈ c.macros, hasSub m.body = false

mutual
  theorem subInParS_of_noSub : ∀ (s : Stmt) (p : Bool), hasSub s = false → subInParS p s = false
    | .gate _ _ _, _, _ => by simp [subInParS]
    | .loop _ _, _, _ => by simp [subInParS]
    | .block par sub it body, p, h => by
      simp only [hasSub, Bool.or_eq_false_iff] at h
      simp [subInParS, h.1, subInParL_of_noSub body (p || par) h.2]
  theorem subInParL_of_noSub : ∀ (l : List Stmt) (p : Bool), hasSubList l = false → subInParL p l = false
    | [], _, _ => by simp [subInParL]
    | s :: r, p, h => by
      simp only [hasSubList, Bool.or_eq_false_iff] at h
      simp [subInParL, subInParS_of_noSub s p h.1, subInParL_of_noSub r p h.2]
end

theorem noSubC_noSubInPar (L : Labelling) {c : Circuit} (h : NoSubC c) :
    UnitTiming.anySubInPar false (skelBody L c) = false := by
  rw [skelBody, anySubInPar_skel]
  cases hb : c.body with
  | gate n gd a => simp [Stmt.stmts, subInParL]
  | loop cnt b => simp [Stmt.stmts, subInParL]
  | block par sub it body =>
    have := h.1
    rw [hb] at this
    simp only [hasSub, Bool.or_eq_false_iff] at this
    simpa [Stmt.stmts] using subInParL_of_noSub body false this.2

/-! ## `expand_subcircuits` establishes it -/

theorem subs_noSub {c c1 : Circuit} (h : expandSubcircuits none none c = .ok c1) : NoSubC c1 := by
  obtain ⟨stmts, hs, _, _, _, _, rfl⟩ := expand_ok h
  have hp : hasSub (prepStmt none c) = false := by simp [prepStmt, boundGate, hasSub]
  have hm : hasSub (measStmt none c) = false := by simp [measStmt, boundGate, hasSub]
  refine ⟨?_, ?_⟩
  · simp only [hasSub, Bool.false_or]
    exact hasSubList_of_statements _ stmts (hasSub_spell _ _ hp hm c.body) hs
  · intro m hmm
    simp only [List.mem_map] at hmm
    obtain ⟨m0, _, rfl⟩ := hmm
    exact hasSub_spell _ _ hp hm m0.body

/-! ## the rebuilds keep it -/

mutual
  theorem rel_hasSub {F G : Val → M Val} : ∀ (s s' : Stmt), FillIn.Rel F G s s' → hasSub s' = hasSub s
    | .gate _ _ _, .gate _ _ _, _ => by simp [hasSub]
    | .block par sub it body, .block par' sub' it' body', h => by
      simp only [FillIn.Rel] at h
      obtain ⟨rfl, _, _, hl⟩ := h
      simp [hasSub, relList_hasSub body body' hl]
    | .loop c b, .loop c' b', h => by
      simp only [FillIn.Rel] at h
      simp [hasSub, rel_hasSub b b' h.2]
    | .gate _ _ _, .block _ _ _ _, h => by simp [FillIn.Rel] at h
    | .gate _ _ _, .loop _ _, h => by simp [FillIn.Rel] at h
    | .block _ _ _ _, .gate _ _ _, h => by simp [FillIn.Rel] at h
    | .block _ _ _ _, .loop _ _, h => by simp [FillIn.Rel] at h
    | .loop _ _, .gate _ _ _, h => by simp [FillIn.Rel] at h
    | .loop _ _, .block _ _ _ _, h => by simp [FillIn.Rel] at h
  theorem relList_hasSub {F G : Val → M Val} : ∀ (l l' : List Stmt), FillIn.RelList F G l l' → hasSubList l' = hasSubList l
    | [], [], _ => rfl
    | s :: r, s' :: r', h => by
      simp only [FillIn.RelList] at h
      simp [hasSubList, rel_hasSub s s' h.1, relList_hasSub r r' h.2]
    | [], _ :: _, h => by simp [FillIn.RelList] at h
    | _ :: _, [], h => by simp [FillIn.RelList] at h
end

theorem rebuilt_noSub {F : Val → M Val} {Fm : Macro → Val → M Val} {G : Val → M Val} {c c' : Circuit} {regs : List Val}
    {bs : List Stmt} (hbs : c.body = .block false false (.int 1) bs) (hr : FillIn.Rebuilt F Fm G c regs bs c')
    (hn : NoSubC c) : NoSubC c' := by
  obtain ⟨ss, hss, hrel⟩ := hr.body
  refine ⟨?_, ?_⟩
  · have := hn.1
    rw [hbs] at this
    simp only [hasSub, Bool.false_or] at this
    rw [hss]
    simp only [hasSub, Bool.false_or]
    rw [relList_hasSub bs ss hrel]; exact this
  · have hall : ∀ (l l' : List Macro), List.Forall₂ (fun m m' => FillIn.MacroRel (Fm m) G m m') l l' →
        (∀ m ∈ l, hasSub m.body = false) → ∀ m' ∈ l', hasSub m'.body = false := by
      intro l l' hf
      induction hf with
      | nil => intro _ m' hm'; cases hm'
      | cons hab _ ih =>
        intro hl m' hm'
        rcases List.mem_cons.1 hm' with rfl | hm'
        · rw [rel_hasSub _ _ hab.2.2]; exact hl _ (by simp)
        · exact ih (fun m hm => hl m (by simp [hm])) m' hm'
    exact hall _ _ hr.macros hn.2

/-! ## `expand_macros` keeps it -/

open ExpandMacros in
theorem hasSubList_spliceInto (par : Bool) {s : Stmt} {r : List Stmt} (hs : hasSub s = false) (hr : hasSubList r = false) :
    hasSubList (spliceInto par s r) = false := by
  unfold spliceInto
  split
  · rename_i p it b
    split
    · simp only [hasSub, Bool.false_or] at hs
      simp [hasSubList_append, hs, hr]
    · simp [hasSubList, hs, hr]
  · simp [hasSubList, hs, hr]

def CallNS (call : Stmt → M Stmt) : Prop := ∀ n gd a s', call (.gate n gd a) = .ok s' → hasSub s' = false

open ExpandMacros in
theorem mkLoop_ns {cnt : Val} {b s : Stmt} (hb : hasSub b = false) (h : ExpandMacros.mkLoop cnt b = .ok s) : hasSub s = false := by
  unfold ExpandMacros.mkLoop at h
  split at h
  · cases h
  · simp only [pure, Except.pure, Except.ok.injEq] at h; subst h; simpa [hasSub] using hb

open ExpandMacros in
mutual
  theorem expStmt_ns {call : Stmt → M Stmt} (hc : CallNS call) : ∀ (s s' : Stmt), hasSub s = false →
      expStmt call s = .ok s' → hasSub s' = false
    | .gate n gd a, s', _, h => by simp only [expStmt] at h; exact hc n gd a s' h
    | .block par sub it body, s', hs, h => by
      simp only [expStmt] at h
      obtain ⟨stmts, hst, h2⟩ := bind_ok h
      obtain ⟨rfl, _⟩ := mkBlock_ok_c h2
      simp only [hasSub, Bool.or_eq_false_iff] at hs
      simp [hasSub, hs.1, expList_ns hc par body stmts hs.2 hst]
    | .loop cnt b, s', hs, h => by
      simp only [expStmt] at h
      obtain ⟨b', hb', h2⟩ := bind_ok h
      exact mkLoop_ns (expStmt_ns hc b b' (by simpa [hasSub] using hs) hb') h2
  theorem expList_ns {call : Stmt → M Stmt} (hc : CallNS call) : ∀ (par : Bool) (l l' : List Stmt), hasSubList l = false →
      expList call par l = .ok l' → hasSubList l' = false
    | par, [], l', _, h => by simp only [expList, pure, Except.pure, Except.ok.injEq] at h; subst h; rfl
    | par, s :: r, l', hs, h => by
      simp only [expList] at h
      obtain ⟨s', hs', h2⟩ := bind_ok h
      obtain ⟨r', hr', h3⟩ := bind_ok h2
      simp only [pure, Except.pure, Except.ok.injEq] at h3
      subst h3
      simp only [hasSubList, Bool.or_eq_false_iff] at hs
      exact hasSubList_spliceInto par (expStmt_ns hc s s' hs.1 hs') (expList_ns hc par r r' hs.2 hr')
end

open ExpandMacros in
mutual
  theorem replStmt_ns {call : Stmt → M Stmt} (hc : CallNS call) (args : List (String × Val)) :
      ∀ (s s' : Stmt), hasSub s = false → replStmt call args s = .ok s' → hasSub s' = false
    | .gate n gd a, s', _, h => by
      simp only [replStmt] at h
      obtain ⟨new, _, h2⟩ := bind_ok h
      obtain ⟨g, hg, h3⟩ := bind_ok h2
      obtain ⟨a', rfl⟩ := callKw_isGate hg
      exact hc _ _ _ s' h3
    | .block par sub it body, s', hs, h => by
      simp only [replStmt] at h
      obtain ⟨stmts, hst, h2⟩ := bind_ok h
      obtain ⟨it', _, h3⟩ := bind_ok h2
      obtain ⟨rfl, _⟩ := mkBlock_ok_c h3
      simp only [hasSub, Bool.or_eq_false_iff] at hs
      simp [hasSub, hs.1, replList_ns hc args par body stmts hs.2 hst]
    | .loop cnt b, s', hs, h => by
      simp only [replStmt] at h
      obtain ⟨c', _, h2⟩ := bind_ok h
      obtain ⟨b', hb', h3⟩ := bind_ok h2
      exact mkLoop_ns (replStmt_ns hc args b b' (by simpa [hasSub] using hs) hb') h3
  theorem replList_ns {call : Stmt → M Stmt} (hc : CallNS call) (args : List (String × Val)) :
      ∀ (par : Bool) (l l' : List Stmt), hasSubList l = false → replList call args par l = .ok l' → hasSubList l' = false
    | par, [], l', _, h => by simp only [replList, pure, Except.pure, Except.ok.injEq] at h; subst h; rfl
    | par, s :: r, l', hs, h => by
      simp only [replList] at h
      obtain ⟨s', hs', h2⟩ := bind_ok h
      obtain ⟨r', hr', h3⟩ := bind_ok h2
      simp only [pure, Except.pure, Except.ok.injEq] at h3
      subst h3
      simp only [hasSubList, Bool.or_eq_false_iff] at hs
      exact hasSubList_spliceInto par (replStmt_ns hc args s s' hs.1 hs') (replList_ns hc args par r r' hs.2 hr')
end

open ExpandMacros in
theorem replaceGate_ns (ms : List Macro) (hms : ∀ m ∈ ms, hasSub m.body = false) : ∀ fuel : Nat, CallNS (replaceGate ms fuel) := by
  intro fuel
  induction fuel with
  | zero =>
    intro n gd a s' h
    simp only [replaceGate] at h
    split at h
    · simp only [pure, Except.pure, Except.ok.injEq] at h; subst h; simp [hasSub]
    · split at h
      · cases h
      · cases h
  | succ f ih =>
    intro n gd a s' h
    simp only [replaceGate] at h
    split at h
    · simp only [pure, Except.pure, Except.ok.injEq] at h; subst h; simp [hasSub]
    · rename_i m hfind
      split at h
      · cases h
      · exact replStmt_ns ih a _ s' (hms m (List.mem_of_find?_eq_some hfind)) h

open ExpandMacros in
theorem macros_noSub {p : Bool} {c c1 : Circuit} (hsb : SeqBody c) (hn : NoSubC c) (h : expandMacros p c = .ok c1) :
    NoSubC c1 := by
  obtain ⟨sub, it, b, hb⟩ := hsb
  obtain ⟨body, stmts, hbody, hst, rfl⟩ := ExpandMacros.expand_ok h
  have hc := expStmt_ns (replaceGate_ns c.macros hn.2 c.macros.length) c.body body hn.1 hbody
  rw [hb] at hbody
  simp only [expStmt] at hbody
  obtain ⟨ss, _, h2⟩ := bind_ok hbody
  obtain ⟨rfl, _⟩ := mkBlock_ok_c h2
  simp only [ExpandMacros.statementsOf, pure, Except.pure, Except.ok.injEq] at hst
  subst hst
  simp only [hasSub, Bool.or_eq_false_iff] at hc
  refine ⟨by simp [hasSub, hc.2], ?_⟩
  intro m hm
  cases p with
  | true => exact hn.2 m hm
  | false => cases hm

/-! ## all four, and sequences -/

theorem apply_noSub (p : Passes.Pass) {c c1 : Circuit} (hL : Passes.Legal c) (hn : NoSubC c) (h : Passes.apply p c = .ok c1) :
    NoSubC c1 := by
  obtain ⟨bs, hbs⟩ := hL.wf2.body
  cases p with
  | let_ ov =>
    obtain ⟨regs, _, hr⟩ := FillIn.fillInLet_rebuilt' hbs hL.wf2.consts hL.wf2.regs h
    exact rebuilt_noSub hbs hr hn
  | macros pr => exact macros_noSub ⟨false, .int 1, bs, hbs⟩ hn h
  | subs => exact subs_noSub h
  | map =>
    obtain ⟨bs', hbs', hr⟩ := FillIn.fillInMap_rebuilt hL.wf2 h
    exact rebuilt_noSub hbs' hr hn

theorem applySeq_noSub : ∀ (π : List Passes.Pass) {c c1 : Circuit}, Passes.Legal c → NoSubC c →
    Passes.applySeq π c = .ok c1 → NoSubC c1
  | [], c, c1, _, hn, h => by simp only [Passes.applySeq, pure, Except.pure, Except.ok.injEq] at h; subst h; exact hn
  | p :: ps, c, c1, hL, hn, h => by
    simp only [Passes.applySeq] at h
    cases h1 : Passes.apply p c with
    | error e => rw [h1] at h; cases h
    | ok c2 =>
      rw [h1] at h
      exact applySeq_noSub ps (Passes.C10_legal_preserved p c c2 hL h1) (apply_noSub p hL hn h1) h

/-- a sequence that contains `expand_subcircuits` ends without subcircuit blocks -/
theorem applySeq_subs_noSub : ∀ (π : List Passes.Pass) {c c1 : Circuit}, Passes.Legal c → Passes.Pass.subs ∈ π →
    Passes.applySeq π c = .ok c1 → NoSubC c1
  | [], _, _, _, hm, _ => by cases hm
  | p :: ps, c, c1, hL, hm, h => by
    simp only [Passes.applySeq] at h
    cases h1 : Passes.apply p c with
    | error e => rw [h1] at h; cases h
    | ok c2 =>
      rw [h1] at h
      have hL2 := Passes.C10_legal_preserved p c c2 hL h1
      by_cases hp : p matches .subs
      · cases p <;> simp at hp
        exact applySeq_noSub ps hL2 (subs_noSub h1) h
      · have : Passes.Pass.subs ∈ ps := by
          rcases List.mem_cons.1 hm with rfl | hm
          · simp at hp
          · exact hm
        exact applySeq_subs_noSub ps hL2 this h

end Jaqal.UnitTimingCircuit
