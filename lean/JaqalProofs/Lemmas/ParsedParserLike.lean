import JaqalProofs.Lemmas.RoundTripSafe
import JaqalProofs.Lemmas.RoundTripSafeParse
import JaqalProofs.Lemmas.RoundTripLex
import JaqalProofs.Lemmas.BuiltSpecOK
import JaqalProofs.Lemmas.PyEqSound
import JaqalProofs.Props.C07
import JaqalProofs.Props.C14
import JaqalProofs.Props.C16ParseBuild
/-!
# Every circuit `parse_jaqal_string` returns is `ParsedLike` (what `C20_sound_parsed` needs)

`parsed_parserLike : cfg.autoload = false → parseProgram cfg txt = .ok c → ParsedLike c`.

* dictionaries with distinct keys: `C14_names_build`;
* callees first in the macro list: `built_wellFormed` (`wfMacrosFrom`);
* **qubit references** (new here, `built_ref`): an induction over the builder (memo off, transparent by
  `C07_memo_transparent`) in the style of `RoundTripSafe.lean`.  A gate argument built in a context `ctx` is
  (`QFrom ctx.get`)
  - an identifier `q`: the value `ctx[q]` itself, whose name is `q` (an identifier: no `[`), or
  - an element `s[i]`: `NamedQubit(make_item_name(s, i), ctx[s], i)` with `ctx[s]` a register or a parameter.
  In a macro body `ctx` is the header context overlaid with the parameters (`{**context, **parameter_dict}`): an
  identifier that is a parameter resolves to the parameter.  Every header value of the context is an entry of the register
  (or constant) list, and the source of a header alias `map q s[i]` is the header value `ctx[s]`, a register.  Hence
  (`QMid`, then `QRef`): the source of an element is the parameter `s` (and the element's name has a `[`, so it is not
  declared) or an unshadowed declared register; an alias reached by name is a declared qubit with a declared source.
* names of declarations have no `[`: they are IDENTIFIER tokens of the text (`parseText_safe`, `buildNoMemo_safe`).
-/
set_option linter.unusedSimpArgs false
set_option linter.unusedVariables false
namespace Jaqal.RoundTrip
open Jaqal Jaqal.Builder Jaqal.Pipeline Jaqal.PyEq

/-! ## gate arguments -/

/-- where a gate argument comes from; `get` resolves identifiers -/
def QFrom (get : String → Option Val) : Val → Prop
  | .qubit n src idx =>
    (get n = some (.qubit n src idx) ∧ nameOK n = true) ∨
    (∃ an, get an = some src ∧ src.name? = some an ∧ itemName an idx = some n ∧ (isRegister src || isParam src) = true)
  | .none => False
  | _ => True

theorem arg_from {ctx : Ctx} (hc : CtxN ctx) {f : Nat} {a : BSx} (ha : isGateArg a = true) (hb : noBr a = true)
    {v : Val} (h : buildVal ctx f a = .ok v) : QFrom ctx.get v := by
  cases a with
  | int i => rw [buildVal_int] at h; cases h; trivial
  | flt d => rw [buildVal_flt] at h; cases h; trivial
  | none => simp [isGateArg] at ha
  | val w => simp [isGateArg] at ha
  | str s =>
    rw [buildVal_str] at h
    have hg := lookupId_ok h
    obtain ⟨hn, hk, _⟩ := hc s v hg
    simp only [noBr] at hb
    cases v <;> simp [topKind] at hk <;> try trivial
    rename_i n src idx
    simp only [Val.name?, Option.some.injEq] at hn
    subst hn
    exact Or.inl ⟨hg, hb⟩
  | list l =>
    unfold isGateArg at ha
    split at ha
    · rename_i heq; cases heq
    · rename_i heq; cases heq
    · rename_i heq; cases heq
    · rename_i an idx heq
      cases heq
      cases f with
      | zero => simp [buildVal, throw_eq] at h
      | succ f =>
        have h' : valStep ctx.get (buildVal ctx f) [.str "array_item", .str an, idx] = .ok v := h
        simp only [valStep, show ("array_item" = "register") = False from by decide,
          show ("array_item" = "let") = False from by decide, if_false, if_true] at h'
        rw [buildVal_str] at h'
        obtain ⟨arr, harr, h1⟩ := bind_ok h'
        obtain ⟨iv, hiv, h2⟩ := bind_ok h1
        obtain ⟨han, hak, hwarr⟩ := hc an arr (lookupId_ok harr)
        rw [ref_asInteger hc ha hiv] at h2
        by_cases hr : (!(isRegister arr || isParam arr)) = true
        · simp [hr, throw_eq, bind, Except.bind] at h2
        · have hr' : (isRegister arr || isParam arr) = true := by
            cases hx : (isRegister arr || isParam arr)
            · simp [hx] at hr
            · rfl
          simp only [hr, Bool.false_eq_true, if_false, pure, Except.pure, bind, Except.bind] at h2
          unfold getItem at h2
          rw [han] at h2
          simp only at h2
          cases hin : itemName an iv with
          | none =>
            rw [hin] at h2
            simp only at h2
            cases hq : mkQubit an arr iv with
            | error e => rw [hq] at h2; simp [bind, Except.bind] at h2
            | ok q => rw [hq] at h2; simp [bind, Except.bind, throw_eq] at h2
          | some n =>
            rw [hin] at h2
            simp only at h2
            unfold mkQubit at h2
            obtain ⟨_, _, h3⟩ := bind_ok h2
            simp only [pure, Except.pure, Except.ok.injEq] at h3
            subst h3
            exact Or.inr ⟨an, lookupId_ok harr, han, hin, hr'⟩
    · cases ha

theorem args_from {ctx : Ctx} (hc : CtxN ctx) {f : Nat} : ∀ {args : List BSx} {vals : List Val},
    args.all isGateArg = true → noBrList args = true → args.mapM (buildVal ctx f) = .ok vals →
    ∀ v ∈ vals, QFrom ctx.get v
  | [], vals, _, _, h => by
    simp only [List.mapM_nil, pure, Except.pure, Except.ok.injEq] at h
    subst h
    intro v hv; cases hv
  | a :: as, vals, ha, hb, h => by
    simp only [List.all_cons, Bool.and_eq_true] at ha
    simp only [noBrList, Bool.and_eq_true] at hb
    simp only [List.mapM_cons] at h
    obtain ⟨v, hv, h1⟩ := bind_ok h
    obtain ⟨vs, hvs, h2⟩ := bind_ok h1
    simp only [pure, Except.pure, Except.ok.injEq] at h2
    subst h2
    intro w hw
    rcases List.mem_cons.1 hw with rfl | hw
    · exact arg_from hc ha.1 hb.1 hv
    · exact args_from hc ha.2 hb.2 hvs w hw

/-! ## statements -/

/-- the claim for fuel `f` -/
def FromIH (cfg : Config) (f : Nat) : Prop :=
  ∀ (ctx : Ctx) (par : Bool) (e : BSx) (st : St) (o : Obj) (st' : St), CtxN ctx → KInv st →
    GStmt par e → noBr e = true → buildAny cfg .off f ctx e st = .ok (o, st') →
    ∃ s, o = .stmt s ∧ StmtAll (QFrom ctx.get) s

theorem gate_from {cfg : Config} {ctx : Ctx} (hc : CtxN ctx) {f : Nat} {g : String} {args : List BSx} {st st' : St}
    {o : Obj} (hk : KInv st) (ha : args.all isGateArg = true) (hb : noBrList args = true)
    (h : buildAny cfg .off (f + 1) ctx (.list (.str "gate" :: .str g :: args)) st = .ok (o, st')) :
    ∃ s, o = .stmt s ∧ StmtAll (QFrom ctx.get) s := by
  rw [buildAny_list, anyStep_gate] at h
  obtain ⟨⟨s, st1⟩, hbg, h1⟩ := bind_ok h
  simp only [pure, Except.pure, Except.ok.injEq, Prod.mk.injEq] at h1
  obtain ⟨rfl, rfl⟩ := h1
  simp only [buildGate] at hbg
  obtain ⟨_, _, h2⟩ := bind_ok hbg
  simp only [buildGateMemo, if_true] at h2
  obtain ⟨⟨s', g'⟩, hfresh, h3⟩ := bind_ok h2
  simp only [pure, Except.pure, Except.ok.injEq, Prod.mk.injEq] at h3
  obtain ⟨rfl, rfl⟩ := h3
  unfold buildGateFresh at hfresh
  obtain ⟨⟨gd, g''⟩, hgd, h4⟩ := bind_ok hfresh
  obtain ⟨vals, hvals, h5⟩ := bind_ok h4
  obtain ⟨s'', hcall, h6⟩ := bind_ok h5
  simp only [pure, Except.pure, Except.ok.injEq, Prod.mk.injEq] at h6
  obtain ⟨rfl, rfl⟩ := h6
  obtain ⟨bound, rfl, hbv⟩ := callDef_bound hcall
  refine ⟨_, rfl, ?_⟩
  intro a hmem
  have : a.2 ∈ vals := by rw [← hbv]; exact List.mem_map_of_mem hmem
  exact args_from hc ha hb hvals a.2 this

theorem items_from {cfg : Config} {f : Nat} (IH : FromIH cfg f) {ctx : Ctx} (hc : CtxN ctx)
    {par : Bool} : ∀ {items : List BSx} {st : St} {os : List Obj} {st' : St}, KInv st → (∀ x ∈ items, GStmt par x) →
    noBrList items = true → mapMSt (buildAny cfg .off f ctx) items st = .ok (os, st') →
    ∀ ss, asStmts os = .ok ss → StmtsAll (QFrom ctx.get) ss
  | [], st, os, st', _, _, _, h, ss, hss => by
    simp only [mapMSt, pure, Except.pure, Except.ok.injEq, Prod.mk.injEq] at h
    obtain ⟨rfl, rfl⟩ := h
    simp only [asStmts, pure, Except.pure, Except.ok.injEq] at hss
    subst hss
    trivial
  | x :: xs, st, os, st', hk, hg, hb, h, ss, hss => by
    simp only [noBrList, Bool.and_eq_true] at hb
    simp only [mapMSt] at h
    obtain ⟨⟨o, s1⟩, hx, h1⟩ := bind_ok h
    obtain ⟨⟨os', s2⟩, hxs, h2⟩ := bind_ok h1
    simp only [pure, Except.pure, Except.ok.injEq, Prod.mk.injEq] at h2
    obtain ⟨rfl, rfl⟩ := h2
    obtain ⟨s, rfl, hs⟩ := IH ctx par x st o s1 hc hk (hg x (by simp)) hb.1 hx
    have hk1 : KInv s1 := (buildAny_known f ctx x st s1 _ hk hx).inv
    simp only [asStmts] at hss
    obtain ⟨ss', hss', h3⟩ := bind_ok hss
    simp only [pure, Except.pure, Except.ok.injEq] at h3
    subst h3
    exact ⟨hs, items_from IH hc hk1 (fun y hy => hg y (by simp [hy])) hb.2 hxs ss' hss'⟩

theorem stmt_from (cfg : Config) : ∀ f, FromIH cfg f := by
  intro f
  induction f with
  | zero =>
    intro ctx par e st o st' _ _ hg _ h
    cases hg <;> simp [buildAny, throw_eq] at h
  | succ f IH =>
    intro ctx par e st o st' hc hk hg hb h
    cases hg with
    | gate ha =>
      simp only [noBr, noBrList, Bool.and_eq_true] at hb
      exact gate_from hc hk ha hb.2.2 h
    | parB hitems =>
      simp only [noBr, noBrList, Bool.and_eq_true] at hb
      rw [buildAny_list, anyStep_par] at h
      obtain ⟨⟨os, s1⟩, hm, h1⟩ := bind_ok h
      obtain ⟨ss, hss, h2⟩ := bind_ok h1
      simp only [pure, Except.pure, Except.ok.injEq, Prod.mk.injEq] at h2
      obtain ⟨rfl, rfl⟩ := h2
      exact ⟨_, rfl, items_from (ctx := { ctx with inPar := true }) IH hc hk hitems hb.2 hm ss hss⟩
    | seqB hitems =>
      simp only [noBr, noBrList, Bool.and_eq_true] at hb
      rw [buildAny_list, anyStep_seq] at h
      obtain ⟨⟨os, s1⟩, hm, h1⟩ := bind_ok h
      obtain ⟨ss, hss, h2⟩ := bind_ok h1
      simp only [pure, Except.pure, Except.ok.injEq, Prod.mk.injEq] at h2
      obtain ⟨rfl, rfl⟩ := h2
      exact ⟨_, rfl, items_from (ctx := { ctx with inSeq := true }) IH hc hk hitems hb.2 hm ss hss⟩
    | @loopSeq c items hcnt hitems =>
      simp only [noBr, noBrList, Bool.and_eq_true] at hb
      rw [buildAny_list, anyStep_loop] at h
      obtain ⟨count, hcount, h1⟩ := bind_ok h
      obtain ⟨⟨ob, s1⟩, hbody, h2⟩ := bind_ok h1
      have hnb : noBr (.list (.str "sequential_block" :: items)) = true := by
        simp only [noBr, noBrList, Bool.and_eq_true]; exact hb.2.2.1
      obtain ⟨sb, rfl, hsb⟩ := IH ctx true _ st ob s1 hc hk (GStmt.seqB hitems) hnb hbody
      simp only at h2
      obtain ⟨_, _, h3⟩ := bind_ok h2
      simp only [pure, Except.pure, Except.ok.injEq, Prod.mk.injEq] at h3
      obtain ⟨rfl, rfl⟩ := h3
      exact ⟨_, rfl, hsb⟩
    | @loopPar c items hcnt hitems =>
      simp only [noBr, noBrList, Bool.and_eq_true] at hb
      rw [buildAny_list, anyStep_loop] at h
      obtain ⟨count, hcount, h1⟩ := bind_ok h
      obtain ⟨⟨ob, s1⟩, hbody, h2⟩ := bind_ok h1
      have hnb : noBr (.list (.str "parallel_block" :: items)) = true := by
        simp only [noBr, noBrList, Bool.and_eq_true]; exact hb.2.2.1
      obtain ⟨sb, rfl, hsb⟩ := IH ctx false _ st ob s1 hc hk (GStmt.parB hitems) hnb hbody
      simp only at h2
      obtain ⟨_, _, h3⟩ := bind_ok h2
      simp only [pure, Except.pure, Except.ok.injEq, Prod.mk.injEq] at h3
      obtain ⟨rfl, rfl⟩ := h3
      exact ⟨_, rfl, hsb⟩
    | @sub c items hcnt hitems =>
      simp only [noBr, noBrList, Bool.and_eq_true] at hb
      rw [buildAny_list, anyStep_sub] at h
      by_cases hflag : (ctx.inSub || ctx.inPar) = true
      · simp [hflag, throw_eq] at h
      · simp only [hflag, Bool.false_eq_true, if_false] at h
        obtain ⟨⟨os, s1⟩, hm, h1⟩ := bind_ok h
        obtain ⟨count, hcount, h2⟩ := bind_ok h1
        obtain ⟨_, _, h3⟩ := bind_ok h2
        obtain ⟨ss, hss, h4⟩ := bind_ok h3
        simp only [pure, Except.pure, Except.ok.injEq, Prod.mk.injEq] at h4
        obtain ⟨rfl, rfl⟩ := h4
        exact ⟨_, rfl, items_from (ctx := { ctx with inSub := true }) IH hc hk hitems hb.2.2 hm ss hss⟩

/-! ## header statements -/

/-- the source of a header alias `map q s[i]` is what the context holds under `s`, a register or a parameter -/
def HdrFrom (ctx : Ctx) (v : Val) : Prop :=
  ∀ n src idx, v = .qubit n src idx → ∃ s, ctx.get s = some src ∧ (isRegister src = true ∨ isParam src = true)

theorem hdr_from {ctx : Ctx} (hc : CtxN ctx) {f : Nat} {e : BSx} (he : GHeader e) {v : Val}
    (h : buildVal ctx (f + 1) e = .ok v) : HdrFrom ctx v := by
  cases he with
  | usepulses m =>
    rw [buildVal_list] at h
    simp [valStep, throw_eq, statefulCmds] at h
  | letInt n i =>
    rw [buildVal_list] at h
    simp [valStep, strOf, mkConstant, pure, Except.pure, bind, Except.bind] at h
    subst h
    intro n' src idx hq; cases hq
  | letFlt n d =>
    rw [buildVal_list] at h
    simp [valStep, strOf, mkConstant, pure, Except.pure, bind, Except.bind] at h
    subst h
    intro n' src idx hq; cases hq
  | @register n size hsz =>
    rw [buildVal_list] at h
    simp [valStep, strOf] at h
    obtain ⟨sz, hsz', h1⟩ := bind_ok h
    have := mkRegister_eq h1
    subst this
    intro n' src idx hq; cases hq
  | mapWhole n s =>
    rw [buildVal_list, map_reduce] at h
    obtain ⟨src, hsrc, h1⟩ := bind_ok h
    simp only [strOf, pure, Except.pure, bind, Except.bind, Except.ok.injEq] at h1
    subst h1
    intro n' src' idx hq; cases hq
  | @mapIndex n s idx hi =>
    rw [buildVal_list, map_reduce] at h
    obtain ⟨src, hsrc, h1⟩ := bind_ok h
    simp only [strOf, pure_bind] at h1
    obtain ⟨iv, hiv, h2⟩ := bind_ok h1
    unfold mkQubit at h2
    obtain ⟨_, _, h3⟩ := bind_ok h2
    simp only [pure, Except.pure, Except.ok.injEq] at h3
    subst h3
    obtain ⟨hg, hr⟩ := mapSource_inv hsrc
    intro n' src' idx' hq
    cases hq
    exact ⟨s, hg, hr⟩
  | @mapSlice n s a b c ha hb hcb =>
    rw [buildVal_list, map_reduce] at h
    obtain ⟨src, hsrc, h1⟩ := bind_ok h
    simp only [strOf, pure_bind] at h1
    obtain ⟨x0, hx0, h2⟩ := bind_ok h1
    obtain ⟨y0, hy0, h3⟩ := bind_ok h2
    obtain ⟨stop, hstop, h4⟩ := bind_ok h3
    obtain ⟨z0, hz0, h5⟩ := bind_ok h4
    unfold mkSlice at h5
    obtain ⟨_, hchk, h6⟩ := bind_ok h5
    simp only [pure, Except.pure, Except.ok.injEq] at h6
    subst h6
    intro n' src' idx hq; cases hq

/-! ## children of the program -/

/-- what an object filed by `build_circuit` is like, relative to the context it was built in -/
def ObjF (ctx : Ctx) : Obj → Prop
  | .val v => HdrFrom ctx v
  | .macro m => StmtAll (QFrom (ctx.withParams m.params).get) m.body
  | .stmt s => StmtAll (QFrom ctx.get) s
  | .usepulses _ => True
  | .case => True

theorem child_from {cfg : Config} {ctx : Ctx} (hc : CtxN ctx) {F : Nat} {e : BSx} {st st' : St} {o : Obj}
    (hk : KInv st) (he : GChild e) (hb : noBr e = true) (h : buildAny cfg .off F ctx e st = .ok (o, st')) :
    ObjF ctx o := by
  rcases he with he | he
  · cases F with
    | zero => cases he <;> simp [buildAny, throw_eq] at h
    | succ f =>
      have hval : ∀ cmd args, e = .list (.str cmd :: args) → (cmd = "register" ∨ cmd = "map" ∨ cmd = "let") →
          ObjF ctx o := by
        intro cmd args heq hcmd
        subst heq
        rw [buildAny_value_eq _ _ _ _ _ _ hcmd] at h
        obtain ⟨v, hv, h1⟩ := bind_ok h
        simp only [pure, Except.pure, Except.ok.injEq, Prod.mk.injEq] at h1
        rw [← h1.1]
        exact hdr_from hc he hv
      cases he with
      | usepulses m =>
        rw [buildAny_usepulses_eq] at h
        cases h
        trivial
      | letInt n v => exact hval _ _ rfl (Or.inr (Or.inr rfl))
      | letFlt n d => exact hval _ _ rfl (Or.inr (Or.inr rfl))
      | register n _ => exact hval _ _ rfl (Or.inl rfl)
      | mapWhole n s => exact hval _ _ rfl (Or.inr (Or.inl rfl))
      | mapIndex n s _ => exact hval _ _ rfl (Or.inr (Or.inl rfl))
      | mapSlice n s _ _ _ => exact hval _ _ rfl (Or.inr (Or.inl rfl))
  · cases he with
    | stmt hs' =>
      obtain ⟨s, rfl, hsP⟩ := stmt_from cfg F ctx false e st o st' hc hk hs' hb h
      exact hsP
    | seqB hitems =>
      obtain ⟨s, rfl, hsP⟩ := stmt_from cfg F ctx true _ st o st' hc hk (GStmt.seqB hitems) hb h
      exact hsP
    | @macroDef name params par items hitems =>
      simp only [noBr, noBrList, Bool.and_eq_true] at hb
      obtain ⟨_, hb2⟩ := noBrList_append hb.2.2
      simp only [noBrList, noBr, Bool.and_eq_true] at hb2
      have hlen : ¬ ((BSx.str name :: (params.map BSx.str ++ [BSx.list (.str (blockCmdB par) :: items)])).length < 2) := by
        simp
      cases F with
      | zero => simp [buildAny, throw_eq] at h
      | succ f =>
        rw [buildAny_list, anyStep_macro _ _ _ _ _ _ _ _ hlen] at h
        simp only [strOf, pure_bind] at h
        by_cases hl : (st.gctx.lookup name).isSome = true
        · simp [hl, throw_eq, bind, Except.bind] at h
        · simp only [hl, Bool.false_eq_true, if_false, pure_bind, List.dropLast_concat, mapM_macroParam_str,
            List.getLast?_concat] at h
          simp only [bind, Except.bind] at h
          cases hbody : buildAny cfg .off f (ctx.withParams (params.map (fun p => (p, Kind.none))))
              (.list (.str (blockCmdB par) :: items)) st with
          | error e => rw [hbody] at h; cases h
          | ok pr =>
            obtain ⟨ob, sb⟩ := pr
            have hsblock : GStmt (!par) (.list (.str (blockCmdB par) :: items)) := by
              cases par
              · exact GStmt.seqB hitems
              · exact GStmt.parB hitems
            have hnb : noBr (.list (.str (blockCmdB par) :: items)) = true := by
              simp only [noBr, noBrList, Bool.and_eq_true]; exact hb2.1
            obtain ⟨s, rfl, hsP⟩ := stmt_from cfg f _ (!par) _ st ob sb (ctxN_withParams hc _) hk hsblock hnb hbody
            rw [hbody] at h
            cases s with
            | block p1 p2 it body =>
              simp only [pure, Except.pure, Except.ok.injEq, Prod.mk.injEq] at h
              rw [← h.1]
              exact hsP
            | _ => simp [throw_eq] at h
    | branch => exact absurd h (branch_fails _ _ _ _ _ _ _)

/-! ## from the context to the register dictionary -/

/-- the reference `n` with source `src` and index `idx`, against the register list accumulated so far -/
def QMid (regs : List Val) (P : List String) (n : String) (src idx : Val) : Prop :=
  (∃ s k, src = .param s k ∧ s ∈ P ∧ nameOK n = false) ∨
  (src ∈ regs ∧ ((∀ s, src.name? = some s → s ∉ P) ∨ Val.qubit n src idx ∈ regs))

def ArgMid (regs : List Val) (P : List String) : Val → Prop
  | .qubit n src idx => QMid regs P n src idx
  | .none => False
  | _ => True

theorem ArgMid.mono {regs regs' : List Val} (h : ∀ x ∈ regs, x ∈ regs') {P : List String} {v : Val}
    (hv : ArgMid regs P v) : ArgMid regs' P v := by
  cases v <;> try exact hv
  rename_i n src idx
  rcases hv with hp | ⟨hm, hc⟩
  · exact Or.inl hp
  · refine Or.inr ⟨h _ hm, ?_⟩
    rcases hc with hc | hc
    · exact Or.inl hc
    · exact Or.inr (h _ hc)

/-- `{**context, **parameter_dict}`: an identifier that is a parameter resolves to the parameter -/
theorem withParams_get {ctx : Ctx} {ps : List (String × Kind)} {n : String} {v : Val}
    (h : (ctx.withParams ps).get n = some v) :
    (∃ k, v = .param n k ∧ n ∈ ps.map (·.1)) ∨ (n ∉ ps.map (·.1) ∧ ctx.get n = some v) := by
  simp only [Ctx.get, Ctx.withParams, List.lookup_append] at h
  cases hl : List.lookup n (List.map (fun p => (p.1, Val.param p.1 p.2)) ps.reverse) with
  | some w =>
    rw [hl] at h
    simp only [Option.some_or, Option.some.injEq] at h
    subst h
    left
    have key : ∀ (l : List (String × Kind)),
        List.lookup n (l.map (fun p => (p.1, Val.param p.1 p.2))) = some w → ∃ q ∈ l, q.1 = n ∧ w = .param q.1 q.2 := by
      intro l
      induction l with
      | nil => intro h; simp at h
      | cons q qs ih =>
        intro h
        simp only [List.map_cons, List.lookup] at h
        by_cases hkk : (n == q.1) = true
        · simp only [hkk, Option.some.injEq] at h
          exact ⟨q, by simp, by simpa using (beq_iff_eq.1 hkk).symm, h.symm⟩
        · simp only [hkk] at h
          obtain ⟨q', hq', hv⟩ := ih h
          exact ⟨q', by simp [hq'], hv⟩
    obtain ⟨q, hq, hqn, rfl⟩ := key ps.reverse hl
    subst hqn
    exact ⟨q.2, rfl, List.mem_map_of_mem (List.mem_reverse.1 hq)⟩
  | none =>
    rw [hl] at h
    simp only [Option.none_or] at h
    refine Or.inr ⟨?_, h⟩
    intro hmem
    obtain ⟨q, hq, rfl⟩ := List.mem_map.1 hmem
    have : ∀ (l : List (String × Kind)), q ∈ l →
        List.lookup q.1 (l.map (fun p => (p.1, Val.param p.1 p.2))) ≠ none := by
      intro l
      induction l with
      | nil => intro h; cases h
      | cons r rs ih =>
        intro hm
        simp only [List.map_cons, List.lookup]
        by_cases hkk : (q.1 == r.1) = true
        · simp [hkk]
        · simp only [hkk]
          rcases List.mem_cons.1 hm with rfl | hm
          · simp at hkk
          · exact ih hm
    exact this ps.reverse (List.mem_reverse.2 hq) hl

/-- the accumulator of `build_circuit`: the header context holds no parameter and only entries of the register and
constant lists; the source of a declared qubit is declared; the statements and macro bodies built so far refer to the
registers declared so far -/
structure RefAcc (acc : Acc) : Prop where
  ctxIn : ∀ n v, acc.ctx.get n = some v → isParam v = false ∧ (v ∈ acc.registers ∨ ∃ m x, v = .const m x)
  regsSrc : ∀ n src idx, Val.qubit n src idx ∈ acc.registers → src ∈ acc.registers
  stmts : ∀ s ∈ acc.stmts, StmtAll (ArgMid acc.registers []) s
  macros : ∀ m ∈ acc.macros, StmtAll (ArgMid acc.registers (m.params.map (·.1))) m.body

theorem reg_of_ctx {acc : Acc} (ha : RefAcc acc) {n : String} {v : Val} (hg : acc.ctx.get n = some v)
    (hr : isRegister v = true ∨ isParam v = true) : v ∈ acc.registers := by
  obtain ⟨hp, hin⟩ := ha.ctxIn n v hg
  rcases hin with hin | ⟨m, x, rfl⟩
  · exact hin
  · rcases hr with hr | hr <;> simp [isRegister, isParam] at hr

theorem mid_of_from {acc : Acc} (ha : RefAcc acc) (ps : List (String × Kind)) {v : Val}
    (h : QFrom (acc.ctx.withParams ps).get v) : ArgMid acc.registers (ps.map (·.1)) v := by
  cases v <;> try exact h
  rename_i n src idx
  rcases h with ⟨hg, hn⟩ | ⟨an, hg, han, hin, hr⟩
  · rcases withParams_get hg with ⟨k, hk, _⟩ | ⟨_, hg'⟩
    · cases hk
    · obtain ⟨_, hin⟩ := ha.ctxIn n _ hg'
      rcases hin with hin | ⟨m, x, hx⟩
      · exact Or.inr ⟨ha.regsSrc _ _ _ hin, Or.inr hin⟩
      · cases hx
  · rcases withParams_get hg with ⟨k, rfl, hmem⟩ | ⟨hnot, hg'⟩
    · exact Or.inl ⟨an, k, rfl, hmem, itemName_bracket hin⟩
    · have hp := (ha.ctxIn an src hg').1
      have hr' : isRegister src = true ∨ isParam src = true := by simpa using hr
      refine Or.inr ⟨reg_of_ctx ha hg' hr', Or.inl ?_⟩
      intro s hs
      rw [han] at hs
      cases hs
      exact hnot

theorem withParams_nil (ctx : Ctx) : (ctx.withParams []).get = ctx.get := by
  funext n
  simp [Ctx.get, Ctx.withParams]

theorem pushVar_regs_sub (a : Acc) (st : St) (n : String) (v : Val) (c : Bool) :
    ∀ x ∈ a.registers, x ∈ (pushVar a st n v c).registers := by
  intro x hx
  cases c <;> simp [pushVar, hx]

theorem ref_apply {a : Acc} {st : St} {o : Obj} (ha : RefAcc a) (ho : ObjF a.ctx o) (hg : Guard a st o) :
    RefAcc (applyObj a st o) := by
  cases o with
  | val v =>
    obtain ⟨n, c, hv, hfresh⟩ := hg
    rw [applyObj_val hv]
    have hsub := pushVar_regs_sub a st n v c
    have hpv : isParam v = false := by cases v <;> simp [varOf] at hv <;> rfl
    refine ⟨?_, ?_, fun s hs => ?_, fun m hm => ?_⟩
    · intro m w hgm
      have hctx : (pushVar a st n v c).ctx = { a.ctx with vars := (n, v) :: a.ctx.vars } := by cases c <;> rfl
      rw [hctx, get_cons] at hgm
      by_cases hm : m = n
      · simp only [hm, if_true, Option.some.injEq] at hgm
        subst hgm
        refine ⟨hpv, ?_⟩
        cases c
        · left; simp [pushVar]
        · right; cases v <;> simp [varOf] at hv; exact ⟨_, _, rfl⟩
      · simp only [hm, if_false] at hgm
        obtain ⟨h1, h2⟩ := ha.ctxIn m w hgm
        refine ⟨h1, ?_⟩
        rcases h2 with h2 | h2
        · exact Or.inl (hsub _ h2)
        · exact Or.inr h2
    · intro n' src idx hq
      cases c
      · simp only [pushVar, Bool.false_eq_true, if_false, List.mem_append, List.mem_singleton] at hq ⊢
        rcases hq with hq | hq
        · exact Or.inl (ha.regsSrc _ _ _ hq)
        · obtain ⟨s, hgs, hr⟩ := ho n' src idx hq.symm
          exact Or.inl (reg_of_ctx ha hgs hr)
      · simp only [pushVar, if_true] at hq ⊢
        exact ha.regsSrc _ _ _ hq
    · have hs' : s ∈ a.stmts := by cases c <;> simpa [pushVar] using hs
      exact StmtAll.mono (fun w hw => ArgMid.mono hsub hw) s (ha.stmts s hs')
    · have hm' : m ∈ a.macros := by cases c <;> simpa [pushVar] using hm
      exact StmtAll.mono (fun w hw => ArgMid.mono hsub hw) m.body (ha.macros m hm')
  | «macro» m =>
    refine ⟨ha.ctxIn, ha.regsSrc, ha.stmts, ?_⟩
    intro w hw
    rcases mem_snoc hw with hw | rfl
    · exact ha.macros w hw
    · exact StmtAll.mono (fun v hv => mid_of_from ha _ hv) _ ho
  | stmt s =>
    refine ⟨ha.ctxIn, ha.regsSrc, ?_, ha.macros⟩
    intro w hw
    rcases mem_snoc hw with hw | rfl
    · exact ha.stmts w hw
    · have ho' : StmtAll (QFrom (a.ctx.withParams []).get) w := by rw [withParams_nil]; exact ho
      exact StmtAll.mono (fun v hv => mid_of_from ha [] hv) _ ho'
  | usepulses n => exact ⟨ha.ctxIn, ha.regsSrc, ha.stmts, ha.macros⟩
  | case => exact ha

theorem ref_step {cfg : Config} (hauto : cfg.autoload = false)
    {inject : Option (List (String × GateDef))} {F : Nat} {a a1 : Acc} {x : BSx} (hi : TopInv a)
    (ha : RefAcc a) (hx : GChild x) (hb : noBr x = true)
    (h : circuitStep cfg .off inject F a x = .ok a1) : RefAcc a1 := by
  obtain ⟨o, st1, hf, ht⟩ := step_facts hi hx hb h
  obtain ⟨hg, rfl⟩ := step_apply hauto hf hi.k ht
  exact ref_apply ha (child_from hi.ctxN hi.k hx hb hf.build) hg

theorem ref_loop {cfg : Config} (hauto : cfg.autoload = false)
    {inject : Option (List (String × GateDef))} {F : Nat} :
    ∀ (cs : List BSx) (a r : Acc), TopInv a → RefAcc a → (∀ x ∈ cs, GChild x ∧ noBr x = true) →
    circuitLoop cfg .off inject F a cs = .ok r → RefAcc r
  | [], a, r, _, ha, _, h => by
    simp only [circuitLoop, pure, Except.pure, Except.ok.injEq] at h
    subst h
    exact ha
  | x :: cs, a, r, hi, ha, hcs, h => by
    simp only [circuitLoop] at h
    obtain ⟨a1, hstep, hrest⟩ := bind_ok h
    have hx := hcs x (by simp)
    have hi1 := (step_child hauto hi hx.1 hx.2 hstep).inv
    exact ref_loop hauto cs a1 r hi1 (ref_step hauto hi ha hx.1 hx.2 hstep) (fun y hy => hcs y (by simp [hy])) hrest

/-- what is known of the qubit references of a circuit built from a program of the grammar -/
structure MidCircuit (c : Circuit) : Prop where
  body : StmtAll (ArgMid c.registers []) c.body
  macros : ∀ m ∈ c.macros, StmtAll (ArgMid c.registers (m.params.map (·.1))) m.body

theorem buildNoMemo_mid {cfg : Config} (hauto : cfg.autoload = false) {cs : List BSx} {c : Circuit}
    (hcs : ∀ e ∈ cs, GChild e ∧ noBr e = true) (h : buildNoMemo cfg (.list (.str "circuit" :: cs)) = .ok c) :
    MidCircuit c := by
  unfold buildNoMemo buildWith at h
  obtain ⟨inject, hinj, h1⟩ := bind_ok h
  simp only [buildCore] at h1
  obtain ⟨accF, hloop, h2⟩ := bind_ok h1
  simp only [pure, Except.pure, Except.ok.injEq] at h2
  subst h2
  have h0 : RefAcc (acc0 inject) := by
    refine ⟨?_, ?_, ?_, ?_⟩
    · intro n v hg; simp [Ctx.get, acc0] at hg
    · intro n src idx hq; simp [acc0] at hq
    · intro s hs; simp [acc0] at hs
    · intro m hm; simp [acc0] at hm
  have hF := ref_loop hauto cs (acc0 inject) accF (topInv_acc0 cfg hinj) h0 hcs hloop
  refine ⟨?_, hF.macros⟩
  simp only [Acc.toCircuit, StmtAll]
  exact stmtsAll_of_forall hF.stmts

/-! ## names of declarations are identifiers -/

theorem tailOK_chars : ∀ (a : List Char), TailOK a → ∀ x ∈ a, x ≠ '[' := by
  intro a ha
  unfold TailOK at ha
  fun_induction Lexer.identTail a
  · intro x hx; cases hx
  · rename_i c cs' hc r ih
    have hr : r = (cs', []) := by
      simp only [Prod.mk.injEq, List.cons.injEq, true_and] at ha
      exact Prod.ext ha.1 ha.2
    intro x hx
    rcases List.mem_cons.1 hx with rfl | hx
    · intro he; subst he; revert hc; decide
    · exact ih hr x hx
  · rename_i d ds hd r hdot ih
    have hr : r = (ds, []) := by
      simp only [Prod.mk.injEq, List.cons.injEq, true_and] at ha
      exact Prod.ext ha.1 ha.2
    intro x hx
    rcases List.mem_cons.1 hx with rfl | hx
    · exact by decide
    · rcases List.mem_cons.1 hx with rfl | hx
      · intro he; subst he; revert hd; decide
      · exact ih hr x hx
  · simp at ha
  · simp at ha
  · simp at ha

theorem legalName_nameOK {n : String} (h : LegalName n) : nameOK n = true := by
  obtain ⟨c, a, hw, hc, ha⟩ := h.1
  simp only [nameOK, hw, Bool.not_eq_true', List.contains_eq_mem, decide_eq_false_iff_not, List.mem_cons, not_or]
  refine ⟨?_, fun hmem => tailOK_chars a ha _ hmem rfl⟩
  intro he
  rw [← he] at hc
  revert hc
  decide

theorem declP_name {v : Val} {n : String} (h : DeclP LegalName v) (hr : (if isFund v then okRegister v else okMap v) = true)
    (hn : v.name? = some n) : nameOK n = true := by
  cases v <;> simp [isFund, okRegister, okMap] at hr <;> simp only [Val.name?, Option.some.injEq] at hn <;> subst hn <;>
    exact legalName_nameOK h.1

/-! ## the theorem -/

/-- a text accepted by `parseProgram`: its tree, the shape and names of the tree's children, the memo-free build -/
theorem parseProgram_tree {cfg : Config} {txt : String} {c : Circuit} (h : parseProgram cfg txt = .ok c) :
    ∃ sx cs, Parser.parseText txt = .ok sx ∧ BSx.ofSx sx = .list (.str "circuit" :: cs) ∧
      (∀ e ∈ cs, GChild e ∧ noBr e = true) ∧ (∀ e ∈ cs, SChildL e) ∧
      buildNoMemo cfg (.list (.str "circuit" :: cs)) = .ok c ∧ build cfg (BSx.ofSx sx) = .ok c := by
  unfold parseProgram parseSx at h
  cases hp : Parser.parseText txt with
  | error e => rw [hp] at h; cases h
  | ok sx =>
    rw [hp] at h
    have hpb : parseBuild cfg sx = .ok c := h
    have hb := parseBuild_build hpb
    have hnb := parseText_noBr hp
    obtain ⟨cs, he, hsafe⟩ := parseText_safe hp
    refine ⟨sx, cs, rfl, he, ?_, hsafe, ?_, hb⟩
    · intro e hmem
      rw [he] at hnb
      simp only [noBr, noBrList, Bool.and_eq_true] at hnb
      exact ⟨(hsafe e hmem).toG, noBr_mem hnb.2 hmem⟩
    · rw [← he, ← C07_memo_transparent]; exact hb

theorem macrosOrdered_of_wf {ms : List Macro} (h : ExpandMacros.wfMacrosFrom ms [] ms = true) : MacrosOrdered ms := by
  intro pre m post hs g hg
  have hw : ExpandMacros.wfMacrosFrom ms [] (pre ++ m :: post) = true := by rw [← hs]; exact h
  obtain ⟨_, hsc⟩ := ExpandMacros.wfMacrosFrom_split ms pre [] m post hw
  simpa using ExpandMacros.inScope_names _ _ _ hsc g hg

/-- **Every circuit `parse_jaqal_string` returns (`autoload_pulses=False`, any `inject_pulses`) is `ParsedLike`.** -/
theorem parsed_parserLike {cfg : Config} {txt : String} {c : Circuit} (ha : cfg.autoload = false)
    (h : parseProgram cfg txt = .ok c) : ParsedLike c := by
  obtain ⟨sx, cs, hp, he, hcs, hsafe, hnm, hb⟩ := parseProgram_tree h
  have hf := buildNoMemo_facts ha hcs hnm
  have hmid := buildNoMemo_mid ha hcs hnm
  have hsc := buildNoMemo_safe ha (fun e hm => ⟨hsafe e hm, (hcs e hm).2⟩) hnm
  have hn := C14_names_build cfg _ _ hb
  have hwf := built_wellFormed cfg _ c (Jaqal.Builder.parseText_parserSx hp) hb
  -- dictionaries
  have hnames := hn.names
  have key : ∀ (l : List Val), (∀ v ∈ l, ∃ n, v.name? = some n) → (l.map Builder.nameOf).Nodup → (l.map Val.name?).Nodup := by
    intro l hl hnd
    have : l.map Val.name? = (l.map Builder.nameOf).map some := by
      rw [List.map_map]
      apply List.map_congr_left
      intro v hv
      obtain ⟨n, hn'⟩ := hl v hv
      simp [Builder.nameOf, hn']
    rw [this]
    exact hnd.map (Option.some_injective _)
  rw [List.map_append] at hnames
  have hmn := hn.macroNames
  have hdk : DictKeys c := by
    refine { constKeys := key _ hf.namedConsts (List.Nodup.of_append_left hnames),
             regKeys := key _ hf.namedRegs (List.Nodup.of_append_right hnames), macroKeys := ?_, nativeKeys := ?_ }
    · have := (List.Nodup.of_append_left hmn).map (Option.some_injective _)
      simpa [List.map_map, Function.comp_def] using this
    · have := (List.Nodup.of_append_right hmn).map (Option.some_injective _)
      simpa [List.map_map, Function.comp_def] using this
  -- names of declarations have no `[`
  have hpr := hf.printable
  simp only [printable, Bool.and_eq_true, List.all_eq_true] at hpr
  have hregNames : ∀ v ∈ c.registers, ∀ n, v.name? = some n → nameOK n = true :=
    fun v hv n hvn => declP_name (hsc.regs v hv) (hpr.1.1.2 v hv) hvn
  have hconv : ∀ (P : List String) (v : Val), ArgMid c.registers P v → ArgRef c.registers P v := by
    intro P v hv
    cases v <;> try exact hv
    rename_i n src idx
    rcases hv with ⟨s, k, rfl, hs, hbr⟩ | ⟨hm, hc⟩
    · refine Or.inl ⟨s, k, rfl, hs, ?_⟩
      rintro ⟨x, hx, hxn⟩
      rw [hregNames x hx n hxn] at hbr
      cases hbr
    · refine Or.inr ⟨hm, ?_⟩
      rcases hc with hc | hc
      · exact Or.inl hc
      · exact Or.inr ⟨_, hc, rfl⟩
  -- callees first
  simp only [ExpandMacros.WellFormed, Bool.and_eq_true] at hwf
  exact { toDictKeys := hdk,
          bodyRef := StmtAll.mono (hconv []) _ hmid.body,
          macrosRef := fun m hm => StmtAll.mono (hconv _) _ (hmid.macros m hm),
          ordered := macrosOrdered_of_wf hwf.1.1.1.1 }

/-- … and well-formed in the sense of `C20_refl` (every qubit has a named source), hence `c == c`. -/
theorem parsed_wf {cfg : Config} {txt : String} {c : Circuit} (ha : cfg.autoload = false)
    (h : parseProgram cfg txt = .ok c) : WF c := by
  obtain ⟨sx, cs, hp, he, hcs, hsafe, hnm, hb⟩ := parseProgram_tree h
  have hf := buildNoMemo_facts ha hcs hnm
  exact { toDictKeys := (parsed_parserLike ha h).toDictKeys, consts := hf.wfConsts, regs := hf.wfRegs,
          macros := hf.wfMacros, body := hf.wfBody }

/-! ## a checkable form of `MacrosOrdered` (for examples) -/

/-- `wfMacrosFrom` without the conditions on the gate statements -/
def orderedFrom (all : List String) (pre : List String) : List Macro → Bool
  | [] => true
  | m :: r => ExpandMacros.inScope pre all m.body && orderedFrom all (pre ++ [m.name]) r

theorem orderedFrom_split (all : List String) : ∀ (pre : List Macro) (acc : List String) (m : Macro) (post : List Macro),
    orderedFrom all acc (pre ++ m :: post) = true → ExpandMacros.inScope (acc ++ pre.map (·.name)) all m.body = true
  | [], acc, m, post, h => by
    simp only [List.nil_append, orderedFrom, Bool.and_eq_true] at h
    simpa using h.1
  | x :: pre, acc, m, post, h => by
    simp only [List.cons_append, orderedFrom, Bool.and_eq_true] at h
    have := orderedFrom_split all pre (acc ++ [x.name]) m post h.2
    simpa using this

theorem macrosOrdered_of_check {ms : List Macro} (h : orderedFrom (ms.map (·.name)) [] ms = true) : MacrosOrdered ms := by
  intro pre m post hs g hg
  have hw : orderedFrom (ms.map (·.name)) [] (pre ++ m :: post) = true := by rw [← hs]; exact h
  simpa using ExpandMacros.inScope_names _ _ _ (orderedFrom_split _ pre [] m post hw) g hg

end Jaqal.RoundTrip

#print axioms Jaqal.RoundTrip.parsed_parserLike
#print axioms Jaqal.RoundTrip.parsed_wf
