import JaqalModel.Model.ExpandMacros
import JaqalModel.Spec.Sem
/-!
Value-level lemmas for C04: substitution of a call's arguments (`substVal`) commutes with evaluation
(`Sem.evalArg` and friends) when the parameters are bound to the evaluated arguments.
-/
namespace Jaqal.ExpandMacros
open Jaqal Jaqal.Sem

/-- no `Parameter` occurs anywhere inside the value -/
def noParam : Val → Bool
  | .int _ => true
  | .flt _ => true
  | .none => true
  | .str _ => true
  | .const _ v => noParam v
  | .param _ _ => false
  | .qubit _ s i => noParam s && noParam i
  | .regF _ s => noParam s
  | .regA _ s => noParam s
  | .regS _ s a b c => noParam s && noParam a && noParam b && noParam c

def isParam : Val → Bool
  | .param _ _ => true
  | _ => false

/-- the values the builder can put into a statement of a macro body: a parameter, an indexed qubit whose array
and index are each a parameter or parameter-free, or a parameter-free value (numbers, let constants, registers
and aliases of the header — Jaqal has no `map` statement inside a macro). -/
def okVal : Val → Bool
  | .param _ _ => true
  | .qubit _ s i => (isParam s || noParam s) && (isParam i || noParam i)
  | v => noParam v

theorem noParam_okVal : ∀ v, noParam v = true → okVal v = true
  | .int _, _ => rfl
  | .flt _, _ => rfl
  | .none, _ => rfl
  | .str _, _ => rfl
  | .const _ _, h => h
  | .param _ _, _ => rfl
  | .qubit _ s i, h => by simp only [noParam, Bool.and_eq_true] at h; simp [okVal, h.1, h.2]
  | .regF _ _, h => h
  | .regA _ _, h => h
  | .regS _ _ _ _ _, h => h

theorem okVal_of_or {v : Val} (h : (isParam v || noParam v) = true) : okVal v = true := by
  cases v <;> simp_all [isParam, okVal, noParam]

/-! ### parameter-free values do not see the bindings -/

theorem evalNum_noParam (ρ : Env) (b b' : Bind) : ∀ v, noParam v = true → evalNum ρ b v = evalNum ρ b' v
  | .int _, _ => rfl
  | .flt _, _ => rfl
  | .none, _ => rfl
  | .str _, _ => rfl
  | .const n v, h => by
    simp only [evalNum]; split
    · rfl
    · exact evalNum_noParam ρ b b' v h
  | .param _ _, h => by simp [noParam] at h
  | .qubit _ _ _, _ => rfl
  | .regF _ _, _ => rfl
  | .regA _ _, _ => rfl
  | .regS _ _ _ _ _, _ => rfl

theorem evalInt_noParam (ρ : Env) (b b' : Bind) (v : Val) (h : noParam v = true) : evalInt ρ b v = evalInt ρ b' v := by
  simp only [evalInt, evalNum_noParam ρ b b' v h]

/-- an optional slice bound -/
def optInt (ρ : Env) (b : Bind) (d : Int) : Val → M Int
  | .none => pure d
  | v => evalInt ρ b v

theorem evalReg_regS (ρ : Env) (b : Bind) (n : String) (src x y z : Val) :
    evalReg ρ b (.regS n src x y z) = (do
      let l ← evalReg ρ b src
      let a ← optInt ρ b 0 x
      let s ← optInt ρ b 1 z
      let e ← optInt ρ b (l.length : Int) y
      if s = 0 then .error (.jaqal "zero step") else
      (rangeList a e s).mapM (fun i => match nth? l i with
        | some q => pure q
        | none => .error (.jaqal "slice leaves its source"))) := by
  cases x <;> cases y <;> cases z <;> rfl

theorem optInt_noParam (ρ : Env) (b b' : Bind) (d : Int) (v : Val) (h : noParam v = true) :
    optInt ρ b d v = optInt ρ b' d v := by
  cases v <;> first | rfl | exact evalInt_noParam ρ b b' _ h

theorem evalReg_noParam (ρ : Env) (b b' : Bind) : ∀ v, noParam v = true → evalReg ρ b v = evalReg ρ b' v
  | .int _, _ => rfl
  | .flt _, _ => rfl
  | .none, _ => rfl
  | .str _, _ => rfl
  | .const _ _, _ => rfl
  | .param _ _, h => by simp [noParam] at h
  | .qubit _ _ _, _ => rfl
  | .regF n s, h => by simp only [evalReg, evalInt_noParam ρ b b' s h]
  | .regA n s, h => by simp only [evalReg]; exact evalReg_noParam ρ b b' s h
  | .regS n s x y z, h => by
    simp only [noParam, Bool.and_eq_true] at h
    obtain ⟨⟨⟨hs, hx⟩, hy⟩, hz⟩ := h
    rw [evalReg_regS, evalReg_regS, evalReg_noParam ρ b b' s hs]
    simp only [optInt_noParam ρ b b' _ x hx, optInt_noParam ρ b b' _ y hy, optInt_noParam ρ b b' _ z hz]

theorem evalQubit_noParam (ρ : Env) (b b' : Bind) : ∀ v, noParam v = true → evalQubit ρ b v = evalQubit ρ b' v
  | .int _, _ => rfl
  | .flt _, _ => rfl
  | .none, _ => rfl
  | .str _, _ => rfl
  | .const _ _, _ => rfl
  | .param _ _, h => by simp [noParam] at h
  | .qubit _ s i, h => by
    simp only [noParam, Bool.and_eq_true] at h
    simp only [evalQubit, evalInt_noParam ρ b b' i h.2, evalReg_noParam ρ b b' s h.1]
  | .regF _ _, _ => rfl
  | .regA _ _, _ => rfl
  | .regS _ _ _ _ _, _ => rfl

theorem evalArg_noParam (ρ : Env) (b b' : Bind) : ∀ v, noParam v = true → evalArg ρ b v = evalArg ρ b' v
  | .int _, _ => rfl
  | .flt _, _ => rfl
  | .none, _ => rfl
  | .str _, _ => rfl
  | .const n v, h => by simp only [evalArg, evalNum_noParam ρ b b' (.const n v) h]
  | .param _ _, h => by simp [noParam] at h
  | .qubit n s i, h => by simp only [evalArg, evalQubit_noParam ρ b b' (.qubit n s i) h]
  | .regF n s, h => by simp only [evalArg, evalReg_noParam ρ b b' (.regF n s) h]
  | .regA n s, h => by simp only [evalArg, evalReg_noParam ρ b b' (.regA n s) h]
  | .regS n s x y z, h => by simp only [evalArg, evalReg_noParam ρ b b' (.regS n s x y z) h]

/-! ### an evaluated argument of a given sort evaluates to the same thing in the position of that sort -/

theorem arg_num {ρ : Env} {b : Bind} {a : Val} {x : Num} (h : evalArg ρ b a = .ok (.num x)) : evalNum ρ b a = .ok x := by
  cases a with
  | int v => simpa [evalArg, evalNum, bind, Except.bind, pure, Except.pure] using h
  | flt v => simpa [evalArg, evalNum, bind, Except.bind, pure, Except.pure] using h
  | const n v =>
    simp only [evalArg, bind, Except.bind, pure, Except.pure] at h
    cases hh : evalNum ρ b (.const n v) with
    | error e => rw [hh] at h; cases h
    | ok y => rw [hh] at h; simp only [Except.ok.injEq, SArg.num.injEq] at h; rw [h]
  | param n k =>
    simp only [evalArg] at h
    cases hl : lookup b n with
    | none => rw [hl] at h; cases h
    | some y => rw [hl] at h; simp only [pure, Except.pure, Except.ok.injEq] at h; subst h; simp [evalNum, hl, pure, Except.pure]
  | qubit n s i =>
    simp only [evalArg, bind, Except.bind, pure, Except.pure] at h
    cases hh : evalQubit ρ b (.qubit n s i) with
    | error e => rw [hh] at h; cases h
    | ok y => rw [hh] at h; cases h
  | regF n s =>
    simp only [evalArg, bind, Except.bind, pure, Except.pure] at h
    cases hh : evalReg ρ b (.regF n s) with
    | error e => rw [hh] at h; cases h
    | ok y => rw [hh] at h; cases h
  | regA n s =>
    simp only [evalArg, bind, Except.bind, pure, Except.pure] at h
    cases hh : evalReg ρ b (.regA n s) with
    | error e => rw [hh] at h; cases h
    | ok y => rw [hh] at h; cases h
  | regS n s x y z =>
    simp only [evalArg, bind, Except.bind, pure, Except.pure] at h
    cases hh : evalReg ρ b (.regS n s x y z) with
    | error e => rw [hh] at h; cases h
    | ok y => rw [hh] at h; cases h
  | none => cases h
  | str s => cases h

theorem arg_reg {ρ : Env} {b : Bind} {a : Val} {qs : List FQ} (h : evalArg ρ b a = .ok (.reg qs)) : evalReg ρ b a = .ok qs := by
  cases a with
  | int v => simp [evalArg, evalNum, bind, Except.bind, pure, Except.pure] at h
  | flt v => simp [evalArg, evalNum, bind, Except.bind, pure, Except.pure] at h
  | const n v =>
    simp only [evalArg, bind, Except.bind, pure, Except.pure] at h
    cases hh : evalNum ρ b (.const n v) with
    | error e => rw [hh] at h; cases h
    | ok y => rw [hh] at h; cases h
  | param n k =>
    simp only [evalArg] at h
    cases hl : lookup b n with
    | none => rw [hl] at h; cases h
    | some y => rw [hl] at h; simp only [pure, Except.pure, Except.ok.injEq] at h; subst h; simp [evalReg, hl, pure, Except.pure]
  | qubit n s i =>
    simp only [evalArg, bind, Except.bind, pure, Except.pure] at h
    cases hh : evalQubit ρ b (.qubit n s i) with
    | error e => rw [hh] at h; cases h
    | ok y => rw [hh] at h; cases h
  | regF n s =>
    simp only [evalArg, bind, Except.bind, pure, Except.pure] at h
    cases hh : evalReg ρ b (.regF n s) with
    | error e => rw [hh] at h; cases h
    | ok y => rw [hh] at h; simp only [Except.ok.injEq, SArg.reg.injEq] at h; rw [h]
  | regA n s =>
    simp only [evalArg, bind, Except.bind, pure, Except.pure] at h
    cases hh : evalReg ρ b (.regA n s) with
    | error e => rw [hh] at h; cases h
    | ok y => rw [hh] at h; simp only [Except.ok.injEq, SArg.reg.injEq] at h; rw [h]
  | regS n s x y z =>
    simp only [evalArg, bind, Except.bind, pure, Except.pure] at h
    cases hh : evalReg ρ b (.regS n s x y z) with
    | error e => rw [hh] at h; cases h
    | ok y => rw [hh] at h; simp only [Except.ok.injEq, SArg.reg.injEq] at h; rw [h]
  | none => cases h
  | str s => cases h

theorem arg_qubit {ρ : Env} {b : Bind} {a : Val} {q : FQ} (h : evalArg ρ b a = .ok (.qubit q)) : evalQubit ρ b a = .ok q := by
  cases a with
  | int v => simp [evalArg, evalNum, bind, Except.bind, pure, Except.pure] at h
  | flt v => simp [evalArg, evalNum, bind, Except.bind, pure, Except.pure] at h
  | const n v =>
    simp only [evalArg, bind, Except.bind, pure, Except.pure] at h
    cases hh : evalNum ρ b (.const n v) with
    | error e => rw [hh] at h; cases h
    | ok y => rw [hh] at h; cases h
  | param n k =>
    simp only [evalArg] at h
    cases hl : lookup b n with
    | none => rw [hl] at h; cases h
    | some y => rw [hl] at h; simp only [pure, Except.pure, Except.ok.injEq] at h; subst h; simp [evalQubit, hl, pure, Except.pure]
  | qubit n s i =>
    simp only [evalArg, bind, Except.bind, pure, Except.pure] at h
    cases hh : evalQubit ρ b (.qubit n s i) with
    | error e => rw [hh] at h; cases h
    | ok y => rw [hh] at h; simp only [Except.ok.injEq, SArg.qubit.injEq] at h; rw [h]
  | regF n s =>
    simp only [evalArg, bind, Except.bind, pure, Except.pure] at h
    cases hh : evalReg ρ b (.regF n s) with
    | error e => rw [hh] at h; cases h
    | ok y => rw [hh] at h; cases h
  | regA n s =>
    simp only [evalArg, bind, Except.bind, pure, Except.pure] at h
    cases hh : evalReg ρ b (.regA n s) with
    | error e => rw [hh] at h; cases h
    | ok y => rw [hh] at h; cases h
  | regS n s x y z =>
    simp only [evalArg, bind, Except.bind, pure, Except.pure] at h
    cases hh : evalReg ρ b (.regS n s x y z) with
    | error e => rw [hh] at h; cases h
    | ok y => rw [hh] at h; cases h
  | none => cases h
  | str s => cases h

/-! ### the bindings of a call -/

/-- the arguments of a gate statement, evaluated in order (what `evalStmt` does with `mapM`) -/
def evalArgs (ρ : Env) (b : Bind) : List (String × Val) → M (List SArg)
  | [] => pure []
  | a :: r => do
    let x ← evalArg ρ b a.2
    let xs ← evalArgs ρ b r
    pure (x :: xs)

theorem mapM_eq_evalArgs (ρ : Env) (b : Bind) : ∀ (l : List (String × Val)),
    l.mapM (fun a => evalArg ρ b a.2) = evalArgs ρ b l
  | [] => by simp [evalArgs]
  | a :: r => by simp [evalArgs, List.mapM_cons, mapM_eq_evalArgs ρ b r]

theorem evalArgs_length {ρ : Env} {b : Bind} : ∀ {l : List (String × Val)} {vs : List SArg}, evalArgs ρ b l = .ok vs → vs.length = l.length
  | [], vs, h => by simp only [evalArgs, pure, Except.pure, Except.ok.injEq] at h; simp [← h]
  | a :: r, vs, h => by
    simp only [evalArgs, bind, Except.bind] at h
    cases hx : evalArg ρ b a.2 with
    | error e => rw [hx] at h; cases h
    | ok x =>
      rw [hx] at h; simp only at h
      cases hr : evalArgs ρ b r with
      | error e => rw [hr] at h; cases h
      | ok xs => rw [hr] at h; simp only [pure, Except.pure, Except.ok.injEq] at h; simp [← h, evalArgs_length hr]

/-- the inner bindings: parameter name ↦ evaluated argument -/
def bindOf (args : List (String × Val)) (vs : List SArg) : Bind := (args.map (·.1)).zip vs

theorem lookup_bindOf {ρ : Env} {bo : Bind} : ∀ {args : List (String × Val)} {vs : List SArg}, evalArgs ρ bo args = .ok vs →
    ∀ n, match lookupArg args n with
      | some v => ∃ a, evalArg ρ bo v = .ok a ∧ lookup (bindOf args vs) n = some a
      | none => lookup (bindOf args vs) n = none
  | [], vs, h, n => by simp [lookupArg, bindOf, lookup]
  | a :: r, vs, h, n => by
    simp only [evalArgs, bind, Except.bind] at h
    cases hx : evalArg ρ bo a.2 with
    | error e => rw [hx] at h; cases h
    | ok x =>
      rw [hx] at h; simp only at h
      cases hr : evalArgs ρ bo r with
      | error e => rw [hr] at h; cases h
      | ok xs =>
        rw [hr] at h; simp only [pure, Except.pure, Except.ok.injEq] at h; subst h
        have ih := lookup_bindOf hr n
        by_cases hn : (a.1 == n) = true
        · simp [lookupArg, bindOf, lookup, List.find?, hn, hx]
        · simp only [Bool.not_eq_true] at hn
          simp only [lookupArg, bindOf, lookup, List.map_cons, List.zip_cons_cons, List.find?, hn] at ih ⊢
          exact ih

/-! ### substitution commutes with evaluation -/

section subst
variable {ρ : Env} {bo : Bind} {args : List (String × Val)} {vs : List SArg}

theorem filterFloat_evalNum_int (ρ : Env) (b : Bind) (v : Val) : evalInt ρ b (filterFloat v) = evalInt ρ b v := by
  cases v with
  | flt d =>
    simp only [filterFloat]
    split
    · next h => simp [evalInt, evalNum, bind, Except.bind, pure, Except.pure, h]
    · rfl
  | _ => rfl

theorem getItem_ok {s i v : Val} (h : getItem s i = .ok v) : ∃ n, v = .qubit n s i := by
  unfold getItem at h
  cases s <;> simp only [Val.name?] at h <;> try (cases h; done)
  all_goals
    simp only [bind, Except.bind] at h
    split at h
    · cases h
    · split at h
      · cases h
      · simp only [pure, Except.pure, Except.ok.injEq] at h; exact ⟨_, h.symm⟩

theorem substVal_noParam : ∀ {v v' : Val}, (∀ s i n, v ≠ .qubit n s i) → noParam v = true → substVal args v = .ok v' → v' = v
  | .int _, _, _, _, h => by simp only [substVal, pure, Except.pure, Except.ok.injEq] at h; exact h.symm
  | .flt _, _, _, _, h => by simp only [substVal, pure, Except.pure, Except.ok.injEq] at h; exact h.symm
  | .none, _, _, _, h => by simp only [substVal, pure, Except.pure, Except.ok.injEq] at h; exact h.symm
  | .str _, _, _, _, h => by simp only [substVal, pure, Except.pure, Except.ok.injEq] at h; exact h.symm
  | .const _ _, _, _, _, h => by simp only [substVal, pure, Except.pure, Except.ok.injEq] at h; exact h.symm
  | .param _ _, _, _, hp, _ => by simp [noParam] at hp
  | .qubit n s i, _, hq, _, _ => absurd rfl (hq s i n)
  | .regF _ _, _, _, _, h => by simp only [substVal, pure, Except.pure, Except.ok.injEq] at h; exact h.symm
  | .regA _ _, _, _, _, h => by simp only [substVal, pure, Except.pure, Except.ok.injEq] at h; exact h.symm
  | .regS _ _ _ _ _, _, _, _, h => by simp only [substVal, pure, Except.pure, Except.ok.injEq] at h; exact h.symm

theorem substVal_param {n : String} {k : Kind} {v' : Val} (h : substVal args (.param n k) = .ok v') :
    (lookupArg args n = some v') ∨ (lookupArg args n = none ∧ v' = .param n k) := by
  simp only [substVal] at h
  cases hl : lookupArg args n with
  | none => rw [hl] at h; simp only [pure, Except.pure, Except.ok.injEq] at h; exact Or.inr ⟨rfl, h.symm⟩
  | some a =>
    rw [hl] at h; simp only at h
    split at h
    · simp only [pure, Except.pure, Except.ok.injEq] at h; exact Or.inl (by rw [h])
    · cases h

/-- inversion of `visit_NamedQubit` -/
theorem substVal_qubit_inv {n : String} {s i v' : Val} (hs : substVal args (.qubit n s i) = .ok v') :
    ∃ s' i' nm, substVal args s = .ok s' ∧ isArrayLike s' = true ∧ substVal args i = .ok i' ∧
      getItem s' (filterFloat i') = .ok v' ∧ v' = .qubit nm s' (filterFloat i') := by
  simp only [substVal, bind, Except.bind] at hs
  cases h1 : substVal args s with
  | error e => rw [h1] at hs; cases hs
  | ok s' =>
    rw [h1] at hs; simp only at hs
    cases ha : isArrayLike s' with
    | false => rw [ha] at hs; simp at hs
    | true =>
      rw [ha] at hs
      simp only [Bool.not_true, Bool.false_eq_true, if_false] at hs
      cases h2 : substVal args i with
      | error e => rw [h2] at hs; cases hs
      | ok i' =>
        rw [h2] at hs; simp only at hs
        obtain ⟨nm, hv⟩ := getItem_ok hs
        exact ⟨s', i', nm, rfl, ha, rfl, hs, hv⟩

/-- numbers (a parameter or a parameter-free value in a numeric position) -/
theorem subst_num (hvs : evalArgs ρ bo args = .ok vs) {v v' : Val} {x : Num} (hs : substVal args v = .ok v')
    (hok : (isParam v || noParam v) = true) (he : evalNum ρ (bindOf args vs) v = .ok x) : evalNum ρ bo v' = .ok x := by
  cases v with
  | param n k =>
    have hl := lookup_bindOf hvs n
    rcases substVal_param hs with h1 | ⟨h1, _⟩
    · rw [h1] at hl; obtain ⟨a, ha, hb⟩ := hl
      simp only [evalNum, hb] at he
      cases a with
      | num y => simp only [pure, Except.pure, Except.ok.injEq] at he; subst he; exact arg_num ha
      | qubit q => cases he
      | reg q => cases he
    · rw [h1] at hl; simp only at hl; simp [evalNum, hl] at he
  | qubit n s i => cases he
  | int _ => rw [substVal_noParam (by intros; simp) (by simpa [isParam] using hok) hs]; rw [← he]; exact evalNum_noParam _ _ _ _ (by simpa [isParam] using hok)
  | flt _ => rw [substVal_noParam (by intros; simp) (by simpa [isParam] using hok) hs]; rw [← he]; exact evalNum_noParam _ _ _ _ (by simpa [isParam] using hok)
  | const _ _ => rw [substVal_noParam (by intros; simp) (by simpa [isParam] using hok) hs]; rw [← he]; exact evalNum_noParam _ _ _ _ (by simpa [isParam] using hok)
  | regF _ _ => cases he
  | regA _ _ => cases he
  | regS _ _ _ _ _ => cases he
  | none => cases he
  | str _ => cases he

theorem subst_int (hvs : evalArgs ρ bo args = .ok vs) {v v' : Val} {x : Int} (hs : substVal args v = .ok v')
    (hok : (isParam v || noParam v) = true) (he : evalInt ρ (bindOf args vs) v = .ok x) : evalInt ρ bo v' = .ok x := by
  simp only [evalInt, bind, Except.bind] at he ⊢
  cases hn : evalNum ρ (bindOf args vs) v with
  | error e => rw [hn] at he; cases he
  | ok y => rw [hn] at he; rw [subst_num hvs hs hok hn]; exact he

/-- registers (a parameter or a parameter-free register in an array position) -/
theorem subst_reg (hvs : evalArgs ρ bo args = .ok vs) {v v' : Val} {qs : List FQ} (hs : substVal args v = .ok v')
    (hok : (isParam v || noParam v) = true) (he : evalReg ρ (bindOf args vs) v = .ok qs) : evalReg ρ bo v' = .ok qs := by
  cases v with
  | param n k =>
    have hl := lookup_bindOf hvs n
    rcases substVal_param hs with h1 | ⟨h1, _⟩
    · rw [h1] at hl; obtain ⟨a, ha, hb⟩ := hl
      simp only [evalReg, hb] at he
      cases a with
      | reg y => simp only [pure, Except.pure, Except.ok.injEq] at he; subst he; exact arg_reg ha
      | qubit q => cases he
      | num q => cases he
    · rw [h1] at hl; simp only at hl; simp [evalReg, hl] at he
  | qubit n s i => cases he
  | int _ => cases he
  | flt _ => cases he
  | const _ _ => cases he
  | regF _ _ => rw [substVal_noParam (by intros; simp) (by simpa [isParam] using hok) hs]; rw [← he]; exact evalReg_noParam _ _ _ _ (by simpa [isParam] using hok)
  | regA _ _ => rw [substVal_noParam (by intros; simp) (by simpa [isParam] using hok) hs]; rw [← he]; exact evalReg_noParam _ _ _ _ (by simpa [isParam] using hok)
  | regS _ _ _ _ _ => rw [substVal_noParam (by intros; simp) (by simpa [isParam] using hok) hs]; rw [← he]; exact evalReg_noParam _ _ _ _ (by simpa [isParam] using hok)
  | none => cases he
  | str _ => cases he

/-- an indexed qubit: both the array and the index are substituted, the qubit is rebuilt -/
theorem subst_qubit (hvs : evalArgs ρ bo args = .ok vs) {n : String} {s i v' : Val} {q : FQ}
    (hs : substVal args (.qubit n s i) = .ok v') (hok : okVal (.qubit n s i) = true)
    (he : evalQubit ρ (bindOf args vs) (.qubit n s i) = .ok q) : evalQubit ρ bo v' = .ok q := by
  simp only [okVal, Bool.and_eq_true] at hok
  obtain ⟨s', i', nm, h1, _, h2, _, rfl⟩ := substVal_qubit_inv hs
  simp only [evalQubit, bind, Except.bind] at he ⊢
  cases hi : evalInt ρ (bindOf args vs) i with
  | error e => rw [hi] at he; cases he
  | ok iv =>
    rw [hi] at he; simp only at he
    cases hr : evalReg ρ (bindOf args vs) s with
    | error e => rw [hr] at he; cases he
    | ok l =>
      rw [hr] at he
      rw [filterFloat_evalNum_int, subst_int hvs h2 hok.2 hi, subst_reg hvs h1 hok.1 hr]
      exact he

/-- **substitution commutes with evaluation**, for a gate argument -/
theorem subst_arg (hvs : evalArgs ρ bo args = .ok vs) {v v' : Val} {a : SArg} (hs : substVal args v = .ok v')
    (hok : okVal v = true) (he : evalArg ρ (bindOf args vs) v = .ok a) : evalArg ρ bo v' = .ok a := by
  cases v with
  | param n k =>
    have hl := lookup_bindOf hvs n
    rcases substVal_param hs with h1 | ⟨h1, _⟩
    · rw [h1] at hl; obtain ⟨a', ha, hb⟩ := hl
      simp only [evalArg, hb, pure, Except.pure, Except.ok.injEq] at he; subst he; exact ha
    · rw [h1] at hl; simp only at hl; simp [evalArg, hl] at he
  | qubit n s i =>
    simp only [evalArg, bind, Except.bind] at he
    cases hq : evalQubit ρ (bindOf args vs) (.qubit n s i) with
    | error e => rw [hq] at he; cases he
    | ok q =>
      rw [hq] at he
      have := subst_qubit hvs hs hok hq
      obtain ⟨s', i', nm, _, _, _, _, rfl⟩ := substVal_qubit_inv hs
      simp only [evalArg, bind, Except.bind, this]; exact he
  | int _ => rw [substVal_noParam (by intros; simp) hok hs]; rw [← he]; exact evalArg_noParam _ _ _ _ hok
  | flt _ => rw [substVal_noParam (by intros; simp) hok hs]; rw [← he]; exact evalArg_noParam _ _ _ _ hok
  | const _ _ => rw [substVal_noParam (by intros; simp) hok hs]; rw [← he]; exact evalArg_noParam _ _ _ _ hok
  | regF _ _ => rw [substVal_noParam (by intros; simp) hok hs]; rw [← he]; exact evalArg_noParam _ _ _ _ hok
  | regA _ _ => rw [substVal_noParam (by intros; simp) hok hs]; rw [← he]; exact evalArg_noParam _ _ _ _ hok
  | regS _ _ _ _ _ => rw [substVal_noParam (by intros; simp) hok hs]; rw [← he]; exact evalArg_noParam _ _ _ _ hok
  | none => cases he
  | str _ => cases he

/-- … for the argument list of a gate statement -/
theorem subst_args (hvs : evalArgs ρ bo args = .ok vs) : ∀ {gargs new : List (String × Val)} {ws : List SArg},
    substArgs args gargs = .ok new → (∀ a ∈ gargs, okVal a.2 = true) → evalArgs ρ (bindOf args vs) gargs = .ok ws →
    evalArgs ρ bo new = .ok ws ∧ new.map (·.1) = gargs.map (·.1)
  | [], new, ws, hs, _, he => by
    simp only [substArgs, pure, Except.pure, Except.ok.injEq] at hs; subst hs
    simpa [evalArgs] using he
  | (n, v) :: r, new, ws, hs, hok, he => by
    simp only [substArgs, bind, Except.bind] at hs
    cases h1 : substVal args v with
    | error e => rw [h1] at hs; cases hs
    | ok v' =>
      rw [h1] at hs; simp only at hs
      cases h2 : substArgs args r with
      | error e => rw [h2] at hs; cases hs
      | ok r' =>
        rw [h2] at hs; simp only [pure, Except.pure, Except.ok.injEq] at hs; subst hs
        simp only [evalArgs, bind, Except.bind] at he
        cases h3 : evalArg ρ (bindOf args vs) v with
        | error e => rw [h3] at he; cases he
        | ok x =>
          rw [h3] at he; simp only at he
          cases h4 : evalArgs ρ (bindOf args vs) r with
          | error e => rw [h4] at he; cases he
          | ok xs =>
            rw [h4] at he; simp only [pure, Except.pure, Except.ok.injEq] at he; subst he
            have ih := subst_args hvs h2 (fun a ha => hok a (by simp [ha])) h4
            have hv := subst_arg hvs h1 (hok (n, v) (by simp)) h3
            simp [evalArgs, hv, ih.1, ih.2, bind, Except.bind, pure, Except.pure]

end subst

end Jaqal.ExpandMacros
