import JaqalProofs.Lemmas.RunModel
/-!
Class lemmas for the executing stage of `RunModel.runModel` (C16, hypothesis `ExecClassOf`): on a FLAT, TYPED circuit
(`FlatT`: what `expand_macros (fill_in_let …)` returns — no macro calls, loop counts are ints, registers are sized and sliced by
ints or integer constants, qubits index such registers by ints) the used-qubit walk of `DiscoverSubcircuits`
(`UsedQubits.checkDisjoint`), `resolve_qubit` / `resolve_size` (`Resolve`) and the emulator's argument handling fail with
`JaqalError` only: no `.other` class and no `.hang`.

* `resolveReg_class`, `resolveQubit_class`, `regIndices_class`, `pyInt_size_ok` — `Resolve` on `RegT` registers;
* `visitVal_class`, `visitUsedParams_class`, `usedStmtF_class`, `checkDisjoint_class` — `UsedQubits`;
* `skelList_ok`, `skeleton_gates` — the walker skeleton exists and its gate table holds gates of the circuit;
* `gateToken_class` — `_make_subcircuit`'s handling of one gate;
* **`flatT_execClass : FlatT x = true → ExecClass x`**.
-/
namespace Jaqal.RunModel
open Jaqal Jaqal.Builder

/-! ### `Resolve` on well-typed registers -/

theorem resolveAV_intC {v : Val} (h : isIntC v = true) : ∃ i, Resolve.resolveAV [] (Resolve.avFuel []) v = .ok (.int i) := by
  cases v with
  | int i => exact ⟨i, rfl⟩
  | const n x =>
    cases x <;> simp [isIntC] at h
    rename_i i
    exact ⟨i, rfl⟩
  | _ => simp [isIntC] at h

theorem resolveAV_reg {v : Val} (h : Resolve.isRegister v = true) : Resolve.resolveAV [] (Resolve.avFuel []) v = .ok v := by
  cases v <;> simp [Resolve.isRegister] at h <;> rfl

theorem RegT_isRegister' {v : Val} (h : RegT v = true) : Resolve.isRegister v = true := by
  cases v <;> simp [RegT] at h <;> rfl

/-- the bounds check every level of `Register.resolve_qubit` makes, for a size that is an int or an integer constant -/
theorem boundsCheck_class {sz : Val} (hi : isIntC sz = true) (idx : Int) :
    Cls Good (do
      let s ← Resolve.resolveAV [] (Resolve.avFuel []) sz
      match s with
      | .int k => if idx < 0 ∨ idx ≥ k then throw (.jaqal "index-out-of-range")
      | .none => pure ()
      | _ => throw (.other "TypeError") : M Unit) := by
  obtain ⟨k, hk⟩ := resolveAV_intC hi
  intro e h
  rw [hk] at h
  simp only [bind, Except.bind] at h
  split at h
  · cases h; exact Good.jaqal _
  · cases h

theorem resolveReg_class : ∀ (r : Val), RegT r = true → ∀ idx : Int, Cls Good (Resolve.resolveReg [] r idx)
  | .regF n size, h, idx => by
    have hs : isIntC size = true := by simpa [RegT] using h
    obtain ⟨k, hk⟩ := resolveAV_intC hs
    intro e he
    simp only [Resolve.resolveReg, hk, bind, Except.bind] at he
    split at he
    · cases he; exact Good.jaqal _
    · cases he
  | .regA n src, h, idx => by
    have hs : RegT src = true := by simpa [RegT] using h
    intro e he
    rcases resolveSize_RegT (.regA n src) h with ⟨sz, hsz, hi⟩ | ⟨r, hr⟩
    · obtain ⟨k, hk⟩ := resolveAV_intC hi
      simp only [Resolve.resolveReg, hsz, hk, bind, Except.bind] at he
      by_cases hc : idx < 0 ∨ idx ≥ k
      · simp only [hc, if_true, throw_eq] at he
        cases he; exact Good.jaqal _
      · simp only [hc, if_false, pure, Except.pure] at he
        exact resolveReg_class src hs idx e he
    · simp only [Resolve.resolveReg, hr, bind, Except.bind] at he
      cases he; exact Good.jaqal _
  | .regS n src a b s, h, idx => by
    have h' := h
    simp only [RegT, Bool.and_eq_true] at h'
    obtain ⟨⟨⟨hs, ha⟩, _⟩, hst⟩ := h'
    obtain ⟨ia, hia⟩ := resolveInt_intC (startOr0_intC ha)
    obtain ⟨is, his⟩ := resolveInt_intC (stepOr1_intC hst)
    intro e he
    rcases resolveSize_RegT (.regS n src a b s) h with ⟨sz, hsz, hi⟩ | ⟨r, hr⟩
    · obtain ⟨k, hk⟩ := resolveAV_intC hi
      simp only [Resolve.resolveReg, hsz, hk, hia, his, bind, Except.bind] at he
      by_cases hc : idx < 0 ∨ idx ≥ k
      · simp only [hc, if_true, throw_eq] at he
        cases he; exact Good.jaqal _
      · simp only [hc, if_false, pure, Except.pure] at he
        exact resolveReg_class src hs _ e he
    · simp only [Resolve.resolveReg, hr, bind, Except.bind] at he
      cases he; exact Good.jaqal _
  | .int _, h, _ | .flt _, h, _ | .const _ _, h, _ | .param _ _, h, _ | .qubit _ _ _, h, _ | .none, h, _ | .str _, h, _ => by
    simp [RegT] at h

/-- `NamedQubit.resolve_qubit()` of a qubit of a well-typed register with an integer index -/
theorem resolveQubit_class {n : String} {src idx : Val} (hs : RegT src = true) (hi : isIntC idx = true) :
    Cls Good (Resolve.resolveQubit [] (.qubit n src idx)) := by
  obtain ⟨k, hk⟩ := resolveAV_intC hi
  have hr := RegT_isRegister' hs
  intro e he
  simp only [Resolve.resolveQubit, hk, resolveAV_reg hr, hr, bind, Except.bind, Bool.not_true, Bool.false_eq_true,
    if_false] at he
  exact resolveReg_class src hs k e he

theorem pyInt_intC {sz : Val} (h : isIntC sz = true) : ∃ k, UsedQubits.pyInt sz = .ok k := by
  cases sz with
  | int i => exact ⟨i, rfl⟩
  | const n x =>
    cases x <;> simp [isIntC] at h
    rename_i i
    exact ⟨i, rfl⟩
  | _ => simp [isIntC] at h

/-- `int(reg.size)` -/
theorem pyInt_size_class {r : Val} (h : RegT r = true) : Cls Good (Resolve.resolveSize [] r >>= UsedQubits.pyInt) := by
  rcases resolveSize_RegT r h with ⟨sz, hsz, hi⟩ | ⟨e, he⟩
  · obtain ⟨k, hk⟩ := pyInt_intC hi
    rw [hsz]
    intro e h'
    simp only [bind, Except.bind, hk] at h'
    cases h'
  · rw [he]
    intro e' h'
    cases h'; exact Good.jaqal _

theorem regLoop_class {r : Val} (h : RegT r = true) : ∀ (n : Nat) (i : Int), Cls Good (regLoop r i n)
  | 0, _ => Cls.pure _
  | n + 1, i => by
    unfold regLoop
    exact Cls.bind (resolveReg_class r h i) (fun _ _ => Cls.bind (regLoop_class h n (i + 1)) (fun _ _ => Cls.pure _))

theorem regIndices_class {r : Val} (h : RegT r = true) : Cls Good (regIndices r) := by
  unfold regIndices
  have := pyInt_size_class h
  intro e he
  cases hs : Resolve.resolveSize [] r with
  | error e' =>
    rw [hs] at he
    cases he
    exact this _ (by rw [hs]; rfl)
  | ok sz =>
    rw [hs] at he
    simp only [bind, Except.bind] at he
    cases hp : UsedQubits.pyInt sz with
    | error e' =>
      rw [hp] at he
      cases he
      exact this _ (by rw [hs]; simp only [bind, Except.bind]; exact hp)
    | ok k =>
      rw [hp] at he
      exact regLoop_class h _ _ e he

/-! ### Typed arguments -/

/-- a gate argument of a flat circuit: a number, a well-typed register, or a qubit of a well-typed register with an integer
index (`RegT`, `isIntC`: `JaqalProofs/Lemmas/BuilderTotal.lean`) -/
def argT : Val → Bool
  | .int _ => true
  | .flt _ => true
  | .qubit _ src idx => RegT src && isIntC idx
  | v => RegT v

theorem quantumToken_class {v : Val} (h : argT v = true) (hq : Resolve.isRegister v = true ∨ ∃ n s i, v = .qubit n s i) :
    Cls Good (quantumToken v) := by
  rcases hq with hr | ⟨n, s, i, rfl⟩
  · have ht : RegT v = true := by cases v <;> simp [Resolve.isRegister] at hr <;> simpa [argT] using h
    cases v <;> simp [Resolve.isRegister] at hr <;>
      exact Cls.bind (regIndices_class ht) (fun _ _ => Cls.pure _)
  · simp only [argT, Bool.and_eq_true] at h
    unfold quantumToken
    exact Cls.bind (resolveQubit_class h.1 h.2) (fun _ _ => Cls.pure _)

/-! ### `UsedQubits` -/

theorem visitRegLoop_class {r : Val} (h : RegT r = true) : ∀ (n : Nat) (acc : UsedQubits.Used) (i : Int),
    Cls Good (UsedQubits.visitRegLoop [] r acc i n)
  | 0, _, _ => Cls.pure _
  | n + 1, acc, i => by
    unfold UsedQubits.visitRegLoop
    exact Cls.bind (resolveReg_class r h i) (fun _ _ => visitRegLoop_class h n _ _)

theorem visitRegister_class {r : Val} (h : RegT r = true) : Cls Good (UsedQubits.visitRegister [] r) := by
  unfold UsedQubits.visitRegister
  have := pyInt_size_class h
  intro e he
  cases hs : Resolve.resolveSize [] r with
  | error e' =>
    rw [hs] at he
    cases he
    exact this _ (by rw [hs]; rfl)
  | ok sz =>
    rw [hs] at he
    simp only [bind, Except.bind] at he
    cases hp : UsedQubits.pyInt sz with
    | error e' =>
      rw [hp] at he
      cases he
      exact this _ (by rw [hs]; simp only [bind, Except.bind]; exact hp)
    | ok k =>
      rw [hp] at he
      exact visitRegLoop_class h _ _ _ e he

theorem visitVal_class {v : Val} (h : argT v = true) : Cls Good (UsedQubits.visitVal [] (UsedQubits.valFuel []) v) := by
  cases v with
  | int _ => exact Cls.pure _
  | flt _ => exact Cls.pure _
  | none => simp [argT, RegT] at h
  | str _ => simp [argT, RegT] at h
  | const _ _ => simp [argT, RegT] at h
  | param _ _ => simp [argT, RegT] at h
  | qubit n s i =>
    simp only [argT, Bool.and_eq_true] at h
    show Cls Good (UsedQubits.visitVal [] 1 (.qubit n s i))
    unfold UsedQubits.visitVal
    exact Cls.bind (resolveQubit_class h.1 h.2) (fun _ _ => Cls.pure _)
  | regF n s => exact visitRegister_class (by simpa [argT] using h)
  | regA n s => exact visitRegister_class (by simpa [argT] using h)
  | regS n s a b c => exact visitRegister_class (by simpa [argT] using h)

theorem mergeKey_class (d : Bool) (tgt : UsedQubits.Used) (kv : String × List Int) : Cls Good (UsedQubits.mergeKey d tgt kv) := by
  intro e h
  unfold UsedQubits.mergeKey at h
  simp only [] at h
  split at h
  · cases h; exact Good.jaqal _
  · cases h

theorem mergeInto_class (d : Bool) : ∀ (src tgt : UsedQubits.Used), Cls Good (UsedQubits.mergeInto d tgt src)
  | [], _ => Cls.pure _
  | kv :: rest, tgt => by
    unfold UsedQubits.mergeInto
    exact Cls.bind (mergeKey_class d tgt kv) (fun t _ => mergeInto_class d rest t)

theorem visitUsedParams_class (vp : Bool) (args : List (String × Val)) (hargs : ∀ a ∈ args, argT a.2 = true) :
    ∀ (ps : List String) (acc : UsedQubits.Used), (∀ p ∈ ps, (args.lookup p).isSome = true) →
      Cls Good (UsedQubits.visitUsedParams vp [] args acc ps)
  | [], _, _ => Cls.pure _
  | p :: rest, acc, hps => by
    unfold UsedQubits.visitUsedParams
    have hp := hps p (List.mem_cons_self ..)
    cases hl : args.lookup p with
    | none => rw [hl] at hp; cases hp
    | some a =>
      simp only []
      have ha : argT a = true := by
        have : (p, a) ∈ args := by
          clear hp hps
          induction args with
          | nil => cases hl
          | cons x xs ih =>
            obtain ⟨k, w⟩ := x
            simp only [List.lookup] at hl
            split at hl
            · rename_i heq
              cases hl
              have : p = k := by simpa using heq
              subst this; exact List.mem_cons_self ..
            · exact List.mem_cons_of_mem _ (ih (fun a ha => hargs a (List.mem_cons_of_mem _ ha)) hl)
        exact hargs _ this
      refine Cls.bind (visitVal_class ha) (fun u _ => ?_)
      split
      · exact Cls.err (Good.jaqal _)
      · exact Cls.bind (mergeInto_class false u acc) (fun acc' _ =>
          visitUsedParams_class vp args hargs rest acc' (fun q hq => hps q (List.mem_cons_of_mem _ hq)))

mutual
  /-- what the used-qubit walk needs of a statement: no macro calls, every used parameter has its (typed) argument -/
  def usedT : Stmt → Bool
    | .gate _ gd args =>
      gd.tag != .macro && (UsedQubits.usedParams gd).all (fun p => (args.lookup p).isSome) && args.all (fun a => argT a.2)
    | .block _ _ _ body => usedTList body
    | .loop _ b => usedT b
  def usedTList : List Stmt → Bool
    | [] => true
    | s :: r => usedT s && usedTList r
end

theorem foldBlock_class (visit : Stmt → M UsedQubits.Used) (d : Bool) : ∀ (body : List Stmt) (acc : UsedQubits.Used),
    (∀ s ∈ body, Cls Good (visit s)) → Cls Good (UsedQubits.foldBlock visit d acc body)
  | [], _, _ => Cls.pure _
  | s :: rest, acc, h => by
    unfold UsedQubits.foldBlock
    exact Cls.bind (h s (List.mem_cons_self ..)) (fun u _ => Cls.bind (mergeInto_class d u acc)
      (fun acc' _ => foldBlock_class visit d rest acc' (fun t ht => h t (List.mem_cons_of_mem _ ht))))

theorem usedTList_mem {l : List Stmt} (h : usedTList l = true) : ∀ s ∈ l, usedT s = true := by
  induction l with
  | nil => intro s hs; cases hs
  | cons x xs ih =>
    simp only [usedTList, Bool.and_eq_true] at h
    intro s hs
    rcases List.mem_cons.1 hs with rfl | hs
    · exact h.1
    · exact ih h.2 s hs

theorem stmtsDepth_mem {l : List Stmt} {s : Stmt} (h : s ∈ l) : UsedQubits.stmtDepth s ≤ UsedQubits.stmtsDepth l := by
  induction l with
  | nil => cases h
  | cons x xs ih =>
    simp only [UsedQubits.stmtsDepth]
    rcases List.mem_cons.1 h with rfl | h
    · exact Nat.le_max_left _ _
    · exact Nat.le_trans (ih h) (Nat.le_max_right _ _)

/-- the walk of `DiscoverSubcircuits` / `UsedQubitIndicesVisitor` over a flat typed statement: enough fuel is the nesting
depth (no macro is entered), and every failure is a `JaqalError` -/
theorem usedStmtF_class (vp : Bool) (allQ : UsedQubits.Used) (ms : List Macro) : ∀ (fuel : Nat) (s : Stmt),
    UsedQubits.stmtDepth s ≤ fuel → usedT s = true → Cls Good (UsedQubits.usedStmtF vp allQ ms fuel [] s)
  | 0, s, hd, _ => by cases s <;> simp [UsedQubits.stmtDepth] at hd
  | fuel + 1, .gate name gd args, _, ht => by
    simp only [usedT, Bool.and_eq_true, List.all_eq_true, bne_iff_ne, ne_eq] at ht
    obtain ⟨⟨htag, hps⟩, hargs⟩ := ht
    unfold UsedQubits.usedStmtF
    cases htg : gd.tag with
    | «macro» => exact absurd htg htag
    | busy => exact mergeInto_class false allQ []
    | idle => exact Cls.pure _
    | native => exact visitUsedParams_class vp args hargs _ [] hps
  | fuel + 1, .block par sub it body, hd, ht => by
    simp only [usedT] at ht
    simp only [UsedQubits.stmtDepth] at hd
    unfold UsedQubits.usedStmtF
    refine foldBlock_class _ _ body [] (fun s hs => ?_)
    exact usedStmtF_class vp allQ ms fuel s (by have := stmtsDepth_mem hs; omega) (usedTList_mem ht s hs)
  | fuel + 1, .loop c b, hd, ht => by
    simp only [usedT] at ht
    simp only [UsedQubits.stmtDepth] at hd
    unfold UsedQubits.usedStmtF
    exact usedStmtF_class vp allQ ms fuel b (by omega) ht

/-- every fundamental register is sized by a non-negative Python int -/
def regsT (regs : List Val) : Bool :=
  regs.all (fun v => match v with
    | .regF _ (.int k) => decide (0 ≤ k)
    | .regF _ _ => false
    | _ => true)

theorem allQubits_class : ∀ (regs : List Val) (acc : UsedQubits.Used), regsT regs = true → Cls Good (UsedQubits.allQubits regs acc)
  | [], _, _ => Cls.pure _
  | v :: rest, acc, h => by
    simp only [regsT, List.all_cons, Bool.and_eq_true] at h
    have hr : regsT rest = true := h.2
    cases v with
    | regF n size =>
      cases size <;> simp at h
      unfold UsedQubits.allQubits
      exact Cls.bind (Cls.pure _) (fun _ _ => allQubits_class rest _ hr)
    | int _ | flt _ | const _ _ | param _ _ | qubit _ _ _ | regA _ _ | regS _ _ _ _ _ | none | str _ =>
      unfold UsedQubits.allQubits
      exact allQubits_class rest acc hr

theorem checkDisjoint_class (x : Circuit) (hr : regsT x.registers = true) (hb : usedT x.body = true) :
    Cls Good (UsedQubits.checkDisjoint x) := by
  unfold UsedQubits.checkDisjoint UsedQubits.usedCircuitV
  refine Cls.bind (Cls.bind (allQubits_class x.registers [] hr) (fun allQ _ => ?_)) (fun _ _ => Cls.pure _)
  exact usedStmtF_class true allQ x.macros _ x.body (by unfold UsedQubits.defaultFuel; omega) hb

theorem tooLarge_class : ∀ (regs : List Val), regsT regs = true → Cls Good (tooLarge regs)
  | [], _ => Cls.pure _
  | v :: rest, h => by
    simp only [regsT, List.all_cons, Bool.and_eq_true] at h
    have hr : regsT rest = true := h.2
    cases v with
    | regF n size =>
      cases size <;> simp at h
      unfold tooLarge
      refine Cls.bind (Cls.pure _) (fun k _ => ?_)
      split
      · exact Cls.err (Good.jaqal _)
      · exact tooLarge_class rest hr
    | int _ | flt _ | const _ _ | param _ _ | qubit _ _ _ | regA _ _ | regS _ _ _ _ _ | none | str _ =>
      unfold tooLarge
      exact tooLarge_class rest hr

theorem regsT_sizeInt {x : Circuit} (h : regsT x.registers = true) : SizeInt x := by
  intro n s hf
  have hm : Val.regF n s ∈ x.registers := by
    have : Val.regF n s ∈ x.registers.filter isFundamental := by rw [hf]; simp
    exact (List.mem_filter.1 this).1
  have := List.all_eq_true.1 h _ hm
  cases s <;> simp at this
  exact ⟨_, rfl, this⟩

/-! ### The skeleton of a flat circuit -/

mutual
  /-- loop counts are Python ints and loop bodies are blocks -/
  def skelT : Stmt → Bool
    | .gate _ _ _ => true
    | .block _ _ _ body => skelTList body
    | .loop (.int _) (.block _ _ _ b) => skelTList b
    | .loop _ _ => false
  def skelTList : List Stmt → Bool
    | [] => true
    | s :: r => skelT s && skelTList r
end

mutual
  /-- the gate statements of a statement -/
  def gatesOf : Stmt → List GateRec
    | .gate n gd args => [(n, gd, args)]
    | .block _ _ _ body => gatesOfList body
    | .loop _ b => gatesOf b
  def gatesOfList : List Stmt → List GateRec
    | [] => []
    | s :: r => gatesOf s ++ gatesOfList r
end

mutual
  theorem skelStmt_ok : ∀ (s : Stmt) (tbl : List GateRec), skelT s = true →
      ∃ s' t, skelStmt tbl s = .ok (s', t) ∧ ∀ g ∈ t, g ∈ tbl ∨ g ∈ gatesOf s
    | .gate name gd args, tbl, _ => by
      simp only [skelStmt]
      split
      · exact ⟨_, _, rfl, fun g hg => by
          rcases List.mem_append.1 hg with hg | hg
          · exact Or.inl hg
          · exact Or.inr (by simpa [gatesOf] using hg)⟩
      · exact ⟨_, _, rfl, fun g hg => Or.inl hg⟩
    | .block par sub it body, tbl, h => by
      simp only [skelT] at h
      obtain ⟨b, t, hb, hg⟩ := skelList_ok body tbl h
      exact ⟨_, t, by simp only [skelStmt, hb, bind, Except.bind, pure, Except.pure]; rfl, by simpa only [gatesOf] using hg⟩
    | .loop (.int k) (.block par sub it b), tbl, h => by
      simp only [skelT] at h
      obtain ⟨b', t, hb, hg⟩ := skelList_ok b tbl h
      exact ⟨_, t, by simp only [skelStmt, loopCount, hb, bind, Except.bind, pure, Except.pure]; rfl,
        by simpa only [gatesOf] using hg⟩
    | .loop (.int _) (.gate _ _ _), _, h | .loop (.int _) (.loop _ _), _, h => by simp [skelT] at h
    | .loop (.flt _) _, _, h | .loop (.const _ _) _, _, h | .loop (.param _ _) _, _, h | .loop (.qubit _ _ _) _, _, h
    | .loop (.regF _ _) _, _, h | .loop (.regA _ _) _, _, h | .loop (.regS _ _ _ _ _) _, _, h | .loop .none _, _, h
    | .loop (.str _) _, _, h => by simp [skelT] at h
  theorem skelList_ok : ∀ (l : List Stmt) (tbl : List GateRec), skelTList l = true →
      ∃ l' t, skelList tbl l = .ok (l', t) ∧ ∀ g ∈ t, g ∈ tbl ∨ g ∈ gatesOfList l
    | [], tbl, _ => ⟨[], tbl, rfl, fun g hg => Or.inl hg⟩
    | s :: rest, tbl, h => by
      simp only [skelTList, Bool.and_eq_true] at h
      obtain ⟨s', t1, hs, hg1⟩ := skelStmt_ok s tbl h.1
      obtain ⟨r', t2, hr, hg2⟩ := skelList_ok rest t1 h.2
      refine ⟨s' :: r', t2, by simp only [skelList, hs, hr, bind, Except.bind, pure, Except.pure], ?_⟩
      intro g hg
      simp only [gatesOfList, List.mem_append]
      rcases hg2 g hg with hg | hg
      · rcases hg1 g hg with hg | hg
        · exact Or.inl hg
        · exact Or.inr (Or.inl hg)
      · exact Or.inr (Or.inr hg)
end

/-! ### One gate of `_make_subcircuit` -/

/-- positions at which the emulator resolves the argument hold a qubit or a register -/
def kindsFit : List (String × Kind) → List (String × Val) → Bool
  | (_, k) :: ps, (_, v) :: as =>
    (match k with
     | .qubit => Resolve.isRegister v || (match v with | .qubit _ _ _ => true | _ => false)
     | .register => Resolve.isRegister v || (match v with | .qubit _ _ _ => true | _ => false)
     | _ => true) && kindsFit ps as
  | _, _ => true

/-- the arguments of a gate fit the native definition the emulator looks up under the gate's name -/
def emuFit (natives : List GateDef) (name : String) (args : List (String × Val)) : Bool :=
  match natives.find? (·.name == name) with
  | none => true
  | some gd => !gd.hasUnitary || kindsFit gd.params args

theorem emuArgs_class : ∀ (ps : List (String × Kind)) (as : List (String × Val)), (∀ a ∈ as, argT a.2 = true) →
    kindsFit ps as = true → Cls Good (emuArgs ps as)
  | [], as, _, _ => by unfold emuArgs; exact Cls.pure _
  | _ :: _, [], _, _ => by unfold emuArgs; exact Cls.pure _
  | (pn, k) :: ps, (an, v) :: as, hargs, hfit => by
    simp only [kindsFit, Bool.and_eq_true] at hfit
    have hv := hargs (an, v) (List.mem_cons_self ..)
    have hq : (k = .qubit ∨ k = .register) → (Resolve.isRegister v = true ∨ ∃ n s i, v = .qubit n s i) := by
      intro hk
      have h1 := hfit.1
      rcases hk with rfl | rfl <;> simp only [Bool.or_eq_true] at h1 <;> rcases h1 with h1 | h1
      · exact Or.inl h1
      · cases v <;> simp at h1; exact Or.inr ⟨_, _, _, rfl⟩
      · exact Or.inl h1
      · cases v <;> simp at h1; exact Or.inr ⟨_, _, _, rfl⟩
    unfold emuArgs
    refine Cls.bind ?_ (fun _ _ => Cls.bind (emuArgs_class ps as (fun a ha => hargs a (List.mem_cons_of_mem _ ha)) hfit.2)
      (fun _ _ => Cls.pure _))
    unfold emuArg
    cases k with
    | none => exact Cls.err (Good.jaqal _)
    | int => exact Cls.pure _
    | float => exact Cls.pure _
    | qubit => exact quantumToken_class hv (hq (Or.inl rfl))
    | register => exact quantumToken_class hv (hq (Or.inr rfl))

theorem gateToken_class (natives : List GateDef) (name : String) (args : List (String × Val))
    (hargs : ∀ a ∈ args, argT a.2 = true) (hfit : emuFit natives name args = true) : Cls Good (gateToken natives name args) := by
  unfold gateToken
  unfold emuFit at hfit
  split
  · exact Cls.err (Good.jaqal _)
  · rename_i gd hgd
    rw [hgd] at hfit
    simp only [] at hfit
    refine Cls.bind ?_ (fun _ _ => Cls.pure _)
    unfold gateArgs
    cases hu : gd.hasUnitary with
    | false => simp only [Bool.false_eq_true, if_false]; exact Cls.pure _
    | true =>
      simp only [if_true]
      rw [hu] at hfit
      exact emuArgs_class _ _ hargs (by simpa using hfit)

/-! ### Flat typed circuits -/

/-- The circuits the executing stage works on: the body is a block; loop counts are ints and loop bodies blocks; no gate is
a macro call, every used parameter has its argument, arguments are numbers, well-typed registers or qubits of such; what the
emulator resolves is a qubit or a register; fundamental registers are sized by non-negative ints. -/
def FlatT (x : Circuit) : Bool :=
  (match x.body with
   | .block _ _ _ _ => true
   | _ => false) &&
  skelT x.body && usedT x.body && regsT x.registers &&
  (gatesOf x.body).all (fun g => emuFit x.natives g.1 g.2.2)

mutual
  theorem usedT_gates : ∀ (s : Stmt), usedT s = true → ∀ g ∈ gatesOf s, ∀ a ∈ g.2.2, argT a.2 = true
    | .gate n gd args, h, g, hg, a, ha => by
      simp only [gatesOf, List.mem_singleton] at hg
      subst hg
      simp only [usedT, Bool.and_eq_true, List.all_eq_true] at h
      exact h.2 a ha
    | .block par sub it body, h, g, hg, a, ha => by
      simp only [usedT] at h
      simp only [gatesOf] at hg
      exact usedTList_gates body h g hg a ha
    | .loop c b, h, g, hg, a, ha => by
      simp only [usedT] at h
      simp only [gatesOf] at hg
      exact usedT_gates b h g hg a ha
  theorem usedTList_gates : ∀ (l : List Stmt), usedTList l = true → ∀ g ∈ gatesOfList l, ∀ a ∈ g.2.2, argT a.2 = true
    | [], _, g, hg, _, _ => by simp [gatesOfList] at hg
    | s :: r, h, g, hg, a, ha => by
      simp only [usedTList, Bool.and_eq_true] at h
      simp only [gatesOfList, List.mem_append] at hg
      rcases hg with hg | hg
      · exact usedT_gates s h.1 g hg a ha
      · exact usedTList_gates r h.2 g hg a ha
end

/-- **(c)** a flat typed circuit satisfies `ExecClass`: the executing stage fails with `JaqalError` only -/
theorem flatT_execClass {x : Circuit} (h : FlatT x = true) : ExecClass x := by
  simp only [FlatT, Bool.and_eq_true] at h
  obtain ⟨⟨⟨⟨hblk, hskel⟩, hused⟩, hregs⟩, hemu⟩ := h
  have hsk : ∃ body tbl, skeleton x = .ok (body, tbl) ∧ ∀ g ∈ tbl, g ∈ gatesOf x.body := by
    unfold skeleton
    cases hb : x.body with
    | block par sub it b =>
      rw [hb] at hskel
      simp only [skelT] at hskel
      obtain ⟨l', t, hl, hg⟩ := skelList_ok b [] hskel
      refine ⟨l', t, hl, fun g hgt => ?_⟩
      rcases hg g hgt with hg | hg
      · cases hg
      · simpa only [gatesOf] using hg
    | gate _ _ _ => rw [hb] at hblk; cases hblk
    | loop _ _ => rw [hb] at hblk; cases hblk
  obtain ⟨body, tbl, hs, hg⟩ := hsk
  refine ⟨?_, tooLarge_class _ hregs, checkDisjoint_class x hregs hused, regsT_sizeInt hregs, ?_⟩
  · rw [hs]; exact Cls.ok _
  · intro body' tbl' hs' g hgt
    rw [hs] at hs'
    cases hs'
    have hmem := hg g hgt
    exact gateToken_class _ _ _ (usedT_gates x.body hused g hmem) (List.all_eq_true.1 hemu g hmem)

end Jaqal.RunModel
