import JaqalProofs.Lemmas.WalkSpecL
import JaqalProofs.Lemmas.WalkVisit
import JaqalProofs.Props.C12
/-!
# `TraceSerializer` yields the unrolled gate sequence of the segment `trace.start … trace.end`
-/
namespace Jaqal.Walk

def inSeg (S E : Addr) (x : GK × Addr) : Bool := !lexLt x.2 S && !lexLt E x.2
def fSE (S E : Addr) (u : List (GK × Addr)) : List GK := (u.filter (inSeg S E)).map (·.1)

theorem segment_eq (tr : Addr × Addr) (body : List Stmt) :
    segment tr body = fSE tr.1 tr.2 (unrollFromList tr.1 body [] 0) := rfl

theorem fSE_append (S E : Addr) (u v : List (GK × Addr)) : fSE S E (u ++ v) = fSE S E u ++ fSE S E v := by
  simp [fSE]

theorem fSE_replicate (S E : Addr) (n : Nat) (u : List (GK × Addr)) :
    fSE S E (List.replicate n u).flatten = (List.replicate n (fSE S E u)).flatten := by
  induction n with
  | zero => simp [fSE]
  | succ n ih => simp [List.replicate_succ, fSE_append, ih]

theorem fSE_nil_of_after (S E : Addr) (u : List (GK × Addr)) (h : ∀ x ∈ u, lexLt E x.2 = true) : fSE S E u = [] := by
  simp only [fSE, List.map_eq_nil_iff, List.filter_eq_nil_iff]
  intro x hx; simp [inSeg, h x hx]

theorem fSE_nil_of_before (S E : Addr) (u : List (GK × Addr)) (h : ∀ x ∈ u, lexLt x.2 S = true) : fSE S E u = [] := by
  simp only [fSE, List.map_eq_nil_iff, List.filter_eq_nil_iff]
  intro x hx; simp [inSeg, h x hx]

mutual
  theorem addr_unrollFromStmt (S : Addr) : ∀ (s : Stmt) (p : Addr), ∀ x ∈ unrollFromStmt S s p, p <+: x.2
    | .gate k, p, x, hx => by simp [unrollFromStmt] at hx; subst hx; exact List.prefix_refl _
    | .block _ b, p, x, hx => by
      simp only [unrollFromStmt] at hx
      obtain ⟨j, r, hr, _⟩ := addr_unrollFromList S b p 0 x hx
      exact ⟨j :: r, hr.symm⟩
    | .loop c _ b, p, x, hx => by
      simp only [unrollFromStmt] at hx
      have hx' : x ∈ unrollFromList S b p 0 := by
        split at hx
        · exact hx
        · obtain ⟨l, hl, hxl⟩ := List.mem_flatten.mp hx
          rw [(List.mem_replicate.mp hl).2] at hxl; exact hxl
      obtain ⟨j, r, hr, _⟩ := addr_unrollFromList S b p 0 x hx'
      exact ⟨j :: r, hr.symm⟩
  theorem addr_unrollFromList (S : Addr) : ∀ (l : List Stmt) (a : Addr) (i : Nat), ∀ x ∈ unrollFromList S l a i,
      ∃ j r, x.2 = a ++ j :: r ∧ i ≤ j ∧ j < i + l.length
    | [], a, i, x, hx => by simp [unrollFromList] at hx
    | s :: l, a, i, x, hx => by
      simp only [unrollFromList, List.mem_append] at hx
      rcases hx with hx | hx
      · obtain ⟨t, ht⟩ := addr_unrollFromStmt S s (a ++ [i]) x hx
        exact ⟨i, t, by rw [← ht]; simp, Nat.le_refl _, by simp⟩
      · obtain ⟨j, r, hr, hj, hj2⟩ := addr_unrollFromList S l a (i + 1) x hx
        exact ⟨j, r, hr, by omega, by simp; omega⟩
end

theorem unrollFromList_append (S : Addr) : ∀ (l₁ l₂ : List Stmt) (a : Addr) (i : Nat),
    unrollFromList S (l₁ ++ l₂) a i = unrollFromList S l₁ a i ++ unrollFromList S l₂ a (i + l₁.length)
  | [], l₂, a, i => by simp [unrollFromList]
  | s :: l₁, l₂, a, i => by
    simp only [List.cons_append, unrollFromList, unrollFromList_append S l₁ l₂ a (i + 1), List.length_cons,
      List.append_assoc]
    rw [show i + (l₁.length + 1) = i + 1 + l₁.length by omega]

theorem ge_of_prefix {p S x : Addr} (h : lexLt p S = false) (hp : p <+: x) : lexLt x S = false := by
  obtain ⟨t, rfl⟩ := hp
  cases t with
  | nil => simpa using h
  | cons m r =>
    cases h2 : lexLt (p ++ m :: r) S with
    | false => rfl
    | true => have := lexLt_trans (lexLt_prefix p m r) h2; rw [h] at this; cases this

theorem after_of_sibling {E a : Addr} {j0 j : Nat} {r : List Nat} (h : lexLt E (a ++ [j0]) = true) (hj : j0 ≤ j) :
    lexLt E (a ++ j :: r) = true := by
  by_cases hlt : j0 < j
  · exact lexLt_trans h (by have := lexLt_sibling' a j0 [] j r hlt; simpa using this)
  · have : j0 = j := by omega
    subst this
    cases r with
    | nil => exact h
    | cons m r' =>
      refine lexLt_trans h ?_
      have := lexLt_prefix (a ++ [j0]) m r'
      simpa using this

section
variable (S E : Addr)

theorem serBlockWith_started (all brk : Nat → Bool → SR) (addr : Addr) (h : lexLt E (addr ++ [0]) = false) :
    serBlockWith (S, E) all brk addr true = brk 0 true := by
  simp [serBlockWith, h]

theorem serBlockWith_unstarted (all brk : Nat → Bool → SR) (addr : Addr) (n : Nat) (r : List Nat)
    (hS : S = addr ++ n :: r) (h : lexLt E (addr ++ [n]) = false) :
    serBlockWith (S, E) all brk addr false = brk n (r == []) := by
  have h1 : (List.take addr.length S != addr) = false := by rw [hS]; simp
  have h2 : S[addr.length]? = some n := by rw [hS]; simp
  simp only [serBlockWith, h1, h2, h]
  simp only [Bool.false_eq_true, if_false]
  congr 1
  rw [hS]
  cases r <;> simp

theorem serBrk_skip : ∀ (l : List Stmt) (a : Addr) (i n : Nat) (st : Bool),
    serBrk (S, E) l a i n st = serBrk (S, E) (l.drop n) a (i + n) 0 st
  | [], a, i, n, st => by cases n <;> simp [serBrk]
  | s :: l, a, i, 0, st => by simp
  | s :: l, a, i, n + 1, st => by
    rw [serBrk]
    simp only [List.drop_succ_cons]
    rw [serBrk_skip l a (i + 1) n st, show i + 1 + n = i + (n + 1) by omega]

/-- validity of start and end below a position -/
abbrev VsSE (s : Stmt) (p : Addr) : Prop := Vs [S, E] s p
abbrev VlSE (l : List Stmt) (a : Addr) (i : Nat) : Prop := Vl [S, E] l a i

theorem not_block_addr {s : Stmt} {p x : Addr} (hx : x ∈ [S, E]) (hv : VsSE S E s p) (hs : ∀ g, s ≠ .gate g) : x ≠ p := by
  intro he
  have := hv x hx [] (by simp [he])
  cases s with
  | gate g => exact hs g rfl
  | block _ b => simp [ValidAt] at this
  | loop _ _ b => simp [ValidAt] at this

mutual
  /-- after `started`: a statement at or after the start and not after the end -/
  theorem ser_started_stmt : ∀ (s : Stmt) (p : Addr), VsSE S E s p → lexLt p S = false → lexLt E p = false →
      serStmt (S, E) s p true = some (fSE S E (unrollFromStmt S s p), true)
    | .gate k, p, _, h1, h2 => by
      simp [serStmt, unrollFromStmt, fSE, inSeg, h1, h2]
    | .block par b, p, hv, h1, h2 => by
      have hE0 : lexLt E (p ++ [0]) = false := by
        cases h : lexLt E (p ++ [0]) with
        | false => rfl
        | true => exact absurd (between_first p E h2 h) (not_block_addr S E (by simp) hv (by intro g h; cases h))
      simp only [serStmt, unrollFromStmt]
      rw [serBlockWith_started S E _ _ p hE0]
      exact ser_started_list b p 0 (Vl_of_Vs_block _ hv) (ge_of_prefix h1 (List.prefix_append p [0])) (fun _ => hE0)
    | .loop c par b, p, hv, h1, h2 => by
      have hE0 : lexLt E (p ++ [0]) = false := by
        cases h : lexLt E (p ++ [0]) with
        | false => rfl
        | true => exact absurd (between_first p E h2 h) (not_block_addr S E (by simp) hv (by intro g h; cases h))
      have hnp : p.isPrefixOf S = false := by
        cases h : p.isPrefixOf S with
        | false => rfl
        | true =>
          exfalso
          obtain ⟨t, ht⟩ := List.isPrefixOf_iff_prefix.mp h
          cases t with
          | nil => exact not_block_addr S E (x := S) (by simp) hv (by intro g h; cases h) (by simpa using ht.symm)
          | cons m r => rw [← ht, lexLt_prefix] at h1; cases h1
      have hbody := ser_started_list b p 0 (Vl_of_Vs_block _ hv) (ge_of_prefix h1 (List.prefix_append p [0])) (fun _ => hE0)
      simp only [serStmt, unrollFromStmt, hnp, if_true, Bool.false_eq_true, if_false]
      cases hc : c.toNat with
      | zero => simp [fSE]
      | succ k =>
        simp only
        rw [serBlockWith_started S E _ _ p hE0, hbody]
        simp only [fSE_replicate]
  /-- after `started`: the second `while` of `trace_statements` from statement `i` on -/
  theorem ser_started_list : ∀ (l : List Stmt) (a : Addr) (i : Nat), VlSE S E l a i → lexLt (a ++ [i]) S = false →
      (l ≠ [] → lexLt E (a ++ [i]) = false) →
      serBrk (S, E) l a i 0 true = some (fSE S E (unrollFromList S l a i), true)
    | [], a, i, _, _, _ => by simp [serBrk, unrollFromList, fSE]
    | s :: l, a, i, hv, h1, h2 => by
      have hs := ser_started_stmt s (a ++ [i]) (Vl_head _ hv) h1 (h2 (by simp))
      simp only [serBrk, hs, unrollFromList, fSE_append]
      have h1' : lexLt (a ++ [i + 1]) S = false := by
        cases h : lexLt (a ++ [i + 1]) S with
        | false => rfl
        | true =>
          have := lexLt_trans (by have := lexLt_sibling a i [] (i + 1); simpa using this : lexLt (a ++ [i]) (a ++ [i + 1]) = true) h
          rw [h1] at this; cases this
      cases hE : lexLt E (a ++ [i + 1]) with
      | true =>
        simp only [if_true]
        rw [fSE_nil_of_after S E (unrollFromList S l a (i + 1))]
        · simp
        · intro x hx
          obtain ⟨j, r, hr, hj, _⟩ := addr_unrollFromList S l a (i + 1) x hx
          rw [hr]; exact after_of_sibling hE hj
      | false =>
        simp only [Bool.false_eq_true, if_false]
        rw [ser_started_list l a (i + 1) (Vl_tail _ hv) h1' (fun _ => hE)]
end

theorem Vl_drop {starts : List Addr} : ∀ (d : Nat) (l : List Stmt) (a : Addr) (i : Nat), Vl starts l a i →
    Vl starts (l.drop d) a (i + d)
  | 0, l, a, i, h => by simpa using h
  | d + 1, [], a, i, h => by
    intro x hx j r hr
    have := h x hx (d + 1 + j) r (by rw [hr]; congr 2; omega)
    have := validAt_lt this
    simp at this
  | d + 1, s :: l, a, i, h => by
    have := Vl_drop d l a (i + 1) (Vl_tail _ h)
    rw [show i + (d + 1) = i + 1 + d by omega]
    simpa using this

/-- before `started`: a block or loop whose body contains the start -/
def UnstartedOK (s : Stmt) : Prop :=
  ∀ (p : Addr) (n : Nat) (r : List Nat), (∀ g, s ≠ .gate g) → VsSE S E s p → S = p ++ n :: r → lexLt S E = true →
    serStmt (S, E) s p false = some (fSE S E (unrollFromStmt S s p), true)

theorem unstarted_body (b : List Stmt) (hch : ∀ c ∈ b, UnstartedOK S E c) (p : Addr) (n : Nat) (r : List Nat)
    (hv : ∀ x ∈ [S, E], ∀ t, x = p ++ t → ValidAt b t) (hS : S = p ++ n :: r) (hSE : lexLt S E = true) :
    serBlockWith (S, E) (serAll (S, E) b p 0) (serBrk (S, E) b p 0) p false =
      some (fSE S E (unrollFromList S b p 0), true) := by
  have hES : lexLt E S = false := lexLt_asymm hSE
  have hEn : lexLt E (p ++ [n]) = false := by
    cases h : lexLt E (p ++ [n]) with
    | false => rfl
    | true =>
      have : lexLt E S = true := by rw [hS]; exact after_of_sibling h (Nat.le_refl _)
      rw [hES] at this; cases this
  rw [serBlockWith_unstarted S E _ _ p n r hS hEn, serBrk_skip]
  have hval : ValidAt b (n :: r) := hv S (by simp) (n :: r) hS
  have hnlt := validAt_lt hval
  have hvl : VlSE S E b p 0 := Vl_of_Vs_block _ hv
  have hsplit : b = b.take n ++ b[n] :: b.drop (n + 1) := by
    rw [List.getElem_cons_drop, List.take_append_drop]
  have hdrop : b.drop n = b[n] :: b.drop (n + 1) := (List.getElem_cons_drop hnlt).symm
  have hget : b[n]? = some b[n] := List.getElem?_eq_getElem hnlt
  have hmem : b[n] ∈ b := List.getElem_mem hnlt
  generalize b[n] = c at hsplit hdrop hget hmem
  have hvc : VsSE S E c (p ++ [n]) := Vs_of_get hvl hget
  have htake : (b.take n).length = n := by rw [List.length_take]; omega
  -- the spec: statements before the start contribute nothing
  have hspec : fSE S E (unrollFromList S b p 0) =
      fSE S E (unrollFromStmt S c (p ++ [n])) ++ fSE S E (unrollFromList S (b.drop (n + 1)) p (n + 1)) := by
    conv => lhs; rw [hsplit]
    rw [unrollFromList_append, fSE_append, htake]
    rw [fSE_nil_of_before S E (unrollFromList S (b.take n) p 0)]
    · simp [unrollFromList, fSE_append]
    · intro x hx
      obtain ⟨j, t, ht, _, hj⟩ := addr_unrollFromList S (b.take n) p 0 x hx
      rw [ht, hS]; exact lexLt_sibling' p j t n r (by omega)
  -- the first statement visited is the one containing (or being) the start
  have hchild : serStmt (S, E) c (p ++ [n]) (r == []) = some (fSE S E (unrollFromStmt S c (p ++ [n])), true) := by
    cases r with
    | nil =>
      have hSeq : S = p ++ [n] := hS
      have := ser_started_stmt S E c (p ++ [n]) hvc (by rw [← hSeq]; exact lexLt_irrefl S) (by rw [← hSeq]; exact hES)
      simpa using this
    | cons m r' =>
      have hng : ∀ g, c ≠ .gate g := by
        intro g hg; subst hg
        rcases hval with ⟨_, _, hb, _⟩ | ⟨_, _, _, hb, _⟩ <;> (rw [hget] at hb; cases hb)
      have := hch c hmem (p ++ [n]) m r' hng hvc (by rw [hS]; simp) hSE
      simpa using this
  have hSn1 : lexLt (p ++ [n + 1]) S = false := by
    apply lexLt_asymm; rw [hS, lexLt_sibling]; simp
  rw [hdrop, Nat.zero_add]
  simp only [serBrk, hchild, hspec]
  cases hE : lexLt E (p ++ [n + 1]) with
  | true =>
    simp only [if_true]
    rw [fSE_nil_of_after S E (unrollFromList S (b.drop (n + 1)) p (n + 1))]
    · simp
    · intro x hx
      obtain ⟨j, t, ht, hj, _⟩ := addr_unrollFromList S _ p (n + 1) x hx
      rw [ht]; exact after_of_sibling hE hj
  | false =>
    simp only [Bool.false_eq_true, if_false]
    have hvd : VlSE S E (b.drop (n + 1)) p (n + 1) := by
      have := Vl_drop (n + 1) b p 0 hvl; simpa using this
    rw [ser_started_list S E (b.drop (n + 1)) p (n + 1) hvd hSn1 (fun _ => hE)]

mutual
  theorem unstartedOK_stmt : ∀ s : Stmt, UnstartedOK S E s
    | .gate g => by intro p n r h; exact absurd rfl (h g)
    | .block par b => by
      intro p n r _ hv hS hSE
      simp only [serStmt, unrollFromStmt]
      exact unstarted_body S E b (unstartedOK_list b) p n r hv hS hSE
    | .loop c par b => by
      intro p n r _ hv hS hSE
      have hpre : p.isPrefixOf S = true := List.isPrefixOf_iff_prefix.mpr ⟨n :: r, hS.symm⟩
      simp only [serStmt, unrollFromStmt, hpre, if_true, Bool.false_eq_true, if_false]
      exact unstarted_body S E b (unstartedOK_list b) p n r hv hS hSE
  theorem unstartedOK_list : ∀ (l : List Stmt), ∀ c ∈ l, UnstartedOK S E c
    | [], c, h => by cases h
    | s :: l, c, h => by
      rcases List.mem_cons.mp h with h | h
      · rw [h]; exact unstartedOK_stmt s
      · exact unstartedOK_list l c h
end

/-- The serialiser on any trace whose start and end are gate addresses with start before end. -/
theorem serialize_eq_segment (body : List Stmt) (hvS : ValidAt body S) (hvE : ValidAt body E)
    (hSE : lexLt S E = true) : serialize (S, E) body = some (segment (S, E) body) := by
  cases hS : S with
  | nil => rw [hS] at hvS; simp [ValidAt] at hvS
  | cons n r =>
    have hv : VsSE S E (.block false body) [] := by
      intro x hx t ht
      simp only [List.nil_append] at ht
      simp only [List.mem_cons, List.mem_nil_iff, or_false] at hx
      rcases hx with rfl | rfl
      · rw [← ht]; exact hvS
      · rw [← ht]; exact hvE
    have := unstartedOK_stmt S E (.block false body) [] n r (by intro g h; cases h) hv (by simpa using hS) hSE
    rw [← hS]
    simp only [serialize, this, segment_eq, unrollFromStmt, Option.map_some]

end

theorem gaddrs_cons_sub (t : Tok) (l : List Tok) : ∀ a, a ∈ gaddrs l → a ∈ gaddrs (t :: l) := by
  intro a h
  cases t <;> simp [gaddrs, h]

theorem pairs_mem : ∀ (toks : List Tok) (c : Option Addr) (s e : Addr), (s, e) ∈ pairsFrom toks c →
    ∃ pre post, toks = pre ++ .g .meas e :: post ∧ (s ∈ gaddrs pre ∨ c = some s)
  | [], c, s, e, h => by simp [pairsFrom] at h
  | .g .prep a :: r, c, s, e, h => by
    simp only [pairsFrom] at h
    obtain ⟨pre, post, hr, hs⟩ := pairs_mem r (some a) s e h
    refine ⟨.g .prep a :: pre, post, by simp [hr], Or.inl ?_⟩
    rcases hs with hs | hs
    · exact gaddrs_cons_sub _ _ _ hs
    · cases hs; simp [gaddrs]
  | .g .meas a :: r, some s0, s, e, h => by
    simp only [pairsFrom, List.mem_cons] at h
    rcases h with h | h
    · cases h; exact ⟨[], r, rfl, Or.inr rfl⟩
    · obtain ⟨pre, post, hr, hs⟩ := pairs_mem r none s e h
      rcases hs with hs | hs
      · exact ⟨.g .meas a :: pre, post, by simp [hr], Or.inl (gaddrs_cons_sub _ _ _ hs)⟩
      · cases hs
  | .g .meas a :: r, none, s, e, h => by
    simp only [pairsFrom] at h
    obtain ⟨pre, post, hr, hs⟩ := pairs_mem r none s e h
    rcases hs with hs | hs
    · exact ⟨.g .meas a :: pre, post, by simp [hr], Or.inl (gaddrs_cons_sub _ _ _ hs)⟩
    · cases hs
  | .g (.other i) a :: r, c, s, e, h => by
    simp only [pairsFrom] at h
    obtain ⟨pre, post, hr, hs⟩ := pairs_mem r c s e h
    exact ⟨.g (.other i) a :: pre, post, by simp [hr], hs.imp (gaddrs_cons_sub _ _ _) id⟩
  | .lopen n :: r, c, s, e, h => by
    simp only [pairsFrom] at h
    obtain ⟨pre, post, hr, hs⟩ := pairs_mem r c s e h
    exact ⟨.lopen n :: pre, post, by simp [hr], hs.imp (gaddrs_cons_sub _ _ _) id⟩
  | .lclose :: r, c, s, e, h => by
    simp only [pairsFrom] at h
    obtain ⟨pre, post, hr, hs⟩ := pairs_mem r c s e h
    exact ⟨.lclose :: pre, post, by simp [hr], hs.imp (gaddrs_cons_sub _ _ _) id⟩

/-- What `discover` guarantees about each trace: start and end are gate addresses, start before end. -/
theorem discover_trace (body : List Stmt) (traces : List (Addr × Addr)) (h : discover body = .ok traces)
    (tr : Addr × Addr) (htr : tr ∈ traces) :
    ValidAt body tr.1 ∧ ValidAt body tr.2 ∧ lexLt tr.1 tr.2 = true := by
  rw [C12_count body traces h] at htr
  obtain ⟨s, e⟩ := tr
  obtain ⟨pre, post, hsplit, hs⟩ := pairs_mem (flatToks body) none s e htr
  have hs : s ∈ gaddrs pre := by rcases hs with hs | hs; exact hs; cases hs
  have hsorted := flat_sorted_list body [] 0
  have hg : gaddrs (flatList body [] 0) = gaddrs pre ++ e :: gaddrs post := by
    have : flatList body [] 0 = pre ++ .g .meas e :: post := hsplit
    rw [this, gaddrs_append]; rfl
  rw [hg] at hsorted
  have hlt : lexLt s e = true := (List.pairwise_append.mp hsorted).2.2 s hs e (by simp)
  have hvalid : ∀ x ∈ gaddrs (flatList body [] 0), ValidAt body x := by
    intro x hx
    obtain ⟨j, r, rfl, _, hv⟩ := flat_addr_list body [] 0 x hx
    simpa using hv
  exact ⟨hvalid s (by rw [hg]; simp [hs]), hvalid e (by rw [hg]; simp), hlt⟩

/-- **C03 (serialisation half).** For every trace returned by `discover`, `TraceSerializer(trace)` yields
(does not raise) exactly the gates of the segment `trace.start … trace.end` of the program as executed
from `trace.start`: statements before the start are skipped; a loop whose body contains the start is
entered once, whatever its count; every loop entered after the start is repeated `max(count, 0)` times
(up to `trace.end` in each repetition, should the end lie inside it — which for a discovered trace only
happens for count ≤ 1); nothing after `trace.end` is yielded. -/
theorem C03_serialize (body : List Stmt) (traces : List (Addr × Addr)) (h : discover body = .ok traces)
    (tr : Addr × Addr) (htr : tr ∈ traces) : serialize tr body = some (segment tr body) := by
  obtain ⟨h1, h2, h3⟩ := discover_trace body traces h tr htr
  exact serialize_eq_segment tr.1 tr.2 body h1 h2 h3

/-! ### Non-vacuity -/

/-- `loop 5 { P; M; P; loop 2 { X1 }; loop 0 { X2 }; < { X3; M } >; P }` : for the second trace the loop
around the start is entered once (and only from the start on), the inner loop twice, the zero loop not
at all, and nothing after the end. -/
def exSer : List Stmt :=
  [.loop 5 false [.gate .prep, .gate .meas, .gate .prep, .loop 2 false [.gate (.other 1)],
     .loop 0 false [.gate (.other 2)], .block true [.block false [.gate (.other 3), .gate .meas]], .gate .prep]]

example : discover exSer = .ok [([0, 0], [0, 1]), ([0, 2], [0, 5, 0, 1])] := by rfl
example : serialize ([0, 2], [0, 5, 0, 1]) exSer = some [.prep, .other 1, .other 1, .other 3, .meas] := by rfl
example : segment ([0, 2], [0, 5, 0, 1]) exSer = [.prep, .other 1, .other 1, .other 3, .meas] := by rfl

end Jaqal.Walk

#print axioms Jaqal.Walk.C03_serialize
