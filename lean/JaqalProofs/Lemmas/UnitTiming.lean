import JaqalModel.Model.UnitTiming
import JaqalModel.Spec.Schedule
/-! Lemmas for C19 (unit-timing normalisation). -/
namespace Jaqal.UnitTiming

/-! ## induction principles following the recursion of `normalize` -/

theorem normalize_block_ok {par sub it body v} (h : normalize (.block par sub it body) = .ok v) :
    ∃ vs, normalizeList body = .ok vs ∧
      ((par = false ∧ v = .block false sub it (unrollAll vs)) ∨
       (par = true ∧ ∃ chunks, chunkBlocks vs = .ok chunks ∧ v = .block false sub it (chunks.map emit))) := by
  simp only [normalize] at h
  split at h
  · cases h
  · rename_i vs hvs
    refine ⟨vs, hvs, ?_⟩
    cases par
    · simp at h; exact .inl ⟨rfl, h.symm⟩
    · simp only [if_true] at h
      split at h
      · cases h
      · rename_i chunks hc
        simp at h; exact .inr ⟨rfl, chunks, hc, h.symm⟩

theorem normalizeList_cons_ok {s ss out} (h : normalizeList (s :: ss) = .ok out) :
    ∃ v vs, normalize s = .ok v ∧ normalizeList ss = .ok vs ∧ out = v :: vs := by
  simp only [normalizeList] at h
  split at h
  · cases h
  · rename_i v hv
    split at h
    · cases h
    · rename_i vs hvs
      simp at h; exact ⟨v, vs, hv, hvs, h.symm⟩

/-- Rule induction over successful runs. -/
theorem normalize_ok_rec {P : Stmt → Stmt → Prop} {Q : List Stmt → List Stmt → Prop}
    (gate : ∀ i, P (.gate i) (.gate i))
    (loop : ∀ n b, P (.loop n b) (.loop n b))
    (seq : ∀ sub it body vs, normalizeList body = .ok vs → Q body vs →
      P (.block false sub it body) (.block false sub it (unrollAll vs)))
    (par : ∀ sub it body vs chunks, normalizeList body = .ok vs → Q body vs →
      chunkBlocks vs = .ok chunks → P (.block true sub it body) (.block false sub it (chunks.map emit)))
    (nil : Q [] [])
    (cons : ∀ s ss v vs, normalize s = .ok v → normalizeList ss = .ok vs → P s v → Q ss vs →
      Q (s :: ss) (v :: vs)) :
    (∀ s v, normalize s = .ok v → P s v) ∧ (∀ l vs, normalizeList l = .ok vs → Q l vs) := by
  have key : ∀ s : Stmt, (∀ v, normalize s = .ok v → P s v) := by
    intro s
    induction s using Stmt.rec (motive_2 := fun l => ∀ vs, normalizeList l = .ok vs → Q l vs) with
    | gate i => intro v h; simp [normalize] at h; subst h; exact gate i
    | loop n b _ => intro v h; simp [normalize] at h; subst h; exact loop n b
    | block p sub it body ih =>
      intro v h
      obtain ⟨vs, hvs, h | h⟩ := normalize_block_ok h
      · obtain ⟨rfl, rfl⟩ := h; exact seq _ _ _ _ hvs (ih vs hvs)
      · obtain ⟨rfl, chunks, hc, rfl⟩ := h; exact par _ _ _ _ _ hvs (ih vs hvs) hc
    | nil => rename_i vs h; simp [normalizeList] at h; subst h; exact nil
    | cons s ss ihs ihss =>
      rename_i out h
      obtain ⟨v, vs, hv, hvs, rfl⟩ := normalizeList_cons_ok h
      exact cons _ _ _ _ hv hvs (ihs v hv) (ihss vs hvs)
  refine ⟨key, ?_⟩
  intro l
  induction l with
  | nil => intro vs h; simp [normalizeList] at h; subst h; exact nil
  | cons s ss ih =>
    intro out h
    obtain ⟨v, vs, hv, hvs, rfl⟩ := normalizeList_cons_ok h
    exact cons _ _ _ _ hv hvs (key s v hv) (ih vs hvs)

/-! ## the schedule functions and list operations -/

theorem durSum_append (a b : List Stmt) : durSum (a ++ b) = durSum a + durSum b := by
  induction a with
  | nil => simp [durSum]
  | cons x xs ih => simp [durSum, ih, Nat.add_assoc]

theorem durMax_append (a b : List Stmt) : durMax (a ++ b) = max (durMax a) (durMax b) := by
  induction a with
  | nil => simp [durMax]
  | cons x xs ih => simp [durMax, ih, Nat.max_assoc]

theorem timesSeq_append (t : Nat) (a b : List Stmt) :
    timesSeq t (a ++ b) = timesSeq t a ++ timesSeq (t + durSum a) b := by
  induction a generalizing t with
  | nil => simp [timesSeq, durSum]
  | cons x xs ih => simp [timesSeq, durSum, ih, Nat.add_assoc]

theorem timesPar_append (t : Nat) (a b : List Stmt) :
    timesPar t (a ++ b) = timesPar t a ++ timesPar t b := by
  induction a with
  | nil => simp [timesPar]
  | cons x xs ih => simp [timesPar, ih]

theorem subsList_append (d : Nat) (a b : List Stmt) :
    subsList d (a ++ b) = subsList d a ++ subsList d b := by
  induction a with
  | nil => simp [subsList]
  | cons x xs ih => simp [subsList, ih]

theorem isFlatList_append (a b : List Stmt) :
    isFlatList (a ++ b) = (isFlatList a && isFlatList b) := by
  induction a with
  | nil => simp [isFlatList]
  | cons x xs ih => simp [isFlatList, ih, Bool.and_assoc]

theorem isFlatList_iff (l : List Stmt) : isFlatList l = true ↔ ∀ x ∈ l, isFlatItem x = true := by
  induction l with
  | nil => simp [isFlatList]
  | cons x xs ih => simp [isFlatList, ih]

/-! `unroll` is invisible to the schedule, the durations and the frame -/

theorem timesSeq_unroll (t : Nat) (v : Stmt) : timesSeq t (unroll v) = times t v := by
  cases v with
  | gate i => simp [unroll, timesSeq]
  | loop n b => simp [unroll, timesSeq]
  | block par sub it body =>
    cases par <;> cases sub <;> simp [unroll, timesSeq, times]

theorem durSum_unroll (v : Stmt) : durSum (unroll v) = dur v := by
  cases v with
  | gate i => simp [unroll, durSum]
  | loop n b => simp [unroll, durSum]
  | block par sub it body =>
    cases par <;> cases sub <;> simp [unroll, durSum, dur]

theorem subsList_unroll (d : Nat) (v : Stmt) : subsList d (unroll v) = subs d v := by
  cases v with
  | gate i => simp [unroll, subsList]
  | loop n b => simp [unroll, subsList]
  | block par sub it body =>
    cases par <;> cases sub <;> simp [unroll, subsList, subs]

theorem durSum_unrollAll (vs : List Stmt) : durSum (unrollAll vs) = durSum vs := by
  induction vs with
  | nil => simp [unrollAll]
  | cons v vs ih => simp [unrollAll, durSum, durSum_append, durSum_unroll, ih]

theorem timesSeq_unrollAll (t : Nat) (vs : List Stmt) : timesSeq t (unrollAll vs) = timesSeq t vs := by
  induction vs generalizing t with
  | nil => simp [unrollAll]
  | cons v vs ih =>
    simp [unrollAll, timesSeq_append, timesSeq, timesSeq_unroll, durSum_unroll, ih]

theorem subsList_unrollAll (d : Nat) (vs : List Stmt) : subsList d (unrollAll vs) = subsList d vs := by
  induction vs with
  | nil => simp [unrollAll]
  | cons v vs ih => simp [unrollAll, subsList_append, subsList, subsList_unroll, ih]

/-! ## `zip_longest` -/

theorem zipCons_forall {α} {P : α → Prop} (l : List α) (rows : List (List α))
    (hl : ∀ x ∈ l, P x) (hr : ∀ r ∈ rows, ∀ x ∈ r, P x) :
    ∀ r ∈ zipCons l rows, ∀ x ∈ r, P x := by
  induction l generalizing rows with
  | nil => simpa [zipCons] using hr
  | cons a as ih =>
    cases rows with
    | nil =>
      intro r hr' x hx
      simp only [zipCons, List.mem_cons] at hr'
      rcases hr' with rfl | hr'
      · simp at hx; subst hx; exact hl _ (by simp)
      · exact ih [] (fun y hy => hl y (by simp [hy])) (by simp) r hr' x hx
    | cons r0 rs =>
      intro r hr' x hx
      simp only [zipCons, List.mem_cons] at hr'
      rcases hr' with rfl | hr'
      · simp only [List.mem_cons] at hx
        rcases hx with rfl | hx
        · exact hl _ (by simp)
        · exact hr r0 (by simp) x hx
      · exact ih rs (fun y hy => hl y (by simp [hy])) (fun r hr'' => hr r (by simp [hr''])) r hr' x hx

theorem zipLongest_forall {α} {P : α → Prop} (S : List (List α)) (h : ∀ l ∈ S, ∀ x ∈ l, P x) :
    ∀ r ∈ zipLongest S, ∀ x ∈ r, P x := by
  induction S with
  | nil => simp [zipLongest]
  | cons l ls ih =>
    simp only [zipLongest]
    exact zipCons_forall l _ (h l (by simp)) (ih (fun l' hl' => h l' (by simp [hl'])))

theorem zipCons_ne_nil {α} (l : List α) (rows : List (List α)) (hr : ∀ r ∈ rows, r ≠ []) :
    ∀ r ∈ zipCons l rows, r ≠ [] := by
  induction l generalizing rows with
  | nil => simpa [zipCons] using hr
  | cons a as ih =>
    cases rows with
    | nil =>
      intro r hr'
      simp only [zipCons, List.mem_cons] at hr'
      rcases hr' with rfl | hr'
      · simp
      · exact ih [] (by simp) r hr'
    | cons r0 rs =>
      intro r hr'
      simp only [zipCons, List.mem_cons] at hr'
      rcases hr' with rfl | hr'
      · simp
      · exact ih rs (fun r hr'' => hr r (by simp [hr''])) r hr'

theorem zipLongest_ne_nil {α} (S : List (List α)) : ∀ r ∈ zipLongest S, r ≠ [] := by
  induction S with
  | nil => simp [zipLongest]
  | cons l ls ih => simp only [zipLongest]; exact zipCons_ne_nil l _ ih

theorem zipCons_length {α} (l : List α) (rows : List (List α)) :
    (zipCons l rows).length = max l.length rows.length := by
  induction l generalizing rows with
  | nil => simp [zipCons]
  | cons a as ih =>
    cases rows with
    | nil => simp [zipCons, ih]
    | cons r0 rs => simp [zipCons, ih]

/-! ## `chunkOf` -/

/-- what `chunk.extend / chunk.append` contributes -/
def cells : Stmt → List Stmt
  | .block _ _ _ body => body
  | s => [s]

/-- statements the chunk loop accepts -/
def chunkable : Stmt → Bool
  | .gate _ => true
  | .block par _ _ _ => par
  | .loop _ _ => false

def isLoop : Stmt → Bool
  | .loop _ _ => true
  | _ => false

/-- a non-parallel block -/
def isSeqBlock : Stmt → Bool
  | .block par _ _ _ => !par
  | _ => false

theorem chunkOf_ok {row c} (h : chunkOf row = .ok c) :
    (∀ x ∈ row, chunkable x = true) ∧ c = row.flatMap cells := by
  induction row generalizing c with
  | nil => simp [chunkOf] at h; simp [h]
  | cons x xs ih =>
    cases x with
    | gate i =>
      simp only [chunkOf] at h
      cases hx : chunkOf xs with
      | error e => rw [hx] at h; cases h
      | ok c' =>
        rw [hx] at h; simp [Except.map] at h
        obtain ⟨h1, h2⟩ := ih hx
        subst h; subst h2
        exact ⟨by simpa [chunkable] using h1, by simp [cells]⟩
    | loop n b => simp [chunkOf] at h
    | block par sub it body =>
      cases par with
      | false => simp [chunkOf] at h
      | true =>
        simp only [chunkOf, if_true] at h
        cases hx : chunkOf xs with
        | error e => rw [hx] at h; cases h
        | ok c' =>
          rw [hx] at h; simp [Except.map] at h
          obtain ⟨h1, h2⟩ := ih hx
          subst h; subst h2
          exact ⟨by simpa [chunkable] using h1, by simp [cells]⟩

theorem chunkOf_of_chunkable {row} (h : ∀ x ∈ row, chunkable x = true) :
    chunkOf row = .ok (row.flatMap cells) := by
  induction row with
  | nil => simp [chunkOf]
  | cons x xs ih =>
    have ih' := ih (fun y hy => h y (by simp [hy]))
    have hx := h x (by simp)
    cases x with
    | gate i => simp [chunkOf, ih', Except.map, cells]
    | loop n b => simp [chunkable] at hx
    | block par sub it body =>
      simp [chunkable] at hx; subst hx
      simp [chunkOf, ih', Except.map, cells]

theorem chunkOf_error {row e} (h : chunkOf row = .error e) :
    ∃ x ∈ row, (e = .loopInParallel ∧ isLoop x = true) ∨ (e = .assertion ∧ isSeqBlock x = true) := by
  induction row with
  | nil => simp [chunkOf] at h
  | cons x xs ih =>
    cases x with
    | gate i =>
      simp only [chunkOf] at h
      cases hx : chunkOf xs with
      | ok c' => rw [hx] at h; simp [Except.map] at h
      | error e' =>
        rw [hx] at h; simp [Except.map] at h; subst h
        obtain ⟨y, hy, hh⟩ := ih hx
        exact ⟨y, by simp [hy], hh⟩
    | loop n b =>
      simp [chunkOf] at h; subst h
      exact ⟨.loop n b, by simp, .inl ⟨rfl, rfl⟩⟩
    | block par sub it body =>
      cases par with
      | false =>
        simp [chunkOf] at h; subst h
        exact ⟨.block false sub it body, by simp, .inr ⟨rfl, rfl⟩⟩
      | true =>
        simp only [chunkOf, if_true] at h
        cases hx : chunkOf xs with
        | ok c' => rw [hx] at h; simp [Except.map] at h
        | error e' =>
          rw [hx] at h; simp [Except.map] at h; subst h
          obtain ⟨y, hy, hh⟩ := ih hx
          exact ⟨y, by simp [hy], hh⟩

theorem chunkRows_ok {rows cs} (h : chunkRows rows = .ok cs) :
    (∀ r ∈ rows, ∀ x ∈ r, chunkable x = true) ∧ cs = rows.map (fun r => r.flatMap cells) := by
  induction rows generalizing cs with
  | nil => simp [chunkRows] at h; simp [h]
  | cons r rs ih =>
    simp only [chunkRows] at h
    split at h
    · cases h
    · rename_i c hc
      split at h
      · cases h
      · rename_i cs' hcs
        simp at h; subst h
        obtain ⟨h1, h2⟩ := chunkOf_ok hc
        obtain ⟨h3, h4⟩ := ih hcs
        subst h2; subst h4
        refine ⟨?_, by simp⟩
        intro r' hr'
        simp only [List.mem_cons] at hr'
        rcases hr' with rfl | hr'
        · exact h1
        · exact h3 r' hr'

theorem chunkRows_of_chunkable {rows} (h : ∀ r ∈ rows, ∀ x ∈ r, chunkable x = true) :
    chunkRows rows = .ok (rows.map (fun r => r.flatMap cells)) := by
  induction rows with
  | nil => simp [chunkRows]
  | cons r rs ih =>
    simp [chunkRows, chunkOf_of_chunkable (h r (by simp)), ih (fun r' hr' => h r' (by simp [hr']))]

theorem chunkRows_error {rows e} (h : chunkRows rows = .error e) :
    ∃ r ∈ rows, ∃ x ∈ r,
      (e = .loopInParallel ∧ isLoop x = true) ∨ (e = .assertion ∧ isSeqBlock x = true) := by
  induction rows with
  | nil => simp [chunkRows] at h
  | cons r rs ih =>
    simp only [chunkRows] at h
    split at h
    · rename_i e' he
      simp at h; subst h
      obtain ⟨x, hx, hh⟩ := chunkOf_error he
      exact ⟨r, by simp, x, hx, hh⟩
    · split at h
      · rename_i e' he
        simp at h; subst h
        obtain ⟨r', hr', x, hx, hh⟩ := ih he
        exact ⟨r', by simp [hr'], x, hx, hh⟩
      · cases h

/-! ## schedule of a chunk -/

theorem timesPar_cells {x} (h : chunkable x = true) (t : Nat) : timesPar t (cells x) = times t x := by
  cases x with
  | gate i => simp [cells, timesPar]
  | loop n b => simp [chunkable] at h
  | block par sub it body => simp [chunkable] at h; subst h; simp [cells, times]

theorem durMax_cells {x} (h : chunkable x = true) : durMax (cells x) = dur x := by
  cases x with
  | gate i => simp [cells, durMax]
  | loop n b => simp [chunkable] at h
  | block par sub it body => simp [chunkable] at h; subst h; simp [cells, dur]

theorem timesPar_flatMap_cells {row} (h : ∀ x ∈ row, chunkable x = true) (t : Nat) :
    timesPar t (row.flatMap cells) = timesPar t row := by
  induction row with
  | nil => simp
  | cons x xs ih =>
    simp [List.flatMap_cons, timesPar_append, timesPar, timesPar_cells (h x (by simp)),
      ih (fun y hy => h y (by simp [hy]))]

theorem durMax_flatMap_cells {row} (h : ∀ x ∈ row, chunkable x = true) :
    durMax (row.flatMap cells) = durMax row := by
  induction row with
  | nil => simp
  | cons x xs ih =>
    simp [List.flatMap_cons, durMax_append, durMax, durMax_cells (h x (by simp)),
      ih (fun y hy => h y (by simp [hy]))]

theorem times_emit (t : Nat) (c : List Stmt) : times t (emit c) = timesPar t c := by
  match c with
  | [] => simp [emit, times]
  | [s] => simp [emit, timesPar]
  | s :: s' :: r => simp [emit, times]

theorem dur_emit (c : List Stmt) : dur (emit c) = durMax c := by
  match c with
  | [] => simp [emit, dur]
  | [s] => simp [emit, durMax]
  | s :: s' :: r => simp [emit, dur]

/-- row `k` runs at step `t + k` -/
def rowTimes : Nat → List (List Stmt) → List (Nat × Nat)
  | _, [] => []
  | t, r :: rs => timesPar t r ++ rowTimes (t + 1) rs

theorem durSum_eq_length {l : List Stmt} (h : ∀ x ∈ l, dur x = 1) : durSum l = l.length := by
  induction l with
  | nil => simp [durSum]
  | cons x xs ih =>
    simp [durSum, h x (by simp), ih (fun y hy => h y (by simp [hy]))]; omega

theorem durMax_eq_one {l : List Stmt} (hne : l ≠ []) (h : ∀ x ∈ l, dur x = 1) : durMax l = 1 := by
  induction l with
  | nil => exact absurd rfl hne
  | cons x xs ih =>
    cases xs with
    | nil => simp [durMax, h x (by simp)]
    | cons y ys =>
      have := ih (by simp) (fun z hz => h z (by simp [hz]))
      simp [durMax] at this ⊢
      simp [h x (by simp), this]

theorem zipCons_times (t : Nat) (l : List Stmt) (rows : List (List Stmt)) (hl : ∀ x ∈ l, dur x = 1) :
    (rowTimes t (zipCons l rows)).Perm (timesSeq t l ++ rowTimes t rows) := by
  induction l generalizing t rows with
  | nil => simp [zipCons, timesSeq]
  | cons a as ih =>
    have ha : dur a = 1 := hl a (by simp)
    have has : ∀ x ∈ as, dur x = 1 := fun y hy => hl y (by simp [hy])
    cases rows with
    | nil =>
      simp only [zipCons, rowTimes, timesPar, timesSeq, ha, List.append_nil]
      have := ih (t + 1) [] has
      simp only [rowTimes, List.append_nil] at this
      exact List.Perm.append_left _ this
    | cons r rs =>
      simp only [zipCons, rowTimes, timesPar, timesSeq, ha]
      have := ih (t + 1) rs has
      -- times a ++ timesPar r ++ X  ~  times a ++ timesSeq as ++ timesPar r ++ rowTimes rs
      rw [List.append_assoc, List.append_assoc]
      refine List.Perm.append_left _ ?_
      refine (List.Perm.append_left _ this).trans ?_
      rw [← List.append_assoc, ← List.append_assoc]
      exact List.Perm.append_right _ List.perm_append_comm

theorem zipLongest_times (t : Nat) (S : List (List Stmt)) (h : ∀ l ∈ S, ∀ x ∈ l, dur x = 1) :
    (rowTimes t (zipLongest S)).Perm (S.flatMap (timesSeq t)) := by
  induction S with
  | nil => simp [zipLongest, rowTimes]
  | cons l ls ih =>
    simp only [zipLongest, List.flatMap_cons]
    exact (zipCons_times t l _ (h l (by simp))).trans
      (List.Perm.append_left _ (ih (fun l' hl' => h l' (by simp [hl']))))

theorem timesSeq_emit_rows (t : Nat) (rows : List (List Stmt))
    (h1 : ∀ r ∈ rows, ∀ x ∈ r, chunkable x = true) (h2 : ∀ r ∈ rows, durMax r = 1) :
    timesSeq t ((rows.map (fun r => r.flatMap cells)).map emit) = rowTimes t rows ∧
    durSum ((rows.map (fun r => r.flatMap cells)).map emit) = rows.length := by
  induction rows generalizing t with
  | nil => simp [timesSeq, rowTimes, durSum]
  | cons r rs ih =>
    have hr := h1 r (by simp)
    have ih' := fun t => ih t (fun r' hr' => h1 r' (by simp [hr'])) (fun r' hr' => h2 r' (by simp [hr']))
    have hd : dur (emit (r.flatMap cells)) = 1 := by
      rw [dur_emit, durMax_flatMap_cells hr]; exact h2 r (by simp)
    simp only [List.map_cons, timesSeq, rowTimes, durSum, hd, times_emit, timesPar_flatMap_cells hr,
      (ih' (t + 1)).1, (ih' t).2, List.length_cons]
    exact ⟨trivial, by omega⟩

theorem timesPar_eq_flatMap (t : Nat) (vs : List Stmt) :
    timesPar t vs = (vs.map unroll).flatMap (timesSeq t) := by
  induction vs with
  | nil => simp [timesPar]
  | cons v vs ih => simp [timesPar, timesSeq_unroll, ih]

theorem zipLongest_unroll_length (vs : List Stmt) (h : ∀ v ∈ vs, ∀ x ∈ unroll v, dur x = 1) :
    (zipLongest (vs.map unroll)).length = durMax vs := by
  induction vs with
  | nil => simp [zipLongest, durMax]
  | cons v vs ih =>
    simp only [List.map_cons, zipLongest, zipCons_length, durMax,
      ih (fun v' hv' => h v' (by simp [hv']))]
    rw [← durSum_eq_length (h v (by simp)), durSum_unroll]

/-! ## nothing is lost or duplicated by `zip_longest` -/

theorem zipCons_flatten_perm {α} (l : List α) (rows : List (List α)) :
    (zipCons l rows).flatten.Perm (l ++ rows.flatten) := by
  induction l generalizing rows with
  | nil => simp [zipCons]
  | cons a as ih =>
    cases rows with
    | nil =>
      simp only [zipCons, List.flatten_cons, List.flatten_nil, List.append_nil]
      have := ih []
      simp only [List.flatten_nil, List.append_nil] at this
      simpa using this
    | cons r rs =>
      simp only [zipCons, List.flatten_cons, List.cons_append]
      refine List.Perm.cons _ ?_
      refine (List.Perm.append_left _ (ih rs)).trans ?_
      rw [← List.append_assoc, ← List.append_assoc]
      exact List.Perm.append_right _ List.perm_append_comm

theorem zipLongest_flatten_perm {α} (S : List (List α)) : (zipLongest S).flatten.Perm S.flatten := by
  induction S with
  | nil => simp [zipLongest]
  | cons l ls ih =>
    simp only [zipLongest, List.flatten_cons]
    exact (zipCons_flatten_perm l _).trans (List.Perm.append_left _ ih)

theorem mem_zipLongest_of_mem {α} {S : List (List α)} {l x} (hl : l ∈ S) (hx : x ∈ l) :
    ∃ r ∈ zipLongest S, x ∈ r := by
  have : x ∈ S.flatten := List.mem_flatten.2 ⟨l, hl, hx⟩
  exact List.mem_flatten.1 ((zipLongest_flatten_perm S).mem_iff.2 this)

/-! ## the normal form -/

/-- shape of what `normalize` returns: gate and loop unchanged, every block sequential with a flat body -/
def isNF : Stmt → Bool
  | .gate _ => true
  | .loop _ _ => true
  | .block par _ _ body => !par && isFlatList body

theorem unroll_flat {v} (h : isNF v = true) : isFlatList (unroll v) = true := by
  cases v with
  | gate i => simp [unroll, isFlatList, isFlatItem]
  | loop n b => simp [unroll, isFlatList, isFlatItem]
  | block par sub it body =>
    simp [isNF] at h
    obtain ⟨rfl, hb⟩ := h
    cases sub <;> simp [unroll, isFlatList, isFlatItem, hb]

theorem unrollAll_flat {vs} (h : ∀ v ∈ vs, isNF v = true) : isFlatList (unrollAll vs) = true := by
  induction vs with
  | nil => simp [unrollAll, isFlatList]
  | cons v vs ih =>
    simp [unrollAll, isFlatList_append, unroll_flat (h v (by simp)), ih (fun v' hv' => h v' (by simp [hv']))]

theorem allGates_dur {l : List Stmt} (h : l.all isGate = true) : ∀ x ∈ l, dur x = 1 := by
  intro x hx
  have := List.all_eq_true.1 h x hx
  cases x <;> simp [isGate] at this; simp [dur]

theorem allGates_subs {l : List Stmt} (h : l.all isGate = true) (d : Nat) : subsList d l = [] := by
  induction l with
  | nil => simp [subsList]
  | cons x xs ih =>
    simp only [List.all_cons, Bool.and_eq_true] at h
    obtain ⟨h1, h2⟩ := h
    cases x <;> simp [isGate] at h1
    simp [subsList, subs, ih h2]

/-- what is known about a statement that is an item of a normalised sequence and is accepted by the
chunk loop: it is a gate or a group of gates -/
theorem unit_facts {x} (hf : isFlatItem x = true) (hc : chunkable x = true) :
    dur x = 1 ∧ (∀ d, subs d x = []) ∧ (cells x).all isGate = true ∧ cells x ≠ [] := by
  cases x with
  | gate i => simp [dur, subs, cells, isGate]
  | loop n b => simp [chunkable] at hc
  | block par sub it body =>
    simp [chunkable] at hc; subst hc
    cases sub with
    | true => simp [isFlatItem] at hf
    | false =>
      simp [isFlatItem] at hf
      obtain ⟨⟨_, hg⟩, hlen⟩ := hf
      have hg' : body.all isGate = true := by simpa using hg
      have hne : body ≠ [] := by intro h; subst h; simp at hlen
      refine ⟨?_, ?_, ?_, ?_⟩
      · simp [dur]; exact durMax_eq_one hne (allGates_dur hg')
      · intro d; simp [subs, allGates_subs hg']
      · simpa [cells] using hg
      · simpa [cells] using hne

theorem emit_gates_flat {c : List Stmt} (hg : c.all isGate = true) (hne : c ≠ []) :
    isFlatItem (emit c) = true ∧ ∀ d, subs d (emit c) = [] := by
  match c, hg, hne with
  | [], _, hne => exact absurd rfl hne
  | [s], hg, _ =>
    cases s <;> simp [isGate] at hg
    simp [emit, isFlatItem, subs]
  | s :: s' :: r, hg, _ =>
    refine ⟨?_, fun d => ?_⟩
    · simp only [emit, isFlatItem]; simp at hg ⊢; exact hg
    · simp only [emit, subs]; simpa using allGates_subs hg d

theorem flatMap_cells_gates {r : List Stmt}
    (h : ∀ x ∈ r, isFlatItem x = true ∧ chunkable x = true) (hne : r ≠ []) :
    (r.flatMap cells).all isGate = true ∧ r.flatMap cells ≠ [] := by
  constructor
  · rw [List.all_eq_true]
    intro g hg
    obtain ⟨x, hx, hgx⟩ := List.mem_flatMap.1 hg
    exact List.all_eq_true.1 (unit_facts (h x hx).1 (h x hx).2).2.2.1 g hgx
  · cases r with
    | nil => exact absurd rfl hne
    | cons x xs =>
      have := (unit_facts (h x (by simp)).1 (h x (by simp)).2).2.2.2
      simp [List.flatMap_cons, this]

/-- The parallel step: zipping the streams of normalised children. -/
theorem par_step {vs chunks} (hnf : ∀ v ∈ vs, isNF v = true) (hc : chunkBlocks vs = .ok chunks) :
    isFlatList (chunks.map emit) = true ∧
    durSum (chunks.map emit) = durMax vs ∧
    (∀ t, (timesSeq t (chunks.map emit)).Perm (timesPar t vs)) ∧
    (∀ d, subsList d (chunks.map emit) = [] ∧ subsList d vs = []) ∧
    (∀ v ∈ vs, ∀ x ∈ unroll v, chunkable x = true) := by
  unfold chunkBlocks at hc
  obtain ⟨hrows, rfl⟩ := chunkRows_ok hc
  -- every element of every stream is a flat item, and it is chunkable because it sits in some row
  have hS : ∀ l ∈ vs.map unroll, ∀ x ∈ l, isFlatItem x = true ∧ chunkable x = true := by
    intro l hl x hx
    obtain ⟨v, hv, rfl⟩ := List.mem_map.1 hl
    refine ⟨(isFlatList_iff _).1 (unroll_flat (hnf v hv)) x hx, ?_⟩
    obtain ⟨r, hr, hxr⟩ := mem_zipLongest_of_mem hl hx
    exact hrows r hr x hxr
  have hR := zipLongest_forall (P := fun x => isFlatItem x = true ∧ chunkable x = true) _ hS
  have hne := zipLongest_ne_nil (vs.map unroll)
  have hdurS : ∀ l ∈ vs.map unroll, ∀ x ∈ l, dur x = 1 :=
    fun l hl x hx => (unit_facts (hS l hl x hx).1 (hS l hl x hx).2).1
  have hdurR : ∀ r ∈ zipLongest (vs.map unroll), durMax r = 1 :=
    fun r hr => durMax_eq_one (hne r hr) (fun x hx => (unit_facts (hR r hr x hx).1 (hR r hr x hx).2).1)
  have hemit := fun t => timesSeq_emit_rows t (zipLongest (vs.map unroll)) hrows hdurR
  refine ⟨?_, ?_, ?_, ?_, ?_⟩
  · rw [isFlatList_iff]
    intro y hy
    simp only [List.map_map, List.mem_map, Function.comp] at hy
    obtain ⟨r, hr, rfl⟩ := hy
    obtain ⟨h1, h2⟩ := flatMap_cells_gates (hR r hr) (hne r hr)
    exact (emit_gates_flat h1 h2).1
  · rw [(hemit 0).2]
    exact zipLongest_unroll_length vs (fun v hv x hx => hdurS _ (List.mem_map.2 ⟨v, hv, rfl⟩) x hx)
  · intro t
    rw [(hemit t).1, timesPar_eq_flatMap]
    exact zipLongest_times t _ hdurS
  · intro d
    constructor
    · have : ∀ y ∈ (zipLongest (vs.map unroll)).map (fun r => r.flatMap cells) |>.map emit,
          subs d y = [] := by
        intro y hy
        simp only [List.map_map, List.mem_map, Function.comp] at hy
        obtain ⟨r, hr, rfl⟩ := hy
        obtain ⟨h1, h2⟩ := flatMap_cells_gates (hR r hr) (hne r hr)
        exact (emit_gates_flat h1 h2).2 d
      generalize (List.map emit _) = out at this
      induction out with
      | nil => simp [subsList]
      | cons y ys ih =>
        simp [subsList, this y (by simp), ih (fun z hz => this z (by simp [hz]))]
    · have : ∀ l : List Stmt, (∀ x ∈ l, subs d x = []) → subsList d l = [] := by
        intro l hl
        induction l with
        | nil => simp [subsList]
        | cons y ys ih => simp [subsList, hl y (by simp), ih (fun z hz => hl z (by simp [hz]))]
      apply this
      intro v hv
      rw [← subsList_unroll]
      apply this
      intro x hx
      have hl : unroll v ∈ vs.map unroll := List.mem_map.2 ⟨v, hv, rfl⟩
      exact (unit_facts (hS _ hl x hx).1 (hS _ hl x hx).2).2.1 d
  · intro v hv x hx
    exact (hS _ (List.mem_map.2 ⟨v, hv, rfl⟩) x hx).2

/-! ## the main invariant -/

/-- relation between a statement and its normalisation -/
def Inv (s v : Stmt) : Prop :=
  isNF v = true ∧ dur v = dur s ∧ (∀ t, (times t v).Perm (times t s)) ∧ (∀ d, subs d v = subs d s)

/-- relation between a list of statements and the list of their normalisations -/
def InvList (l vs : List Stmt) : Prop :=
  (∀ v ∈ vs, isNF v = true) ∧ durSum vs = durSum l ∧ durMax vs = durMax l ∧
  (∀ t, (timesSeq t vs).Perm (timesSeq t l)) ∧ (∀ t, (timesPar t vs).Perm (timesPar t l)) ∧
  (∀ d, subsList d vs = subsList d l)

theorem normalize_inv :
    (∀ s v, normalize s = .ok v → Inv s v) ∧ (∀ l vs, normalizeList l = .ok vs → InvList l vs) := by
  apply normalize_ok_rec
  · intro i; exact ⟨rfl, rfl, fun _ => List.Perm.refl _, fun _ => rfl⟩
  · intro n b; exact ⟨rfl, rfl, fun _ => List.Perm.refl _, fun _ => rfl⟩
  · -- sequential block
    intro sub it body vs _ ⟨hnf, hsum, _, hseq, _, hsubs⟩
    refine ⟨?_, ?_, ?_, ?_⟩
    · simp [isNF, unrollAll_flat hnf]
    · simp [dur, durSum_unrollAll, hsum]
    · intro t; simp only [times, Bool.false_eq_true, if_false, timesSeq_unrollAll]; exact hseq t
    · intro d; simp only [subs, subsList_unrollAll, hsubs]
  · -- parallel block
    intro sub it body vs chunks _ ⟨hnf, _, hmax, _, hpar, hsubs⟩ hc
    obtain ⟨h1, h2, h3, h4, _⟩ := par_step hnf hc
    refine ⟨?_, ?_, ?_, ?_⟩
    · simp [isNF, h1]
    · simp [dur, h2, hmax]
    · intro t; simp only [times, Bool.false_eq_true, if_false, if_true]; exact (h3 t).trans (hpar t)
    · intro d
      simp only [subs, (h4 d).1, (h4 (d + 1)).1, ← hsubs, (h4 d).2, (h4 (d + 1)).2]
  · exact ⟨by simp, rfl, rfl, fun _ => List.Perm.refl _, fun _ => List.Perm.refl _, fun _ => rfl⟩
  · intro s ss v vs _ _ ⟨hnf, hd, ht, hs⟩ ⟨hnfs, hsum, hmax, hseq, hpar, hsubs⟩
    refine ⟨?_, ?_, ?_, ?_, ?_, ?_⟩
    · intro v' hv'
      simp only [List.mem_cons] at hv'
      rcases hv' with rfl | hv'
      · exact hnf
      · exact hnfs v' hv'
    · simp [durSum, hd, hsum]
    · simp [durMax, hd, hmax]
    · intro t; simp only [timesSeq, hd]; exact (ht t).append (hseq _)
    · intro t; simp only [timesPar]; exact (ht t).append (hpar t)
    · intro d; simp only [subsList, hs, hsubs]

/-! ## a normalised sequence is a fixed point -/

theorem normalizeList_gates {gs : List Stmt} (h : gs.all isGate = true) : normalizeList gs = .ok gs := by
  induction gs with
  | nil => simp [normalizeList]
  | cons x xs ih =>
    simp only [List.all_cons, Bool.and_eq_true] at h
    obtain ⟨h1, h2⟩ := h
    cases x <;> simp [isGate] at h1
    simp [normalizeList, normalize, ih h2]

theorem map_unroll_gates {gs : List Stmt} (h : gs.all isGate = true) :
    gs.map unroll = gs.map (fun g => [g]) := by
  apply List.map_congr_left
  intro x hx
  have := List.all_eq_true.1 h x hx
  cases x <;> simp [isGate] at this
  simp [unroll]

theorem zipLongest_singletons {α} (x : α) (l : List α) :
    zipLongest ((x :: l).map (fun y => [y])) = [x :: l] := by
  induction l generalizing x with
  | nil => simp [zipLongest, zipCons]
  | cons y ys ih =>
    have := ih y
    simp only [List.map_cons, zipLongest] at this ⊢
    rw [this]
    simp [zipCons]

theorem flatMap_cells_gates_id {gs : List Stmt} (h : gs.all isGate = true) : gs.flatMap cells = gs := by
  induction gs with
  | nil => simp
  | cons x xs ih =>
    simp only [List.all_cons, Bool.and_eq_true] at h
    obtain ⟨h1, h2⟩ := h
    cases x <;> simp [isGate] at h1
    simp [List.flatMap_cons, cells, ih h2]

theorem chunkBlocks_gates {x y : Stmt} {r : List Stmt} (hg : (x :: y :: r).all isGate = true) :
    chunkBlocks (x :: y :: r) = .ok [x :: y :: r] := by
  have hch : ∀ z ∈ x :: y :: r, chunkable z = true := by
    intro z hz
    have := List.all_eq_true.1 hg z hz
    cases z <;> simp [isGate] at this
    rfl
  unfold chunkBlocks
  rw [map_unroll_gates hg, zipLongest_singletons]
  simp only [chunkRows, chunkOf_of_chunkable hch, flatMap_cells_gates_id hg]

theorem normalize_group {gs : List Stmt} (hg : gs.all isGate = true) (hlen : 2 ≤ gs.length) :
    normalize (.block true false 1 gs) = .ok (.block false false 1 [.block true false 1 gs]) := by
  match gs, hg, hlen with
  | x :: y :: r, hg, _ =>
    simp only [normalize, normalizeList_gates hg, chunkBlocks_gates hg, if_true,
      List.map_cons, List.map_nil, emit]

theorem normalize_flat_fix (s : Stmt) :
    isFlatItem s = true → ∃ v, normalize s = .ok v ∧ unroll v = [s] := by
  induction s using Stmt.rec
    (motive_2 := fun l => isFlatList l = true → ∃ vs, normalizeList l = .ok vs ∧ unrollAll vs = l) with
  | gate i => intro _; exact ⟨_, rfl, rfl⟩
  | loop n b _ => intro _; exact ⟨.loop n b, by simp [normalize], rfl⟩
  | block par sub it body ih =>
    intro h
    cases sub with
    | true =>
      simp [isFlatItem] at h
      obtain ⟨rfl, hb⟩ := h
      obtain ⟨vs, hvs, hu⟩ := ih hb
      exact ⟨.block false true it body, by simp [normalize, hvs, hu], by simp [unroll]⟩
    | false =>
      simp [isFlatItem] at h
      obtain ⟨⟨⟨rfl, rfl⟩, hg⟩, hlen⟩ := h
      have hg' : body.all isGate = true := by simpa using hg
      exact ⟨_, normalize_group hg' hlen, by simp [unroll]⟩
  | nil => exact ⟨[], rfl, rfl⟩
  | cons s ss ihs ihss =>
    rename_i h
    simp only [isFlatList, Bool.and_eq_true] at h
    obtain ⟨v, hv, huv⟩ := ihs h.1
    obtain ⟨vs, hvs, huvs⟩ := ihss h.2
    exact ⟨v :: vs, by simp [normalizeList, hv, hvs], by simp [unrollAll, huv, huvs]⟩

theorem normalizeList_flat_fix (l : List Stmt) :
    isFlatList l = true → ∃ vs, normalizeList l = .ok vs ∧ unrollAll vs = l := by
  induction l with
  | nil => intro _; exact ⟨[], rfl, rfl⟩
  | cons s ss ih =>
    intro h
    simp only [isFlatList, Bool.and_eq_true] at h
    obtain ⟨v, hv, huv⟩ := normalize_flat_fix s h.1
    obtain ⟨vs, hvs, huvs⟩ := ih h.2
    exact ⟨v :: vs, by simp [normalizeList, hv, hvs], by simp [unrollAll, huv, huvs]⟩

/-! ## when does it fail -/

theorem unrollAll_eq_flatten (vs : List Stmt) : unrollAll vs = (vs.map unroll).flatten := by
  induction vs with
  | nil => rfl
  | cons v vs ih => simp [unrollAll, ih]

theorem chunkable_not_bad {x} (h : chunkable x = true) : isLoop x = false ∧ isSeqBlock x = false := by
  cases x with
  | gate i => exact ⟨rfl, rfl⟩
  | loop n b => simp [chunkable] at h
  | block par sub it body => simp [chunkable] at h; subst h; exact ⟨rfl, rfl⟩

theorem emit_not_bad {c : List Stmt} (hg : c.all isGate = true) :
    isLoop (emit c) = false ∧ isSeqBlock (emit c) = false := by
  match c, hg with
  | [], _ => exact ⟨rfl, rfl⟩
  | [s], hg =>
    cases s <;> simp [isGate] at hg
    exact ⟨rfl, rfl⟩
  | s :: s' :: r, _ => exact ⟨rfl, rfl⟩

mutual
theorem loopInPar_mono : ∀ s, loopInPar false s = true → loopInPar true s = true
  | .gate _, h => by simp [loopInPar] at h
  | .loop _ _, _ => rfl
  | .block par _ _ body, h => by
    cases par with
    | true => simpa [loopInPar] using h
    | false => simp only [loopInPar, Bool.or_false] at h ⊢; exact anyLoopInPar_mono body h
theorem anyLoopInPar_mono : ∀ l, anyLoopInPar false l = true → anyLoopInPar true l = true
  | [], h => by simp [anyLoopInPar] at h
  | s :: r, h => by
    simp only [anyLoopInPar, Bool.or_eq_true] at h ⊢
    rcases h with h | h
    · exact .inl (loopInPar_mono s h)
    · exact .inr (anyLoopInPar_mono r h)
end

mutual
theorem subInPar_mono : ∀ s, subInPar false s = true → subInPar true s = true
  | .gate _, h => by simp [subInPar] at h
  | .loop _ _, h => by simp [subInPar] at h
  | .block par sub _ body, h => by
    cases par with
    | true => simp only [subInPar, Bool.or_true, Bool.false_and, Bool.false_or] at h; simp [subInPar, h]
    | false =>
      simp only [subInPar, Bool.or_false, Bool.false_and, Bool.false_or] at h
      simp [subInPar, anySubInPar_mono body h]
theorem anySubInPar_mono : ∀ l, anySubInPar false l = true → anySubInPar true l = true
  | [], h => by simp [anySubInPar] at h
  | s :: r, h => by
    simp only [anySubInPar, Bool.or_eq_true] at h ⊢
    rcases h with h | h
    · exact .inl (subInPar_mono s h)
    · exact .inr (anySubInPar_mono r h)
end

/-- what a successful run says about the defects, through the stream the result exposes to an
enclosing parallel block -/
def DInv (loopF subF subT loopT : Bool) (stream : List Stmt) : Prop :=
  loopF = false ∧ subF = false ∧ stream.any isSeqBlock = subT ∧
  (stream.any isLoop = true → loopT = true) ∧
  (loopT = true → stream.any isLoop = true ∨ stream.any isSeqBlock = true)

theorem normalize_dinv :
    (∀ s v, normalize s = .ok v →
      DInv (loopInPar false s) (subInPar false s) (subInPar true s) (loopInPar true s) (unroll v)) ∧
    (∀ l vs, normalizeList l = .ok vs →
      (∀ v ∈ vs, isNF v = true) ∧
      DInv (anyLoopInPar false l) (anySubInPar false l) (anySubInPar true l) (anyLoopInPar true l)
        (unrollAll vs)) := by
  apply normalize_ok_rec
  · intro i; simp [DInv, loopInPar, subInPar, unroll, isSeqBlock, isLoop]
  · intro n b; simp [DInv, loopInPar, subInPar, unroll, isSeqBlock, isLoop]
  · intro sub it body vs _ ⟨_, h1, h2, h3, h4, h5⟩
    cases sub with
    | false =>
      refine ⟨?_, ?_, ?_, ?_, ?_⟩
      · simpa [loopInPar] using h1
      · simpa [subInPar] using h2
      · simpa [subInPar, unroll] using h3
      · simpa [loopInPar, unroll] using h4
      · simpa [loopInPar, unroll] using h5
    | true =>
      refine ⟨?_, ?_, ?_, ?_, ?_⟩
      · simpa [loopInPar] using h1
      · simpa [subInPar] using h2
      · simp [subInPar, unroll, isSeqBlock]
      · simp [unroll, isLoop]
      · intro _; simp [unroll, isSeqBlock]
  · intro sub it body vs chunks hvs ⟨hnf, h1, h2, h3, h4, h5⟩ hc
    obtain ⟨_, _, _, _, hch⟩ := par_step hnf hc
    -- no loop and no sequential block in the streams
    have hno : (unrollAll vs).any isLoop = false ∧ (unrollAll vs).any isSeqBlock = false := by
      rw [unrollAll_eq_flatten]
      constructor <;>
      · rw [Bool.eq_false_iff]
        intro h
        obtain ⟨x, hx, hb⟩ := List.any_eq_true.1 h
        obtain ⟨l, hl, hxl⟩ := List.mem_flatten.1 hx
        obtain ⟨v, hv, rfl⟩ := List.mem_map.1 hl
        have := chunkable_not_bad (hch v hv x hxl)
        simp [this] at hb
    have hsT : anySubInPar true body = false := by rw [← h3]; exact hno.2
    have hlT : anyLoopInPar true body = false := by
      rw [Bool.eq_false_iff]; intro h
      rcases h5 h with h | h
      · simp [hno.1] at h
      · simp [hno.2] at h
    -- the emitted chunks
    have hout : (chunks.map emit).any isLoop = false ∧ (chunks.map emit).any isSeqBlock = false := by
      unfold chunkBlocks at hc
      obtain ⟨hrows, rfl⟩ := chunkRows_ok hc
      have hS : ∀ l ∈ vs.map unroll, ∀ x ∈ l, isFlatItem x = true ∧ chunkable x = true := by
        intro l hl x hx
        obtain ⟨v, hv, rfl⟩ := List.mem_map.1 hl
        exact ⟨(isFlatList_iff _).1 (unroll_flat (hnf v hv)) x hx, hch v hv x hx⟩
      have hR := zipLongest_forall (P := fun x => isFlatItem x = true ∧ chunkable x = true) _ hS
      have hne := zipLongest_ne_nil (vs.map unroll)
      constructor <;>
      · rw [Bool.eq_false_iff]
        intro h
        obtain ⟨y, hy, hb⟩ := List.any_eq_true.1 h
        simp only [List.map_map, List.mem_map, Function.comp] at hy
        obtain ⟨r, hr, rfl⟩ := hy
        have := emit_not_bad (flatMap_cells_gates (hR r hr) (hne r hr)).1
        simp [this] at hb
    refine ⟨?_, ?_, ?_, ?_, ?_⟩
    · simpa [loopInPar] using hlT
    · simpa [subInPar] using hsT
    · cases sub with
      | true => simp [subInPar, unroll, isSeqBlock]
      | false => simp [subInPar, unroll, hout.2, hsT]
    · cases sub with
      | true => simp [unroll, isLoop]
      | false => simp [unroll, hout.1]
    · simp [loopInPar, hlT]
  · simp [DInv, anyLoopInPar, anySubInPar, unrollAll]
  · intro s ss v vs hv _ ⟨a1, a2, a3, a4, a5⟩ ⟨hnfs, b1, b2, b3, b4, b5⟩
    refine ⟨?_, ?_, ?_, ?_, ?_, ?_⟩
    · intro v' hv'
      simp only [List.mem_cons] at hv'
      rcases hv' with rfl | hv'
      · exact (normalize_inv.1 s _ hv).1
      · exact hnfs v' hv'
    · simp [anyLoopInPar, a1, b1]
    · simp [anySubInPar, a2, b2]
    · simp [anySubInPar, unrollAll, a3, b3]
    · intro h
      simp only [unrollAll, List.any_append, Bool.or_eq_true] at h
      simp only [anyLoopInPar, Bool.or_eq_true]
      rcases h with h | h
      · exact .inl (a4 h)
      · exact .inr (b4 h)
    · intro h
      simp only [anyLoopInPar, Bool.or_eq_true] at h
      simp only [unrollAll, List.any_append, Bool.or_eq_true]
      rcases h with h | h
      · rcases a5 h with h | h
        · exact .inl (.inl h)
        · exact .inr (.inl h)
      · rcases b5 h with h | h
        · exact .inl (.inr h)
        · exact .inr (.inr h)

/-- the reason attached to an exception -/
def Defect (e : Err) (hasLoop hasSub : Bool) : Prop :=
  (e = .loopInParallel ∧ hasLoop = true) ∨ (e = .assertion ∧ hasSub = true)

theorem normalize_block_error {par sub it body e} (h : normalize (.block par sub it body) = .error e) :
    normalizeList body = .error e ∨
    (par = true ∧ ∃ vs, normalizeList body = .ok vs ∧ chunkBlocks vs = .error e) := by
  simp only [normalize] at h
  split at h
  · rename_i e' he; simp at h; subst h; exact .inl he
  · rename_i vs hvs
    cases par with
    | false => simp at h
    | true =>
      simp only [if_true] at h
      split at h
      · rename_i e' he; simp at h; subst h; exact .inr ⟨rfl, vs, hvs, he⟩
      · cases h

theorem normalizeList_cons_error {s ss e} (h : normalizeList (s :: ss) = .error e) :
    normalize s = .error e ∨ normalizeList ss = .error e := by
  simp only [normalizeList] at h
  split at h
  · rename_i e' he; simp at h; subst h; exact .inl he
  · split at h
    · rename_i e' he; simp at h; subst h; exact .inr he
    · cases h

theorem normalize_error (s : Stmt) :
    ∀ e, normalize s = .error e → Defect e (loopInPar false s) (subInPar false s) := by
  induction s using Stmt.rec
    (motive_2 := fun l => ∀ e, normalizeList l = .error e →
      Defect e (anyLoopInPar false l) (anySubInPar false l)) with
  | gate i => intro e h; simp [normalize] at h
  | loop n b _ => intro e h; simp [normalize] at h
  | block par sub it body ih =>
    intro e h
    rcases normalize_block_error h with h | ⟨rfl, vs, hvs, hc⟩
    · rcases ih e h with ⟨rfl, hl⟩ | ⟨rfl, hs⟩
      · left; refine ⟨rfl, ?_⟩
        cases par with
        | false => simpa [loopInPar] using hl
        | true => simpa [loopInPar] using anyLoopInPar_mono body hl
      · right; refine ⟨rfl, ?_⟩
        cases par with
        | false => simpa [subInPar] using hs
        | true => simpa [subInPar] using anySubInPar_mono body hs
    · obtain ⟨_, _, _, h3, h4, _⟩ := normalize_dinv.2 body vs hvs
      unfold chunkBlocks at hc
      obtain ⟨r, hr, x, hx, hbad⟩ := chunkRows_error hc
      have hxs : x ∈ unrollAll vs := by
        rw [unrollAll_eq_flatten]
        exact (zipLongest_flatten_perm _).mem_iff.1 (List.mem_flatten.2 ⟨r, hr, hx⟩)
      rcases hbad with ⟨rfl, hb⟩ | ⟨rfl, hb⟩
      · left; refine ⟨rfl, ?_⟩
        simpa [loopInPar] using h4 (List.any_eq_true.2 ⟨x, hxs, hb⟩)
      · right; refine ⟨rfl, ?_⟩
        have : (unrollAll vs).any isSeqBlock = true := List.any_eq_true.2 ⟨x, hxs, hb⟩
        simpa [subInPar, ← h3] using this
  | nil => rename_i e h; simp [normalizeList] at h
  | cons s ss ihs ihss =>
    rename_i e h
    rcases normalizeList_cons_error h with h | h
    · rcases ihs e h with ⟨rfl, hl⟩ | ⟨rfl, hs⟩
      · exact .inl ⟨rfl, by simp [anyLoopInPar, hl]⟩
      · exact .inr ⟨rfl, by simp [anySubInPar, hs]⟩
    · rcases ihss e h with ⟨rfl, hl⟩ | ⟨rfl, hs⟩
      · exact .inl ⟨rfl, by simp [anyLoopInPar, hl]⟩
      · exact .inr ⟨rfl, by simp [anySubInPar, hs]⟩

theorem normalizeList_error (l : List Stmt) :
    ∀ e, normalizeList l = .error e → Defect e (anyLoopInPar false l) (anySubInPar false l) := by
  induction l with
  | nil => intro e h; simp [normalizeList] at h
  | cons s ss ih =>
    intro e h
    rcases normalizeList_cons_error h with h | h
    · rcases normalize_error s e h with ⟨rfl, hl⟩ | ⟨rfl, hs⟩
      · exact .inl ⟨rfl, by simp [anyLoopInPar, hl]⟩
      · exact .inr ⟨rfl, by simp [anySubInPar, hs]⟩
    · rcases ih e h with ⟨rfl, hl⟩ | ⟨rfl, hs⟩
      · exact .inl ⟨rfl, by simp [anyLoopInPar, hl]⟩
      · exact .inr ⟨rfl, by simp [anySubInPar, hs]⟩

/-! ## order inside a time step -/

/-- the part of a schedule that happens at step `k`, in program order -/
def atStep (k : Nat) (l : List (Nat × Nat)) : List (Nat × Nat) := l.filter (fun p => p.2 == k)

theorem atStep_append (k : Nat) (a b : List (Nat × Nat)) :
    atStep k (a ++ b) = atStep k a ++ atStep k b := by simp [atStep]

theorem atStep_comm {k t : Nat} {A B : List (Nat × Nat)} (hA : ∀ p ∈ A, p.2 = t) (hB : ∀ p ∈ B, t < p.2) :
    atStep k A ++ atStep k B = atStep k B ++ atStep k A := by
  by_cases hk : k = t
  · have : atStep k B = [] := by
      simp only [atStep, List.filter_eq_nil_iff]
      intro p hp; have := hB p hp; simp; omega
    simp [this]
  · have : atStep k A = [] := by
      simp only [atStep, List.filter_eq_nil_iff]
      intro p hp; have := hA p hp; simp; omega
    simp [this]

/-- `x` occupies exactly the step it starts at -/
def OneStep (x : Stmt) : Prop := dur x = 1 ∧ ∀ t, ∀ p ∈ times t x, p.2 = t

theorem timesPar_oneStep {r : List Stmt} (h : ∀ x ∈ r, OneStep x) (t : Nat) : ∀ p ∈ timesPar t r, p.2 = t := by
  induction r with
  | nil => simp [timesPar]
  | cons x xs ih =>
    intro p hp
    simp only [timesPar, List.mem_append] at hp
    rcases hp with hp | hp
    · exact (h x (by simp)).2 t p hp
    · exact ih (fun y hy => h y (by simp [hy])) p hp

theorem timesSeq_oneStep {l : List Stmt} (h : ∀ x ∈ l, OneStep x) (t : Nat) : ∀ p ∈ timesSeq t l, t ≤ p.2 := by
  induction l generalizing t with
  | nil => simp [timesSeq]
  | cons x xs ih =>
    intro p hp
    simp only [timesSeq, List.mem_append] at hp
    rcases hp with hp | hp
    · exact Nat.le_of_eq ((h x (by simp)).2 t p hp).symm
    · have := ih (fun y hy => h y (by simp [hy])) _ p hp; omega

theorem unit_oneStep {x} (hf : isFlatItem x = true) (hc : chunkable x = true) : OneStep x := by
  refine ⟨(unit_facts hf hc).1, ?_⟩
  cases x with
  | gate i => intro t p hp; simp [times] at hp; simp [hp]
  | loop n b => simp [chunkable] at hc
  | block par sub it body =>
    simp [chunkable] at hc; subst hc
    cases sub with
    | true => simp [isFlatItem] at hf
    | false =>
      simp [isFlatItem] at hf
      intro t
      simp only [times, if_true]
      apply timesPar_oneStep
      intro y hy
      have := hf.1.2 y hy
      cases y <;> simp [isGate] at this
      exact ⟨rfl, fun t p hp => by simp [times] at hp; simp [hp]⟩

theorem zipCons_atStep (k t : Nat) (l : List Stmt) (rows : List (List Stmt))
    (hl : ∀ x ∈ l, OneStep x) (hr : ∀ r ∈ rows, ∀ x ∈ r, OneStep x) :
    atStep k (rowTimes t (zipCons l rows)) = atStep k (timesSeq t l) ++ atStep k (rowTimes t rows) := by
  induction l generalizing t rows with
  | nil => simp [zipCons, timesSeq, atStep]
  | cons a as ih =>
    have ha : dur a = 1 := (hl a (by simp)).1
    have has : ∀ x ∈ as, OneStep x := fun y hy => hl y (by simp [hy])
    cases rows with
    | nil =>
      simp only [zipCons, rowTimes, timesPar, timesSeq, ha, List.append_nil, atStep_append]
      have := ih (t + 1) [] has (by simp)
      simp only [rowTimes, atStep, List.filter_nil, List.append_nil] at this
      simp only [atStep, this, List.filter_nil, List.append_nil]
    | cons r rs =>
      simp only [zipCons, rowTimes, timesPar, timesSeq, ha, atStep_append]
      rw [ih (t + 1) rs has (fun r' hr' => hr r' (by simp [hr']))]
      have hcomm := atStep_comm (k := k) (timesPar_oneStep (hr r (by simp)) t)
        (fun p hp => Nat.lt_of_succ_le (timesSeq_oneStep has (t + 1) p hp))
      simp only [List.append_assoc]
      rw [← List.append_assoc (atStep k (timesPar t r)), hcomm, List.append_assoc]

theorem zipLongest_atStep (k t : Nat) (S : List (List Stmt)) (h : ∀ l ∈ S, ∀ x ∈ l, OneStep x) :
    atStep k (rowTimes t (zipLongest S)) = atStep k (S.flatMap (timesSeq t)) := by
  induction S with
  | nil => simp [zipLongest, rowTimes]
  | cons l ls ih =>
    have hls : ∀ l' ∈ ls, ∀ x ∈ l', OneStep x := fun l' hl' => h l' (by simp [hl'])
    simp only [zipLongest, List.flatMap_cons, atStep_append]
    rw [zipCons_atStep k t l _ (h l (by simp)) (zipLongest_forall ls hls), ih hls]

theorem par_step_atStep {vs chunks} (hnf : ∀ v ∈ vs, isNF v = true) (hc : chunkBlocks vs = .ok chunks)
    (k t : Nat) : atStep k (timesSeq t (chunks.map emit)) = atStep k (timesPar t vs) := by
  obtain ⟨_, _, _, _, hch⟩ := par_step hnf hc
  unfold chunkBlocks at hc
  obtain ⟨hrows, rfl⟩ := chunkRows_ok hc
  have hS : ∀ l ∈ vs.map unroll, ∀ x ∈ l, OneStep x := by
    intro l hl x hx
    obtain ⟨v, hv, rfl⟩ := List.mem_map.1 hl
    exact unit_oneStep ((isFlatList_iff _).1 (unroll_flat (hnf v hv)) x hx) (hch v hv x hx)
  have hR := zipLongest_forall _ hS
  have hne := zipLongest_ne_nil (vs.map unroll)
  have hdurR : ∀ r ∈ zipLongest (vs.map unroll), durMax r = 1 :=
    fun r hr => durMax_eq_one (hne r hr) (fun x hx => (hR r hr x hx).1)
  rw [(timesSeq_emit_rows t _ hrows hdurR).1, timesPar_eq_flatMap]
  exact zipLongest_atStep k t _ hS

theorem normalize_atStep :
    (∀ s v, normalize s = .ok v → ∀ k t, atStep k (times t v) = atStep k (times t s)) ∧
    (∀ l vs, normalizeList l = .ok vs →
      (∀ k t, atStep k (timesSeq t vs) = atStep k (timesSeq t l)) ∧
      (∀ k t, atStep k (timesPar t vs) = atStep k (timesPar t l))) := by
  apply normalize_ok_rec
  · intro i k t; rfl
  · intro n b k t; rfl
  · intro sub it body vs _ ⟨hseq, _⟩ k t
    simp only [times, Bool.false_eq_true, if_false, timesSeq_unrollAll]; exact hseq k t
  · intro sub it body vs chunks hvs ⟨_, hpar⟩ hc k t
    simp only [times, Bool.false_eq_true, if_false, if_true]
    rw [par_step_atStep (normalize_inv.2 body vs hvs).1 hc, hpar]
  · exact ⟨fun _ _ => rfl, fun _ _ => rfl⟩
  · intro s ss v vs hv _ ht ⟨hseq, hpar⟩
    have hd := (normalize_inv.1 s v hv).2.1
    exact ⟨fun k t => by simp only [timesSeq, atStep_append, hd, ht, hseq],
      fun k t => by simp only [timesPar, atStep_append, ht, hpar]⟩

/-! ## subcircuit blocks keep their time slot -/

theorem slotsSeq_append (t : Nat) (a b : List Stmt) :
    slotsSeq t (a ++ b) = slotsSeq t a ++ slotsSeq (t + durSum a) b := by
  induction a generalizing t with
  | nil => simp [slotsSeq, durSum]
  | cons x xs ih => simp [slotsSeq, durSum, ih, Nat.add_assoc]

theorem slotsSeq_unroll (t : Nat) (v : Stmt) (h : isNF v = true) : slotsSeq t (unroll v) = slots t v := by
  cases v with
  | gate i => simp [unroll, slotsSeq]
  | loop n b => simp [unroll, slotsSeq]
  | block par sub it body =>
    simp [isNF] at h; obtain ⟨rfl, _⟩ := h
    cases sub <;> simp [unroll, slotsSeq, slots]

theorem slotsSeq_unrollAll (t : Nat) (vs : List Stmt) (h : ∀ v ∈ vs, isNF v = true) :
    slotsSeq t (unrollAll vs) = slotsSeq t vs := by
  induction vs generalizing t with
  | nil => simp [unrollAll]
  | cons v vs ih =>
    simp [unrollAll, slotsSeq_append, slotsSeq, slotsSeq_unroll t v (h v (by simp)), durSum_unroll,
      ih _ (fun v' hv' => h v' (by simp [hv']))]

theorem slotsSeq_nil_of {l : List Stmt} (h : ∀ x ∈ l, ∀ t, slots t x = []) (t : Nat) : slotsSeq t l = [] := by
  induction l generalizing t with
  | nil => simp [slotsSeq]
  | cons y ys ih => simp [slotsSeq, h y (by simp), ih (fun z hz => h z (by simp [hz]))]

theorem slotsPar_nil_of {l : List Stmt} (h : ∀ x ∈ l, ∀ t, slots t x = []) (t : Nat) : slotsPar t l = [] := by
  induction l with
  | nil => simp [slotsPar]
  | cons y ys ih => simp [slotsPar, h y (by simp), ih (fun z hz => h z (by simp [hz]))]

theorem allGates_slots {l : List Stmt} (h : l.all isGate = true) : ∀ x ∈ l, ∀ t, slots t x = [] := by
  intro x hx t
  have := List.all_eq_true.1 h x hx
  cases x <;> simp [isGate] at this
  simp [slots]

theorem unit_slots {x} (hf : isFlatItem x = true) (hc : chunkable x = true) (t : Nat) : slots t x = [] := by
  cases x with
  | gate i => simp [slots]
  | loop n b => simp [chunkable] at hc
  | block par sub it body =>
    simp [chunkable] at hc; subst hc
    cases sub with
    | true => simp [isFlatItem] at hf
    | false =>
      simp [isFlatItem] at hf
      have hg' : body.all isGate = true := by simpa using hf.1.2
      simp [slots, slotsPar_nil_of (allGates_slots hg')]

theorem emit_gates_slots {c : List Stmt} (hg : c.all isGate = true) (t : Nat) : slots t (emit c) = [] := by
  match c, hg with
  | [], _ => simp [emit, slots, slotsPar]
  | [s], hg =>
    cases s <;> simp [isGate] at hg
    simp [emit, slots]
  | s :: s' :: r, hg => simp only [emit, slots]; simp [slotsPar_nil_of (allGates_slots hg)]

theorem par_step_slots {vs chunks} (hnf : ∀ v ∈ vs, isNF v = true) (hc : chunkBlocks vs = .ok chunks)
    (t : Nat) : slotsSeq t (chunks.map emit) = [] ∧ slotsPar t vs = [] := by
  obtain ⟨_, _, _, _, hch⟩ := par_step hnf hc
  unfold chunkBlocks at hc
  obtain ⟨hrows, rfl⟩ := chunkRows_ok hc
  have hS : ∀ l ∈ vs.map unroll, ∀ x ∈ l, isFlatItem x = true ∧ chunkable x = true := by
    intro l hl x hx
    obtain ⟨v, hv, rfl⟩ := List.mem_map.1 hl
    exact ⟨(isFlatList_iff _).1 (unroll_flat (hnf v hv)) x hx, hch v hv x hx⟩
  have hR := zipLongest_forall (P := fun x => isFlatItem x = true ∧ chunkable x = true) _ hS
  have hne := zipLongest_ne_nil (vs.map unroll)
  constructor
  · apply slotsSeq_nil_of
    intro y hy t'
    simp only [List.map_map, List.mem_map, Function.comp] at hy
    obtain ⟨r, hr, rfl⟩ := hy
    exact emit_gates_slots (flatMap_cells_gates (hR r hr) (hne r hr)).1 t'
  · apply slotsPar_nil_of
    intro v hv t'
    rw [← slotsSeq_unroll t' v (hnf v hv)]
    apply slotsSeq_nil_of
    intro x hx t''
    have hl : unroll v ∈ vs.map unroll := List.mem_map.2 ⟨v, hv, rfl⟩
    exact unit_slots (hS _ hl x hx).1 (hS _ hl x hx).2 t''

theorem normalize_slots :
    (∀ s v, normalize s = .ok v → ∀ t, slots t v = slots t s) ∧
    (∀ l vs, normalizeList l = .ok vs →
      (∀ t, slotsSeq t vs = slotsSeq t l) ∧ (∀ t, slotsPar t vs = slotsPar t l)) := by
  apply normalize_ok_rec
  · intro i t; rfl
  · intro n b t; rfl
  · intro sub it body vs hvs ⟨hseq, _⟩ t
    obtain ⟨hnf, hsum, _⟩ := normalize_inv.2 body vs hvs
    simp only [slots, Bool.false_eq_true, if_false, slotsSeq_unrollAll _ _ hnf, durSum_unrollAll, hsum, hseq]
  · intro sub it body vs chunks hvs ⟨_, hpar⟩ hc t
    obtain ⟨hnf, _, hmax, _⟩ := normalize_inv.2 body vs hvs
    obtain ⟨_, h2, _⟩ := par_step hnf hc
    obtain ⟨h5, h6⟩ := par_step_slots hnf hc t
    simp only [slots, Bool.false_eq_true, if_false, if_true, h2, hmax, h5, ← hpar, h6]
  · exact ⟨fun _ => rfl, fun _ => rfl⟩
  · intro s ss v vs hv _ ht ⟨hseq, hpar⟩
    have hd := (normalize_inv.1 s v hv).2.1
    exact ⟨fun t => by simp only [slotsSeq, hd, ht, hseq], fun t => by simp only [slotsPar, ht, hpar]⟩

end Jaqal.UnitTiming
