import Mathlib.Data.List.Forall2
import JaqalModel.Model.GateDef
/-!
Lemmas about the gate-definition model: insertion-ordered dictionaries, `validate`, `call`.
-/
namespace Jaqal.GateDef

/-! ### dictionaries -/
section Od
variable {β : Type}

theorem odGet?_odSet (d : List (String × β)) (k k' : String) (v : β) :
    odGet? (odSet d k v) k' = if k = k' then some v else odGet? d k' := by
  induction d with
  | nil => simp [odSet, odGet?]
  | cons e r ih =>
    obtain ⟨a, b⟩ := e
    unfold odSet
    by_cases h : a = k
    · subst h; by_cases h' : a = k' <;> simp [odGet?, h']
    · simp only [h, ↓reduceIte, odGet?, ih]
      by_cases h1 : a = k'
      · subst h1; simp [h, Ne.symm h]
      · simp [h1]

theorem odHas_odSet (d : List (String × β)) (k k' : String) (v : β) :
    odHas (odSet d k v) k' = (k == k' || odHas d k') := by
  unfold odHas; rw [odGet?_odSet]; by_cases h : k = k' <;> simp [h]

theorem odGet?_eq_none_iff (d : List (String × β)) (k : String) :
    odGet? d k = none ↔ k ∉ d.map (·.1) := by
  induction d with
  | nil => simp [odGet?]
  | cons e r ih =>
    obtain ⟨a, b⟩ := e
    unfold odGet?
    by_cases h : a = k
    · simp [h]
    · simp [h, ih, Ne.symm h]

theorem odHas_iff (d : List (String × β)) (k : String) : odHas d k = true ↔ k ∈ d.map (·.1) := by
  unfold odHas
  rw [Option.isSome_iff_ne_none, Ne, odGet?_eq_none_iff]; simp

theorem odSet_of_not_mem (d : List (String × β)) (k : String) (v : β) (h : k ∉ d.map (·.1)) :
    odSet d k v = d ++ [(k, v)] := by
  induction d with
  | nil => rfl
  | cons e r ih =>
    obtain ⟨a, b⟩ := e
    simp only [List.map_cons, List.mem_cons, not_or] at h
    unfold odSet
    simp [Ne.symm h.1, ih h.2]

theorem keys_odSet_of_mem (d : List (String × β)) (k : String) (v : β) (h : k ∈ d.map (·.1)) :
    (odSet d k v).map (·.1) = d.map (·.1) := by
  induction d with
  | nil => simp at h
  | cons e r ih =>
    obtain ⟨a, b⟩ := e
    unfold odSet
    by_cases h1 : a = k
    · simp [h1]
    · simp only [h1, ↓reduceIte, List.map_cons, List.cons.injEq, true_and]
      apply ih
      simpa [Ne.symm h1] using h

theorem keys_odSet (d : List (String × β)) (k : String) (v : β) :
    (odSet d k v).map (·.1) = if k ∈ d.map (·.1) then d.map (·.1) else d.map (·.1) ++ [k] := by
  split
  · next h => exact keys_odSet_of_mem d k v h
  · next h => rw [odSet_of_not_mem d k v h]; simp

theorem mem_odSet (d : List (String × β)) (k : String) (v : β) (e : String × β) (h : e ∈ odSet d k v) :
    e ∈ d ∨ e = (k, v) := by
  induction d with
  | nil => simpa [odSet] using h
  | cons x r ih =>
    obtain ⟨a, b⟩ := x
    unfold odSet at h
    by_cases h1 : a = k
    · simp only [h1, ↓reduceIte, List.mem_cons] at h
      rcases h with h | h
      · right; exact h
      · left; exact List.mem_cons_of_mem _ h
    · simp only [h1, ↓reduceIte, List.mem_cons] at h
      rcases h with h | h
      · left; simp [h]
      · rcases ih h with h | h
        · left; exact List.mem_cons_of_mem _ h
        · right; exact h

theorem keys_nodup_odSet (d : List (String × β)) (k : String) (v : β) (h : (d.map (·.1)).Nodup) :
    ((odSet d k v).map (·.1)).Nodup := by
  rw [keys_odSet]
  split
  · exact h
  · next hk => exact List.nodup_append.mpr ⟨h, by simp, by intro a ha b hb; simp at hb; subst hb; intro hab; exact hk (hab ▸ ha)⟩

theorem odGet?_of_mem_nodup (d : List (String × β)) (k : String) (v : β) (hn : (d.map (·.1)).Nodup)
    (h : (k, v) ∈ d) : odGet? d k = some v := by
  induction d with
  | nil => simp at h
  | cons e r ih =>
    obtain ⟨a, b⟩ := e
    simp only [List.map_cons, List.nodup_cons] at hn
    unfold odGet?
    rcases List.mem_cons.mp h with h | h
    · cases h; simp
    · have : a ≠ k := by
        intro hak; subst hak; exact hn.1 (List.mem_map.mpr ⟨_, h, rfl⟩)
      simp [this, ih hn.2 h]

theorem mem_of_odGet? (d : List (String × β)) (k : String) (v : β) (h : odGet? d k = some v) : (k, v) ∈ d := by
  induction d with
  | nil => simp [odGet?] at h
  | cons e r ih =>
    obtain ⟨a, b⟩ := e
    unfold odGet? at h
    by_cases h1 : a = k
    · simp only [h1, ↓reduceIte, Option.some.injEq] at h; subst h; subst h1; simp
    · simp only [h1, ↓reduceIte] at h; exact List.mem_cons_of_mem _ (ih h)

theorem odUpdate_cons (d : List (String × β)) (w : String × β) (ws : List (String × β)) :
    odUpdate d (w :: ws) = odUpdate (odSet d w.1 w.2) ws := rfl

theorem odUpdate_append (d ws ws' : List (String × β)) :
    odUpdate d (ws ++ ws') = odUpdate (odUpdate d ws) ws' := by
  unfold odUpdate; rw [List.foldl_append]

/-- writes to fresh, pairwise distinct keys just append -/
theorem odUpdate_fresh (d ws : List (String × β)) (hn : (ws.map (·.1)).Nodup)
    (hd : ∀ k ∈ ws.map (·.1), k ∉ d.map (·.1)) : odUpdate d ws = d ++ ws := by
  induction ws generalizing d with
  | nil => simp [odUpdate]
  | cons w ws ih =>
    simp only [List.map_cons, List.nodup_cons] at hn
    rw [odUpdate_cons, odSet_of_not_mem d w.1 w.2 (hd _ (by simp)), ih _ hn.2]
    · simp
    · intro k hk
      simp only [List.map_append, List.map_cons, List.map_nil, List.mem_append, List.mem_singleton, not_or]
      exact ⟨hd k (by simp [hk]), fun h => hn.1 (h ▸ hk)⟩

theorem length_odSet (d : List (String × β)) (k : String) (v : β) :
    (odSet d k v).length = if k ∈ d.map (·.1) then d.length else d.length + 1 := by
  have := congrArg List.length (keys_odSet d k v)
  simp only [List.length_map] at this
  rw [this]; split <;> simp

theorem length_odUpdate_le (d ws : List (String × β)) : (odUpdate d ws).length ≤ d.length + ws.length := by
  induction ws generalizing d with
  | nil => simp [odUpdate]
  | cons w ws ih =>
    rw [odUpdate_cons]
    have := ih (odSet d w.1 w.2)
    rw [length_odSet] at this
    simp only [List.length_cons]
    split at this <;> omega

/-- the dictionary has as many entries as there were writes only if all written keys were new and distinct -/
theorem nodup_of_length_odUpdate (d ws : List (String × β)) (h : (odUpdate d ws).length = d.length + ws.length) :
    (ws.map (·.1)).Nodup ∧ ∀ k ∈ ws.map (·.1), k ∉ d.map (·.1) := by
  induction ws generalizing d with
  | nil => simp
  | cons w ws ih =>
    rw [odUpdate_cons] at h
    have hle := length_odUpdate_le (odSet d w.1 w.2) ws
    have hl := length_odSet d w.1 w.2
    simp only [List.length_cons] at h
    by_cases hk : w.1 ∈ d.map (·.1)
    · rw [if_pos hk] at hl; omega
    · rw [if_neg hk] at hl
      have := ih (odSet d w.1 w.2) (by omega)
      rw [keys_odSet, if_neg hk] at this
      refine ⟨?_, ?_⟩
      · simp only [List.map_cons, List.nodup_cons]
        exact ⟨fun hm => (this.2 _ hm) (by simp), this.1⟩
      · intro k hk'
        simp only [List.map_cons, List.mem_cons] at hk'
        rcases hk' with rfl | hk'
        · exact hk
        · intro hd; exact this.2 k hk' (by simp [hd])

theorem odGet?_odDel_ne (d : List (String × β)) (k k' : String) (h : k ≠ k') :
    odGet? (odDel d k) k' = odGet? d k' := by
  induction d with
  | nil => rfl
  | cons e r ih =>
    obtain ⟨a, b⟩ := e
    have ih' : odGet? (List.filter (fun p => !decide (p.1 = k)) r) k' = odGet? r k' := by
      simpa [odDel] using ih
    by_cases h1 : a = k
    · subst h1
      simp [odDel, List.filter_cons, odGet?, h, ih']
    · simp [odDel, List.filter_cons, odGet?, h1, ih']

theorem hasDupKey_eq_false_iff (d : List (String × β)) : hasDupKey d = false ↔ (d.map (·.1)).Nodup := by
  induction d with
  | nil => simp [hasDupKey]
  | cons e r ih =>
    obtain ⟨a, b⟩ := e
    simp only [hasDupKey, Bool.or_eq_false_iff, ih, List.map_cons, List.nodup_cons]
    have : odHas r a = false ↔ a ∉ r.map (·.1) := by
      rw [← odHas_iff]; simp
    rw [this]

end Od

/-! ### `validate`, `call` -/

theorem fits_iff_validate (k : Kind) (v : Val) : fits k v = true ↔ validate k v = .ok () := by
  unfold fits
  cases h : validate k v with
  | ok u => simp
  | error e => simp

theorem validateAll_ok_iff (ps : List (String × Kind)) (bound : List (String × Val)) :
    validateAll ps bound = .ok () ↔ ∀ p ∈ ps, ∃ v, odGet? bound p.1 = some v ∧ fits p.2 v = true := by
  induction ps with
  | nil => simp [validateAll, pure, Except.pure]
  | cons p ps ih =>
    obtain ⟨n, k⟩ := p
    unfold validateAll
    cases hg : odGet? bound n with
    | none => simp [hg]
    | some v =>
      simp only [List.mem_cons, forall_eq_or_imp, hg, Option.some.injEq, exists_eq_left', fits_iff_validate]
      cases hv : validate k v with
      | error e => simp [bind, Except.bind]
      | ok u => simp [bind, Except.bind, ih, fits_iff_validate]

/-- looking the parameter names up in `names.zip args` gives the arguments back -/
theorem forall_zip_iff (P : Kind → Val → Prop) (ps : List (String × Kind)) (args : List Val)
    (hl : args.length = ps.length) (hn : (ps.map (·.1)).Nodup) :
    (∀ p ∈ ps, ∃ v, odGet? ((ps.map (·.1)).zip args) p.1 = some v ∧ P p.2 v)
      ↔ List.Forall₂ (fun p a => P p.2 a) ps args := by
  induction ps generalizing args with
  | nil =>
    cases args with
    | nil => simp
    | cons a as => simp at hl
  | cons p ps ih =>
    cases args with
    | nil => simp at hl
    | cons a as =>
      simp only [List.map_cons, List.nodup_cons] at hn
      simp only [List.length_cons, Nat.add_right_cancel_iff] at hl
      simp only [List.map_cons, List.zip_cons_cons, List.mem_cons, forall_eq_or_imp, odGet?, ↓reduceIte,
        Option.some.injEq, exists_eq_left', List.forall₂_cons]
      rw [← ih as hl hn.2]
      apply and_congr_right
      intro _
      apply forall₂_congr
      intro q hq
      have : p.1 ≠ q.1 := fun h => hn.1 (h ▸ List.mem_map.mpr ⟨q, hq, rfl⟩)
      simp [this]

theorem keys_zip (names : List String) (args : List Val) (hl : args.length = names.length) :
    (names.zip args).map (·.1) = names := by
  rw [List.map_fst_zip]; omega

theorem finish_ok_iff (gd : GateDef) (bound : List (String × Val)) (s : Stmt) :
    finish gd bound = .ok s ↔
      gd.params.length = bound.length ∧ validateAll gd.params bound = .ok () ∧ s = .gate gd.name gd bound := by
  unfold finish
  by_cases hl : gd.params.length = bound.length
  · simp only [hl, ne_eq, not_true_eq_false, ↓reduceIte, true_and]
    cases hv : validateAll gd.params bound with
    | error e => simp [bind, Except.bind, pure, Except.pure]
    | ok u => simp [bind, Except.bind, pure, Except.pure, eq_comm]
  · simp [hl, bind, Except.bind, throw, throwThe, MonadExceptOf.throw, pure, Except.pure]

/-- `popAll` on keyword arguments that contain every parameter -/
theorem popAll_ok (ps : List (String × Kind)) (as : List Val) (kw acc : List (String × Val))
    (hl : as.length = ps.length) (hn : (ps.map (·.1)).Nodup)
    (hk : ∀ x ∈ (ps.map (·.1)).zip as, odGet? kw x.1 = some x.2) :
    popAll ps kw acc = .ok (odUpdate acc ((ps.map (·.1)).zip as), kw.filter (fun e => e.1 ∉ ps.map (·.1))) := by
  induction ps generalizing as kw acc with
  | nil =>
    cases as with
    | nil => simp [popAll, odUpdate, pure, Except.pure]
    | cons a as => simp at hl
  | cons p ps ih =>
    cases as with
    | nil => simp at hl
    | cons a as =>
      obtain ⟨n, k⟩ := p
      simp only [List.map_cons, List.nodup_cons] at hn
      simp only [List.length_cons, Nat.add_right_cancel_iff] at hl
      have h0 : odGet? kw n = some a := hk (n, a) (by simp)
      unfold popAll
      simp only [h0, List.map_cons, List.zip_cons_cons, odUpdate_cons]
      rw [ih as (odDel kw n) (odSet acc n a) hl hn.2]
      · congr 2
        unfold odDel
        rw [List.filter_filter]
        congr 1
        funext e
        by_cases h1 : e.1 = n <;> simp [h1]
      · intro x hx
        have hx1 : x.1 ∈ ps.map (·.1) := (List.of_mem_zip hx).1
        have : n ≠ x.1 := fun h => hn.1 (h ▸ hx1)
        rw [odGet?_odDel_ne _ _ _ this]
        exact hk x (by simp [hx])

theorem odGet?_odDel_self {β : Type} (d : List (String × β)) (k : String) : odGet? (odDel d k) k = none := by
  rw [odGet?_eq_none_iff]
  unfold odDel
  intro h
  obtain ⟨e, he, hk⟩ := List.mem_map.mp h
  have := (List.mem_filter.mp he).2
  simp [hk] at this

theorem mem_keys_zip (names : List String) (as : List Val) (hl : as.length = names.length) (n : String)
    (hn : n ∈ names) : ∃ a, (n, a) ∈ names.zip as := by
  have : n ∈ (names.zip as).map (·.1) := by rw [keys_zip names as hl]; exact hn
  obtain ⟨e, he, rfl⟩ := List.mem_map.mp this
  exact ⟨e.2, he⟩

/-- a successful `popAll` found every parameter among the keywords; the parameter names are then distinct
(a popped keyword is gone) -/
theorem popAll_inv (ps : List (String × Kind)) (kw acc b rest : List (String × Val))
    (h : popAll ps kw acc = .ok (b, rest)) :
    (ps.map (·.1)).Nodup ∧ ∃ as : List Val, as.length = ps.length ∧
      ∀ x ∈ (ps.map (·.1)).zip as, odGet? kw x.1 = some x.2 := by
  induction ps generalizing kw acc with
  | nil => exact ⟨by simp, [], rfl, by simp⟩
  | cons p ps ih =>
    obtain ⟨n, k⟩ := p
    unfold popAll at h
    cases hg : odGet? kw n with
    | none => simp [hg] at h
    | some v =>
      simp only [hg] at h
      obtain ⟨hnd, as, hl, hk⟩ := ih (odDel kw n) (odSet acc n v) h
      have hnot : n ∉ ps.map (·.1) := by
        intro hmem
        obtain ⟨a, ha⟩ := mem_keys_zip _ as (by simpa using hl) n hmem
        have := hk (n, a) ha
        rw [odGet?_odDel_self] at this
        cases this
      refine ⟨by simp only [List.map_cons, List.nodup_cons]; exact ⟨hnot, hnd⟩, v :: as, by simp [hl], ?_⟩
      intro x hx
      simp only [List.map_cons, List.zip_cons_cons, List.mem_cons] at hx
      rcases hx with rfl | hx
      · exact hg
      · have hx1 : x.1 ∈ ps.map (·.1) := (List.of_mem_zip hx).1
        have : n ≠ x.1 := fun h' => hnot (h' ▸ hx1)
        rw [← odGet?_odDel_ne kw n x.1 this]
        exact hk x hx

end Jaqal.GateDef
