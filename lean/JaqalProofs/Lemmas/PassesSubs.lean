import JaqalProofs.Props.C09
import JaqalProofs.Lemmas.ExpandMacrosSem
/-!
`expand_subcircuits` on meanings: the pass is the tree map `spellSem` (the image of `spell` on meaning trees), up to the
normalisation `Sem.norm`.  `expand_subcircuits` CHANGES the meaning on purpose (a subcircuit block becomes the sequence
`prepare_all … measure_all`, its iteration count is dropped); what commutes with the other passes is this map.
-/
namespace Jaqal.Passes
open Jaqal Jaqal.Sem Jaqal.ExpandSubcircuits Jaqal.ExpandMacros

mutual
  /-- `spell` on meaning trees -/
  def spellSem (P M : Sem) : Sem → Sem
    | .gate n a => .gate n a
    | .loop n b => .loop n (spellSem P M b)
    | .blk par sub _ body =>
      if sub then .blk par false 1 (P :: spellSemList P M body ++ [M]) else .blk par false 1 (spellSemList P M body)
  def spellSemList (P M : Sem) : List Sem → List Sem
    | [] => []
    | x :: r => spellSem P M x :: spellSemList P M r
end

/-- the normalised image -/
def spellNorm (P M : Sem) (s : Sem) : Sem := (spellSem P M s).norm

theorem spellSemList_append (P M : Sem) : ∀ (a b : List Sem), spellSemList P M (a ++ b) = spellSemList P M a ++ spellSemList P M b
  | [], b => by simp [spellSemList]
  | x :: r, b => by simp [spellSemList, spellSemList_append P M r b]

section Norm
variable (pn mn : String)

/-- normalising before spelling out changes nothing after the final normalisation -/
theorem normList_spellSemList_aux : ∀ (n : Nat),
    (∀ (x : Sem), sizeOf x < n → (spellSem (.gate pn []) (.gate mn []) x).norm = (spellSem (.gate pn []) (.gate mn []) x.norm).norm) ∧
    (∀ (par : Bool) (l : List Sem), sizeOf l < n →
      normList par (spellSemList (.gate pn []) (.gate mn []) l) =
        normList par (spellSemList (.gate pn []) (.gate mn []) (normList par l))) := by
  intro n
  induction n with
  | zero => exact ⟨fun _ h => absurd h (Nat.not_lt_zero _), fun _ _ h => absurd h (Nat.not_lt_zero _)⟩
  | succ n ih =>
    obtain ⟨ihx, ihl⟩ := ih
    have hg : ∀ (par : Bool) (g : String), normList par [Sem.gate g []] = [Sem.gate g []] := by
      intro par g; simp [normList, Sem.norm]
    refine ⟨?_, ?_⟩
    · intro x hx
      cases x with
      | gate g a => simp [spellSem, Sem.norm]
      | loop k b =>
        simp only [spellSem, Sem.norm]
        rw [ihx b (by simp at hx; omega)]
      | blk par sub it body =>
        have hb : sizeOf body < n := by simp at hx; omega
        cases sub with
        | true =>
          simp only [spellSem, Sem.norm, if_true]
          have e1 : ∀ l : List Sem, normList par (Sem.gate pn [] :: l ++ [Sem.gate mn []]) =
              Sem.gate pn [] :: normList par l ++ [Sem.gate mn []] := by
            intro l
            rw [show (Sem.gate pn [] :: l ++ [Sem.gate mn []]) = [Sem.gate pn []] ++ (l ++ [Sem.gate mn []]) from rfl,
              normList_append, normList_append, hg, hg]; rfl
          rw [e1, e1, ihl par body hb]
        | false =>
          simp only [spellSem, Sem.norm, Bool.false_eq_true, if_false]
          rw [ihl par body hb]
    · intro par l hl
      cases l with
      | nil => simp [spellSemList, normList]
      | cons x r =>
        have hr : sizeOf r < n := by simp at hl; omega
        have hx : sizeOf x < n := by simp at hl; omega
        cases x with
        | gate g a =>
          simp only [spellSemList, spellSem, normList, Sem.norm]
          rw [ihl par r hr]
        | loop k b =>
          simp only [spellSemList, spellSem, normList, Sem.norm]
          rw [ihl par r hr, ihx b (by simp at hx; omega)]
        | blk p sub it body =>
          have hb : sizeOf body < n := by simp at hx; omega
          have e1 : ∀ (q : Bool) (l : List Sem), normList q (Sem.gate pn [] :: l ++ [Sem.gate mn []]) =
              Sem.gate pn [] :: normList q l ++ [Sem.gate mn []] := by
            intro q l
            rw [show (Sem.gate pn [] :: l ++ [Sem.gate mn []]) = [Sem.gate pn []] ++ (l ++ [Sem.gate mn []]) from rfl,
              normList_append, normList_append, hg, hg]; rfl
          cases sub with
          | true =>
            simp only [spellSemList, spellSem, normList, Sem.norm, if_true]
            by_cases hp : p = par
            · subst hp
              simp only [if_true, e1]
              rw [ihl p body hb, ihl p r hr]
            · simp only [hp, if_false, e1]
              rw [ihl p body hb, ihl par r hr]
          | false =>
            by_cases hp : p = par
            · subst hp
              simp only [spellSemList, spellSem, normList, Bool.false_eq_true, if_false, if_true, spellSemList_append,
                normList_append]
              rw [← ihl p body hb, ← ihl p r hr]
            · simp only [spellSemList, spellSem, normList, Bool.false_eq_true, if_false, hp]
              rw [ihl p body hb, ihl par r hr]

theorem norm_spellSem (x : Sem) :
    (spellSem (.gate pn []) (.gate mn []) x).norm = (spellSem (.gate pn []) (.gate mn []) x.norm).norm :=
  (normList_spellSemList_aux pn mn (sizeOf x + 1)).1 x (Nat.lt_succ_self _)

end Norm

/-! ## The pass on the evaluation -/

/-- the macro denotations of the spelled-out table: same names and arities, spelled-out results -/
def MdRel (P M : Sem) (md md' : MacroDen) : Prop :=
  ∀ n, (lookup md n = none → lookup md' n = none) ∧
    (∀ ar f, lookup md n = some (ar, f) → ∃ f', lookup md' n = some (ar, f') ∧
      ∀ vs x, f vs = .ok x → f' vs = .ok (spellSem P M x))

theorem evalGate_bound (ρ : Env) (md' : MacroDen) (b : Bind) (gd : GateDef) (h : lookup md' gd.name = none) :
    evalStmt ρ md' b (boundGate gd) = .ok (.gate gd.name []) := by
  simp [boundGate, evalStmt, h, bind, Except.bind, pure, Except.pure]

section Eval
set_option linter.unusedSectionVars false
variable (ρ : Env) (pd md_ : GateDef) (md md' : MacroDen)
variable (hrel : MdRel (.gate pd.name []) (.gate md_.name []) md md')
variable (hp : lookup md' pd.name = none) (hm : lookup md' md_.name = none)
include hrel hp hm

mutual
  theorem evalStmt_spell : ∀ (s : Stmt) (b : Bind) (x : Sem), evalStmt ρ md b s = .ok x →
      evalStmt ρ md' b (spell (boundGate pd) (boundGate md_) s) = .ok (spellSem (.gate pd.name []) (.gate md_.name []) x)
    | .gate n gd a, b, x, h => by
      obtain ⟨vs, hvs, hg⟩ := evalStmt_gate_inv h
      simp only [spell]
      rw [evalStmt_gate, hvs]
      simp only [bind, Except.bind]
      unfold gateSem at hg ⊢
      cases hl : lookup md n with
      | none =>
        rw [hl] at hg
        simp only [pure, Except.pure, Except.ok.injEq] at hg
        subst hg
        rw [(hrel n).1 hl]
        simp [spellSem, pure, Except.pure]
      | some e =>
        obtain ⟨ar, f⟩ := e
        rw [hl] at hg
        obtain ⟨f', hf', hff⟩ := (hrel n).2 ar f hl
        rw [hf']
        simp only at hg ⊢
        by_cases hlen : vs.length = ar
        · simp only [hlen, if_true] at hg ⊢
          exact hff vs x hg
        · simp [hlen] at hg
    | .loop c body, b, x, h => by
      simp only [evalStmt, bind, Except.bind] at h
      cases hn : evalInt ρ b c with
      | error e => rw [hn] at h; cases h
      | ok k =>
        rw [hn] at h; simp only at h
        cases hb : evalStmt ρ md b body with
        | error e => rw [hb] at h; cases h
        | ok y =>
          rw [hb] at h; simp only [pure, Except.pure, Except.ok.injEq] at h; subst h
          simp only [spell, evalStmt, hn, bind, Except.bind, evalStmt_spell body b y hb, pure, Except.pure, spellSem]
    | .block par sub it body, b, x, h => by
      simp only [evalStmt, bind, Except.bind] at h
      cases hn : evalInt ρ b it with
      | error e => rw [hn] at h; cases h
      | ok k =>
        rw [hn] at h; simp only at h
        cases hb : evalStmts ρ md b body with
        | error e => rw [hb] at h; cases h
        | ok ys =>
          rw [hb] at h; simp only [pure, Except.pure, Except.ok.injEq] at h; subst h
          have ih := evalStmts_spell body b ys hb
          have e1 : evalInt ρ b (Val.int 1) = .ok 1 := rfl
          cases sub with
          | false =>
            simp only [spell, Bool.false_eq_true, if_false, evalStmt, e1, bind, Except.bind, ih, pure, Except.pure, spellSem]
          | true =>
            have hP := evalGate_bound ρ md' b pd hp
            have hM := evalGate_bound ρ md' b md_ hm
            have hMl : evalStmts ρ md' b [boundGate md_] = .ok [.gate md_.name []] := by
              simp [evalStmts, hM, bind, Except.bind, pure, Except.pure]
            have happ := evalStmts_append ρ md' b _ [boundGate md_] _ _ ih hMl
            simp only [spell, if_true, evalStmt, e1, bind, Except.bind, evalStmts, hP, List.cons_append, happ, pure,
              Except.pure, spellSem]
  theorem evalStmts_spell : ∀ (l : List Stmt) (b : Bind) (xs : List Sem), evalStmts ρ md b l = .ok xs →
      evalStmts ρ md' b (spellList (boundGate pd) (boundGate md_) l) =
        .ok (spellSemList (.gate pd.name []) (.gate md_.name []) xs)
    | [], b, xs, h => by
      simp only [evalStmts, pure, Except.pure, Except.ok.injEq] at h; subst h
      simp [spellList, evalStmts, spellSemList, pure, Except.pure]
    | s :: r, b, xs, h => by
      simp only [evalStmts, bind, Except.bind] at h
      cases hs : evalStmt ρ md b s with
      | error e => rw [hs] at h; cases h
      | ok y =>
        rw [hs] at h; simp only at h
        cases hr : evalStmts ρ md b r with
        | error e => rw [hr] at h; cases h
        | ok ys =>
          rw [hr] at h; simp only [pure, Except.pure, Except.ok.injEq] at h; subst h
          simp only [spellList, evalStmts, evalStmt_spell s b y hs, evalStmts_spell r b ys hr, bind, Except.bind, pure,
            Except.pure, spellSemList]
end

end Eval

theorem lookup_single {α} (k n : String) (v : α) : lookup [(k, v)] n = if (k == n) = true then some v else none := by
  unfold lookup
  by_cases h : (k == n) = true <;> simp [List.find?, h]

/-- the spelled-out macro table denotes the spelled-out denotations -/
theorem mdRel_fold (ρ : Env) (pd md_ : GateDef) : ∀ (ms : List Macro) (md md' : MacroDen),
    MdRel (.gate pd.name []) (.gate md_.name []) md md' → lookup md' pd.name = none → lookup md' md_.name = none →
    (∀ m ∈ ms, (m.name == pd.name) = false ∧ (m.name == md_.name) = false) →
    MdRel (.gate pd.name []) (.gate md_.name []) (ms.foldl (mstep ρ) md)
        ((ms.map (spellMacro (boundGate pd) (boundGate md_))).foldl (mstep ρ) md') ∧
      lookup ((ms.map (spellMacro (boundGate pd) (boundGate md_))).foldl (mstep ρ) md') pd.name = none ∧
      lookup ((ms.map (spellMacro (boundGate pd) (boundGate md_))).foldl (mstep ρ) md') md_.name = none
  | [], md, md', hrel, hp, hm, _ => ⟨hrel, hp, hm⟩
  | m0 :: r, md, md', hrel, hp, hm, hall => by
    simp only [List.map_cons, List.foldl_cons]
    obtain ⟨hn1, hn2⟩ := hall m0 (by simp)
    apply mdRel_fold ρ pd md_ r
    · intro n
      simp only [mstep_eq, spellMacro]
      cases hl : lookup md n with
      | some e =>
        obtain ⟨ar, f⟩ := e
        obtain ⟨f', hf', hff⟩ := (hrel n).2 ar f hl
        refine ⟨fun h => ?_, fun ar2 f2 h => ?_⟩
        · rw [lookup_append_some hl] at h; cases h
        · rw [lookup_append_some hl] at h
          simp only [Option.some.injEq, Prod.mk.injEq] at h
          obtain ⟨rfl, rfl⟩ := h
          exact ⟨f', lookup_append_some hf', hff⟩
      | none =>
        have hl' := (hrel n).1 hl
        rw [lookup_append_none hl, lookup_append_none hl', lookup_single, lookup_single]
        by_cases hk : (m0.name == n) = true
        · simp only [hk, if_true]
          refine ⟨fun h => (by cases h), fun ar2 f2 h => ?_⟩
          simp only [Option.some.injEq, Prod.mk.injEq] at h
          obtain ⟨rfl, rfl⟩ := h
          refine ⟨_, rfl, fun vs x hx => ?_⟩
          exact evalStmt_spell ρ pd md_ md md' hrel hp hm m0.body _ x hx
        · simp only [hk]
          exact ⟨fun _ => rfl, fun ar2 f2 h => (by cases h)⟩
    · simp only [mstep_eq, spellMacro]
      rw [lookup_append_none hp, lookup_single]; simp [hn1]
    · simp only [mstep_eq, spellMacro]
      rw [lookup_append_none hm, lookup_single]; simp [hn2]
    · intro x hx; exact hall x (by simp [hx])

theorem chooseBounding_none_name (d : String) (c : Circuit) : (chooseBounding none d c).name = d := by
  unfold chooseBounding
  simp only
  cases h : findNative c d with
  | none => rfl
  | some g => simpa using (C09_defs_native c d g h).2

/-- no macro of the circuit is named like a bounding gate -/
def NoBoundingMacro (c : Circuit) : Prop :=
  ∀ m ∈ c.macros, (m.name == "prepare_all") = false ∧ (m.name == "measure_all") = false

/-- a successful `expand_subcircuits()` certifies it: `_choose_bounding_gate` refuses a bounding name that is a macro -/
theorem noBoundingMacro_of_ok {c c' : Circuit} (h : expandSubcircuits none none c = .ok c') : NoBoundingMacro c := by
  obtain ⟨_, _, _, _, hp, hm, _⟩ := expand_ok h
  intro m hmem
  simp only [boundingClash, boundingName, List.any_eq_false] at hp hm
  exact ⟨by simpa using hp m hmem, by simpa using hm m hmem⟩

/-- the tree map of `expand_subcircuits()` on (normalised) meanings -/
def spellN : Sem → Sem := spellNorm (.gate "prepare_all" []) (.gate "measure_all" [])

/-- **expand_subcircuits on meanings**: the expanded circuit means the spelled-out meaning of the original, under every
environment (that no macro bears the name of a bounding gate is checked by the pass itself). -/
theorem expandSubcircuits_meaning (ρ : Env) (c c' : Circuit) (it : Val) (b : List Stmt) (s : Sem)
    (hb : c.body = .block false false it b)
    (h : expandSubcircuits none none c = .ok c') (hm : meaning ρ c = .ok s) : meaning ρ c' = .ok (spellN s) := by
  have hnb := noBoundingMacro_of_ok h
  have hbody := C09_shape_body hb h
  have hmac := (C09_shape h).1
  have hpn := chooseBounding_none_name "prepare_all" c
  have hmn := chooseBounding_none_name "measure_all" c
  unfold meaning at hm ⊢
  simp only [bind, Except.bind] at hm ⊢
  cases hx : evalStmt ρ (denoteMacros ρ c.macros) [] c.body with
  | error e => rw [hx] at hm; cases hm
  | ok x =>
    rw [hx] at hm; simp only [pure, Except.pure, Except.ok.injEq] at hm; subst hm
    have hrel0 : MdRel (.gate (chooseBounding none "prepare_all" c).name []) (.gate (chooseBounding none "measure_all" c).name [])
        ([] : MacroDen) [] := fun n => ⟨fun _ => rfl, fun ar f h => by cases h⟩
    obtain ⟨hrel, hp, hmm⟩ := mdRel_fold ρ _ _ c.macros [] [] hrel0 rfl rfl (by rw [hpn, hmn]; exact hnb)
    have key := evalStmt_spell ρ _ _ _ _ hrel hp hmm c.body [] x hx
    rw [hbody, hmac, denoteMacros_eq]
    simp only [prepStmt, measStmt]
    rw [key]
    simp only [pure, Except.pure, Except.ok.injEq]
    rw [hpn, hmn, norm_spellSem]
    rfl

end Jaqal.Passes

#print axioms Jaqal.Passes.expandSubcircuits_meaning
