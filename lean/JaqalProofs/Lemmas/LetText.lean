import JaqalModel.Model.Parser
import JaqalModel.Model.FillIn
/-!
# Rewriting the declared value of a let in a program text (on the parser's S-expression)

"The text in which each overridden let is declared with its overriding value": `rewriteLets ov sx` replaces, in the
S-expression `parse_to_sexpression` returns, the value `v` of every header statement `["let", name, v]` whose name the
override dictionary `ov` binds by the overriding value (an int stays an int, a float a float, exactly as the number would be
read from the text).  `let` statements occur only as children of the top-level `["circuit", …]` list (`slyparse.py`), so
only those are touched.
-/
namespace Jaqal.FillIn
open Jaqal Jaqal.Builder

mutual
/-- structural equality of parser trees, decidable by evaluation -/
def Sx.eqb : Sx → Sx → Bool
  | .str a, .str b => a == b
  | .int a, .int b => a == b
  | .flt a, .flt b => decide (a = b)
  | .none, .none => true
  | .list a, .list b => Sx.eqbList a b
  | _, _ => false
def Sx.eqbList : List Sx → List Sx → Bool
  | [], [] => true
  | a :: as, b :: bs => Sx.eqb a b && Sx.eqbList as bs
  | _, _ => false
end

mutual
theorem Sx.eqb_eq : ∀ (a b : Sx), Sx.eqb a b = true → a = b
  | .list a, .list b, h => by
    simp only [Sx.eqb] at h
    rw [Sx.eqbList_eq a b h]
  | .str a, .str b, h => by simp only [Sx.eqb, beq_iff_eq] at h; rw [h]
  | .int a, .int b, h => by simp only [Sx.eqb, beq_iff_eq] at h; rw [h]
  | .flt a, .flt b, h => by simp only [Sx.eqb, decide_eq_true_eq] at h; rw [h]
  | .none, .none, _ => rfl
  | .str _, .int _, h | .str _, .flt _, h | .str _, .none, h | .str _, .list _, h
  | .int _, .str _, h | .int _, .none, h | .int _, .list _, h | .int _, .flt _, h
  | .flt _, .str _, h | .flt _, .none, h | .flt _, .list _, h | .flt _, .int _, h
  | .none, .str _, h | .none, .int _, h | .none, .flt _, h | .none, .list _, h
  | .list _, .str _, h | .list _, .int _, h | .list _, .flt _, h | .list _, .none, h => by
    simp [Sx.eqb] at h
theorem Sx.eqbList_eq : ∀ (a b : List Sx), Sx.eqbList a b = true → a = b
  | [], [], _ => rfl
  | x :: xs, y :: ys, h => by
    simp only [Sx.eqbList, Bool.and_eq_true] at h
    rw [Sx.eqb_eq x y h.1, Sx.eqbList_eq xs ys h.2]
  | [], _ :: _, h => by simp [Sx.eqbList] at h
  | _ :: _, [], h => by simp [Sx.eqbList] at h
end

/-- a number as the parser returns it -/
def ovSx : Num → Sx
  | .int v => .int v
  | .flt d => .flt d

/-- one header statement: `let name v` ↦ `let name ov[name]` when `ov` binds the name -/
def rewriteLet (ov : List (String × Num)) : Sx → Sx
  | .list [.str "let", .str n, v] =>
    match lookupOv ov n with
    | some x => .list [.str "let", .str n, ovSx x]
    | none => .list [.str "let", .str n, v]
  | e => e

/-- the program with the declared value of every overridden let replaced by the overriding value -/
def rewriteLets (ov : List (String × Num)) : Sx → Sx
  | .list (.str "circuit" :: cs) => .list (.str "circuit" :: cs.map (rewriteLet ov))
  | e => e

theorem rewriteLet_nil (e : Sx) : rewriteLet [] e = e := by
  unfold rewriteLet
  split
  · rfl
  · rfl

theorem rewriteLets_nil (e : Sx) : rewriteLets [] e = e := by
  unfold rewriteLets
  split
  · have : ∀ cs : List Sx, cs.map (rewriteLet []) = cs := by
      intro cs
      induction cs with
      | nil => rfl
      | cons c cs ih => rw [List.map_cons, ih, rewriteLet_nil]
    rw [this]
  · rfl

end Jaqal.FillIn
