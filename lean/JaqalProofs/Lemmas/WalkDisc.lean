import JaqalModel.Model.Walk
import JaqalModel.Model.WalkSpec
/-!
# `DiscoverSubcircuits` as an automaton over the flat token list

`crun` = the code's bookkeeping (`current`, `subcircuits`, one frame per open loop remembering the
trace that was open on entry, checked at loop exit) as a run over `flatToks`; `disc_flat` shows that
`discStmt` *is* that run.
-/
namespace Jaqal.Walk

structure CFrame where
  count : Int
  entry : Option Addr

structure CState where
  cur : Option Addr
  subs : List (Addr × Addr)
  stack : List CFrame

def cstep (σ : CState) : Tok → Except DiscErr CState
  | .g .prep a => .ok { σ with cur := some a }
  | .g .meas a =>
    match σ.cur with
    | none => .error .measureWithoutPrepare
    | some s => .ok { σ with cur := none, subs := σ.subs ++ [(s, a)] }
  | .g (.other _) _ =>
    match σ.cur with
    | none => .error .gateOutside
    | some _ => .ok σ
  | .lopen n => .ok { σ with stack := ⟨n, σ.cur⟩ :: σ.stack }
  | .lclose =>
    match σ.stack with
    | [] => .ok σ
    | f :: r =>
      match blockExit f.entry f.count ⟨σ.cur, σ.subs⟩ with
      | .error e => .error e
      | .ok _ => .ok { σ with stack := r }

def crun : List Tok → CState → Except DiscErr CState
  | [], σ => .ok σ
  | t :: r, σ =>
    match cstep σ t with
    | .error e => .error e
    | .ok σ' => crun r σ'

theorem crun_append (l₁ l₂ : List Tok) (σ : CState) :
    crun (l₁ ++ l₂) σ = match crun l₁ σ with | .error e => .error e | .ok σ' => crun l₂ σ' := by
  induction l₁ generalizing σ with
  | nil => simp [crun]
  | cons t r ih =>
    simp only [List.cons_append, crun]
    cases h : cstep σ t with
    | error e => simp
    | ok σ' => simp [ih]

theorem blockExit_one (e : Option Addr) (st : DState) : blockExit e 1 st = .ok st := by
  cases e <;> simp [blockExit]

theorem blockExit_ok {e : Option Addr} {n : Int} {st st' : DState} (h : blockExit e n st = .ok st') : st' = st := by
  cases e with
  | none => simp [blockExit] at h; exact h.symm
  | some s =>
    simp only [blockExit] at h
    split at h
    · cases h
    · cases h; rfl

/-- lift a discovery result into the automaton state -/
def liftD (stack : List CFrame) : Except DiscErr DState → Except DiscErr CState
  | .error e => .error e
  | .ok st => .ok ⟨st.cur, st.subs, stack⟩

mutual
  theorem disc_flat_stmt : ∀ (s : Stmt) (a : Addr) (st : DState) (stack : List CFrame),
      crun (flatStmt s a) ⟨st.cur, st.subs, stack⟩ = liftD stack (discStmt s a st)
    | .gate .prep, a, st, stack => by simp [flatStmt, crun, cstep, discStmt, liftD]
    | .gate .meas, a, st, stack => by
      cases h : st.cur <;> simp [flatStmt, crun, cstep, discStmt, liftD, h]
    | .gate (.other _), a, st, stack => by
      cases h : st.cur <;> simp [flatStmt, crun, cstep, discStmt, liftD, h]
    | .block _ b, a, st, stack => by
      have ih := disc_flat_list b a 0 st stack
      simp only [flatStmt, discStmt, ih]
      cases h : discList b a 0 st with
      | error e => simp [liftD]
      | ok st' => simp [liftD, blockExit_one]
    | .loop n _ b, a, st, stack => by
      have ih := disc_flat_list b a 0 st (⟨n, st.cur⟩ :: stack)
      simp only [flatStmt, discStmt, crun, cstep]
      rw [crun_append, ih]
      cases h : discList b a 0 st with
      | error e => simp [liftD]
      | ok st' =>
        simp only [liftD, crun, cstep]
        cases h2 : blockExit st.cur n st' with
        | error e => simp
        | ok st'' => have := blockExit_ok h2; subst this; simp
  theorem disc_flat_list : ∀ (l : List Stmt) (a : Addr) (i : Nat) (st : DState) (stack : List CFrame),
      crun (flatList l a i) ⟨st.cur, st.subs, stack⟩ = liftD stack (discList l a i st)
    | [], a, i, st, stack => by simp [flatList, crun, discList, liftD]
    | s :: r, a, i, st, stack => by
      have ih1 := disc_flat_stmt s (a ++ [i]) st stack
      simp only [flatList, discList]
      rw [crun_append, ih1]
      cases h : discStmt s (a ++ [i]) st with
      | error e => simp [liftD]
      | ok st' => simpa [liftD] using disc_flat_list r a (i + 1) st' stack
end

/-- `discover` is the automaton run over the flat token list. -/
theorem discover_eq_crun (body : List Stmt) :
    discover body = match crun (flatToks body) ⟨none, [], []⟩ with
      | .error e => .error e
      | .ok σ => .ok σ.subs := by
  have h := disc_flat_list body [] 0 ⟨none, []⟩ []
  simp only [discover, discStmt, flatToks, h]
  cases h2 : discList body [] 0 ⟨none, []⟩ with
  | error e => simp [liftD]
  | ok st' => simp [liftD, blockExit]

theorem crun_stack_of_flat (body : List Stmt) {σ : CState} (h : crun (flatToks body) ⟨none, [], []⟩ = .ok σ) :
    σ.stack = [] := by
  have h1 := disc_flat_list body [] 0 ⟨none, []⟩ []
  simp only [flatToks] at h
  rw [h1] at h
  cases h2 : discList body [] 0 ⟨none, []⟩ with
  | error e => simp [liftD, h2] at h
  | ok st' => simp [liftD, h2] at h; rw [← h]

end Jaqal.Walk
