import JaqalModel.Model.Pipeline
import JaqalModel.Spec.Grammar
/-!
# C01, token layer: the tokens the generator writes form a program of the grammar

`Pipeline.toks c` (the generator at token level) derives `Pipeline.unbuild c` in the grammar of
`Spec/Grammar.lean`, for every `printable` circuit.  With `C02_complete` the parser model therefore accepts
any positioned version of `toks c` and returns exactly `unbuild c`.

The generator ends every statement with one newline; inside a block the statements of directly nested blocks of
the same kind are spliced (`itemsToks`), so a block's content is a sequence of lines (`Lines`), each a statement
the grammar allows at that place.
-/
namespace Jaqal.Pipeline
open Jaqal Jaqal.Lexer Jaqal.Grammar Jaqal.Generator

theorem nl_seqPad : SeqPad [Tok.NL] := by
  intro t ht; simp at ht; subst ht; exact Or.inl rfl
theorem nl_parPad : ParPad [Tok.NL] := by
  intro t ht; simp at ht; subst ht; exact Or.inl rfl
theorem nl_seqSep : SeqSep [Tok.NL] := ⟨by simp, nl_seqPad⟩
theorem nl_parSep : ParSep [Tok.NL] := ⟨by simp, nl_parPad⟩

theorem letOrInt_ref {v : Val} (h : okRef v = true) : LetOrInt (refTok v) (refSx v) := by
  cases v <;> simp [okRef] at h
  · exact LetOrInt.int _
  · exact LetOrInt.ident _
  · exact LetOrInt.ident _

theorem isItem_okRef {n : String} {src idx : Val} (h : isItem n src idx = true) : okRef idx = true := by
  unfold isItem at h
  split at h
  · simp only [Bool.and_eq_true] at h; exact h.1
  · simp at h

theorem gateArg_arg {v : Val} (h : okArg v = true) : GateArg (argToks v) (argSx v) := by
  cases v with
  | int i => exact GateArg.int i
  | flt d => exact GateArg.number d
  | const n v => exact GateArg.ident _
  | param n k => exact GateArg.ident _
  | regF n s => exact GateArg.ident _
  | regA n s => exact GateArg.ident _
  | regS n s a b c => exact GateArg.ident _
  | none => simp [okArg] at h
  | str s => simp [okArg] at h
  | qubit n src idx =>
    by_cases hi : isItem n src idx = true
    · have hr := isItem_okRef hi
      simp only [argToks, argSx, hi, if_true]
      cases idx <;> simp [okRef] at hr
      · exact GateArg.itemInt _ _
      · exact GateArg.itemIdent _ _
      · exact GateArg.itemIdent _ _
    · simp only [argToks, argSx, hi]
      exact GateArg.ident n

theorem gateArgs_args : ∀ args : List (String × Val), okArgs args = true → GateArgs (argsToks args) (argsSx args)
  | [], _ => by simp only [argsToks, argsSx]; exact GateArgs.nil
  | a :: as, h => by
    simp only [okArgs, Bool.and_eq_true] at h
    simp only [argsToks, argsSx]
    exact GateArgs.cons (gateArg_arg h.1) (gateArgs_args as h.2)

/-! ## lines inside a block -/

/-- the phrase of one statement inside a block of kind `par` -/
def phStmt : Bool → Ph
  | true => .parStmt
  | false => .seqStmt

/-- statements of a block of kind `par`, each followed by one newline -/
inductive Lines (par : Bool) : List Tok → List Sx → Prop
  | nil : Lines par [] []
  | cons {s x rest xs} : Block (phStmt par) s x → Lines par rest xs → Lines par (s ++ Tok.NL :: rest) (x :: xs)

theorem Lines.append {par : Bool} {a b : List Tok} {xs ys : List Sx} (ha : Lines par a xs) (hb : Lines par b ys) :
    Lines par (a ++ b) (xs ++ ys) := by
  induction ha with
  | nil => simpa using hb
  | cons h _ ih =>
    have := Lines.cons h ih
    simpa [List.append_assoc] using this

theorem Lines.seqStmts {ts : List Tok} {xs : List Sx} (h : Lines false ts xs) : Block .seqStmts ts (.list xs) := by
  induction h with
  | nil => exact Block.seqNil
  | cons h _ ih =>
    have := Block.seqCons h nl_seqSep ih
    simpa [List.append_assoc] using this

theorem Lines.parStmts {ts : List Tok} {xs : List Sx} (h : Lines true ts xs) : Block .parStmts ts (.list xs) := by
  induction h with
  | nil => exact Block.parNil
  | cons h _ ih =>
    have := Block.parCons h nl_parSep ih
    simpa [List.append_assoc] using this

theorem seqBlock_of_lines {ts : List Tok} {xs : List Sx} (h : Lines false ts xs) :
    Block .seqBlock (Tok.lbrace :: Tok.NL :: (ts ++ [Tok.rbrace])) (.list (.str "sequential_block" :: xs)) := by
  have := Block.seqBlock nl_seqPad h.seqStmts
  simpa [List.append_assoc] using this

theorem parBlock_of_lines {ts : List Tok} {xs : List Sx} (h : Lines true ts xs) :
    Block .parBlock (Tok.lt :: Tok.NL :: (ts ++ [Tok.gt])) (.list (.str "parallel_block" :: xs)) := by
  have := Block.parBlock nl_parPad h.parStmts
  simpa [List.append_assoc] using this

theorem gateBlock_of_lines {par : Bool} {ts : List Tok} {xs : List Sx} (h : Lines par ts xs) :
    Block .gateBlock (openTok par :: Tok.NL :: (ts ++ [closeTok par])) (.list (.str (blockCmd par) :: xs)) := by
  cases par
  · exact Block.gateBlockSeq (seqBlock_of_lines h)
  · exact Block.gateBlockPar (parBlock_of_lines h)

/-! ## statements -/

theorem stmt_items_derive : ∀ n : Nat,
    (∀ (s : Stmt) (par : Bool), sizeOf s < n → okStmt par s = true → Block (phStmt par) (stmtToks s) (stmtSx s)) ∧
    (∀ (l : List Stmt) (par : Bool), sizeOf l < n → okItems par l = true →
      Lines par (itemsToks par l) (itemsSx par l)) := by
  intro n
  induction n with
  | zero => exact ⟨fun _ _ h => absurd h (Nat.not_lt_zero _), fun _ _ h => absurd h (Nat.not_lt_zero _)⟩
  | succ n ih =>
    obtain ⟨ihS, ihL⟩ := ih
    have blockLines : ∀ (p sub : Bool) (it : Val) (b : List Stmt), sizeOf (Stmt.block p sub it b) < n + 1 →
        okItems p b = true → Lines p (itemsToks p b) (itemsSx p b) := by
      intro p sub it b hs hb
      exact ihL b p (by simp at hs; omega) hb
    have stmtCase : ∀ (s : Stmt) (par : Bool), sizeOf s < n + 1 → okStmt par s = true →
        Block (phStmt par) (stmtToks s) (stmtSx s) := by
      intro s par hs hok
      cases s with
      | gate name gd args =>
        simp only [okStmt] at hok
        simp only [stmtToks, stmtSx]
        have g := Gate.mk name (gateArgs_args args hok)
        cases par
        · exact Block.seqGate g
        · exact Block.parGate g
      | loop cnt body =>
        cases body with
        | gate _ _ _ => simp [okStmt] at hok
        | loop _ _ => simp [okStmt] at hok
        | block p sub it b =>
          simp only [okStmt, Bool.and_eq_true, Bool.not_eq_true'] at hok
          obtain ⟨⟨⟨hpar, hc⟩, _⟩, hb⟩ := hok
          subst hpar
          have L := ihL b p (by simp at hs; omega) hb
          simp only [stmtToks, stmtSx]
          exact Block.seqLoop (letOrInt_ref hc) (gateBlock_of_lines L)
      | block p sub it b =>
        cases sub with
        | true =>
          simp only [okStmt, if_true, Bool.and_eq_true, Bool.not_eq_true'] at hok
          obtain ⟨⟨⟨hpar, hp⟩, hc⟩, hb⟩ := hok
          subst hpar; subst hp
          have L := (blockLines false true it b hs hb).seqStmts
          simp only [stmtToks, stmtSx, if_true, subHead, subCountSx, openTok, closeTok]
          by_cases hne : itersNe1 it = true
          · simp only [hne, if_true]
            have := Block.seqSubN (letOrInt_ref hc) nl_seqPad L
            simpa [List.append_assoc, phStmt] using this
          · simp only [hne]
            have := Block.seqSub nl_seqPad L
            simpa [List.append_assoc, phStmt] using this
        | false =>
          simp only [okStmt, Bool.false_eq_true, if_false, Bool.and_eq_true, bne_iff_ne, ne_eq] at hok
          obtain ⟨hne, hb⟩ := hok
          have L := blockLines p false it b hs hb
          simp only [stmtToks, stmtSx, Bool.false_eq_true, if_false, List.nil_append]
          cases par <;> cases p
          · exact absurd rfl hne
          · exact Block.seqPar (parBlock_of_lines L)
          · exact Block.parSeq (seqBlock_of_lines L)
          · exact absurd rfl hne
    refine ⟨stmtCase, ?_⟩
    intro l par hs hok
    cases l with
    | nil => simp only [itemsToks, itemsSx]; exact Lines.nil
    | cons s rest =>
      have hrest : sizeOf rest < n := by simp at hs; omega
      have hs1 : sizeOf s < n + 1 := by simp at hs; omega
      cases s with
      | gate name gd args =>
        simp only [okItems, Bool.and_eq_true] at hok
        simp only [itemsToks, itemsSx]
        exact Lines.cons (stmtCase _ par hs1 hok.1) (ihL rest par hrest hok.2)
      | loop cnt body =>
        simp only [okItems, Bool.and_eq_true] at hok
        simp only [itemsToks, itemsSx]
        exact Lines.cons (stmtCase _ par hs1 hok.1) (ihL rest par hrest hok.2)
      | block p sub it b =>
        cases sub with
        | true =>
          simp only [okItems, Bool.and_eq_true] at hok
          simp only [itemsToks, itemsSx]
          exact Lines.cons (stmtCase _ par hs1 hok.1) (ihL rest par hrest hok.2)
        | false =>
          by_cases hp : p = par
          · simp only [okItems, hp, if_true, Bool.and_eq_true] at hok
            simp only [itemsToks, itemsSx, hp, if_true]
            subst hp
            exact Lines.append (ihL b p (by simp at hs; omega) hok.1) (ihL rest p hrest hok.2)
          · simp only [okItems, hp, if_false, Bool.and_eq_true] at hok
            simp only [itemsToks, itemsSx, hp, if_false]
            exact Lines.cons (stmtCase _ par hs1 hok.1) (ihL rest par hrest hok.2)

theorem stmt_derive {s : Stmt} {par : Bool} (h : okStmt par s = true) : Block (phStmt par) (stmtToks s) (stmtSx s) :=
  (stmt_items_derive (sizeOf s + 1)).1 s par (Nat.lt_succ_self _) h

theorem items_derive {l : List Stmt} {par : Bool} (h : okItems par l = true) :
    Lines par (itemsToks par l) (itemsSx par l) :=
  (stmt_items_derive (sizeOf l + 1)).2 l par (Nat.lt_succ_self _) h

/-! ## header and body statements -/

theorem header_usepulses (u : String × String) : Header (usepulsesToks u) (usepulsesSx u) := by
  unfold usepulsesToks usepulsesSx modTok
  split
  · exact Header.usepulsesDot u.1
  · exact Header.usepulses u.1

theorem header_let {v : Val} (h : okLet v = true) : Header (letToks v) (letSx v) := by
  cases v with
  | const n x =>
    cases x <;> simp [okLet] at h
    · exact Header.letInt n _
    · exact Header.letNumber n _
  | _ => simp [okLet] at h

theorem header_register {v : Val} (h : okRegister v = true) : Header (regToks v) (regSx v) := by
  cases v with
  | regF n size =>
    cases size <;> simp [okRegister] at h
    · rename_i k
      exact Header.register n (LetOrInt.int k) (fun v hv => by cases hv; exact h)
    · exact Header.register n (LetOrInt.ident _) (fun v hv => by cases hv)
    · exact Header.register n (LetOrInt.ident _) (fun v hv => by cases hv)
  | _ => simp [okRegister] at h

theorem header_map {v : Val} (h : okMap v = true) : Header (mapToks v) (mapSx v) := by
  cases v with
  | qubit n src idx =>
    simp only [okMap, Bool.and_eq_true] at h
    exact Header.mapIndex n _ (letOrInt_ref h.2)
  | regA n src => exact Header.mapWhole n _
  | regS n src a b c =>
    simp only [okMap, Bool.and_eq_true] at h
    obtain ⟨⟨⟨_, ha⟩, hb⟩, hc⟩ := h
    by_cases hw : writesStep c = true
    · have := Header.mapSlice n (nameOf src) (OptLetOrInt.some (letOrInt_ref ha)) (OptLetOrInt.some (letOrInt_ref hb))
        (OptStep.some (letOrInt_ref hc))
      simpa [mapToks, mapSx, stepToks, stepSx, hw] using this
    · have := Header.mapSlice n (nameOf src) (OptLetOrInt.some (letOrInt_ref ha)) (OptLetOrInt.some (letOrInt_ref hb))
        OptStep.none
      simpa [mapToks, mapSx, stepToks, stepSx, hw] using this
  | _ => simp [okMap] at h

theorem body_macro {m : Macro} (h : okMacro m = true) : Body (macroToks m) (macroSx m) := by
  unfold okMacro at h
  unfold macroToks macroSx
  split at h
  · rename_i par sub it b hb
    simp only [Bool.and_eq_true, Bool.not_eq_true'] at h
    have := Body.macroDef m.name (m.params.map (·.1)) (gateBlock_of_lines (items_derive h.2))
    simpa [List.map_map, Function.comp_def] using this
  · simp at h

theorem body_top {s : Stmt} (h : okTop s = true) : Body (stmtToks s) (stmtSx s) := by
  cases s with
  | gate name gd args => exact Body.stmt (stmt_derive (par := false) h)
  | loop cnt body => exact Body.stmt (stmt_derive (par := false) h)
  | block p sub it b =>
    cases p <;> cases sub
    · simp only [okTop] at h
      have := Body.seqBlock (seqBlock_of_lines (items_derive h))
      simpa [stmtToks, stmtSx, openTok, closeTok, blockCmd] using this
    · exact Body.stmt (stmt_derive (par := false) h)
    · exact Body.stmt (stmt_derive (par := false) h)
    · exact Body.stmt (stmt_derive (par := false) h)

/-! ## programs -/

inductive HLines : List Tok → List Sx → Prop
  | nil : HLines [] []
  | cons {s x rest xs} : Header s x → HLines rest xs → HLines (s ++ Tok.NL :: rest) (x :: xs)

inductive BLines : List Tok → List Sx → Prop
  | nil : BLines [] []
  | cons {s x rest xs} : Body s x → BLines rest xs → BLines (s ++ Tok.NL :: rest) (x :: xs)

theorem HLines.append {a b : List Tok} {xs ys : List Sx} (ha : HLines a xs) (hb : HLines b ys) :
    HLines (a ++ b) (xs ++ ys) := by
  induction ha with
  | nil => simpa using hb
  | cons h _ ih => have := HLines.cons h ih; simpa [List.append_assoc] using this

theorem BLines.append {a b : List Tok} {xs ys : List Sx} (ha : BLines a xs) (hb : BLines b ys) :
    BLines (a ++ b) (xs ++ ys) := by
  induction ha with
  | nil => simpa using hb
  | cons h _ ih => have := BLines.cons h ih; simpa [List.append_assoc] using this

theorem BLines.stmts {ts : List Tok} {xs : List Sx} (h : BLines ts xs) : ∀ ph, Stmts ph ts xs := by
  induction h with
  | nil => intro ph; exact Stmts.nil
  | cons h _ ih =>
    intro ph
    have := Stmts.consBody (ph := ph) h nl_seqSep (ih .body)
    simpa [List.append_assoc] using this

theorem HLines.stmts {a b : List Tok} {xs ys : List Sx} (ha : HLines a xs) (hb : BLines b ys) :
    Stmts .header (a ++ b) (xs ++ ys) := by
  induction ha with
  | nil => simpa using hb.stmts .header
  | cons h _ ih =>
    have := Stmts.consHeader h nl_seqSep ih
    simpa [List.append_assoc] using this

theorem hlines_of {α : Type} (f : α → List Tok) (g : α → Sx) :
    ∀ l : List α, (∀ x ∈ l, Header (f x) (g x)) → HLines (lines f l) (l.map g)
  | [], _ => HLines.nil
  | x :: xs, h => by
    simp only [lines, List.map]
    exact HLines.cons (h x (by simp)) (hlines_of f g xs (fun y hy => h y (by simp [hy])))

theorem blines_of {α : Type} (f : α → List Tok) (g : α → Sx) :
    ∀ l : List α, (∀ x ∈ l, Body (f x) (g x)) → BLines (lines f l) (l.map g)
  | [], _ => BLines.nil
  | x :: xs, h => by
    simp only [lines, List.map]
    exact BLines.cons (h x (by simp)) (blines_of f g xs (fun y hy => h y (by simp [hy])))

/-- Layer A: the generator's tokens derive the S-expression `unbuild c`. -/
theorem toks_derive (c : Circuit) (h : printable c = true) : Derives (toks c) (unbuild c) := by
  unfold printable at h
  simp only [Bool.and_eq_true, List.all_eq_true] at h
  obtain ⟨⟨⟨⟨_, hlets⟩, hregs⟩, hmacros⟩, hbody⟩ := h
  have hU := hlines_of usepulsesToks usepulsesSx c.usepulses (fun u _ => header_usepulses u)
  have hL := hlines_of letToks letSx c.constants (fun v hv => header_let (hlets v hv))
  have hR := hlines_of regToks regSx (c.registers.filter isFund) (fun v hv => by
    have hm := List.mem_filter.mp hv
    have := hregs v hm.1
    simp only [hm.2, if_true] at this
    exact header_register this)
  have hM := hlines_of mapToks mapSx (c.registers.filter (fun r => !isFund r)) (fun v hv => by
    have hm := List.mem_filter.mp hv
    have := hregs v hm.1
    have hf : isFund v = false := by simpa using hm.2
    simp only [hf, Bool.false_eq_true, if_false] at this
    exact header_map this)
  have hMac := blines_of macroToks macroSx c.macros (fun m hm => body_macro (hmacros m hm))
  have hB : BLines (lines stmtToks c.body.stmts) (c.body.stmts.map stmtSx) := by
    cases hb : c.body with
    | block p sub it b =>
      rw [hb] at hbody
      simp only [List.all_eq_true] at hbody
      exact blines_of stmtToks stmtSx b (fun s hs => body_top (hbody s hs))
    | gate _ _ _ => rw [hb] at hbody; simp at hbody
    | loop _ _ => rw [hb] at hbody; simp at hbody
  have hH := (hU.append hL).append hR
  have hS := (hH.append hM).stmts (hMac.append hB)
  have hpad : SeqPad (if (headerToks c).isEmpty then [Tok.NL] else []) := by
    split
    · exact nl_seqPad
    · intro t ht; simp at ht
  have := Derives.circuit hpad hS
  simpa [toks, unbuild, headerToks, List.append_assoc] using this

end Jaqal.Pipeline
