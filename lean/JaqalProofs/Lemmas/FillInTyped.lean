import JaqalProofs.Props.C05
import JaqalProofs.Lemmas.RunModelExec
/-!
# Typed values and the visitors of `fill_in_let` (lemmas for `Props/C05Class.lean`)

`fillInLet ov c` = the visitors (`letSx`: `LetFiller` / `RegisterVisitor` on every value) followed by the rebuild
(`Builder.build (rebuildCfg c)` on the S-expression with the visited objects embedded).

* **`C05_letSx_class`** — on a TYPED circuit (`TypedC`: every gate argument, count and register is a number, a numeric let
  constant, a parameter, a register sized and sliced by ints or integer constants (`RegT`), or a qubit of such a register / of a
  parameter with an int, integer-constant or parameter index — what `Builder.build` makes of parser output) the visitors fail
  with `JaqalError` only, whatever the override list (an overriding float for a register size, a slice bound or a qubit index is
  refused by the constructors), and what they return is typed again and free of constants (`letVal_typed`).
* **`C05_total_class_partial`** — hence `fillInLet ov c` fails with `JaqalError` / `ImportError` only, GIVEN `RebuildTotal ov c`:
  the rebuild of the visited S-expression is total.  NOT proved: it is `C16_builder_total` for the shapes `letSx` produces
  (`["gate", name, obj…]`, `["loop", obj, block]`, `["subcircuit_block", obj, …]`, embedded constants / registers / macros) instead
  of parser shapes; the leaf lemmas (`callDef_total`, `validateCount_total`, `addVar_total`, `rebuildStmt_total`) and the
  context-free invariants (`GInv`, `buildAny_known`, `circuitLoop_shape`) are all there, the induction over `anyStep` is not.
* `C05_total_class_untyped_false` — the statement asked for first, with `FillIn.WellFormed c` as the only hypothesis, is FALSE:
  `WellFormed` says nothing about values, and for a qubit taken from something that is not a register the visitor raises
  `AttributeError`.  (No such circuit is built from text.)
-/
namespace Jaqal.FillIn
open Jaqal Jaqal.Builder Jaqal.RunModel

/-! ### Typed values -/

/-- a value of a built circuit, before `fill_in_let` -/
def InT : Val → Bool
  | .int _ => true
  | .flt _ => true
  | .const _ (.int _) => true
  | .const _ (.flt _) => true
  | .param _ _ => true
  | .qubit _ src idx => (RegT src || isParam src) && (isIntC idx || isParam idx)
  | v => RegT v

def isIntL : Val → Bool
  | .int _ => true
  | _ => false

/-- a register sized and sliced by Python ints -/
def RegL : Val → Bool
  | .regF _ size => isIntL size
  | .regA _ src => RegL src
  | .regS _ src a b s => RegL src && isIntL a && isIntL b && isIntL s
  | _ => false

/-- a value after `fill_in_let`: no constants -/
def OutT : Val → Bool
  | .int _ => true
  | .flt _ => true
  | .param _ _ => true
  | .qubit _ src idx => (RegL src || isParam src) && (isIntL idx || isParam idx)
  | v => RegL v

theorem isIntL_intC {v : Val} (h : isIntL v = true) : isIntC v = true := by
  cases v <;> simp [isIntL] at h; rfl

theorem RegL_RegT : ∀ v : Val, RegL v = true → RegT v = true
  | .regF _ size, h => by simp only [RegL] at h; simpa [RegT] using isIntL_intC h
  | .regA _ src, h => by simp only [RegL] at h; simpa [RegT] using RegL_RegT src h
  | .regS _ src a b s, h => by
    simp only [RegL, Bool.and_eq_true] at h
    simp only [RegT, Bool.and_eq_true]
    exact ⟨⟨⟨RegL_RegT src h.1.1.1, isIntL_intC h.1.1.2⟩, isIntL_intC h.1.2⟩, isIntL_intC h.2⟩
  | .int _, h | .flt _, h | .const _ _, h | .param _ _, h | .qubit _ _ _, h | .none, h | .str _, h => by simp [RegL] at h

/-- a number that is an int, or a float that is NOT integral (what `as_integer` returns) -/
def NumI : Val → Prop
  | .int _ => True
  | .flt d => d.isIntegral = false
  | _ => False

theorem resolveConstant_intC {ov : List (String × Num)} {v : Val} (h : isIntC v = true) (hc : isConst v = true) :
    Cls Good (resolveConstant ov v) ∧ ∀ w, resolveConstant ov v = .ok w → NumI w := by
  cases v with
  | const n x =>
    cases x <;> simp [isIntC] at h
    rename_i k
    simp only [resolveConstant]
    cases hl : lookupOv ov n with
    | none => exact ⟨Cls.pure _, fun w hw => by cases hw; trivial⟩
    | some y =>
      refine ⟨Cls.pure _, fun w hw => ?_⟩
      simp only [pure, Except.pure] at hw
      cases hw
      cases y with
      | int a => trivial
      | flt d =>
        simp only [Num.asInteger]
        split
        · trivial
        · rename_i hd; simpa [NumI, Val.ofNum] using hd
  | _ => simp [isConst] at hc

theorem intC_cases {v : Val} (h : isIntC v = true) : isIntL v = true ∨ isConst v = true := by
  cases v with
  | int _ => exact Or.inl rfl
  | const _ _ => exact Or.inr rfl
  | _ => simp [isIntC] at h

/-- `letVal` on an int or an integer constant: a number (`NumI`) -/
theorem letVal_intC {ov : List (String × Num)} {rv : Bool} {v : Val} (h : isIntC v = true) :
    Cls Good (letVal ov rv v) ∧ ∀ w, letVal ov rv v = .ok w → NumI w := by
  rcases intC_cases h with hl | hc
  · cases v <;> simp [isIntL] at hl
    exact ⟨Cls.pure _, fun w hw => by simp only [letVal, pure, Except.pure] at hw; cases hw; trivial⟩
  · cases v <;> simp [isConst] at hc
    simpa only [letVal] using resolveConstant_intC (ov := ov) h rfl

theorem mkRegister_numI {n : String} {ns v : Val} (hn : NumI ns) (h : mkRegister n ns = .ok v) : RegL v = true := by
  cases ns with
  | int k =>
    simp only [mkRegister] at h
    split at h
    · cases h
    · cases h; rfl
  | flt d =>
    simp only [NumI] at hn
    simp [mkRegister, hn, throw_eq] at h
  | _ => cases hn

theorem sliceCheck_numI {src a b s : Val} (ha : NumI a) (hb : NumI b) (hs : NumI s) (h : sliceCheck src a b s = .ok ()) :
    isIntL a = true ∧ isIntL b = true ∧ isIntL s = true := by
  unfold sliceCheck at h
  by_cases c0 : (!((isIntLit a || isAV a) && (isIntLit b || isAV b) && (isIntLit s || isAV s))) = true
  · simp [c0, throw_eq, bind, Except.bind] at h
  · simp only [Bool.not_eq_true, Bool.not_eq_false', Bool.and_eq_true, Bool.or_eq_true] at c0
    obtain ⟨⟨h1, h2⟩, h3⟩ := c0
    refine ⟨?_, ?_, ?_⟩
    · cases a <;> simp [NumI] at ha <;> simp [isIntLit, isAV] at h1 ⊢ <;> rfl
    · cases b <;> simp [NumI] at hb <;> simp [isIntLit, isAV] at h2 ⊢ <;> rfl
    · cases s <;> simp [NumI] at hs <;> simp [isIntLit, isAV] at h3 ⊢ <;> rfl

/-- registers: every failure is a `JaqalError`, and the result is sized and sliced by ints -/
theorem letVal_reg {ov : List (String × Num)} {rv : Bool} : ∀ (v : Val), RegT v = true →
    Cls Good (letVal ov rv v) ∧ ∀ w, letVal ov rv v = .ok w → RegL w = true
  | .regF n size, h => by
    have hs : isIntC size = true := by simpa [RegT] using h
    simp only [letVal]
    rcases intC_cases hs with hl | hc
    · have : isConst size = false := by cases size <;> simp [isIntL] at hl <;> rfl
      simp only [this, Bool.false_eq_true, if_false]
      exact ⟨Cls.pure _, fun w hw => by cases hw; simpa [RegL] using hl⟩
    · simp only [hc, if_true]
      obtain ⟨h1, h2⟩ := resolveConstant_intC (ov := ov) hs hc
      refine ⟨Cls.bind h1 (fun ns _ => fun e he => (mkRegister_total n ns) e he), ?_⟩
      intro w hw
      obtain ⟨ns, hns, hw⟩ := bind_ok hw
      exact mkRegister_numI (h2 ns hns) hw
  | .regA n src, h => by
    have hs : RegT src = true := by simpa [RegT] using h
    obtain ⟨h1, h2⟩ := letVal_reg (ov := ov) (rv := rv) src hs
    simp only [letVal]
    refine ⟨Cls.bind h1 (fun _ _ => Cls.pure _), ?_⟩
    intro w hw
    obtain ⟨nf, hnf, hw⟩ := bind_ok hw
    cases hw
    simpa [RegL] using h2 nf hnf
  | .regS n src a b s, h => by
    simp only [RegT, Bool.and_eq_true] at h
    obtain ⟨⟨⟨hs, ha⟩, hb⟩, hst⟩ := h
    obtain ⟨h1, h2⟩ := letVal_reg (ov := ov) (rv := rv) src hs
    obtain ⟨ha1, ha2⟩ := letVal_intC (ov := ov) (rv := rv) ha
    obtain ⟨hb1, hb2⟩ := letVal_intC (ov := ov) (rv := rv) hb
    obtain ⟨hs1, hs2⟩ := letVal_intC (ov := ov) (rv := rv) hst
    simp only [letVal]
    constructor
    · refine Cls.bind h1 (fun nf hnf => Cls.bind ha1 (fun a' _ => Cls.bind hb1 (fun b' _ => Cls.bind hs1 (fun s' _ => ?_))))
      unfold mkSliceN
      split
      · rename_i hnone
        exfalso
        have hA := ha2 a' ‹_›
        have hB := hb2 b' ‹_›
        have hS := hs2 s' ‹_›
        cases a' <;> cases b' <;> cases s' <;> simp [NumI] at hA hB hS <;> simp at hnone
      · unfold mkSlice
        exact Cls.bind (fun e he => sliceCheck_total (Or.inl (RegL_RegT nf (h2 nf hnf))) e he) (fun _ _ => Cls.pure _)
    · intro w hw
      obtain ⟨nf, hnf, hw⟩ := bind_ok hw
      obtain ⟨a', ha', hw⟩ := bind_ok hw
      obtain ⟨b', hb', hw⟩ := bind_ok hw
      obtain ⟨s', hs', hw⟩ := bind_ok hw
      obtain ⟨rfl, _, _, _, hmk⟩ := mkSliceN_eq hw
      unfold mkSlice at hmk
      obtain ⟨u, hu, _⟩ := bind_ok hmk
      obtain ⟨i1, i2, i3⟩ := sliceCheck_numI (ha2 a' ha') (hb2 b' hb') (hs2 s' hs') (by cases u; exact hu)
      simp only [RegL, Bool.and_eq_true]
      exact ⟨⟨⟨h2 nf hnf, i1⟩, i2⟩, i3⟩
  | .int _, h | .flt _, h | .const _ _, h | .param _ _, h | .qubit _ _ _, h | .none, h | .str _, h => by simp [RegT] at h

/-- an accepted `NamedQubit(name, src, idx)` whose index is a number as `as_integer` returns it: the index is an int -/
theorem mkQubit_numI {n : String} {src idx v : Val} (hn : NumI idx) (h : mkQubit n src idx = .ok v) : isIntL idx = true := by
  cases idx with
  | int _ => rfl
  | flt d =>
    exfalso
    simp only [NumI] at hn
    unfold mkQubit at h
    obtain ⟨u, hu, _⟩ := bind_ok h
    unfold qubitCheck at hu
    by_cases h0 : (Val.flt d == Val.none || src == Val.none) = true
    · simp [h0, throw_eq, bind, Except.bind] at hu
    simp only [h0, Bool.false_eq_true, if_false, pure_bind] at hu
    by_cases hav : (isAV (Val.flt d) || isAV src) = true
    · simp only [hav, if_true] at hu
      have : isFractional (Val.flt d) = true := by simp [isFractional, hn]
      simp [this, throw_eq, bind, Except.bind] at hu
    · simp only [hav, Bool.false_eq_true, if_false] at hu
      simp [indexIntegralCheck, hn, throw_eq, bind, Except.bind] at hu
  | _ => cases hn

theorem mkQubit_class (n : String) {src : Val} (idx : Val) (hs : RegT src = true ∨ isParam src = true) :
    Cls Good (mkQubit n src idx) := by
  unfold mkQubit
  exact Cls.bind (fun e he => qubitCheck_total hs e he) (fun _ _ => Cls.pure _)

theorem fgetItem_class {arr : Val} (idx : Val) (hs : RegT arr = true ∨ isParam arr = true) (hnum : NumI idx) :
    Cls Good (FillIn.getItem arr idx) := by
  have hrp : (isRegister arr || isParam arr) = true := by
    rcases hs with h | h
    · simp [RegT_isRegister h]
    · simp [h]
  obtain ⟨an, han⟩ : ∃ an, arr.name? = some an := by
    rcases hs with h | h <;> cases arr <;> simp [RegT, isParam] at h <;> exact ⟨_, rfl⟩
  unfold FillIn.getItem
  simp only [hrp, Bool.not_true, Bool.false_eq_true, if_false, han]
  have : ∃ nm, FillIn.itemName an idx = some nm := by
    cases idx <;> simp [NumI] at hnum <;> exact ⟨_, rfl⟩
  obtain ⟨nm, hnm⟩ := this
  simp only [hnm]
  exact mkQubit_class nm idx hs

/-- **values**: on a typed value the visitor fails with `JaqalError` only and returns a typed, constant-free value -/
theorem letVal_typed {ov : List (String × Num)} {rv : Bool} : ∀ (v : Val), InT v = true →
    Cls Good (letVal ov rv v) ∧ ∀ w, letVal ov rv v = .ok w → OutT w = true
  | .int _, _ => ⟨Cls.pure _, fun w hw => by cases hw; rfl⟩
  | .flt _, _ => ⟨Cls.pure _, fun w hw => by cases hw; rfl⟩
  | .none, h => by simp [InT, RegT] at h
  | .str _, h => by simp [InT, RegT] at h
  | .param _ _, _ => ⟨Cls.pure _, fun w hw => by cases hw; rfl⟩
  | .const n x, h => by
    simp only [letVal, resolveConstant]
    cases hl : lookupOv ov n with
    | some y =>
      refine ⟨Cls.pure _, fun w hw => ?_⟩
      simp only [pure, Except.pure] at hw
      cases hw
      cases Num.asInteger y <;> rfl
    | none =>
      cases x <;> simp [InT, RegT] at h
      · exact ⟨Cls.pure _, fun w hw => by cases hw; rfl⟩
      · exact ⟨Cls.pure _, fun w hw => by cases hw; rfl⟩
  | .regF n s, h => by
    obtain ⟨h1, h2⟩ := letVal_reg (ov := ov) (rv := rv) (.regF n s) (by simpa [InT] using h)
    exact ⟨h1, fun w hw => by have := h2 w hw; cases w <;> simp [RegL] at this <;> simpa [OutT, RegL] using this⟩
  | .regA n s, h => by
    obtain ⟨h1, h2⟩ := letVal_reg (ov := ov) (rv := rv) (.regA n s) (by simpa [InT] using h)
    exact ⟨h1, fun w hw => by have := h2 w hw; cases w <;> simp [RegL] at this <;> simpa [OutT, RegL] using this⟩
  | .regS n s a b c, h => by
    obtain ⟨h1, h2⟩ := letVal_reg (ov := ov) (rv := rv) (.regS n s a b c) (by simpa [InT] using h)
    exact ⟨h1, fun w hw => by have := h2 w hw; cases w <;> simp [RegL] at this <;> simpa [OutT, RegL] using this⟩
  | .qubit name src idx, h => by
    simp only [InT, Bool.and_eq_true, Bool.or_eq_true] at h
    obtain ⟨hsrc, hidx⟩ := h
    -- the visited source
    have hsrc' : Cls Good (letVal ov rv src) ∧
        ∀ nf, letVal ov rv src = .ok nf → (RegL nf = true ∨ isParam nf = true) := by
      rcases hsrc with hr | hp
      · obtain ⟨h1, h2⟩ := letVal_reg (ov := ov) (rv := rv) src hr
        exact ⟨h1, fun nf hnf => Or.inl (h2 nf hnf)⟩
      · cases src <;> simp [isParam] at hp
        exact ⟨Cls.pure _, fun nf hnf => by simp only [letVal, pure, Except.pure] at hnf; cases hnf; exact Or.inr rfl⟩
    have hsrcT : ∀ nf, letVal ov rv src = .ok nf → (RegT nf = true ∨ isParam nf = true) := fun nf hnf =>
      (hsrc'.2 nf hnf).imp (RegL_RegT nf) id
    have hname : ∃ an, src.name? = some an := by
      rcases hsrc with h | h <;> cases src <;> simp [RegT, isParam] at h <;> exact ⟨_, rfl⟩
    simp only [letVal]
    by_cases hc : isConst idx = true
    · have hic : isIntC idx = true := by
        rcases hidx with h | h
        · exact h
        · cases idx <;> simp [isParam] at h; simp [isConst] at hc
      obtain ⟨hr1, hr2⟩ := resolveConstant_intC (ov := ov) hic hc
      simp only [hc, if_true]
      constructor
      · refine Cls.bind hsrc'.1 (fun nf hnf => Cls.bind hr1 (fun ni hni => ?_))
        unfold constIndexQubit
        obtain ⟨an, han⟩ := hname
        have : ∃ nm, FillIn.itemName an idx = some nm := by
          cases idx <;> simp [isConst] at hc; exact ⟨_, rfl⟩
        obtain ⟨nm, hnm⟩ := this
        cases rv with
        | true => simp only [if_true]; exact mkQubit_class name ni (hsrcT nf hnf)
        | false =>
          simp only [Bool.false_eq_true, if_false, han, Option.bind_some, hnm]
          split
          · exact mkQubit_class name ni (hsrcT nf hnf)
          · exact fgetItem_class ni (hsrcT nf hnf) (hr2 ni hni)
      · intro w hw
        obtain ⟨nf, hnf, hw⟩ := bind_ok hw
        obtain ⟨ni, hni, hw⟩ := bind_ok hw
        have hq : ∃ nm, w = .qubit nm nf ni ∧ mkQubit nm nf ni = .ok w := by
          unfold constIndexQubit at hw
          cases rv with
          | true => simp only [if_true] at hw; exact ⟨name, mkQubit_eq hw, hw⟩
          | false =>
            simp only [Bool.false_eq_true, if_false] at hw
            split at hw
            · split at hw
              · exact ⟨name, mkQubit_eq hw, hw⟩
              · unfold FillIn.getItem at hw
                split at hw
                · simp [throw_eq] at hw
                · split at hw
                  · simp [throw_eq] at hw
                  · split at hw
                    · exact ⟨_, mkQubit_eq hw, hw⟩
                    · obtain ⟨_, _, hw⟩ := bind_ok hw
                      simp [throw_eq] at hw
            · simp [throw_eq] at hw
        obtain ⟨nm, rfl, hmk⟩ := hq
        have hil := mkQubit_numI (hr2 ni hni) hmk
        simp only [OutT, Bool.and_eq_true, Bool.or_eq_true]
        exact ⟨hsrc'.2 nf hnf, Or.inl hil⟩
    · have hc' : isConst idx = false := by simpa using hc
      simp only [hc', Bool.false_eq_true, if_false]
      constructor
      · exact Cls.bind hsrc'.1 (fun nf hnf => mkQubit_class name idx (hsrcT nf hnf))
      · intro w hw
        obtain ⟨nf, hnf, hw⟩ := bind_ok hw
        have := mkQubit_eq hw
        subst this
        simp only [OutT, Bool.and_eq_true, Bool.or_eq_true]
        refine ⟨hsrc'.2 nf hnf, ?_⟩
        rcases hidx with h | h
        · rcases intC_cases h with hl | hcc
          · exact Or.inl hl
          · rw [hcc] at hc'; cases hc'
        · exact Or.inr h

/-! ### Statements, macros, the circuit -/

/-- a loop count or an iteration count as `_validate_count` lets it through: an int, an integer let constant, a parameter -/
def CntIn (v : Val) : Bool := isIntC v || isParam v

theorem CntIn_InT {v : Val} (h : CntIn v = true) : InT v = true := by
  cases v with
  | const n x => cases x <;> simp [CntIn, isIntC, isParam] at h <;> rfl
  | int _ => rfl
  | param _ _ => rfl
  | _ => simp [CntIn, isIntC, isParam] at h

mutual
  /-- every gate argument is typed and every count is an int, an integer constant or a parameter -/
  def StmtIn : Stmt → Prop
    | .gate _ _ args => ∀ a ∈ args, InT a.2 = true
    | .block _ _ it body => CntIn it = true ∧ StmtsIn body
    | .loop c b => CntIn c = true ∧ StmtIn b
  def StmtsIn : List Stmt → Prop
    | [] => True
    | s :: r => StmtIn s ∧ StmtsIn r
end

/-- the circuits `Builder.build` makes of parser output, as far as the types of their values go -/
structure TypedC (c : Circuit) : Prop where
  body : StmtIn c.body
  macros : ∀ m ∈ c.macros, StmtIn m.body
  registers : ∀ v ∈ c.registers, InT v = true
  constants : ∀ v ∈ c.constants, isConst v = true
  regLike : ∀ v ∈ c.registers, isRegLike v = true

theorem visitArgs_class {ov : List (String × Num)} : ∀ (args : List (String × Val)), (∀ a ∈ args, InT a.2 = true) →
    Cls Good (visitArgs (letVal ov false) args)
  | [], _ => Cls.pure _
  | (n, v) :: rest, h => by
    simp only [visitArgs]
    exact Cls.bind (letVal_typed v (h (n, v) (List.mem_cons_self ..))).1 (fun _ _ =>
      Cls.bind (visitArgs_class rest (fun a ha => h a (List.mem_cons_of_mem _ ha))) (fun _ _ => Cls.pure _))

mutual
  theorem letStmt_class {ov : List (String × Num)} : ∀ (s : Stmt), StmtIn s →
      Cls Good (visitStmt (letVal ov false) (letVal ov false) s)
    | .gate name gd args, h => by
      simp only [visitStmt]
      exact Cls.bind (visitArgs_class args h) (fun _ _ => Cls.pure _)
    | .block par sub it body, h => by
      simp only [StmtIn] at h
      simp only [visitStmt]
      refine Cls.bind (letStmts_class body h.2) (fun ss _ => ?_)
      cases sub with
      | true => simp only [if_true]; exact Cls.bind (letVal_typed it (CntIn_InT h.1)).1 (fun _ _ => Cls.pure _)
      | false => simp only [Bool.false_eq_true, if_false]; exact Cls.pure _
    | .loop c b, h => by
      simp only [StmtIn] at h
      simp only [visitStmt]
      exact Cls.bind (letVal_typed c (CntIn_InT h.1)).1 (fun _ _ => Cls.bind (letStmt_class b h.2) (fun _ _ => Cls.pure _))
  theorem letStmts_class {ov : List (String × Num)} : ∀ (l : List Stmt), StmtsIn l →
      Cls Good (visitStmts (letVal ov false) (letVal ov false) l)
    | [], _ => Cls.pure _
    | s :: r, h => by
      simp only [visitStmts]
      exact Cls.bind (letStmt_class s h.1) (fun _ _ => Cls.bind (letStmts_class r h.2) (fun _ _ => Cls.pure _))
end

theorem visitStmt_list {F G : Val → M Val} {s : Stmt} {x : BSx} (h : visitStmt F G s = .ok x) : ∃ l, x = .list l := by
  cases s with
  | gate n gd args =>
    simp only [visitStmt] at h
    obtain ⟨_, _, h⟩ := bind_ok h
    cases h; exact ⟨_, rfl⟩
  | block par sub it body =>
    simp only [visitStmt] at h
    obtain ⟨_, _, h⟩ := bind_ok h
    split at h
    · obtain ⟨_, _, h⟩ := bind_ok h
      cases h; exact ⟨_, rfl⟩
    · cases h; exact ⟨_, rfl⟩
  | loop c b =>
    simp only [visitStmt] at h
    obtain ⟨_, _, h⟩ := bind_ok h
    obtain ⟨_, _, h⟩ := bind_ok h
    cases h; exact ⟨_, rfl⟩

theorem mapM_cls {α β : Type} {f : α → M β} : ∀ {l : List α}, (∀ x ∈ l, Cls Good (f x)) → Cls Good (l.mapM f) :=
  fun h => mapM_total h

/-- **C05 (classes, the visitors).** On a typed circuit the S-expression handed to the rebuild is produced, or the visitors
fail with `JaqalError` — whatever the overrides. -/
theorem C05_letSx_class (ov : List (String × Num)) (c : Circuit) (ht : TypedC c) : Cls Good (letSx ov c) := by
  unfold letSx letStmt
  refine Cls.bind (letStmt_class c.body ht.body) (fun body hb => ?_)
  obtain ⟨l, rfl⟩ := visitStmt_list hb
  refine Cls.bind ?_ (fun stmts _ => Cls.bind (mapM_cls (fun v hv => (letVal_typed v (ht.registers v hv)).1))
    (fun regs _ => Cls.bind (mapM_cls (fun m hm => ?_)) (fun _ _ => Cls.pure _)))
  · cases l <;> exact Cls.pure _
  · unfold letMacro letStmt
    exact Cls.bind (letStmt_class m.body (ht.macros m hm)) (fun _ _ => Cls.pure _)

/-- the rebuild of the visited S-expression is total (NOT proved; see the header) -/
def RebuildTotal (ov : List (String × Num)) (c : Circuit) : Prop :=
  ∀ sx, letSx ov c = .ok sx → Cls Good (build (rebuildCfg c) sx)

/-- **C05 (classes).** `fill_in_let` on a typed circuit fails with `JaqalError` / `ImportError` only, given that the rebuild
is total. -/
theorem C05_total_class_partial (ov : List (String × Num)) (c : Circuit) (ht : TypedC c) (hr : RebuildTotal ov c) :
    ∀ e, fillInLet ov c = .error e → Good e := by
  show Cls Good (fillInLet ov c)
  unfold fillInLet
  exact Cls.bind (C05_letSx_class ov c ht) (fun sx hsx => hr sx hsx)

end Jaqal.FillIn
