import JaqalProofs.Lemmas.LexerStable
/-!
The token list of a text, without positions (`lexT`), the runs of the tokenizer between two places of a
text (`Run`), and what inserting layout at such a place does to the token list.
-/
namespace Jaqal.Lexer

/-! ## Position-free lexing -/

/-- `lexAux` without positions: the tokens before the first error, and whether there is an error. -/
def lexK : Nat → List Char → List Tok × Bool
  | 0, _ => ([], false)
  | _+1, [] => ([], false)
  | fuel+1, c :: rest =>
    if isIgnore c then lexK fuel rest
    else
      match step (c :: rest) with
      | .token t r _ => let x := lexK fuel r; (t :: x.1, x.2)
      | .skip r _ => lexK fuel r
      | .overflow => ([], true)
      | .illegal => ([], true)

def lexT (cs : List Char) : List Tok × Bool := lexK (cs.length + 1) cs

theorem lexAux_lexK (text : List Char) : ∀ (fuel : Nat) (cs : List Char) (line : Nat),
    ((lexAux text fuel cs line).1.map (·.tok), (lexAux text fuel cs line).2.isSome) = lexK fuel cs := by
  intro fuel
  induction fuel with
  | zero => intro cs line; rfl
  | succ fuel ih =>
    intro cs line
    cases cs with
    | nil => rfl
    | cons c rest =>
      simp only [lexAux, lexK]
      split
      · exact ih rest line
      · split
        · rename_i t r nl hs
          simp only [hs]
          have := ih r (line + nl)
          rw [← this]
          simp
        · rename_i r nl hs
          simp only [hs]
          exact ih r (line + nl)
        · rename_i hs; simp [hs]
        · rename_i hs; simp [hs]

theorem lexK_fuel : ∀ (f f' : Nat) (cs : List Char), cs.length < f → cs.length < f' → lexK f cs = lexK f' cs := by
  intro f
  induction f with
  | zero => intro f' cs h; omega
  | succ f ih =>
    intro f' cs h h'
    cases f' with
    | zero => omega
    | succ f' =>
      cases cs with
      | nil => rfl
      | cons c rest =>
        simp only [lexK]
        split
        · exact ih f' rest (by simp at h; omega) (by simp at h'; omega)
        · split
          · rename_i t r nl hs
            have := (step_token hs).length
            rw [ih f' r (by simp at h this; omega) (by simp at h' this; omega)]
          · rename_i r nl hs
            obtain ⟨m, hm, hcs⟩ := step_skip hs
            have hlen : r.length < (c :: rest).length := by
              rw [hcs]
              rcases hm with ⟨b, rfl, -⟩ | ⟨b, rfl⟩ <;> simp <;> omega
            exact ih f' r (by simp at h hlen; omega) (by simp at h' hlen; omega)
          · rfl
          · rfl

theorem lexAll_lexT (s : String) :
    ((lexAll s).1.map (·.tok), (lexAll s).2.isSome) = lexT s.toList :=
  lexAux_lexK s.toList _ _ 1

theorem step_ignore {c : Char} (hc : isIgnore c = true) (cs : List Char) : step (c :: cs) = .illegal := by
  have : c = ' ' ∨ c = '\t' := by simpa [isIgnore] using hc
  rcases this with rfl | rfl <;>
    simp [step, mNL, spanP, mIdent, isAlpha_, mDotIdent, mNumber, optSign, isSign, isDigit, mInt, mBinInt,
      literal?] <;>
    cases cs <;> simp [mComment, mBlockComment]

theorem lexT_nil : lexT [] = ([], false) := rfl

theorem lexT_ws {c : Char} (hc : isIgnore c = true) (cs : List Char) : lexT (c :: cs) = lexT cs := by
  simp only [lexT, lexK, hc, if_true, List.length_cons]

theorem not_ignore_of_step {c : Char} {cs : List Char} (h : step (c :: cs) ≠ .illegal) : isIgnore c = false := by
  cases hi : isIgnore c with
  | false => rfl
  | true => exact absurd (step_ignore hi cs) h

theorem lexT_token {cs r : List Char} {t : Tok} {nl : Nat} (h : step cs = .token t r nl) :
    lexT cs = (t :: (lexT r).1, (lexT r).2) := by
  have hlen := (step_token h).length
  cases cs with
  | nil => simp at hlen
  | cons c rest =>
    have hi := not_ignore_of_step (c := c) (cs := rest) (by rw [h]; simp)
    simp only [lexT, lexK, hi, h, List.length_cons]
    rw [lexK_fuel (rest.length + 1) (r.length + 1) r (by simp at hlen; omega) (by omega)]
    simp

theorem lexT_skip {cs r : List Char} {nl : Nat} (h : step cs = .skip r nl) : lexT cs = lexT r := by
  obtain ⟨m, hm, hcs⟩ := step_skip h
  have hlen : r.length < cs.length := by
    rw [hcs]
    rcases hm with ⟨b, rfl, -⟩ | ⟨b, rfl⟩ <;> simp <;> omega
  cases cs with
  | nil => simp at hlen
  | cons c rest =>
    have hi := not_ignore_of_step (c := c) (cs := rest) (by rw [h]; simp)
    simp only [lexT, lexK, hi, h, List.length_cons]
    exact lexK_fuel _ _ r (by simp at hlen; omega) (by omega)

/-- `Run cs cs' ts lc`: the tokenizer, started on `cs`, arrives at the remaining text `cs'` after emitting
the tokens `ts`; `lc` tells that the last step was a `//` comment (which then ends exactly at `cs'`). -/
inductive Run : List Char → List Char → List Tok → Bool → Prop
  | refl (cs : List Char) : Run cs cs [] false
  | ws {c cs cs' ts lc} : isIgnore c = true → Run cs cs' ts lc → Run (c :: cs) cs' ts lc
  | tok {cs r cs' t nl ts lc} : step cs = .token t r nl → Run r cs' ts lc → Run cs cs' (t :: ts) lc
  | skip {cs r cs' nl ts lc} : step cs = .skip r nl → (mComment cs = none ∨ r ≠ cs') → Run r cs' ts lc →
      Run cs cs' ts lc
  | lineEnd {cs cs' nl} : step cs = .skip cs' nl → mComment cs ≠ none → Run cs cs' [] true

theorem Run.suffix {cs cs' ts lc} (h : Run cs cs' ts lc) : ∃ x, cs = x ++ cs' := by
  induction h with
  | refl cs => exact ⟨[], rfl⟩
  | ws _ _ ih => obtain ⟨x, rfl⟩ := ih; exact ⟨_ :: x, rfl⟩
  | tok hs _ ih =>
    obtain ⟨x, rfl⟩ := ih
    obtain ⟨m, -, hm⟩ := step_token hs
    exact ⟨m ++ x, by rw [hm]; simp⟩
  | skip hs _ _ ih =>
    obtain ⟨x, rfl⟩ := ih
    obtain ⟨m, -, hm⟩ := step_skip hs
    exact ⟨m ++ x, by rw [hm]; simp⟩
  | lineEnd hs _ =>
    obtain ⟨m, -, hm⟩ := step_skip hs
    exact ⟨m, hm⟩

theorem Run.lexT_eq {cs cs' ts lc} (h : Run cs cs' ts lc) : lexT cs = (ts ++ (lexT cs').1, (lexT cs').2) := by
  induction h with
  | refl cs => simp
  | ws hc _ ih => rw [lexT_ws hc, ih]
  | tok hs _ ih => rw [lexT_token hs, ih]; simp
  | skip hs _ _ ih => rw [lexT_skip hs, ih]
  | lineEnd hs _ => rw [lexT_skip hs]; simp

theorem step_skip_length {cs r : List Char} {nl : Nat} (h : step cs = .skip r nl) : r.length < cs.length := by
  obtain ⟨m, hm, hcs⟩ := step_skip h
  rw [hcs]
  rcases hm with ⟨b, rfl, -⟩ | ⟨b, rfl⟩ <;> simp <;> omega

/-- Inserting, at the place a run has reached, a piece of text `c :: g` that starts with an inert
character other than a newline, and that contains no newline if the place is the end of a `//` comment:
the tokens emitted before that place do not change. `hgb` says that the piece itself yields no token. -/
theorem Run.insert {c : Char} (hc : InertC c) (hcn : c ≠ '\n') {g b : List Char}
    (hgb : lexT ((c :: g) ++ b) = lexT b) {cs ts lc} (h : Run cs b ts lc)
    (hlc : lc = true → (∀ e ∈ c :: g, e ≠ '\n') ∧ (b = [] ∨ ∃ b', b = '\n' :: b')) :
    ∀ x, cs = x ++ b → lexT (x ++ (c :: g) ++ b) = (ts ++ (lexT b).1, (lexT b).2) := by
  induction h with
  | refl cs =>
    intro x hx
    have : x = [] := by
      have := congrArg List.length hx
      simp only [List.length_append] at this
      exact List.eq_nil_of_length_eq_zero (by omega)
    subst this
    simp only [List.nil_append]
    rw [hgb]
  | @ws c0 cs cs' ts lc hc0 hr ih =>
    intro x hx
    cases x with
    | nil =>
      obtain ⟨x', hx'⟩ := hr.suffix
      have := congrArg List.length hx
      rw [hx'] at this
      simp at this; omega
    | cons d x =>
      simp only [List.cons_append, List.cons.injEq] at hx
      obtain ⟨rfl, rfl⟩ := hx
      simp only [List.cons_append]
      rw [lexT_ws hc0]
      have := ih hgb hlc x rfl
      simpa using this
  | @tok cs r cs' t nl ts lc hs hr ih =>
    intro x hx
    subst hx
    obtain ⟨x', hx'⟩ := hr.suffix
    obtain ⟨x1, e1, e2⟩ := step_token_stable hc (y' := g ++ cs') hs (by rw [hx']; simp) (Or.inl hcn)
    have e3 : x ++ c :: g ++ cs' = x ++ c :: (g ++ cs') := by simp
    rw [e3, lexT_token e2]
    have := ih hgb hlc x1 e1
    have e4 : x1 ++ c :: g ++ cs' = x1 ++ c :: (g ++ cs') := by simp
    rw [e4] at this
    rw [this]; simp
  | @skip cs r cs' nl ts lc hs hnot hr ih =>
    intro x hx
    subst hx
    obtain ⟨x', hx'⟩ := hr.suffix
    have hline : mComment (x ++ cs') = none ∨ cs'.length < r.length ∨ c = '\n' := by
      rcases hnot with h1 | h1
      · exact Or.inl h1
      · right; left
        rw [hx']
        cases x' with
        | nil => exact absurd hx' h1
        | cons a x' => simp; omega
    obtain ⟨x1, e1, e2⟩ := step_skip_stable hc (y' := g ++ cs') hs (by rw [hx']; simp) hline
    have e3 : x ++ c :: g ++ cs' = x ++ c :: (g ++ cs') := by simp
    rw [e3, lexT_skip e2]
    have := ih hgb hlc x1 e1
    have e4 : x1 ++ c :: g ++ cs' = x1 ++ c :: (g ++ cs') := by simp
    rw [e4] at this
    exact this
  | @lineEnd cs cs' nl hs hm =>
    intro x hx
    subst hx
    obtain ⟨hg, hb⟩ := hlc rfl
    have := step_comment_absorb hc hs hm hb hg
    rw [lexT_skip this]; simp


/-! ## Layout pieces yield no token -/

theorem rules16_none_slash (cs : List Char) :
    mNL ('/' :: cs) = none ∧ mIdent ('/' :: cs) = none ∧ mDotIdent ('/' :: cs) = none ∧
    mNumber ('/' :: cs) = none ∧ mInt ('/' :: cs) = none ∧ mBinInt ('/' :: cs) = none :=
  ⟨mNL_none_of_head _ (by decide), mIdent_none_of_head _ (by decide), mDotIdent_none_of_head _ (by decide),
   mNumber_none_of_head _ (by decide) (by decide) (by decide), mInt_none_of_head _ (by decide) (by decide),
   mBinInt_none_of_head _ (by decide)⟩

/-- `w` is exactly one block comment. -/
def IsBlockPiece (w : List Char) : Prop := ∃ body, mBlockComment w = some (body, [])

/-- `w` is `//` followed by characters other than newline. -/
def IsLinePiece (w : List Char) : Prop := ∃ body, w = '/' :: '/' :: body ∧ ∀ e ∈ body, e ≠ '\n'

theorem IsBlockPiece.head {w} (h : IsBlockPiece w) : ∃ w', w = '/' :: '*' :: w' := by
  obtain ⟨body, hb⟩ := h
  obtain ⟨m, -, h2, h3⟩ := mBlockComment_spec hb
  exact ⟨body, by rw [h2, h3]; simp⟩

theorem lexT_blockPiece {w : List Char} (h : IsBlockPiece w) (b : List Char) : lexT (w ++ b) = lexT b := by
  obtain ⟨body, hb⟩ := h
  obtain ⟨w', rfl⟩ := IsBlockPiece.head ⟨body, hb⟩
  have hb' : mBlockComment (('/' :: '*' :: w') ++ []) = some (body, []) := by simpa using hb
  obtain ⟨x1, e1, e2⟩ := mBlockComment_stable (y' := b) hb' (Nat.le_refl _)
  have : x1 = [] := by simpa using e1.symm
  subst this
  obtain ⟨g1, g2, g3, g4, g5, g6⟩ := rules16_none_slash ('*' :: w' ++ b)
  have g7 : mComment ('/' :: '*' :: w' ++ b) = none := by simp [mComment]
  simp only [List.cons_append, List.nil_append] at e2 ⊢
  exact lexT_skip (step_of_block g1 g2 g3 g4 g5 g6 g7 e2)

theorem spanP_line_tail {body b : List Char} (hbody : ∀ e ∈ body, e ≠ '\n')
    (hb : b = [] ∨ ∃ b', b = '\n' :: b') : (spanP (· ≠ '\n') (body ++ b)).2 = b := by
  induction body with
  | nil => rcases hb with rfl | ⟨b', rfl⟩ <;> simp [spanP]
  | cons d body ih =>
    have hd : d ≠ '\n' := hbody d (List.mem_cons_self ..)
    simp only [List.cons_append, spanP, hd, ne_eq, not_false_eq_true, decide_true, if_true]
    exact ih (fun e he => hbody e (List.mem_cons_of_mem _ he))

theorem lexT_linePiece {w : List Char} (h : IsLinePiece w) {b : List Char}
    (hb : b = [] ∨ ∃ b', b = '\n' :: b') : lexT (w ++ b) = lexT b := by
  obtain ⟨body, rfl, hbody⟩ := h
  obtain ⟨g1, g2, g3, g4, g5, g6⟩ := rules16_none_slash ('/' :: body ++ b)
  have g7 : mComment ('/' :: '/' :: body ++ b) = some b := by
    show (if (decide ('/' = '/') && decide ('/' = '/')) = true then
      some (spanP (· ≠ '\n') (body ++ b)).2 else none) = some b
    rw [spanP_line_tail hbody hb]; rfl
  exact lexT_skip (step_of_comment g1 g2 g3 g4 g5 g6 g7)

/-! ## Newlines -/

theorem spanP_idem (p : Char → Bool) (cs : List Char) : spanP p (spanP p cs).2 = ([], (spanP p cs).2) := by
  induction cs with
  | nil => rfl
  | cons c cs ih =>
    simp only [spanP]
    split
    · exact ih
    · rename_i hc; simp [spanP, hc]

theorem rules_nl (cs : List Char) : step ('\n' :: cs) = .token .NL (spanP (· = '\n') cs).2
    ((spanP (· = '\n') cs).1.length + 1) := by
  simp [step, mNL, spanP]

/-- A newline in front of a text either merges with the newline the text starts with, or is one more NL
token. -/
theorem lexT_nl_cons (b : List Char) :
    lexT ('\n' :: b) = lexT b ∨ lexT ('\n' :: b) = (.NL :: (lexT b).1, (lexT b).2) := by
  rw [lexT_token (rules_nl b)]
  cases b with
  | nil => right; simp [spanP]
  | cons d b =>
    by_cases hd : d = '\n'
    · subst hd
      left
      rw [lexT_token (rules_nl b)]
      simp [spanP]
    · right
      simp [spanP, hd]


theorem keyword_ne_NL (s : String) : keyword? s ≠ some .NL := by
  intro h
  unfold keyword? at h
  repeat' (split at h)
  all_goals cases h

theorem identTok_ne_NL (m : List Char) : identTok m ≠ .NL := by
  intro h
  unfold identTok at h
  simp only at h
  split at h
  · rename_i k hk; subst h; exact keyword_ne_NL _ hk
  · cases h

theorem literal_ne_NL (d : Char) : literal? d ≠ some .NL := by
  intro h
  unfold literal? at h
  repeat' (split at h)
  all_goals cases h

theorem step_token_NL {cs r : List Char} {nl : Nat} (h : step cs = .token .NL r nl) :
    ∃ cs', cs = '\n' :: cs' := by
  unfold step at h
  split at h
  · rename_i m rr hm; exact mNL_head hm
  · split at h
    · rename_i m rr hm
      simp only [Step.token.injEq] at h
      exact absurd h.1 (identTok_ne_NL m)
    · split at h
      · cases h
      · split at h
        · simp only at h; split at h <;> cases h
        · split at h
          · split at h <;> cases h
          · split at h
            · cases h
            · split at h
              · cases h
              · split at h
                · cases h
                · split at h
                  · split at h
                    · rename_i tt hlit
                      simp only [Step.token.injEq] at h
                      rw [h.1] at hlit
                      exact absurd hlit (literal_ne_NL _)
                    · cases h
                  · cases h


theorem Run.length_le {cs cs' ts lc} (h : Run cs cs' ts lc) : cs'.length ≤ cs.length := by
  obtain ⟨x, rfl⟩ := h.suffix; simp

theorem Run.eq_of_length {cs cs' ts lc} (h : Run cs cs' ts lc) (hl : cs.length ≤ cs'.length) :
    ts = [] ∧ lc = false := by
  cases h with
  | refl => exact ⟨rfl, rfl⟩
  | ws _ hr => have := hr.length_le; simp at hl; omega
  | tok hs hr => have := hr.length_le; have := (step_token hs).length; omega
  | skip hs _ hr => have := hr.length_le; have := step_skip_length hs; omega
  | lineEnd hs _ => have := step_skip_length hs; omega

theorem spanP_extend {p : Char → Bool} {c : Char} (hc : p c = true) (b : List Char) :
    ∀ x0 : List Char, (spanP p (x0 ++ b)).2 = b → (spanP p (x0 ++ c :: b)).2 = b := by
  intro x0
  induction x0 with
  | nil => intro h; simpa [spanP, hc] using h
  | cons d x0 ih =>
    intro h
    simp only [List.cons_append, spanP] at h ⊢
    split at h
    · rename_i hd; simp only [hd, if_true]; exact ih h
    · have := congrArg List.length h
      simp at this; omega

/-- Inserting a newline at the place a run has reached: the tokens before that place do not change, and
the newline merges with an adjacent newline or is one more NL token. -/
theorem Run.insert_nl {b : List Char} {cs ts lc} (h : Run cs b ts lc) :
    ∀ x, cs = x ++ b → lexT (x ++ '\n' :: b) = (ts ++ (lexT b).1, (lexT b).2) ∨
      lexT (x ++ '\n' :: b) = (ts ++ .NL :: (lexT b).1, (lexT b).2) := by
  induction h with
  | refl cs =>
    intro x hx
    have : x = [] := by
      have := congrArg List.length hx
      simp only [List.length_append] at this
      exact List.eq_nil_of_length_eq_zero (by omega)
    subst this
    simp only [List.nil_append]
    rcases lexT_nl_cons cs with h | h
    · left; rw [h]
    · right; rw [h]
  | @ws c0 cs cs' ts lc hc0 hr ih =>
    intro x hx
    cases x with
    | nil =>
      have := hr.length_le
      have := congrArg List.length hx
      simp at this; omega
    | cons d x =>
      simp only [List.cons_append, List.cons.injEq] at hx
      obtain ⟨rfl, rfl⟩ := hx
      simp only [List.cons_append]
      rw [lexT_ws hc0]
      exact ih x rfl
  | @tok cs r cs' t nl ts lc hs hr ih =>
    intro x hx
    subst hx
    have hle := hr.length_le
    by_cases hcase : t = .NL ∧ r.length ≤ cs'.length
    · -- an NL token that ends exactly here: the new newline extends it
      obtain ⟨rfl, hrl⟩ := hcase
      obtain ⟨rfl, rfl⟩ := hr.eq_of_length hrl
      obtain ⟨xr, hxr⟩ := hr.suffix
      have : xr = [] := by
        have := congrArg List.length hxr
        simp only [List.length_append] at this
        exact List.eq_nil_of_length_eq_zero (by omega)
      subst this
      simp only [List.nil_append] at hxr
      subst hxr
      -- `x` is a run of newlines
      have hx : ∃ x0, x = '\n' :: x0 := by
        obtain ⟨cs0, hcs0⟩ := step_token_NL hs
        cases x with
        | nil => have := (step_token hs).length; simp at this
        | cons d x =>
          simp only [List.cons_append, List.cons.injEq] at hcs0
          exact ⟨x, by rw [hcs0.1]⟩
      obtain ⟨x0, rfl⟩ := hx
      simp only [List.cons_append] at hs ⊢
      rw [rules_nl] at hs
      simp only [Step.token.injEq, true_and] at hs
      left
      rw [lexT_token (rules_nl _), spanP_extend (by simp) r x0 hs.1]
      simp
    · have hnl : ('\n' : Char) ≠ '\n' ∨ t ≠ .NL ∨ cs'.length < r.length := by
        by_cases ht : t = .NL
        · right; right
          have : ¬ r.length ≤ cs'.length := fun h => hcase ⟨ht, h⟩
          omega
        · exact Or.inr (Or.inl ht)
      obtain ⟨x1, e1, e2⟩ := step_token_stable inert_nl (y' := cs') hs hle hnl
      rw [lexT_token e2]
      rcases ih x1 e1 with h | h
      · left; rw [h]; simp
      · right; rw [h]; simp
  | @skip cs r cs' nl ts lc hs hnot hr ih =>
    intro x hx
    subst hx
    obtain ⟨x1, e1, e2⟩ := step_skip_stable inert_nl (y' := cs') hs hr.length_le (Or.inr (Or.inr rfl))
    rw [lexT_skip e2]
    exact ih x1 e1
  | @lineEnd cs cs' nl hs hm =>
    intro x hx
    subst hx
    obtain ⟨x1, e1, e2⟩ := step_skip_stable inert_nl (y' := cs') hs (Nat.le_refl _) (Or.inr (Or.inr rfl))
    have : x1 = [] := by
      have := congrArg List.length e1
      simp only [List.length_append] at this
      exact List.eq_nil_of_length_eq_zero (by omega)
    subst this
    simp only [List.nil_append] at e2
    rw [lexT_skip e2]
    rcases lexT_nl_cons cs' with h | h
    · left; rw [h]; simp
    · right; rw [h]; simp


theorem spanP_rest_head (p : Char → Bool) (cs : List Char) :
    (spanP p cs).2 = [] ∨ ∃ d r, (spanP p cs).2 = d :: r ∧ p d = false := by
  have h := spanP_idem p cs
  cases hr : (spanP p cs).2 with
  | nil => exact Or.inl rfl
  | cons d r =>
    right
    refine ⟨d, r, rfl, ?_⟩
    rw [hr] at h
    simp only [spanP] at h
    split at h
    · simp at h
    · rename_i hd; simpa using hd

theorem mComment_rest {cs r : List Char} (h : mComment cs = some r) : r = [] ∨ ∃ r', r = '\n' :: r' := by
  unfold mComment at h
  split at h
  · rename_i a b cs'
    split at h
    · simp only [Option.some.injEq] at h
      rcases spanP_rest_head (· ≠ '\n') cs' with h1 | ⟨d, r', h1, h2⟩
      · left; rw [← h, h1]
      · right
        have : d = '\n' := by simpa using h2
        exact ⟨r', by rw [← h, h1, this]⟩
    · cases h
  · cases h

/-- After a `//` comment comes a newline or the end of the text. -/
theorem Run.lc_boundary {cs b ts} (h : Run cs b ts true) : b = [] ∨ ∃ b', b = '\n' :: b' := by
  generalize hlc : true = lc at h
  induction h with
  | refl => cases hlc
  | ws _ _ ih => exact ih hlc
  | tok _ _ ih => exact ih hlc
  | skip _ _ _ ih => exact ih hlc
  | lineEnd hs hm =>
    obtain ⟨-, -, -, -, -, -, h78⟩ := step_skip_inv hs
    rcases h78 with ⟨h7, -⟩ | ⟨h7, -⟩
    · exact mComment_rest h7
    · exact absurd h7 hm

/-- `txt'` is `txt` with one piece of layout inserted at a place the tokenizer reaches (between two
tokens, comments or blanks — not inside one):
* a space or a tab;
* a block comment — if the place is the end of a `//` comment, one without a newline (the rest of a
  multi-line comment would fall out of the `//` comment);
* a `//` comment, in front of a newline or at the end of the text;
* a newline, next to a newline token (the token before or after the place, blanks and comments aside). -/
inductive GapInsert : List Char → List Char → Prop
  | blank {x b : List Char} {c : Char} {ts lc} : Run (x ++ b) b ts lc → isIgnore c = true →
      GapInsert (x ++ b) (x ++ c :: b)
  | block {x b w : List Char} {ts lc} : Run (x ++ b) b ts lc → IsBlockPiece w →
      (lc = false ∨ ∀ e ∈ w, e ≠ '\n') → GapInsert (x ++ b) (x ++ w ++ b)
  | line {x b w : List Char} {ts lc} : Run (x ++ b) b ts lc → IsLinePiece w →
      (b = [] ∨ ∃ b', b = '\n' :: b') → GapInsert (x ++ b) (x ++ w ++ b)
  | newline {x b : List Char} {ts lc} : Run (x ++ b) b ts lc →
      ((∃ ts', ts = ts' ++ [.NL]) ∨ (∃ tb, (lexT b).1 = .NL :: tb)) → GapInsert (x ++ b) (x ++ '\n' :: b)

/-- Texts that differ only in layout: the equivalence generated by `GapInsert`. -/
inductive LayoutEq : List Char → List Char → Prop
  | refl (a : List Char) : LayoutEq a a
  | ins {a b : List Char} : GapInsert a b → LayoutEq a b
  | symm {a b : List Char} : LayoutEq a b → LayoutEq b a
  | trans {a b c : List Char} : LayoutEq a b → LayoutEq b c → LayoutEq a c

theorem isIgnore_inert {c : Char} (h : isIgnore c = true) : InertC c ∧ c ≠ '\n' := by
  have : c = ' ' ∨ c = '\t' := by simpa [isIgnore] using h
  rcases this with rfl | rfl
  · exact ⟨inert_space, by decide⟩
  · exact ⟨inert_tab, by decide⟩

/-- What one insertion does to the token list: nothing, or one more NL token next to an NL token. -/
theorem GapInsert.lexT {a a' : List Char} (h : GapInsert a a') :
    Jaqal.Lexer.lexT a' = Jaqal.Lexer.lexT a ∨
    ∃ (u v : List Tok) (e : Bool), Jaqal.Lexer.lexT a = (u ++ .NL :: v, e) ∧
      Jaqal.Lexer.lexT a' = (u ++ .NL :: .NL :: v, e) := by
  cases h with
  | @blank x b c ts lc hr hc =>
    left
    obtain ⟨hi, hn⟩ := isIgnore_inert hc
    have := hr.insert hi hn (g := []) (by simpa using lexT_ws hc b) (fun hlc => by
      subst hlc
      exact ⟨by intro e he; simp at he; rw [he]; exact hn, hr.lc_boundary⟩) x rfl
    rw [hr.lexT_eq]
    simpa using this
  | @block x b w ts lc hr hw hcond =>
    left
    obtain ⟨w', rfl⟩ := hw.head
    have := hr.insert inert_slash (by decide) (g := '*' :: w') (by simpa using lexT_blockPiece hw b)
      (fun hlc => by
        subst hlc
        rcases hcond with h | h
        · cases h
        · exact ⟨h, hr.lc_boundary⟩) x rfl
    rw [hr.lexT_eq]
    simpa using this
  | @line x b w ts lc hr hw hb =>
    left
    obtain ⟨body, rfl, hbody⟩ := hw
    have := hr.insert inert_slash (by decide) (g := '/' :: body)
      (by simpa using lexT_linePiece ⟨body, rfl, hbody⟩ hb)
      (fun _ => ⟨by
        intro e he
        simp only [List.mem_cons] at he
        rcases he with rfl | rfl | he
        · decide
        · decide
        · exact hbody e he, hb⟩) x rfl
    rw [hr.lexT_eq]
    simpa using this
  | @newline x b ts lc hr hcond =>
    rw [hr.lexT_eq]
    rcases hr.insert_nl x rfl with h | h
    · left; exact h
    · right
      rcases hcond with ⟨ts', rfl⟩ | ⟨tb, htb⟩
      · exact ⟨ts', (Jaqal.Lexer.lexT b).1, (Jaqal.Lexer.lexT b).2, by simp, by rw [h]; simp⟩
      · exact ⟨ts, tb, (Jaqal.Lexer.lexT b).2, by rw [htb], by rw [h, htb]⟩


end Jaqal.Lexer
