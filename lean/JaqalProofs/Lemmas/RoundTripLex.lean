import JaqalProofs.Lemmas.RoundTripRebuild
import JaqalProofs.Lemmas.LexerSpec
import JaqalProofs.Lemmas.ParserSound
/-!
# C01: the names of a parsed program are identifiers

Every IDENTIFIER / DOTIDENTIFIER token the lexer produces is made of identifier characters; in particular it has no
`[`.  The statement tree of a derivation contains, besides the fixed command words, only strings of such tokens, so
every string of a parsed tree is `nameOK` (`noBr`).
-/
set_option linter.unusedSimpArgs false
set_option linter.unusedVariables false
namespace Jaqal.RoundTrip
open Jaqal Jaqal.Lexer Jaqal.Grammar Jaqal.Builder Jaqal.Parser

/-- what is known of a token's text -/
def TokOK : Tok → Prop
  | .IDENTIFIER s => nameOK s = true
  | .DOTIDENTIFIER s => nameOK s = true
  | _ => True

theorem nameOK_ofList {m : List Char} (h : ∀ c ∈ m, c ≠ '[') : nameOK (String.ofList m) = true := by
  simp only [nameOK, String.toList_ofList, Bool.not_eq_true', List.contains_eq_mem, decide_eq_false_iff_not]
  intro hm
  exact h _ hm rfl

theorem identTail_chars (cs : List Char) : ∀ c ∈ (identTail cs).1, isAlnum_ c = true ∨ c = '.' := by
  fun_induction identTail cs
  · intro c hc; cases hc
  · rename_i c cs hc r ih
    intro d hd
    simp only [List.mem_cons] at hd
    rcases hd with rfl | hd
    · exact Or.inl hc
    · exact ih d hd
  · rename_i d ds hd r hdot ih
    intro x hx
    simp only [List.mem_cons] at hx
    rcases hx with rfl | rfl | hx
    · exact Or.inr rfl
    · exact Or.inl (by assumption)
    · exact ih x hx
  · intro c hc; cases hc
  · intro c hc; cases hc
  · intro c hc; cases hc

theorem alnum_ne_bracket {c : Char} (h : isAlnum_ c = true ∨ c = '.') : c ≠ '[' := by
  rintro rfl
  rcases h with h | h
  · revert h; decide
  · revert h; decide

theorem mIdent_chars {cs m rest : List Char} (h : mIdent cs = some (m, rest)) : ∀ c ∈ m, c ≠ '[' := by
  unfold mIdent at h
  split at h
  · rename_i c cs'
    split at h
    · rename_i hc
      simp only [Option.some.injEq, Prod.mk.injEq] at h
      obtain ⟨rfl, _⟩ := h
      intro d hd
      simp only [List.mem_cons] at hd
      rcases hd with rfl | hd
      · exact alnum_ne_bracket (Or.inl (by simp [isAlnum_, hc]))
      · exact alnum_ne_bracket (identTail_chars cs' d hd)
    · cases h
  · cases h

theorem mDotIdent_chars {cs m rest : List Char} (h : mDotIdent cs = some (m, rest)) : ∀ c ∈ m, c ≠ '[' := by
  unfold mDotIdent at h
  split at h
  · rename_i c cs'
    split at h
    · rename_i hc
      split at h
      · rename_i r hr
        simp only [Option.some.injEq, Prod.mk.injEq] at h
        obtain ⟨rfl, _⟩ := h
        intro d hd
        simp only [List.mem_cons] at hd
        rcases hd with rfl | hd
        · rw [hc]; decide
        · exact mIdent_chars (m := r.1) (rest := r.2) (by rw [hr]) d hd
      · simp only [Option.some.injEq, Prod.mk.injEq] at h
        obtain ⟨rfl, _⟩ := h
        intro d hd
        simp only [List.mem_singleton] at hd
        subst hd; rw [hc]; decide
    · cases h
  · cases h

theorem identTok_ok {m : List Char} (h : ∀ c ∈ m, c ≠ '[') : TokOK (identTok m) := by
  unfold identTok
  simp only
  split
  · rename_i k hk
    unfold keyword? at hk
    repeat' split at hk
    all_goals first | (cases hk; trivial) | cases hk
  · exact nameOK_ofList h

theorem literal_ok {c : Char} {t : Tok} (h : literal? c = some t) : TokOK t := by
  unfold literal? at h
  repeat' split at h
  all_goals first | (cases h; trivial) | cases h

theorem step_tok_ok {cs rest : List Char} {t : Tok} {nl : Nat} (h : step cs = .token t rest nl) : TokOK t := by
  unfold step at h
  split at h
  · cases h; trivial
  · split at h
    · rename_i m r hm
      cases h
      exact identTok_ok (mIdent_chars hm)
    · split at h
      · rename_i m r hm
        cases h
        exact nameOK_ofList (mDotIdent_chars hm)
      · split at h
        · dsimp only at h
          split at h
          · cases h
          · cases h; trivial
        · split at h
          · split at h
            · cases h
            · cases h; trivial
          · split at h
            · cases h; trivial
            · split at h
              · cases h
              · split at h
                · cases h
                · split at h
                  · split at h
                    · rename_i hl
                      cases h
                      exact literal_ok hl
                    · cases h
                  · cases h

theorem lexAux_toks_ok (text : List Char) : ∀ (fuel : Nat) (cs : List Char) (line : Nat),
    ∀ p ∈ (lexAux text fuel cs line).1, TokOK p.tok := by
  intro fuel
  induction fuel with
  | zero => intro cs line p hp; simp [lexAux] at hp
  | succ fuel ih =>
    intro cs line p hp
    cases cs with
    | nil => simp [lexAux] at hp
    | cons c rest =>
      simp only [lexAux] at hp
      split at hp
      · exact ih _ _ p hp
      · split at hp
        · rename_i t rest' nl hst
          simp only [List.mem_cons] at hp
          rcases hp with rfl | hp
          · exact step_tok_ok hst
          · exact ih _ _ p hp
        · exact ih _ _ p hp
        · simp at hp
        · simp at hp

/-! ## the strings of a derived tree are token texts or command words -/

def AllOK (ts : List Tok) : Prop := ∀ t ∈ ts, TokOK t

theorem letOrInt_noBr {t : Tok} {x : Sx} (h : LetOrInt t x) (ht : TokOK t) : noBr (BSx.ofSx x) = true := by
  cases h with
  | ident s => exact ht
  | int v => rfl

theorem gateArg_noBr {ts : List Tok} {x : Sx} (h : GateArg ts x) (ht : AllOK ts) : noBr (BSx.ofSx x) = true := by
  cases h with
  | ident s => exact ht (.IDENTIFIER s) (by simp)
  | number d => rfl
  | int v => rfl
  | itemIdent a i =>
    have h1 : nameOK a = true := ht (.IDENTIFIER a) (by simp)
    have h2 : nameOK i = true := ht (.IDENTIFIER i) (by simp)
    simp [BSx.ofSx, BSx.ofSxList, noBr, noBrList, h1, h2]
    decide
  | itemInt a v =>
    have h1 : nameOK a = true := ht (.IDENTIFIER a) (by simp)
    simp [BSx.ofSx, BSx.ofSxList, noBr, noBrList, h1]
    decide

theorem gateArgs_noBr {ts : List Tok} {xs : List Sx} (h : GateArgs ts xs) :
    AllOK ts → noBrList (BSx.ofSxList xs) = true := by
  induction h with
  | nil => intro _; rfl
  | cons ha _ ih =>
    intro ht
    simp only [BSx.ofSxList, noBrList, Bool.and_eq_true]
    exact ⟨gateArg_noBr ha (fun t h => ht t (by simp [h])), ih (fun t h => ht t (by simp [h]))⟩

theorem gate_noBr {ts : List Tok} {x : Sx} (h : Gate ts x) (ht : AllOK ts) : noBr (BSx.ofSx x) = true := by
  cases h with
  | mk g has =>
    have h1 : nameOK g = true := ht (.IDENTIFIER g) (by simp)
    have h2 := gateArgs_noBr has (fun t h => ht t (by simp [h]))
    simp only [BSx.ofSx, BSx.ofSxList, noBr, noBrList, h1, h2, Bool.and_true]
    decide

theorem noBrList_cons_cmd {cmd : String} {l : List BSx} (hc : nameOK cmd = true) (hl : noBrList l = true) :
    noBr (.list (.str cmd :: l)) = true := by
  simp [noBr, noBrList, hc, hl]

theorem block_noBr {ph : Ph} {ts : List Tok} {x : Sx} (h : Block ph ts x) : AllOK ts → noBr (BSx.ofSx x) = true := by
  induction h with
  | seqBlock _ _ ih =>
    intro ht
    have := ih (fun t h => ht t (by simp [h]))
    simp only [BSx.ofSx, noBr] at this
    simp only [BSx.ofSx, BSx.ofSxList]
    exact noBrList_cons_cmd (by decide) this
  | parBlock _ _ ih =>
    intro ht
    have := ih (fun t h => ht t (by simp [h]))
    simp only [BSx.ofSx, noBr] at this
    simp only [BSx.ofSx, BSx.ofSxList]
    exact noBrList_cons_cmd (by decide) this
  | gateBlockSeq _ ih => exact ih
  | gateBlockPar _ ih => exact ih
  | seqGate hg => exact gate_noBr hg
  | seqPar _ ih => exact ih
  | seqLoop hc _ ih =>
    intro ht
    have h1 := letOrInt_noBr hc (ht _ (by simp))
    have h2 := ih (fun t h => ht t (by simp [h]))
    simp only [BSx.ofSx, BSx.ofSxList, noBr, noBrList, h1, h2, Bool.and_true]
    decide
  | seqSub _ _ ih =>
    intro ht
    have := ih (fun t h => ht t (by simp [h]))
    simp only [BSx.ofSx, noBr] at this
    simp only [BSx.ofSx, BSx.ofSxList, noBr, noBrList, this, Bool.and_true]
    decide
  | seqSubN hc _ _ ih =>
    intro ht
    have h1 := letOrInt_noBr hc (ht _ (by simp))
    have := ih (fun t h => ht t (by simp [h]))
    simp only [BSx.ofSx, noBr] at this
    simp only [BSx.ofSx, BSx.ofSxList, noBr, noBrList, this, h1, Bool.and_true]
    decide
  | parGate hg => exact gate_noBr hg
  | parSeq _ ih => exact ih
  | seqNil => intro _; rfl
  | seqOne _ ih =>
    intro ht
    simp only [BSx.ofSx, BSx.ofSxList, noBr, noBrList, ih ht, Bool.and_true]
  | seqCons _ _ _ ih1 ih2 =>
    intro ht
    have h1 := ih1 (fun t h => ht t (by simp [h]))
    have h2 := ih2 (fun t h => ht t (by simp [h]))
    simp only [BSx.ofSx, noBr] at h2
    simp only [BSx.ofSx, BSx.ofSxList, noBr, noBrList, h1, h2, Bool.and_true]
  | parNil => intro _; rfl
  | parOne _ ih =>
    intro ht
    simp only [BSx.ofSx, BSx.ofSxList, noBr, noBrList, ih ht, Bool.and_true]
  | parCons _ _ _ ih1 ih2 =>
    intro ht
    have h1 := ih1 (fun t h => ht t (by simp [h]))
    have h2 := ih2 (fun t h => ht t (by simp [h]))
    simp only [BSx.ofSx, noBr] at h2
    simp only [BSx.ofSx, BSx.ofSxList, noBr, noBrList, h1, h2, Bool.and_true]

theorem optLetOrInt_noBr {ts : List Tok} {x : Sx} (h : OptLetOrInt ts x) (ht : AllOK ts) : noBr (BSx.ofSx x) = true := by
  cases h with
  | none => rfl
  | some hl => exact letOrInt_noBr hl (ht _ (by simp))

theorem optStep_noBr {ts : List Tok} {x : Sx} (h : OptStep ts x) (ht : AllOK ts) : noBr (BSx.ofSx x) = true := by
  cases h with
  | none => rfl
  | some hl => exact letOrInt_noBr hl (ht _ (by simp))

theorem header_noBr {ts : List Tok} {x : Sx} (h : Header ts x) (ht : AllOK ts) : noBr (BSx.ofSx x) = true := by
  cases h with
  | register n hsz _ =>
    have h1 : nameOK n = true := ht (.IDENTIFIER n) (by simp)
    have h2 := letOrInt_noBr hsz (ht _ (by simp))
    simp only [BSx.ofSx, BSx.ofSxList, noBr, noBrList, h1, h2, Bool.and_true]; decide
  | letInt n v =>
    have h1 : nameOK n = true := ht (.IDENTIFIER n) (by simp)
    simp only [BSx.ofSx, BSx.ofSxList, noBr, noBrList, h1, Bool.and_true]; decide
  | letNumber n d =>
    have h1 : nameOK n = true := ht (.IDENTIFIER n) (by simp)
    simp only [BSx.ofSx, BSx.ofSxList, noBr, noBrList, h1, Bool.and_true]; decide
  | mapWhole n src =>
    have h1 : nameOK n = true := ht (.IDENTIFIER n) (by simp)
    have h2 : nameOK src = true := ht (.IDENTIFIER src) (by simp)
    simp only [BSx.ofSx, BSx.ofSxList, noBr, noBrList, h1, h2, Bool.and_true]; decide
  | mapIndex n src hi =>
    have h1 : nameOK n = true := ht (.IDENTIFIER n) (by simp)
    have h2 : nameOK src = true := ht (.IDENTIFIER src) (by simp)
    have h3 := letOrInt_noBr hi (ht _ (by simp))
    simp only [BSx.ofSx, BSx.ofSxList, noBr, noBrList, h1, h2, h3, Bool.and_true]; decide
  | mapSlice n src ha hb hc =>
    have h1 : nameOK n = true := ht (.IDENTIFIER n) (by simp)
    have h2 : nameOK src = true := ht (.IDENTIFIER src) (by simp)
    have h3 := optLetOrInt_noBr ha (fun t h => ht t (by simp [h]))
    have h4 := optLetOrInt_noBr hb (fun t h => ht t (by simp [h]))
    have h5 := optStep_noBr hc (fun t h => ht t (by simp [h]))
    simp only [BSx.ofSx, BSx.ofSxList, noBr, noBrList, h1, h2, h3, h4, h5, Bool.and_true]; decide
  | usepulses m =>
    have h1 : nameOK m = true := ht (.IDENTIFIER m) (by simp)
    simp only [BSx.ofSx, BSx.ofSxList, noBr, noBrList, h1, Bool.and_true]; decide
  | usepulsesDot m =>
    have h1 : nameOK m = true := ht (.DOTIDENTIFIER m) (by simp)
    simp only [BSx.ofSx, BSx.ofSxList, noBr, noBrList, h1, Bool.and_true]; decide

theorem noBrList_map_str : ∀ (ps : List String), (∀ p ∈ ps, nameOK p = true) → noBrList (ps.map BSx.str) = true
  | [], _ => rfl
  | p :: ps, h => by
    simp only [List.map_cons, noBrList, noBr, Bool.and_eq_true]
    exact ⟨h p (by simp), noBrList_map_str ps (fun q hq => h q (by simp [hq]))⟩

theorem noBrList_append_of {a b : List BSx} (ha : noBrList a = true) (hb : noBrList b = true) :
    noBrList (a ++ b) = true := by
  induction a with
  | nil => exact hb
  | cons x xs ih =>
    simp only [noBrList, Bool.and_eq_true] at ha
    simp only [List.cons_append, noBrList, Bool.and_eq_true]
    exact ⟨ha.1, ih ha.2⟩

theorem cases_noBr {ts : List Tok} {xs : List Sx} (h : Cases ts xs) : AllOK ts → noBrList (BSx.ofSxList xs) = true := by
  induction h with
  | nil => intro _; rfl
  | one hc =>
    intro ht
    cases hc with
    | mk v hb =>
      have := block_noBr hb (fun t h => ht t (by simp [h]))
      simp only [BSx.ofSx, BSx.ofSxList, noBr, noBrList, this, Bool.and_true]; decide
  | cons hc _ _ ih =>
    intro ht
    have h2 := ih (fun t h => ht t (by simp [h]))
    cases hc with
    | mk v hb =>
      have := block_noBr hb (fun t h => ht t (by simp [h]))
      simp only [BSx.ofSx, BSx.ofSxList, noBr, noBrList, this, h2, Bool.and_true]; decide

theorem body_noBr {ts : List Tok} {x : Sx} (h : Body ts x) (ht : AllOK ts) : noBr (BSx.ofSx x) = true := by
  cases h with
  | stmt hb => exact block_noBr hb ht
  | seqBlock hb => exact block_noBr hb ht
  | macroDef name params hb =>
    have h1 : nameOK name = true := ht (.IDENTIFIER name) (by simp)
    have h2 : ∀ p ∈ params, nameOK p = true := fun p hp => ht (.IDENTIFIER p) (by simp [hp])
    have h3 := block_noBr hb (fun t h => ht t (by simp [h]))
    simp only [BSx.ofSx, BSx.ofSxList, noBr, noBrList, h1, Bool.and_eq_true, ofSxList_append, ofSxList_map_str]
    refine ⟨by decide, trivial, ?_⟩
    exact noBrList_append_of (noBrList_map_str params h2) (by simp [BSx.ofSxList, noBrList, h3])
  | branch _ hc =>
    have := cases_noBr hc (fun t h => ht t (by simp [h]))
    simp only [BSx.ofSx, BSx.ofSxList, noBr, noBrList, this, Bool.and_true]; decide

theorem stmts_noBr {ph : Phase} {ts : List Tok} {xs : List Sx} (h : Stmts ph ts xs) :
    AllOK ts → noBrList (BSx.ofSxList xs) = true := by
  induction h with
  | nil => intro _; rfl
  | lastHeader hh => intro ht; simp only [BSx.ofSxList, noBrList, header_noBr hh ht, Bool.and_true]
  | lastBody hb => intro ht; simp only [BSx.ofSxList, noBrList, body_noBr hb ht, Bool.and_true]
  | consHeader hh _ _ ih =>
    intro ht
    simp only [BSx.ofSxList, noBrList, header_noBr hh (fun t h => ht t (by simp [h])),
      ih (fun t h => ht t (by simp [h])), Bool.and_true]
  | consBody hb _ _ ih =>
    intro ht
    simp only [BSx.ofSxList, noBrList, body_noBr hb (fun t h => ht t (by simp [h])),
      ih (fun t h => ht t (by simp [h])), Bool.and_true]

theorem derives_noBr {ts : List Tok} {sx : Sx} (h : Derives ts sx) (ht : AllOK ts) : noBr (BSx.ofSx sx) = true := by
  cases h with
  | circuit _ hs =>
    have := stmts_noBr hs (fun t h => ht t (by simp [h]))
    simp only [BSx.ofSx, BSx.ofSxList, noBr, noBrList, this, Bool.and_true]; decide

/-- every string of the tree of a parsed text is `nameOK` -/
theorem parseText_noBr {txt : String} {sx : Sx} (h : parseText txt = .ok sx) : noBr (BSx.ofSx sx) = true := by
  have key : ∀ ts : List PTok, ts = (lexAll txt).1 → parse ts = .ok sx → noBr (BSx.ofSx sx) = true := by
    intro ts hts hp
    refine derives_noBr (parse_sound hp) ?_
    intro t ht
    simp only [List.mem_map] at ht
    obtain ⟨p, hp', rfl⟩ := ht
    rw [hts] at hp'
    exact lexAux_toks_ok _ _ _ _ p hp'
  unfold parseText at h
  split at h
  · rename_i ts heq
    cases hp : parse ts with
    | ok x => rw [hp] at h; simp only [] at h; cases h; exact key ts (by rw [heq]) hp
    | error e => rw [hp] at h; cases h
  · rename_i ts le heq
    cases hp : parse ts with
    | ok x => rw [hp] at h; cases h
    | error e => rw [hp] at h; simp only [] at h; split at h <;> cases h

end Jaqal.RoundTrip
