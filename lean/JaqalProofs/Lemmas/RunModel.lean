import JaqalProofs.Props.C16ParseBuild
import JaqalProofs.Props.C09
import JaqalProofs.Props.C04
import JaqalProofs.Props.C08
import JaqalProofs.Lemmas.WalkSerialize
import JaqalModel.Model.RunModel
/-!
Lemmas for C16 (`Props/C16.lean`): error classes of the stages of `RunModel.runModel`.

* `Cls P m` — every error of `m` satisfies `P`; `Cls.bind`.
* `parseProgram_class`, `parseProgram_body` — the parser / builder stage (from `C02`, `C16_parse_build_total`).
* `skel_ids` — the gate numbers of the walker skeleton index the gate table; `segment_gks` — the serialiser only yields gates
  of the program; hence `traceTokens` never leaves the table.
* `execute_class` — the executing stage, given `ExecClass` (below).
-/
namespace Jaqal.RunModel
open Jaqal Jaqal.Builder

/-- every error of `m` satisfies `P` -/
def Cls {α : Type} (P : Err → Prop) (m : M α) : Prop := ∀ e, m = .error e → P e

theorem Cls.pure {α : Type} {P : Err → Prop} (a : α) : Cls P (pure a : M α) := by intro e h; cases h
theorem Cls.ok {α : Type} {P : Err → Prop} (a : α) : Cls P (Except.ok a : M α) := by intro e h; cases h
theorem Cls.err {α : Type} {P : Err → Prop} {e : Err} (h : P e) : Cls P (Except.error e : M α) := by
  intro e' h'; cases h'; exact h
theorem Cls.throw {α : Type} {P : Err → Prop} {e : Err} (h : P e) : Cls P (throw e : M α) := Cls.err h

theorem Cls.bind {α β : Type} {P : Err → Prop} {m : M α} {k : α → M β} (hm : Cls P m)
    (hk : ∀ a, m = .ok a → Cls P (k a)) : Cls P (m >>= k) := by
  intro e h
  cases hmm : m with
  | error e' =>
    rw [hmm] at h
    cases h
    exact hm _ hmm
  | ok a =>
    rw [hmm] at h
    exact hk a hmm e h

theorem Cls.mono {α : Type} {P Q : Err → Prop} {m : M α} (h : Cls P m) (hpq : ∀ e, P e → Q e) : Cls Q m :=
  fun e he => hpq e (h e he)

/-- the error classes the property allows: `JaqalError` (`Good`: also `ImportError`) or `JaqalParseError` with a position -/
def Good16 (e : Err) : Prop := Good e ∨ ∃ l c, e = .parse l c

theorem Good.good16 {e : Err} (h : Good e) : Good16 e := Or.inl h

theorem Good16.not_other {e : Err} (h : Good16 e) : (∀ c, e ≠ .other c) ∧ e ≠ .hang := by
  rcases h with h | ⟨l, c, rfl⟩
  · exact Good.not_other h
  · exact ⟨fun c hc => (by cases hc), fun hc => (by cases hc)⟩

/-! ### Stage 1: text → circuit -/

theorem parseProgram_class (cfg : Config) (txt : String) : Cls Good16 (Pipeline.parseProgram cfg txt) := by
  intro e h
  unfold Pipeline.parseProgram Pipeline.parseSx at h
  cases hp : Parser.parseText txt with
  | error pe =>
    rw [hp] at h
    cases pe with
    | parseError l c =>
      simp only [Except.bind, Pipeline.liftErr] at h
      cases h
      exact Or.inr ⟨l, c, rfl⟩
  | ok sx =>
    rw [hp] at h
    exact Or.inl (C16_parse_build_total cfg txt sx hp e h)

/-- a parse error of the pipeline is the parser's own error -/
theorem parseProgram_parse_error {cfg : Config} {txt : String} {l : Option Nat} {c : Nat}
    (h : Pipeline.parseProgram cfg txt = .error (.parse l c)) : Parser.parseText txt = .error (.parseError l c) := by
  unfold Pipeline.parseProgram Pipeline.parseSx at h
  cases hp : Parser.parseText txt with
  | error pe =>
    rw [hp] at h
    cases pe with
    | parseError l' c' =>
      simp only [Except.bind, Pipeline.liftErr] at h
      cases h
      rfl
  | ok sx =>
    rw [hp] at h
    have := C16_parse_build_total cfg txt sx hp _ h
    rcases this with ⟨r, hr⟩ | hr <;> cases hr

theorem build_body {cfg : Config} {e : BSx} {c : Circuit} (h : build cfg e = .ok c) :
    ∃ b, c.body = .block false false (.int 1) b := by
  unfold build buildWith at h
  obtain ⟨inject, _, h⟩ := bind_ok h
  unfold buildCore at h
  split at h
  · obtain ⟨acc, _, h⟩ := bind_ok h
    cases h
    exact ⟨_, rfl⟩
  · obtain ⟨_, _, h⟩ := bind_ok h
    cases h

theorem parseBuild_body {cfg : Config} {sx : Sx} {c : Circuit} (h : parseBuild cfg sx = .ok c) :
    ∃ b, c.body = .block false false (.int 1) b := by
  unfold parseBuild at h
  obtain ⟨c0, hb, h⟩ := bind_ok h
  unfold tooManyRegisters at h
  split at h
  · cases h
  · cases h
    exact build_body hb

theorem parseProgram_body {cfg : Config} {txt : String} {c : Circuit} (h : Pipeline.parseProgram cfg txt = .ok c) :
    ∃ b, c.body = .block false false (.int 1) b := by
  unfold Pipeline.parseProgram Pipeline.parseSx at h
  cases hp : Parser.parseText txt with
  | error pe => rw [hp] at h; cases h
  | ok sx => rw [hp] at h; exact parseBuild_body h

/-! ### The skeleton -/

mutual
  /-- the gate kinds of a skeleton statement, in flat order -/
  def gks : Walk.Stmt → List Walk.GK
    | .gate k => [k]
    | .block _ b => gksList b
    | .loop _ _ b => gksList b
  def gksList : List Walk.Stmt → List Walk.GK
    | [] => []
    | s :: r => gks s ++ gksList r
end

mutual
  theorem unrollFrom_gks (S : Walk.Addr) : ∀ (s : Walk.Stmt) (a : Walk.Addr), ∀ x ∈ Walk.unrollFromStmt S s a, x.1 ∈ gks s
    | .gate k, a, x, hx => by simp [Walk.unrollFromStmt] at hx; subst hx; simp [gks]
    | .block _ b, a, x, hx => by
      simp only [Walk.unrollFromStmt] at hx
      simp only [gks]
      exact unrollFromList_gks S b a 0 x hx
    | .loop c _ b, a, x, hx => by
      simp only [Walk.unrollFromStmt] at hx
      simp only [gks]
      have hx' : x ∈ Walk.unrollFromList S b a 0 := by
        split at hx
        · exact hx
        · obtain ⟨l, hl, hxl⟩ := List.mem_flatten.mp hx
          rw [(List.mem_replicate.mp hl).2] at hxl; exact hxl
      exact unrollFromList_gks S b a 0 x hx'
  theorem unrollFromList_gks (S : Walk.Addr) : ∀ (l : List Walk.Stmt) (a : Walk.Addr) (i : Nat),
      ∀ x ∈ Walk.unrollFromList S l a i, x.1 ∈ gksList l
    | [], a, i, x, hx => by simp [Walk.unrollFromList] at hx
    | s :: l, a, i, x, hx => by
      simp only [Walk.unrollFromList, List.mem_append] at hx
      simp only [gksList, List.mem_append]
      rcases hx with hx | hx
      · exact Or.inl (unrollFrom_gks S s (a ++ [i]) x hx)
      · exact Or.inr (unrollFromList_gks S l a (i + 1) x hx)
end

/-- the serialiser yields gates of the program only -/
theorem segment_gks (tr : Walk.Addr × Walk.Addr) (body : List Walk.Stmt) : ∀ k ∈ Walk.segment tr body, k ∈ gksList body := by
  intro k hk
  unfold Walk.segment at hk
  obtain ⟨x, hx, rfl⟩ := List.mem_map.1 hk
  exact unrollFromList_gks tr.1 body [] 0 x (List.mem_filter.1 hx).1

theorem gateKind_other {name : String} {n id : Nat} (h : gateKind name n = .other id) : id = n := by
  unfold gateKind at h
  split at h
  · cases h
  · split at h
    · cases h
    · cases h; rfl

mutual
  /-- the table only grows, and every ordinary gate of the skeleton is numbered inside it -/
  theorem skelStmt_ids : ∀ (s : Stmt) (tbl : List GateRec) (s' : Walk.Stmt) (t : List GateRec),
      skelStmt tbl s = .ok (s', t) → tbl.length ≤ t.length ∧ ∀ id, Walk.GK.other id ∈ gks s' → id < t.length
    | .gate name gd args, tbl, s', t, h => by
      simp only [skelStmt] at h
      split at h
      · rename_i id hk
        cases h
        have := gateKind_other hk
        subst this
        refine ⟨by simp, ?_⟩
        intro id' hid
        simp only [gks, List.mem_singleton] at hid
        cases hid
        simp
      · cases h
        refine ⟨Nat.le_refl _, ?_⟩
        intro id' hid
        simp only [gks, List.mem_singleton] at hid
        rename_i hno
        exact absurd hid.symm (hno id')
    | .block par sub it body, tbl, s', t, h => by
      simp only [skelStmt] at h
      obtain ⟨⟨b, t'⟩, hb, h⟩ := bind_ok h
      cases h
      simpa only [gks] using skelList_ids body tbl b t' hb
    | .loop count (.block par sub it b), tbl, s', t, h => by
      simp only [skelStmt] at h
      obtain ⟨n, _, h⟩ := bind_ok h
      obtain ⟨⟨b', t'⟩, hb, h⟩ := bind_ok h
      cases h
      simpa only [gks] using skelList_ids b tbl b' t' hb
    | .loop count (.gate _ _ _), tbl, s', t, h => by
      simp only [skelStmt] at h
      obtain ⟨n, _, h⟩ := bind_ok h
      cases h
    | .loop count (.loop _ _), tbl, s', t, h => by
      simp only [skelStmt] at h
      obtain ⟨n, _, h⟩ := bind_ok h
      cases h
  theorem skelList_ids : ∀ (l : List Stmt) (tbl : List GateRec) (l' : List Walk.Stmt) (t : List GateRec),
      skelList tbl l = .ok (l', t) → tbl.length ≤ t.length ∧ ∀ id, Walk.GK.other id ∈ gksList l' → id < t.length
    | [], tbl, l', t, h => by
      simp only [skelList] at h
      cases h
      exact ⟨Nat.le_refl _, fun id hid => by simp [gksList] at hid⟩
    | s :: rest, tbl, l', t, h => by
      simp only [skelList] at h
      obtain ⟨⟨s', t1⟩, hs, h⟩ := bind_ok h
      obtain ⟨⟨r', t2⟩, hr, h⟩ := bind_ok h
      cases h
      obtain ⟨h1, h1'⟩ := skelStmt_ids s tbl s' t1 hs
      obtain ⟨h2, h2'⟩ := skelList_ids rest t1 r' t2 hr
      refine ⟨Nat.le_trans h1 h2, ?_⟩
      intro id hid
      simp only [gksList, List.mem_append] at hid
      rcases hid with hid | hid
      · exact Nat.lt_of_lt_of_le (h1' id hid) h2
      · exact h2' id hid
end

theorem skeleton_ids {c : Circuit} {body : List Walk.Stmt} {tbl : List GateRec} (h : skeleton c = .ok (body, tbl)) :
    ∀ id, Walk.GK.other id ∈ gksList body → id < tbl.length := by
  unfold skeleton at h
  split at h
  · exact (skelList_ids _ [] body tbl h).2
  · cases h

/-! ### `_make_subcircuit` -/

theorem emuArgs_nil (ps : List (String × Kind)) : emuArgs ps [] = .ok [] := by
  cases ps <;> rfl

/-- `prepare_all` / `measure_all` without arguments: `JaqalError` when not native, nothing else -/
theorem gateToken_nil (natives : List GateDef) (name : String) : Cls Good (gateToken natives name []) := by
  intro e h
  unfold gateToken at h
  split at h
  · cases h; exact Good.jaqal _
  · rename_i gd _
    cases hu : gd.hasUnitary <;> simp [gateArgs, hu, emuArgs_nil, bind, Except.bind, pure, Except.pure] at h

/-- what is assumed of the gates of the expanded circuit: emulating any one of them fails with `JaqalError` only -/
def EmuClass (natives : List GateDef) (tbl : List GateRec) : Prop :=
  ∀ g ∈ tbl, Cls Good (gateToken natives g.1 g.2.2)

theorem gkToken_class (natives : List GateDef) (tbl : List GateRec) (hemu : EmuClass natives tbl) (k : Walk.GK)
    (hid : ∀ id, k = .other id → id < tbl.length) : Cls Good (gkToken natives tbl k) := by
  cases k with
  | prep => exact gateToken_nil _ _
  | meas => exact gateToken_nil _ _
  | other id =>
    have hlt := hid id rfl
    have hget : tbl[id]? = some tbl[id] := List.getElem?_eq_getElem hlt
    simp only [gkToken, hget]
    exact hemu _ (List.getElem_mem hlt)

theorem traceTokens_class (natives : List GateDef) (tbl : List GateRec) (hemu : EmuClass natives tbl) :
    ∀ (gs : List Walk.GK), (∀ id, Walk.GK.other id ∈ gs → id < tbl.length) → Cls Good (traceTokens natives tbl gs)
  | [], _ => Cls.pure _
  | k :: rest, hid => by
    unfold traceTokens
    exact Cls.bind (gkToken_class natives tbl hemu k (fun id h => hid id (by rw [h]; exact List.mem_cons_self ..)))
      (fun _ _ => Cls.bind (traceTokens_class natives tbl hemu rest
        (fun id h => hid id (List.mem_cons_of_mem _ h))) (fun _ _ => Cls.pure _))

theorem nQubits_class (c : Circuit) : Cls Good (nQubits c) := by
  intro e h
  unfold nQubits at h
  split at h
  · cases h; exact Good.jaqal _
  · rename_i r hv
    exfalso
    have hm : r ∈ c.registers.filter isFundamental := by rw [hv]; simp
    have hf := (List.mem_filter.1 hm).2
    cases r <;> simp [isFundamental] at hf
    cases h
  · cases h; exact Good.jaqal _

theorem nQubits_ok {c : Circuit} {v : Val} (h : nQubits c = .ok v) : ∃ n, c.registers.filter isFundamental = [.regF n v] := by
  unfold nQubits at h
  split at h
  · cases h
  · rename_i r hv
    cases r <;> cases h
    exact ⟨_, hv⟩
  · cases h

theorem allocate_class (k : Int) (hk : 0 ≤ k) : Cls Good (allocate (.int k)) := by
  intro e h
  have h0 : ¬ k < 0 := by omega
  simp only [allocate, h0, if_false] at h
  by_cases h1 : k > (maxQubits : Int)
  · simp only [h1, if_true] at h; cases h; exact Good.jaqal _
  · simp only [h1, if_false] at h; cases h

/-- the size of the register of the expanded circuit is a non-negative Python int -/
def SizeInt (c : Circuit) : Prop := ∀ n s, c.registers.filter isFundamental = [.regF n s] → ∃ k, s = .int k ∧ 0 ≤ k

theorem makeSubcircuit_class (c : Circuit) (body : List Walk.Stmt) (tbl : List GateRec) (traces : List (Walk.Addr × Walk.Addr))
    (hd : Walk.discover body = .ok traces) (hids : ∀ id, Walk.GK.other id ∈ gksList body → id < tbl.length)
    (hsize : SizeInt c) (hemu : EmuClass c.natives tbl) (tr : Walk.Addr × Walk.Addr) (htr : tr ∈ traces) :
    Cls Good (makeSubcircuit c body tbl tr) := by
  unfold makeSubcircuit
  refine Cls.bind (nQubits_class c) (fun v hv => ?_)
  obtain ⟨n, hn⟩ := nQubits_ok hv
  obtain ⟨k, rfl, hk⟩ := hsize n v hn
  refine Cls.bind (allocate_class k hk) (fun _ _ => ?_)
  rw [Walk.C03_serialize body traces hd tr htr]
  simp only []
  exact traceTokens_class c.natives tbl hemu _ (fun id h => hids id (segment_gks tr body _ h))

theorem makeSubcircuits_class (c : Circuit) (body : List Walk.Stmt) (tbl : List GateRec) (traces : List (Walk.Addr × Walk.Addr))
    (hd : Walk.discover body = .ok traces) (hids : ∀ id, Walk.GK.other id ∈ gksList body → id < tbl.length)
    (hsize : SizeInt c) (hemu : EmuClass c.natives tbl) :
    ∀ (l : List (Walk.Addr × Walk.Addr)), (∀ tr ∈ l, tr ∈ traces) → Cls Good (makeSubcircuits c body tbl l)
  | [], _ => Cls.pure _
  | tr :: rest, hl => by
    unfold makeSubcircuits
    exact Cls.bind (makeSubcircuit_class c body tbl traces hd hids hsize hemu tr (hl tr (List.mem_cons_self ..)))
      (fun _ _ => Cls.bind (makeSubcircuits_class c body tbl traces hd hids hsize hemu rest
        (fun t ht => hl t (List.mem_cons_of_mem _ ht))) (fun _ _ => Cls.pure _))

/-! ### `execute` -/

/-- What is assumed of the expanded circuit `x` (each item is a consequence of invariants of `Builder.build` that are not proved
yet; the differential test checks them on every generated program, because a violation shows as a foreign class):
* `skel`  — loop counts are Python ints and loop bodies are blocks (`skeleton` does not fail);
* `big`   — `int(reg.size)` of every fundamental register fails with `JaqalError` only (the sizes are ints);
* `disj`  — the used-qubit walk of `DiscoverSubcircuits` fails with `JaqalError` only;
* `size`  — the size of the register is a non-negative Python int;
* `emu`   — emulating a gate of the circuit fails with `JaqalError` only (`resolve_qubit` of a built qubit; no native gate that
  has a unitary takes a register — for such a gate set the emulator raises `TypeError`, see `RunModel.emuArgs`). -/
structure ExecClass (x : Circuit) : Prop where
  skel : Cls Good (skeleton x)
  big : Cls Good (tooLarge x.registers)
  disj : Cls Good (UsedQubits.checkDisjoint x)
  size : SizeInt x
  emu : ∀ body tbl, skeleton x = .ok (body, tbl) → EmuClass x.natives tbl

theorem visit_ok (body : List Walk.Stmt) (traces : List (Walk.Addr × Walk.Addr)) (h : Walk.discover body = .ok traces) :
    ∃ v, Walk.visit (Walk.fuelBound (traces.map (·.1)) body) (traces.map (·.1)) body = .ok v := by
  have := Walk.C08_terminates body traces h _ (Nat.le_refl _)
  cases hv : Walk.visit (Walk.fuelBound (traces.map (·.1)) body) (traces.map (·.1)) body with
  | ok v => exact ⟨v, rfl⟩
  | error e => rw [hv] at this; simp [Except.isOk, Except.toBool] at this

theorem ofDiscErr_good (e : Walk.DiscErr) : Good (ofDiscErr e) := by
  cases e <;> exact Good.jaqal _

theorem execute_class (x : Circuit) (hx : ExecClass x) : Cls Good (execute x) := by
  unfold execute
  refine Cls.bind hx.skel (fun p hp => ?_)
  obtain ⟨body, tbl⟩ := p
  simp only []
  refine Cls.bind hx.big (fun _ _ => ?_)
  cases hd : Walk.discover body with
  | error de =>
    simp only []
    exact Cls.bind (Cls.throw (ofDiscErr_good de)) (fun _ h => by cases h)
  | ok traces =>
    simp only []
    refine Cls.bind (Cls.pure _) (fun traces' ht => ?_)
    cases ht
    refine Cls.bind hx.disj (fun _ _ => ?_)
    refine Cls.bind (makeSubcircuits_class x body tbl traces hd (skeleton_ids hp) hx.size (hx.emu body tbl hp) traces
      (fun _ h => h)) (fun toks _ => ?_)
    obtain ⟨v, hv⟩ := visit_ok body traces hd
    simp only [hv]
    exact Cls.pure _

/-! ### The executable copy of `ExpandMacros.WellFormed` is the original -/
namespace WF
open Jaqal.ExpandMacros

theorem noParam_eq : ∀ v : Val, WF.noParam v = ExpandMacros.noParam v
  | .int _ => rfl
  | .flt _ => rfl
  | .none => rfl
  | .str _ => rfl
  | .const _ v => by simp only [WF.noParam, ExpandMacros.noParam, noParam_eq v]
  | .param _ _ => rfl
  | .qubit _ s i => by simp only [WF.noParam, ExpandMacros.noParam, noParam_eq s, noParam_eq i]
  | .regF _ s => by simp only [WF.noParam, ExpandMacros.noParam, noParam_eq s]
  | .regA _ s => by simp only [WF.noParam, ExpandMacros.noParam, noParam_eq s]
  | .regS _ s a b c => by
    simp only [WF.noParam, ExpandMacros.noParam, noParam_eq s, noParam_eq a, noParam_eq b, noParam_eq c]

theorem isParam_eq (v : Val) : WF.isParam v = ExpandMacros.isParam v := by cases v <;> rfl

theorem okVal_eq (v : Val) : WF.okVal v = ExpandMacros.okVal v := by
  cases v <;> simp only [WF.okVal, ExpandMacros.okVal, noParam_eq, isParam_eq]

theorem wfGate_eq (ms : List Macro) (n : String) (gd : GateDef) (args : List (String × Val)) :
    WF.wfGate ms n gd args = ExpandMacros.wfGate ms n gd args := by
  have : (fun a : String × Val => WF.okVal a.2) = (fun a => ExpandMacros.okVal a.2) := by
    funext a; exact okVal_eq a.2
  simp only [WF.wfGate, ExpandMacros.wfGate, this]
  generalize findMacro ms n = o
  cases o <;> rfl

mutual
  theorem wfStmt_eq (ms : List Macro) : ∀ s : Stmt, WF.wfStmt ms s = ExpandMacros.wfStmt ms s
    | .gate n gd args => by simp only [WF.wfStmt, ExpandMacros.wfStmt, wfGate_eq]
    | .loop c b => by simp only [WF.wfStmt, ExpandMacros.wfStmt, isParam_eq, noParam_eq, wfStmt_eq ms b]
    | .block _ _ it body => by simp only [WF.wfStmt, ExpandMacros.wfStmt, isParam_eq, noParam_eq, wfStmtList_eq ms body]
  theorem wfStmtList_eq (ms : List Macro) : ∀ l : List Stmt, WF.wfStmtList ms l = ExpandMacros.wfStmtList ms l
    | [] => rfl
    | s :: r => by simp only [WF.wfStmtList, ExpandMacros.wfStmtList, wfStmt_eq ms s, wfStmtList_eq ms r]
end

mutual
  theorem inScope_eq (av al : List String) : ∀ s : Stmt, WF.inScope av al s = ExpandMacros.inScope av al s
    | .gate n _ _ => rfl
    | .loop _ b => by simp only [WF.inScope, ExpandMacros.inScope, inScope_eq av al b]
    | .block _ _ _ body => by simp only [WF.inScope, ExpandMacros.inScope, inScopeList_eq av al body]
  theorem inScopeList_eq (av al : List String) : ∀ l : List Stmt, WF.inScopeList av al l = ExpandMacros.inScopeList av al l
    | [] => rfl
    | s :: r => by simp only [WF.inScopeList, ExpandMacros.inScopeList, inScope_eq av al s, inScopeList_eq av al r]
end

theorem wfMacrosFrom_eq (ms : List Macro) : ∀ (l : List Macro) (pre : List String),
    WF.wfMacrosFrom ms pre l = ExpandMacros.wfMacrosFrom ms pre l
  | [], _ => rfl
  | m :: r, pre => by
    simp only [WF.wfMacrosFrom, ExpandMacros.wfMacrosFrom, wfStmt_eq, inScope_eq, wfMacrosFrom_eq ms r]

theorem isReg_eq (v : Val) : WF.isReg v = ExpandMacros.isReg v := by cases v <;> rfl

theorem intLike_eq (v : Val) : WF.intLike v = ExpandMacros.intLike v := by
  cases v with
  | const n w => cases w <;> rfl
  | _ => rfl

theorem regBuilt_eq : ∀ v : Val, WF.regBuilt v = ExpandMacros.regBuilt v
  | .int _ => rfl
  | .flt _ => rfl
  | .none => rfl
  | .str _ => rfl
  | .const _ _ => rfl
  | .param _ _ => rfl
  | .qubit _ _ _ => rfl
  | .regF _ size => by cases size <;> rfl
  | .regA _ src => by simp only [WF.regBuilt, ExpandMacros.regBuilt, isReg_eq, regBuilt_eq src]
  | .regS _ src a b c => by simp only [WF.regBuilt, ExpandMacros.regBuilt, isReg_eq, intLike_eq]

theorem goodVal_eq (v : Val) : WF.goodVal v = ExpandMacros.goodVal v := by
  cases v <;> simp only [WF.goodVal, ExpandMacros.goodVal, isReg_eq, regBuilt_eq]

mutual
  theorem wfT_eq : ∀ s : Stmt, WF.wfT s = ExpandMacros.wfT s
    | .gate _ _ args => by
      have : (fun a : String × Val => WF.goodVal a.2) = (fun a => ExpandMacros.goodVal a.2) := by
        funext a; exact goodVal_eq a.2
      simp only [WF.wfT, ExpandMacros.wfT, this]
    | .loop c b => by simp only [WF.wfT, ExpandMacros.wfT, wfT_eq b]
    | .block _ _ it body => by simp only [WF.wfT, ExpandMacros.wfT, wfTList_eq body]
  theorem wfTList_eq : ∀ l : List Stmt, WF.wfTList l = ExpandMacros.wfTList l
    | [] => rfl
    | s :: r => by simp only [WF.wfTList, ExpandMacros.wfTList, wfT_eq s, wfTList_eq r]
end

/-- the driver op `well_formed` evaluates the hypothesis of `C04_total_class` -/
theorem wellFormed_eq (c : Circuit) : WF.wellFormed c = ExpandMacros.WellFormed c := by
  have : (fun m : Macro => WF.wfT m.body) = (fun m => ExpandMacros.wfT m.body) := by
    funext m; exact wfT_eq m.body
  simp only [WF.wellFormed, ExpandMacros.WellFormed, wfMacrosFrom_eq, wfStmt_eq, wfT_eq, this]
  generalize c.body = b
  cases b with
  | block par sub it body => cases par <;> cases sub <;> rfl
  | _ => rfl

end WF

end Jaqal.RunModel
