import JaqalModel.Model.Emulator
/-!
Bit-level lemmas for the emulator loop nest (core Lean only).

`gather qs i`   : bit `k` of the result = bit `qs[k]` of `i`        (the `dsub_row` the first loop builds)
`clear qs i`    : `i` with the bits at `qs` cleared                   (the `mask` the first loop builds)
`scatter qs c m`: `m` with bit `qs[k]` raised when bit `k` of `c` is set (the `j` the second loop builds)
-/
namespace Jaqal.Bits

def gather : List Nat → Nat → Nat
  | [], _ => 0
  | q :: qs, i => (if i.testBit q then 1 else 0) + 2 * gather qs i

def clear (qs : List Nat) (i : Nat) : Nat := qs.foldl (fun m q => m ^^^ (m &&& (1 <<< q))) i

def scatter : List Nat → Nat → Nat → Nat
  | [], _, m => m
  | q :: qs, c, m => scatter qs (c / 2) (if c % 2 = 1 then m ||| (1 <<< q) else m)

theorem testBit_bit (q b : Nat) : (1 <<< q).testBit b = decide (q = b) := by
  rw [Nat.one_shiftLeft, Nat.testBit_two_pow]

theorem testBit_clear1 (m q b : Nat) : (m ^^^ (m &&& (1 <<< q))).testBit b = (m.testBit b && !decide (q = b)) := by
  simp only [Nat.testBit_xor, Nat.testBit_and, testBit_bit]
  cases m.testBit b <;> cases decide (q = b) <;> rfl

theorem testBit_clear (qs : List Nat) (i b : Nat) : (clear qs i).testBit b = (i.testBit b && !decide (b ∈ qs)) := by
  unfold clear
  induction qs generalizing i with
  | nil => simp
  | cons q qs ih =>
    rw [List.foldl_cons, ih, testBit_clear1]
    by_cases h : q = b
    · subst h; simp
    · have h' : ¬ b = q := fun e => h e.symm
      by_cases h2 : b ∈ qs <;> simp [h, h', h2]

theorem testBit_scatter (qs : List Nat) (c m b : Nat) (hb : b ∉ qs) : (scatter qs c m).testBit b = m.testBit b := by
  induction qs generalizing c m with
  | nil => rfl
  | cons q qs ih =>
    simp only [List.mem_cons, not_or] at hb
    unfold scatter
    rw [ih _ _ hb.2]
    split
    · rw [Nat.testBit_or, testBit_bit]; simp [Ne.symm hb.1]
    · rfl

/-- bit k of c lands on qubit qs[k] (distinct qubits) -/
theorem testBit_scatter_mem (qs : List Nat) (hd : qs.Nodup) (c m k : Nat) (hk : k < qs.length)
    (hm : ∀ q ∈ qs, m.testBit q = false) : (scatter qs c m).testBit qs[k] = c.testBit k := by
  induction qs generalizing c m k with
  | nil => simp at hk
  | cons q qs ih =>
    rw [List.nodup_cons] at hd
    unfold scatter
    cases k with
    | zero =>
      simp only [List.getElem_cons_zero]
      rw [testBit_scatter _ _ _ _ hd.1]
      have hq := hm q (List.mem_cons_self)
      split <;> rename_i h
      · rw [Nat.testBit_or, testBit_bit]; simp [hq, Nat.testBit_zero, h]
      · simp [hq, Nat.testBit_zero]; omega
    | succ k =>
      simp only [List.getElem_cons_succ]
      have hk' : k < qs.length := by simpa using hk
      rw [ih hd.2 (c/2) _ k hk']
      · simp [Nat.testBit_succ]
      · intro q' hq'
        have hne : q ≠ q' := fun e => hd.1 (e ▸ hq')
        have := hm q' (List.mem_cons_of_mem _ hq')
        split
        · rw [Nat.testBit_or, testBit_bit]; simp [this, hne]
        · exact this

theorem gather_lt (qs : List Nat) (i : Nat) : gather qs i < 2 ^ qs.length := by
  induction qs with
  | nil => simp [gather]
  | cons q qs ih => simp only [gather, List.length_cons, Nat.pow_succ]; split <;> omega

theorem testBit_gather (qs : List Nat) (i k : Nat) (hk : k < qs.length) : (gather qs i).testBit k = i.testBit qs[k] := by
  induction qs generalizing k with
  | nil => simp at hk
  | cons q qs ih =>
    cases k with
    | zero =>
      simp only [gather, List.getElem_cons_zero, Nat.testBit_zero]
      cases i.testBit q <;> simp <;> omega
    | succ k =>
      have hk' : k < qs.length := by simpa using hk
      simp only [gather, List.getElem_cons_succ, Nat.testBit_succ]
      rw [← ih k hk']
      congr 1
      split <;> omega

/-- writing back the gathered bits over the cleared mask restores the index -/
theorem scatter_gather (qs : List Nat) (hd : qs.Nodup) (i : Nat) : scatter qs (gather qs i) (clear qs i) = i := by
  apply Nat.eq_of_testBit_eq
  intro b
  by_cases hb : b ∈ qs
  · obtain ⟨k, hk, rfl⟩ := List.getElem_of_mem hb
    rw [testBit_scatter_mem qs hd _ _ k hk, testBit_gather qs i k hk]
    intro q hq; simp [testBit_clear, hq]
  · rw [testBit_scatter _ _ _ _ hb, testBit_clear]; simp [hb]

/-! ### Further lemmas -/

theorem gather_congr (qs : List Nat) (a b : Nat) (h : ∀ q ∈ qs, a.testBit q = b.testBit q) :
    gather qs a = gather qs b := by
  induction qs with
  | nil => rfl
  | cons q qs ih =>
    simp only [gather]
    rw [h q List.mem_cons_self, ih (fun q' hq' => h q' (List.mem_cons_of_mem _ hq'))]

theorem testBit_gather_ge (qs : List Nat) (i k : Nat) (hk : qs.length ≤ k) : (gather qs i).testBit k = false :=
  Nat.testBit_lt_two_pow (Nat.lt_of_lt_of_le (gather_lt qs i) (Nat.pow_le_pow_right (by omega) hk))

/-- reading back the scattered bits gives the column index -/
theorem gather_scatter (qs : List Nat) (hd : qs.Nodup) (c m : Nat) (hc : c < 2 ^ qs.length)
    (hm : ∀ q ∈ qs, m.testBit q = false) : gather qs (scatter qs c m) = c := by
  apply Nat.eq_of_testBit_eq
  intro k
  by_cases hk : k < qs.length
  · rw [testBit_gather _ _ _ hk, testBit_scatter_mem qs hd c m k hk hm]
  · have hk' : qs.length ≤ k := by omega
    rw [testBit_gather_ge _ _ _ hk']
    exact (Nat.testBit_lt_two_pow (Nat.lt_of_lt_of_le hc (Nat.pow_le_pow_right (by omega) hk'))).symm

theorem clear_cleared (qs : List Nat) (i : Nat) : ∀ q ∈ qs, (clear qs i).testBit q = false := by
  intro q hq; simp [testBit_clear, hq]

theorem clear_lt (qs : List Nat) (i n : Nat) (hi : i < 2 ^ n) : clear qs i < 2 ^ n := by
  apply Nat.lt_pow_two_of_testBit
  intro b hb
  rw [testBit_clear, Nat.testBit_lt_two_pow (Nat.lt_of_lt_of_le hi (Nat.pow_le_pow_right (by omega) hb))]
  rfl

theorem scatter_lt (qs : List Nat) (c m n : Nat) (hm : m < 2 ^ n) (hq : ∀ q ∈ qs, q < n) :
    scatter qs c m < 2 ^ n := by
  apply Nat.lt_pow_two_of_testBit
  intro b hb
  have hnot : b ∉ qs := fun h => by have := hq b h; omega
  rw [testBit_scatter _ _ _ _ hnot]
  exact Nat.testBit_lt_two_pow (Nat.lt_of_lt_of_le hm (Nat.pow_le_pow_right (by omega) hb))

/-- closed form of the bits of `scatter qs c (clear qs i)` -/
theorem testBit_scatter_clear (qs : List Nat) (hd : qs.Nodup) (c i b : Nat) :
    (scatter qs c (clear qs i)).testBit b =
      if b ∈ qs then c.testBit (qs.idxOf b) else i.testBit b := by
  by_cases hb : b ∈ qs
  · rw [if_pos hb]
    have hk : qs.idxOf b < qs.length := List.idxOf_lt_length_of_mem hb
    have := testBit_scatter_mem qs hd c (clear qs i) (qs.idxOf b) hk (clear_cleared qs i)
    rwa [List.getElem_idxOf hk] at this
  · rw [if_neg hb, testBit_scatter _ _ _ _ hb, testBit_clear]; simp [hb]

/-! ### The transcribed loops compute `clear`, `gather`, `scatter` -/

open Jaqal.Emulator

theorem and_two_pow' (m q : Nat) : m &&& 2 ^ q = if m.testBit q then 2 ^ q else 0 := by
  apply Nat.eq_of_testBit_eq
  intro b
  rw [Nat.testBit_and, Nat.testBit_two_pow]
  by_cases h : q = b
  · subst h; cases hm : m.testBit q <;> simp
  · cases hm : m.testBit q <;> simp [h]

theorem and_two_pow_ne_zero (m q : Nat) : (m &&& 2 ^ q ≠ 0) ↔ m.testBit q = true := by
  rw [and_two_pow']
  cases m.testBit q <;> simp

theorem and_bit_ne_zero (m q : Nat) : (m &&& (1 <<< q) ≠ 0) ↔ m.testBit q = true := by
  rw [Nat.one_shiftLeft, and_two_pow_ne_zero]

theorem foldl_rowStep (qs : List Nat) (hd : qs.Nodup) (m r k : Nat) (hr : r < 2 ^ k) :
    qs.foldl rowStep (m, r, 2 ^ k) = (clear qs m, r + 2 ^ k * gather qs m, 2 ^ (k + qs.length)) := by
  induction qs generalizing m r k with
  | nil => simp [clear, gather]
  | cons q qs ih =>
    rw [List.nodup_cons] at hd
    rw [List.foldl_cons]
    have hstep : rowStep (m, r, 2 ^ k) q =
        (m ^^^ (m &&& (1 <<< q)), (if m.testBit q then r + 2 ^ k else r), 2 ^ (k + 1)) := by
      simp only [rowStep, and_bit_ne_zero]
      congr 2
      · split
        · have := Nat.two_pow_add_eq_or_of_lt hr 1
          rw [Nat.mul_one] at this
          rw [Nat.or_comm, ← this]; omega
        · rfl
      · simp [Nat.shiftLeft_eq, Nat.pow_succ]
    rw [hstep, ih hd.2]
    · have hg : gather qs (m ^^^ (m &&& (1 <<< q))) = gather qs m := by
        apply gather_congr
        intro q' hq'
        rw [testBit_clear1]
        have : q ≠ q' := fun e => hd.1 (e ▸ hq')
        simp [this]
      have hc : clear qs (m ^^^ (m &&& (1 <<< q))) = clear (q :: qs) m := by simp [clear]
      rw [hg, hc]
      simp only [gather, List.length_cons, Nat.pow_succ]
      congr 2
      · have : 2 ^ k * 2 * gather qs m = 2 ^ k * (2 * gather qs m) := Nat.mul_assoc ..
        split <;> simp [Nat.mul_add, Nat.add_assoc, this]
      · congr 1; omega
    · rw [Nat.pow_succ]; split <;> omega

theorem rowMask_eq (qs : List Nat) (hd : qs.Nodup) (i : Nat) : rowMask qs i = (clear qs i, gather qs i) := by
  have := foldl_rowStep qs hd i 0 0 (by simp)
  simp only [Nat.pow_zero, Nat.one_mul, Nat.zero_add] at this
  simp [rowMask, this]

theorem foldl_colStep (qs : List Nat) (c j k : Nat) :
    (qs.foldl (colStep c) (j, 2 ^ k)).1 = scatter qs (c / 2 ^ k) j := by
  induction qs generalizing j k with
  | nil => rfl
  | cons q qs ih =>
    rw [List.foldl_cons]
    have hstep : colStep c (j, 2 ^ k) q =
        ((if c / 2 ^ k % 2 = 1 then j ||| (1 <<< q) else j), 2 ^ (k + 1)) := by
      simp only [colStep]
      congr 1
      · have : (c &&& 2 ^ k ≠ 0) ↔ c / 2 ^ k % 2 = 1 := by
          rw [and_two_pow_ne_zero, Nat.testBit_eq_decide_div_mod_eq]
          simp
        simp only [this]
      · simp [Nat.shiftLeft_eq, Nat.pow_succ]
    rw [hstep, ih]
    simp only [scatter, Nat.pow_succ, Nat.div_div_eq_div_mul]

theorem colIndex_eq (qs : List Nat) (m c : Nat) : colIndex qs m c = scatter qs c m := by
  have := foldl_colStep qs c m 0
  simpa [colIndex] using this

end Jaqal.Bits
