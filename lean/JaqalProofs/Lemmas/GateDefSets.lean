import Mathlib.Data.String.Basic
import JaqalProofs.Lemmas.GateDef
/-!
Lemmas about gate sets: `add_idle_gates` and `stretched_gates` as sequences of dictionary writes.
-/
namespace Jaqal.GateDef
variable {U : Type}

/-! ### more on dictionaries -/
section Od
variable {β : Type}

theorem odGet?_append (d d' : List (String × β)) (k : String) :
    odGet? (d ++ d') k = match odGet? d k with | some v => some v | none => odGet? d' k := by
  induction d with
  | nil => rfl
  | cons e r ih =>
    obtain ⟨a, b⟩ := e
    by_cases h : a = k <;> simp [odGet?, h, ih]

/-- **last write wins**: the value under `k` after the writes `ws` is the last one written to `k`, or the old one -/
theorem odGet?_odUpdate (d ws : List (String × β)) (k : String) :
    odGet? (odUpdate d ws) k = match odGet? ws.reverse k with | some v => some v | none => odGet? d k := by
  induction ws generalizing d with
  | nil => rfl
  | cons w ws ih =>
    rw [odUpdate_cons, ih, List.reverse_cons, odGet?_append, odGet?_odSet]
    cases odGet? ws.reverse k with
    | some v => rfl
    | none => by_cases h : w.1 = k <;> simp [odGet?, h]

theorem keys_subset_odSet (d : List (String × β)) (k : String) (v : β) (x : String) (h : x ∈ d.map (·.1)) :
    x ∈ (odSet d k v).map (·.1) := by
  rw [keys_odSet]; split
  · exact h
  · exact List.mem_append_left _ h

theorem key_mem_odSet (d : List (String × β)) (k : String) (v : β) : k ∈ (odSet d k v).map (·.1) := by
  rw [keys_odSet]; split
  · assumption
  · simp

theorem keys_subset_odUpdate (d ws : List (String × β)) (x : String) (h : x ∈ d.map (·.1)) :
    x ∈ (odUpdate d ws).map (·.1) := by
  induction ws generalizing d with
  | nil => exact h
  | cons w ws ih => rw [odUpdate_cons]; exact ih _ (keys_subset_odSet d w.1 w.2 x h)

theorem keys_written_odUpdate (d ws : List (String × β)) (x : String) (h : x ∈ ws.map (·.1)) :
    x ∈ (odUpdate d ws).map (·.1) := by
  induction ws generalizing d with
  | nil => simp at h
  | cons w ws ih =>
    rw [odUpdate_cons]
    simp only [List.map_cons, List.mem_cons] at h
    rcases h with rfl | h
    · exact keys_subset_odUpdate _ ws _ (key_mem_odSet d w.1 w.2)
    · exact ih _ h

theorem mem_odUpdate (d ws : List (String × β)) (e : String × β) (h : e ∈ odUpdate d ws) : e ∈ d ∨ e ∈ ws := by
  induction ws generalizing d with
  | nil => left; exact h
  | cons w ws ih =>
    rw [odUpdate_cons] at h
    rcases ih _ h with h | h
    · rcases mem_odSet d w.1 w.2 e h with h | h
      · left; exact h
      · right; rw [h]; simp
    · right; exact List.mem_cons_of_mem _ h

theorem keys_nodup_odUpdate (d ws : List (String × β)) (h : (d.map (·.1)).Nodup) :
    ((odUpdate d ws).map (·.1)).Nodup := by
  induction ws generalizing d with
  | nil => exact h
  | cons w ws ih => rw [odUpdate_cons]; exact ih _ (keys_nodup_odSet d w.1 w.2 h)

end Od

/-! ### `add_idle_gates` -/

/-- the idle gate `IdleGateDefinition(g)` -/
def idleOf (g : GDef U) : GDef U := .idle ("I_" ++ g.name) g.params g none

/-- what one iteration of `add_idle_gates` writes -/
def idleWritesOf (e : String × GDef U) : List (String × GDef U) :=
  e :: (if isSpecial e.2.name then [] else [("I_" ++ e.2.name, idleOf e.2)])

/-- all the writes of `add_idle_gates`, in order -/
def idleWrites (s : GateSet U) : List (String × GDef U) := s.flatMap idleWritesOf

theorem idleStep_eq (acc : GateSet U) (e : String × GDef U) : idleStep acc e = odUpdate acc (idleWritesOf e) := by
  unfold idleStep idleWritesOf mkIdle
  by_cases h : isSpecial e.2.name = true
  · simp [h, odUpdate, throw, throwThe, MonadExceptOf.throw]
  · simp only [h, Bool.false_eq_true, ↓reduceIte, odUpdate, pure, Except.pure, idleOf, List.foldl_cons, List.foldl_nil]
    rfl

theorem foldl_idleStep (s acc : GateSet U) : s.foldl idleStep acc = odUpdate acc (idleWrites s) := by
  induction s generalizing acc with
  | nil => rfl
  | cons e s ih =>
    rw [List.foldl_cons, ih, idleStep_eq]
    unfold idleWrites
    rw [List.flatMap_cons, odUpdate_append]

theorem addIdleGates_eq (s : GateSet U) : addIdleGates s = odUpdate [] (idleWrites s) := foldl_idleStep s []

/-! ### `stretched_gates` -/

/-- the gate `stretched_gates` copies: a non-idle member itself, the parent of an idle member -/
def source : GDef U → GDef U
  | .idle _ _ p _ => p
  | g => g

/-- `suffix or ""` -/
def sfxStr (sfx : Option String) : String := sfx.getD ""

theorem truthy_map_name (sfx : Option String) (n : String) :
    ((truthy sfx).map (n ++ ·)).getD n = n ++ sfxStr sfx := by
  unfold truthy sfxStr
  cases sfx with
  | none => simp
  | some s => by_cases h : s = "" <;> simp [h]

theorem stretchOf_name (sfx : Option String) (g : GDef U) : (stretchOf sfx g).name = g.name ++ sfxStr sfx := by
  cases g <;> simp [stretchOf, GDef.copy, GDef.name, truthy_map_name]

theorem stretchOf_params (sfx : Option String) (g : GDef U) : (stretchOf sfx g).params = g.params ++ [stretchParam] := by
  cases g <;> simp [stretchOf, GDef.copy, GDef.params]

theorem stretchOf_unitary (sfx : Option String) (g : GDef U) : (stretchOf sfx g).unitary = g.unitary.map dropStretch := by
  cases g with
  | active n b p u => cases u <;> simp [stretchOf, GDef.copy, GDef.unitary]
  | idle n p par u => cases u <;> simp [stretchOf, GDef.copy, GDef.unitary]

theorem stretchOf_isIdle (sfx : Option String) (g : GDef U) : (stretchOf sfx g).isIdle = g.isIdle := by
  cases g <;> simp [stretchOf, GDef.copy, GDef.isIdle]

theorem stretchOf_tag (sfx : Option String) (g : GDef U) : (stretchOf sfx g).tag = g.tag := by
  cases g with
  | active n b p u => cases b <;> simp [stretchOf, GDef.copy, GDef.tag]
  | idle n p par u => simp [stretchOf, GDef.copy, GDef.tag]

/-- what one (not skipped) iteration of `stretched_gates` writes -/
def stretchWrites (sfx : Option String) (g : GDef U) : M (List (String × GDef U)) :=
  let ng := stretchOf sfx (source g)
  if g.isIdle then do
    let i ← mkIdle ng (some (g.name ++ sfxStr sfx))
    pure [(ng.name, ng), (g.name ++ sfxStr sfx, i)]
  else pure [(ng.name, ng)]

theorem stretchStep_eq (sfx : Option String) (acc : GateSet U) (g : GDef U) :
    stretchStep sfx acc g =
      if odHas acc g.name then pure acc else (stretchWrites sfx g).map (odUpdate acc) := by
  unfold stretchStep stretchWrites
  by_cases h : odHas acc g.name = true
  · simp [h]
  · simp only [h, Bool.false_eq_true, ↓reduceIte]
    cases g with
    | active n b p u => simp [GDef.isIdle, source, odUpdate, pure, Except.pure, Except.map]
    | idle n p par u =>
      simp only [GDef.isIdle, ↓reduceIte, source, sfxStr]
      cases mkIdle (stretchOf sfx par) (some (GDef.name (.idle n p par u) ++ sfx.getD "")) with
      | error e => simp [bind, Except.bind, Except.map]
      | ok i => simp [bind, Except.bind, Except.map, pure, Except.pure, odUpdate]

theorem source_of_not_idle (g : GDef U) (h : g.isIdle = false) : source g = g := by
  cases g <;> simp_all [GDef.isIdle, source]

theorem mkIdle_props (g i : GDef U) (n : Option String) (h : mkIdle g n = .ok i) :
    i.params = g.params ∧ i.parent? = some g ∧ usedQubits i = [] ∧ i.unitary = none ∧ i.isIdle = true ∧
    isSpecial g.name = false := by
  unfold mkIdle at h
  by_cases hs : isSpecial g.name = true
  · simp [hs, throw, throwThe, MonadExceptOf.throw] at h
  · simp only [hs, Bool.false_eq_true, ↓reduceIte, pure, Except.pure, Except.ok.injEq] at h
    subst h
    exact ⟨rfl, rfl, rfl, rfl, rfl, by simpa using hs⟩

/-- the shape of the writes of one iteration -/
theorem stretchWrites_ok (sfx : Option String) (g : GDef U) (ws : List (String × GDef U))
    (h : stretchWrites sfx g = .ok ws) :
    (g.isIdle = false ∧ ws = [((source g).name ++ sfxStr sfx, stretchOf sfx (source g))]) ∨
    (g.isIdle = true ∧ ∃ i, mkIdle (stretchOf sfx (source g)) (some (g.name ++ sfxStr sfx)) = .ok i ∧
      ws = [((source g).name ++ sfxStr sfx, stretchOf sfx (source g)), (g.name ++ sfxStr sfx, i)]) := by
  unfold stretchWrites at h
  by_cases hi : g.isIdle = true
  · right
    simp only [hi, ↓reduceIte] at h
    cases hm : mkIdle (stretchOf sfx (source g)) (some (g.name ++ sfxStr sfx)) with
    | error e => simp [hm, bind, Except.bind] at h
    | ok i =>
      simp only [hm, bind, Except.bind, pure, Except.pure, Except.ok.injEq, stretchOf_name] at h
      exact ⟨hi, i, by first | exact hm | rfl, h.symm⟩
  · left
    simp only [hi, Bool.false_eq_true, ↓reduceIte, pure, Except.pure, Except.ok.injEq, stretchOf_name] at h
    exact ⟨by simpa using hi, h.symm⟩

/-- `e` was written by the iteration for a gate of `gs`, and everything that iteration wrote is (still) present -/
def Written (sfx : Option String) (gs : List (GDef U)) (keys : List String) (e : String × GDef U) : Prop :=
  ∃ g ∈ gs, ∃ ws, stretchWrites sfx g = .ok ws ∧ e ∈ ws ∧ ∀ w ∈ ws, w.1 ∈ keys

def Inv (sfx : Option String) (gs : List (GDef U)) (acc : GateSet U) : Prop :=
  ∀ e ∈ acc, Written sfx gs (acc.map (·.1)) e

theorem stretchStep_cases (sfx : Option String) (acc acc' : GateSet U) (g : GDef U)
    (h : stretchStep sfx acc g = .ok acc') :
    (odHas acc g.name = true ∧ acc' = acc) ∨
    (odHas acc g.name = false ∧ ∃ ws, stretchWrites sfx g = .ok ws ∧ acc' = odUpdate acc ws) := by
  rw [stretchStep_eq] at h
  by_cases hh : odHas acc g.name = true
  · left; simp only [hh, ↓reduceIte, pure, Except.pure, Except.ok.injEq] at h; exact ⟨hh, h.symm⟩
  · right
    simp only [hh, Bool.false_eq_true, ↓reduceIte] at h
    cases hw : stretchWrites sfx g with
    | error e => simp [hw, Except.map] at h
    | ok ws =>
      simp only [hw, Except.map, Except.ok.injEq] at h
      exact ⟨by simpa using hh, ws, rfl, h.symm⟩

theorem inv_step (sfx : Option String) (gs : List (GDef U)) (acc acc' : GateSet U) (g : GDef U) (hg : g ∈ gs)
    (h : stretchStep sfx acc g = .ok acc') (hinv : Inv sfx gs acc) (hnd : (acc.map (·.1)).Nodup) :
    Inv sfx gs acc' ∧ (acc'.map (·.1)).Nodup ∧ ∀ x ∈ acc.map (·.1), x ∈ acc'.map (·.1) := by
  rcases stretchStep_cases sfx acc acc' g h with ⟨_, rfl⟩ | ⟨_, ws, hw, rfl⟩
  · exact ⟨hinv, hnd, fun _ hx => hx⟩
  · refine ⟨?_, keys_nodup_odUpdate acc ws hnd, fun x hx => keys_subset_odUpdate acc ws x hx⟩
    intro e he
    rcases mem_odUpdate acc ws e he with he | he
    · obtain ⟨g', hg', ws', hw', hm, hk⟩ := hinv e he
      exact ⟨g', hg', ws', hw', hm, fun w hw'' => keys_subset_odUpdate acc ws _ (hk w hw'')⟩
    · exact ⟨g, hg, ws, hw, he, fun w hw'' => keys_written_odUpdate acc ws _ (List.mem_map.mpr ⟨w, hw'', rfl⟩)⟩

theorem stretchLoop_inv (sfx : Option String) (gs l : List (GDef U)) (acc r : GateSet U) (hl : ∀ g ∈ l, g ∈ gs)
    (h : stretchLoop sfx l acc = .ok r) (hinv : Inv sfx gs acc) (hnd : (acc.map (·.1)).Nodup) :
    Inv sfx gs r ∧ (r.map (·.1)).Nodup ∧ ∀ x ∈ acc.map (·.1), x ∈ r.map (·.1) := by
  induction l generalizing acc with
  | nil =>
    simp only [stretchLoop, pure, Except.pure, Except.ok.injEq] at h
    subst h; exact ⟨hinv, hnd, fun _ hx => hx⟩
  | cons g l ih =>
    unfold stretchLoop at h
    cases hs : stretchStep sfx acc g with
    | error e => simp [hs, bind, Except.bind] at h
    | ok acc' =>
      simp only [hs, bind, Except.bind] at h
      obtain ⟨h1, h2, h3⟩ := inv_step sfx gs acc acc' g (hl g (by simp)) hs hinv hnd
      obtain ⟨k1, k2, k3⟩ := ih acc' (fun g' hg' => hl g' (by simp [hg'])) h h1 h2
      exact ⟨k1, k2, fun x hx => k3 x (h3 x hx)⟩

/-- Hypotheses under which gate names identify the gates `stretched_gates` works on:
* two members whose sources (the member itself, or the parent of an idle member) have the same name have the same source;
* two idle members with the same name are equal;
* no idle member is named like a source;
* with a non-empty suffix `s`: no member is named `n ++ s` for the name `n` of a source or of an idle member
  (such a member would be skipped by the `if name in new_gates: continue` test). -/
structure NamesOK (sfx : Option String) (gs : List (GDef U)) : Prop where
  src : ∀ g ∈ gs, ∀ g' ∈ gs, (source g).name = (source g').name → source g = source g'
  idle : ∀ g ∈ gs, ∀ g' ∈ gs, g.isIdle = true → g'.isIdle = true → g.name = g'.name → g = g'
  idle_src : ∀ g ∈ gs, ∀ g' ∈ gs, g.isIdle = true → g.name ≠ (source g').name
  sfx : sfxStr sfx ≠ "" → ∀ g ∈ gs, ∀ g' ∈ gs,
    g.name ≠ (source g').name ++ sfxStr sfx ∧ (g'.isIdle = true → g.name ≠ g'.name ++ sfxStr sfx)

/-- the keys the iteration for `g` is responsible for are present -/
def Done (sfx : Option String) (keys : List String) (g : GDef U) : Prop :=
  (source g).name ++ sfxStr sfx ∈ keys ∧ (g.isIdle = true → g.name ++ sfxStr sfx ∈ keys)

theorem done_of_skip (sfx : Option String) (gs : List (GDef U)) (H : NamesOK sfx gs) (acc : GateSet U) (g : GDef U)
    (hg : g ∈ gs) (hinv : Inv sfx gs acc) (hk : odHas acc g.name = true) : Done sfx (acc.map (·.1)) g := by
  have hmem : g.name ∈ acc.map (·.1) := (odHas_iff acc g.name).mp hk
  obtain ⟨e, he, hek⟩ := List.mem_map.mp hmem
  obtain ⟨g', hg', ws', hw', hm, hkeys⟩ := hinv e he
  have hempty : sfxStr sfx = "" := by
    by_contra hne
    have := H.sfx hne g hg g' hg'
    rcases stretchWrites_ok sfx g' ws' hw' with ⟨_, rfl⟩ | ⟨hi', i, _, rfl⟩
    · simp only [List.mem_singleton] at hm; subst hm; exact this.1 hek.symm
    · simp only [List.mem_cons, List.not_mem_nil, or_false] at hm
      rcases hm with rfl | rfl
      · exact this.1 hek.symm
      · exact this.2 hi' hek.symm
  have app : ∀ x : String, x ++ sfxStr sfx = x := fun x => by rw [hempty, String.append_empty]
  have active_case : (source g').name = g.name → Done sfx (acc.map (·.1)) g := by
    intro hn
    cases hi : g.isIdle with
    | true => exact absurd hn.symm (H.idle_src g hg g' hg' hi)
    | false =>
      unfold Done
      rw [source_of_not_idle g hi, app]
      exact ⟨hmem, fun h => by rw [hi] at h; cases h⟩
  rcases stretchWrites_ok sfx g' ws' hw' with ⟨_, rfl⟩ | ⟨hi', i, _, rfl⟩
  · simp only [List.mem_singleton] at hm; subst hm
    rw [app] at hek
    exact active_case hek
  · simp only [List.mem_cons, List.not_mem_nil, or_false] at hm
    rcases hm with rfl | rfl
    · rw [app] at hek
      exact active_case hek
    · rw [app] at hek
      cases hi : g.isIdle with
      | false =>
        have := H.idle_src g' hg' g hg hi'
        rw [source_of_not_idle g hi] at this
        exact absurd hek this
      | true =>
        have : g' = g := H.idle g' hg' g hg hi' hi hek
        subst this
        exact ⟨hkeys _ (List.mem_cons_self ..), fun _ => hkeys _ (List.mem_cons_of_mem _ (List.mem_cons_self ..))⟩

theorem stretchLoop_done (sfx : Option String) (gs : List (GDef U)) (H : NamesOK sfx gs) (l : List (GDef U))
    (acc r : GateSet U) (hl : ∀ g ∈ l, g ∈ gs) (h : stretchLoop sfx l acc = .ok r) (hinv : Inv sfx gs acc)
    (hnd : (acc.map (·.1)).Nodup) : ∀ g ∈ l, Done sfx (r.map (·.1)) g := by
  induction l generalizing acc with
  | nil => simp
  | cons g l ih =>
    unfold stretchLoop at h
    cases hs : stretchStep sfx acc g with
    | error e => simp [hs, bind, Except.bind] at h
    | ok acc' =>
      simp only [hs, bind, Except.bind] at h
      have hg : g ∈ gs := hl g (by simp)
      obtain ⟨h1, h2, _⟩ := inv_step sfx gs acc acc' g hg hs hinv hnd
      obtain ⟨_, _, k3⟩ := stretchLoop_inv sfx gs l acc' r (fun g' hg' => hl g' (by simp [hg'])) h h1 h2
      intro g0 hg0
      rcases List.mem_cons.mp hg0 with rfl | hg0
      · have hd : Done sfx (acc'.map (·.1)) g0 := by
          rcases stretchStep_cases sfx acc acc' g0 hs with ⟨hk, rfl⟩ | ⟨_, ws, hw, rfl⟩
          · exact done_of_skip sfx gs H _ g0 hg hinv hk
          · rcases stretchWrites_ok sfx g0 ws hw with ⟨hi, rfl⟩ | ⟨hi, i, _, rfl⟩
            · exact ⟨keys_written_odUpdate _ _ _ (by simp), by simp [hi]⟩
            · exact ⟨keys_written_odUpdate _ _ _ (by simp), fun _ => keys_written_odUpdate _ _ _ (by simp)⟩
        exact ⟨k3 _ hd.1, fun hi => k3 _ (hd.2 hi)⟩
      · exact ih acc' (fun g' hg' => hl g' (by simp [hg'])) h h1 h2 g0 hg0

theorem append_right_cancel_str (a b s : String) (h : a ++ s = b ++ s) : a = b := by
  have := congrArg String.toList h
  simp only [String.toList_append] at this
  exact String.toList_inj.mp (List.append_cancel_right this)

end Jaqal.GateDef
