import JaqalProofs.Lemmas.ExpandMacrosVal
import JaqalProofs.Lemmas.GateDefCall
/-!
Statement-level lemmas for C04: well-formedness, the macro denotations, the splice on meanings, and the main
induction (expansion of a call = meaning of the macro body under the bindings of the call).
-/
namespace Jaqal.ExpandMacros
open Jaqal Jaqal.Sem

/-! ## Well-formedness: what the builder guarantees -/

def isMacro (ms : List Macro) (n : String) : Bool := (findMacro ms n).isSome

/-- a gate statement as `AbstractGate.call` makes it: named after its definition, one argument per parameter of the
definition in the definition's order, distinct parameter names, builder-made values; a statement that names a macro of
the circuit calls THAT macro (its definition object carries the macro's parameters) -/
def wfGate (ms : List Macro) (n : String) (gd : GateDef) (args : List (String × Val)) : Bool :=
  n == gd.name && (args.map (·.1) == gd.params.map (·.1)) && decide ((gd.params.map (·.1)).Nodup) &&
  args.all (fun a => okVal a.2) &&
  (match findMacro ms n with
   | some m => gd.params == m.params
   | none => true)

mutual
  def wfStmt (ms : List Macro) : Stmt → Bool
    | .gate n gd args => wfGate ms n gd args
    | .loop c b => (isParam c || noParam c) && wfStmt ms b
    | .block _ _ it body => (isParam it || noParam it) && wfStmtList ms body
  def wfStmtList (ms : List Macro) : List Stmt → Bool
    | [] => true
    | s :: r => wfStmt ms s && wfStmtList ms r
end

mutual
  /-- every gate name is an available (earlier) macro or no macro at all -/
  def inScope (avail all : List String) : Stmt → Bool
    | .gate n _ _ => decide (n ∈ avail) || !decide (n ∈ all)
    | .loop _ b => inScope avail all b
    | .block _ _ _ body => inScopeList avail all body
  def inScopeList (avail all : List String) : List Stmt → Bool
    | [] => true
    | s :: r => inScope avail all s && inScopeList avail all r
end

/-- each macro body is well formed and calls only macros defined before it -/
def wfMacrosFrom (ms : List Macro) (pre : List String) : List Macro → Bool
  | [] => true
  | m :: r => wfStmt ms m.body && inScope pre (ms.map (·.name)) m.body && wfMacrosFrom ms (pre ++ [m.name]) r

/-! ### builder-made registers, indices and counts (needed for: every rejection is a `JaqalError`) -/

def isReg : Val → Bool
  | .regF _ _ => true
  | .regA _ _ => true
  | .regS _ _ _ _ _ => true
  | _ => false

/-- an integer literal or a let constant with an integer value -/
def intLike : Val → Bool
  | .int _ => true
  | .const _ (.int _) => true
  | _ => false

/-- a register as `register` / `map` statements build it: a fundamental register sized by a number or a let
constant; an alias of such a register; a slice whose bounds (all three are filled in by the builder; start and step
may be absent in hand-built objects) are integers or integer let constants. For these `int(reg.size)` raises nothing
but `JaqalError`. -/
def regBuilt : Val → Bool
  | .regF _ size =>
    (match size with
     | .int _ => true
     | .flt _ => true
     | .const _ _ => true
     | _ => false)
  | .regA _ src => isReg src && regBuilt src
  | .regS _ src a b c => isReg src && (a == .none || intLike a) && intLike b && (c == .none || intLike c)
  | _ => false

/-- a gate argument as the builder makes it, as far as error classes go: an indexed qubit indexes a register or a
parameter by a number, a let constant or a parameter; registers are builder-made -/
def goodVal : Val → Bool
  | .qubit _ s i => isArrayLike s && (!isReg s || regBuilt s) && isIndexLike i
  | v => !isReg v || regBuilt v

mutual
  /-- arguments are `goodVal`s; loop counts and iteration counts are numbers, let constants or parameters -/
  def wfT : Stmt → Bool
    | .gate _ _ args => args.all (fun a => goodVal a.2)
    | .loop c b => isIndexLike c && wfT b
    | .block _ _ it body => isIndexLike it && wfTList body
  def wfTList : List Stmt → Bool
    | [] => true
    | s :: r => wfT s && wfTList r
end

/-- **WellFormed**: the circuits `CircuitBuilder` / the parser produce.
(The builder also makes macro names and parameter names distinct and keeps macro names apart from native gate names;
the theorems do not need that.) The last two conjuncts (`wfT`) are only used by `C04_total_class`. -/
def WellFormed (c : Circuit) : Bool :=
  wfMacrosFrom c.macros [] c.macros && wfStmt c.macros c.body &&
  (match c.body with
   | .block false false _ _ => true
   | _ => false) &&
  wfT c.body && c.macros.all (fun m => wfT m.body)

mutual
  /-- no gate statement names a macro of `ms` -/
  def noCalls (ms : List Macro) : Stmt → Bool
    | .gate n _ _ => !isMacro ms n
    | .loop _ b => noCalls ms b
    | .block _ _ _ body => noCallsList ms body
  def noCallsList (ms : List Macro) : List Stmt → Bool
    | [] => true
    | s :: r => noCalls ms s && noCallsList ms r
end

theorem noCallsList_append (ms : List Macro) : ∀ (a b : List Stmt), noCallsList ms (a ++ b) = (noCallsList ms a && noCallsList ms b)
  | [], b => by simp [noCallsList]
  | s :: r, b => by simp [noCallsList, noCallsList_append ms r b, Bool.and_assoc]

theorem noCalls_spliceInto (ms : List Macro) (par : Bool) (s : Stmt) (r : List Stmt)
    (hs : noCalls ms s = true) (hr : noCallsList ms r = true) : noCallsList ms (spliceInto par s r) = true := by
  unfold spliceInto
  split
  · next p it b =>
    split
    · rw [noCallsList_append]; simp only [noCalls] at hs; simp [hs, hr]
    · simp [noCallsList, hs, hr]
  · simp [noCallsList, hs, hr]

theorem mkBlock_ok {par sub : Bool} {it : Val} {body : List Stmt} {s : Stmt} (h : mkBlock par sub it body = .ok s) :
    s = .block par sub it body := by
  unfold mkBlock at h
  split at h
  · cases h
  · split at h
    · cases h
    · simp only [pure, Except.pure, Except.ok.injEq] at h; exact h.symm

theorem mkLoop_ok {c : Val} {b s : Stmt} (h : mkLoop c b = .ok s) : s = .loop c b ∧ badCount c = false := by
  unfold mkLoop at h
  split at h
  · cases h
  · next hc => simp only [pure, Except.pure, Except.ok.injEq] at h; exact ⟨h.symm, by simpa using hc⟩

/-! ## `gate_def(**new)` on a well-formed statement rebuilds the statement -/

theorem callKw_ok {gd : GateDef} {new : List (String × Val)} {g : Stmt} (h : GateDef.callKw gd new = .ok g)
    (hn : new.map (·.1) = gd.params.map (·.1)) (hnd : (gd.params.map (·.1)).Nodup) : g = .gate gd.name gd new :=
  GateDef.callKw_ok h hn hnd

/-! ## The denotation of the macro table -/

/-- one step of `denoteMacros` -/
def mstep (ρ : Env) (md : MacroDen) (m : Macro) : MacroDen :=
  md ++ [(m.name, (m.params.length, fun args => evalStmt ρ md (m.params.map (·.1) |>.zip args) m.body))]

theorem mstep_eq (ρ : Env) (md : MacroDen) (m : Macro) : mstep ρ md m =
    md ++ [(m.name, (m.params.length, fun args => evalStmt ρ md (m.params.map (·.1) |>.zip args) m.body))] := rfl

theorem denoteMacros_eq (ρ : Env) (ms : List Macro) : denoteMacros ρ ms = ms.foldl (mstep ρ) [] := rfl

theorem lookup_append_some {α} {l1 l2 : List (String × α)} {n : String} {e : α} (h : lookup l1 n = some e) :
    lookup (l1 ++ l2) n = some e := by
  unfold lookup at h ⊢
  rw [List.find?_append]
  cases hf : List.find? (fun x => x.1 == n) l1 with
  | none => rw [hf] at h; cases h
  | some x => rw [hf] at h; simpa using h

theorem lookup_append_none {α} {l1 l2 : List (String × α)} {n : String} (h : lookup l1 n = none) :
    lookup (l1 ++ l2) n = lookup l2 n := by
  unfold lookup at h ⊢
  rw [List.find?_append]
  cases hf : List.find? (fun x => x.1 == n) l1 with
  | none => simp
  | some x => rw [hf] at h; cases h

theorem lookup_fold_some (ρ : Env) : ∀ (ms : List Macro) (md : MacroDen) (g : String) (e), lookup md g = some e →
    lookup (ms.foldl (mstep ρ) md) g = some e
  | [], md, g, e, h => h
  | m :: r, md, g, e, h => by
    simp only [List.foldl_cons]
    exact lookup_fold_some ρ r _ g e (lookup_append_some h)

theorem lookup_fold_none (ρ : Env) : ∀ (ms : List Macro) (md : MacroDen) (g : String), lookup md g = none →
    (∀ m ∈ ms, (m.name == g) = false) → lookup (ms.foldl (mstep ρ) md) g = none
  | [], md, g, h, _ => h
  | m :: r, md, g, h, hall => by
    simp only [List.foldl_cons]
    apply lookup_fold_none ρ r _ g
    · rw [mstep_eq, lookup_append_none h]; simp [lookup, List.find?, hall m (by simp)]
    · intro x hx; exact hall x (by simp [hx])

theorem lookup_fold_hit (ρ : Env) (pre post : List Macro) (m : Macro) (md : MacroDen) (g : String)
    (h : lookup md g = none) (hpre : ∀ x ∈ pre, (x.name == g) = false) (hm : (m.name == g) = true) :
    lookup ((pre ++ m :: post).foldl (mstep ρ) md) g =
      some (m.params.length, fun args => evalStmt ρ (pre.foldl (mstep ρ) md) (m.params.map (·.1) |>.zip args) m.body) := by
  rw [List.foldl_append, List.foldl_cons]
  apply lookup_fold_some
  rw [mstep_eq, lookup_append_none (lookup_fold_none ρ pre md g h hpre)]
  simp [lookup, List.find?, hm]

theorem findMacro_none_lookup (ρ : Env) (ms : List Macro) (n : String) (h : findMacro ms n = none) :
    lookup (denoteMacros ρ ms) n = none := by
  rw [denoteMacros_eq]
  apply lookup_fold_none ρ ms [] n rfl
  intro m hm
  unfold findMacro at h
  have := List.find?_eq_none.mp h m hm
  simpa using this

theorem findMacro_some_split {ms : List Macro} {n : String} {m : Macro} (h : findMacro ms n = some m) :
    (m.name == n) = true ∧ ∃ pre post, ms = pre ++ m :: post ∧ ∀ x ∈ pre, (x.name == n) = false := by
  unfold findMacro at h
  obtain ⟨hm, pre, post, hsplit, hpre⟩ := List.find?_eq_some_iff_append.mp h
  exact ⟨hm, pre, post, hsplit, fun x hx => by simpa using hpre x hx⟩

mutual
  /-- the gate names occurring in a statement -/
  def gateNames : Stmt → List String
    | .gate n _ _ => [n]
    | .loop _ b => gateNames b
    | .block _ _ _ body => gateNamesList body
  def gateNamesList : List Stmt → List String
    | [] => []
    | s :: r => gateNames s ++ gateNamesList r
end

mutual
  /-- meaning only looks up the names that occur -/
  theorem evalStmt_congr_md (ρ : Env) (md1 md2 : MacroDen) (b : Bind) : ∀ (s : Stmt),
      (∀ g ∈ gateNames s, lookup md1 g = lookup md2 g) → evalStmt ρ md1 b s = evalStmt ρ md2 b s
    | .gate n gd a, h => by
      simp only [evalStmt, h n (by simp [gateNames])]
    | .loop c body, h => by
      simp only [evalStmt, evalStmt_congr_md ρ md1 md2 b body (by simpa [gateNames] using h)]
    | .block par sub it body, h => by
      simp only [evalStmt, evalStmts_congr_md ρ md1 md2 b body (by simpa [gateNames] using h)]
  theorem evalStmts_congr_md (ρ : Env) (md1 md2 : MacroDen) (b : Bind) : ∀ (l : List Stmt),
      (∀ g ∈ gateNamesList l, lookup md1 g = lookup md2 g) → evalStmts ρ md1 b l = evalStmts ρ md2 b l
    | [], _ => rfl
    | s :: r, h => by
      simp only [evalStmts, evalStmt_congr_md ρ md1 md2 b s (fun g hg => h g (by simp [gateNamesList, hg])),
        evalStmts_congr_md ρ md1 md2 b r (fun g hg => h g (by simp [gateNamesList, hg]))]
end

mutual
  theorem inScope_names (avail all : List String) : ∀ (s : Stmt), inScope avail all s = true →
      ∀ g ∈ gateNames s, g ∈ avail ∨ g ∉ all
    | .gate n _ _, h, g, hg => by
      simp only [gateNames, List.mem_singleton] at hg; subst hg
      simpa [inScope] using h
    | .loop _ b, h, g, hg => inScope_names avail all b (by simpa [inScope] using h) g (by simpa [gateNames] using hg)
    | .block _ _ _ body, h, g, hg => scopedList_names avail all body (by simpa [inScope] using h) g (by simpa [gateNames] using hg)
  theorem scopedList_names (avail all : List String) : ∀ (l : List Stmt), inScopeList avail all l = true →
      ∀ g ∈ gateNamesList l, g ∈ avail ∨ g ∉ all
    | [], _, g, hg => by simp [gateNamesList] at hg
    | s :: r, h, g, hg => by
      simp only [inScopeList, Bool.and_eq_true] at h
      simp only [gateNamesList, List.mem_append] at hg
      rcases hg with hg | hg
      · exact inScope_names avail all s h.1 g hg
      · exact scopedList_names avail all r h.2 g hg
end

theorem wfMacrosFrom_split (ms : List Macro) : ∀ (pre : List Macro) (acc : List String) (m : Macro) (post : List Macro),
    wfMacrosFrom ms acc (pre ++ m :: post) = true →
    wfStmt ms m.body = true ∧ inScope (acc ++ pre.map (·.name)) (ms.map (·.name)) m.body = true
  | [], acc, m, post, h => by
    simp only [List.nil_append, wfMacrosFrom, Bool.and_eq_true] at h
    simpa using h.1
  | x :: pre, acc, m, post, h => by
    simp only [List.cons_append, wfMacrosFrom, Bool.and_eq_true] at h
    have := wfMacrosFrom_split ms pre (acc ++ [x.name]) m post h.2
    simpa using this

/-- in a well-formed table the denotation of a macro found by name is the meaning of its body under the FULL table -/
theorem lookup_denote (ρ : Env) (ms : List Macro) (hwf : wfMacrosFrom ms [] ms = true) (n : String) (m : Macro)
    (h : findMacro ms n = some m) :
    wfStmt ms m.body = true ∧
    ∃ f, lookup (denoteMacros ρ ms) n = some (m.params.length, f) ∧
      ∀ args, f args = evalStmt ρ (denoteMacros ρ ms) (m.params.map (·.1) |>.zip args) m.body := by
  obtain ⟨hm, pre, post, hsplit, hpre⟩ := findMacro_some_split h
  have hw : wfMacrosFrom ms [] (pre ++ m :: post) = true := by rw [← hsplit]; exact hwf
  obtain ⟨hwb, hsc⟩ := wfMacrosFrom_split ms pre [] m post hw
  refine ⟨hwb, fun args => evalStmt ρ (pre.foldl (mstep ρ) []) (m.params.map (·.1) |>.zip args) m.body, ?_, ?_⟩
  · rw [denoteMacros_eq]
    conv => lhs; rw [hsplit]
    exact lookup_fold_hit ρ pre post m [] n rfl hpre hm
  · intro args
    apply evalStmt_congr_md
    intro g hg
    rw [denoteMacros_eq]
    conv => rhs; rw [hsplit, List.foldl_append]
    rcases inScope_names _ _ _ hsc g hg with hav | hnot
    · -- an earlier macro: found in the prefix, so found (the same entry) in the full table
      simp only [List.nil_append, List.mem_map] at hav
      obtain ⟨x, hx, hxn⟩ := hav
      cases hf : List.find? (fun y : Macro => y.name == g) pre with
      | none => exact absurd (List.find?_eq_none.mp hf x hx) (by simp [hxn])
      | some y =>
        obtain ⟨hy, p1, p2, hp, hp1⟩ := List.find?_eq_some_iff_append.mp hf
        have hit := lookup_fold_hit ρ p1 p2 y [] g rfl (fun z hz => by simpa using hp1 z hz) hy
        rw [← hp] at hit
        rw [hit]
        exact (lookup_fold_some ρ _ _ g _ hit).symm
    · -- not a macro at all
      have hall : ∀ x ∈ ms, (x.name == g) = false := by
        intro x hx
        have : x.name ≠ g := fun he => hnot (by rw [← he]; exact List.mem_map_of_mem hx)
        simpa using this
      have h1 : lookup (List.foldl (mstep ρ) [] pre) g = none :=
        lookup_fold_none ρ pre [] g rfl (fun x hx => hall x (by rw [hsplit]; simp [hx]))
      rw [h1]
      exact (lookup_fold_none ρ _ _ g h1 (fun x hx => hall x (by
        rw [hsplit]; simp only [List.mem_append, List.mem_cons] at hx ⊢; exact Or.inr hx))).symm

/-! ## The splice, on meanings -/

/-- the splice step of `visit_BlockStatement`, on meanings -/
def spliceSem (par : Bool) (new : Sem) (rest : List Sem) : List Sem :=
  match new with
  | .blk p false _ b => if p = par then b ++ rest else new :: rest
  | s => s :: rest

mutual
  /-- what the splices of the expansion do to the meaning tree -/
  def spl : Sem → Sem
    | .gate n a => .gate n a
    | .loop n b => .loop n (spl b)
    | .blk par sub it body => .blk par sub it (splList par body)
  def splList (par : Bool) : List Sem → List Sem
    | [] => []
    | x :: r => spliceSem par (spl x) (splList par r)
end

theorem normList_append (par : Bool) : ∀ (a b : List Sem), normList par (a ++ b) = normList par a ++ normList par b
  | [], b => by simp [normList]
  | .gate n x :: r, b => by simp [normList, normList_append par r b]
  | .loop n x :: r, b => by simp [normList, normList_append par r b]
  | .blk p true it body :: r, b => by simp [normList, normList_append par r b]
  | .blk p false it body :: r, b => by
    simp only [List.cons_append, normList, normList_append par r b]
    split <;> simp

mutual
  /-- normalisation absorbs the splices -/
  theorem norm_spl : ∀ (x : Sem), (spl x).norm = x.norm
    | .gate n a => by simp [spl]
    | .loop n b => by simp [spl, Sem.norm, norm_spl b]
    | .blk par sub it body => by simp [spl, Sem.norm, normList_splList par body]
  theorem normList_splList (par : Bool) : ∀ (l : List Sem), normList par (splList par l) = normList par l
    | [] => by simp [splList]
    | .gate n a :: r => by simp [splList, spl, spliceSem, normList, normList_splList par r]
    | .loop n b :: r => by simp [splList, spl, spliceSem, normList, Sem.norm, norm_spl b, normList_splList par r]
    | .blk p true it body :: r => by
      simp [splList, spl, spliceSem, normList, Sem.norm, normList_splList p body, normList_splList par r]
    | .blk p false it body :: r => by
      simp only [splList, spl, spliceSem, normList]
      by_cases hp : p = par
      · subst hp
        simp only [if_true, normList_append, normList_splList p body, normList_splList p r]
      · simp only [hp, if_false, normList, normList_splList p body, normList_splList par r]
end

theorem evalStmts_append (ρ : Env) (md : MacroDen) (b : Bind) : ∀ (l1 l2 : List Stmt) (x1 x2 : List Sem),
    evalStmts ρ md b l1 = .ok x1 → evalStmts ρ md b l2 = .ok x2 → evalStmts ρ md b (l1 ++ l2) = .ok (x1 ++ x2)
  | [], l2, x1, x2, h1, h2 => by
    simp only [evalStmts, pure, Except.pure, Except.ok.injEq] at h1; subst h1; simpa using h2
  | s :: r, l2, x1, x2, h1, h2 => by
    simp only [evalStmts, bind, Except.bind] at h1
    cases hs : evalStmt ρ md b s with
    | error e => rw [hs] at h1; cases h1
    | ok y =>
      rw [hs] at h1; simp only at h1
      cases hr : evalStmts ρ md b r with
      | error e => rw [hr] at h1; cases h1
      | ok ys =>
        rw [hr] at h1; simp only [pure, Except.pure, Except.ok.injEq] at h1; subst h1
        simp [evalStmts, hs, evalStmts_append ρ md b r l2 ys x2 hr h2, bind, Except.bind, pure, Except.pure]

/-- the meaning of a gate statement, given its evaluated arguments -/
def gateSem (md : MacroDen) (n : String) (vs : List SArg) : M Sem :=
  match lookup md n with
  | some (arity, f) => if vs.length = arity then f vs else .error (.jaqal "macro arity")
  | none => pure (.gate n vs)

theorem evalStmt_gate (ρ : Env) (md : MacroDen) (b : Bind) (n : String) (gd : GateDef) (a : List (String × Val)) :
    evalStmt ρ md b (.gate n gd a) = (evalArgs ρ b a >>= gateSem md n) := by
  simp only [evalStmt, mapM_eq_evalArgs, gateSem]
  rfl

theorem evalStmt_gate_inv {ρ : Env} {md : MacroDen} {b : Bind} {n : String} {gd : GateDef} {a : List (String × Val)} {y : Sem}
    (h : evalStmt ρ md b (.gate n gd a) = .ok y) : ∃ vs, evalArgs ρ b a = .ok vs ∧ gateSem md n vs = .ok y := by
  rw [evalStmt_gate] at h
  simp only [bind, Except.bind] at h
  cases hv : evalArgs ρ b a with
  | error e => rw [hv] at h; cases h
  | ok vs => rw [hv] at h; exact ⟨vs, rfl, h⟩

/-- evaluating a spliced list = splicing the meanings (for a statement that is no macro call) -/
theorem spliceEval (ρ : Env) (md : MacroDen) (b : Bind) (par : Bool) (s : Stmt) (rest : List Stmt) (x : Sem) (xs : List Sem)
    (hg : ∀ n gd a, s = .gate n gd a → lookup md n = none)
    (hs : evalStmt ρ md b s = .ok x) (hr : evalStmts ρ md b rest = .ok xs) :
    evalStmts ρ md b (spliceInto par s rest) = .ok (spliceSem par x xs) := by
  have hcons : evalStmts ρ md b (s :: rest) = .ok (x :: xs) := by
    simp [evalStmts, hs, hr, bind, Except.bind, pure, Except.pure]
  cases s with
  | gate n gd a =>
    obtain ⟨vs, _, h2⟩ := evalStmt_gate_inv hs
    simp only [gateSem, hg n gd a rfl, pure, Except.pure, Except.ok.injEq] at h2
    subst h2
    simpa [spliceInto, spliceSem] using hcons
  | loop c body =>
    simp only [evalStmt, bind, Except.bind] at hs
    cases hc : evalInt ρ b c with
    | error e => rw [hc] at hs; cases hs
    | ok k =>
      rw [hc] at hs; simp only at hs
      cases hb : evalStmt ρ md b body with
      | error e => rw [hb] at hs; cases hs
      | ok y =>
        rw [hb] at hs; simp only [pure, Except.pure, Except.ok.injEq] at hs; subst hs
        simpa [spliceInto, spliceSem] using hcons
  | block p sub it body =>
    simp only [evalStmt, bind, Except.bind] at hs
    cases hc : evalInt ρ b it with
    | error e => rw [hc] at hs; cases hs
    | ok k =>
      rw [hc] at hs; simp only at hs
      cases hb : evalStmts ρ md b body with
      | error e => rw [hb] at hs; cases hs
      | ok ys =>
        rw [hb] at hs; simp only [pure, Except.pure, Except.ok.injEq] at hs; subst hs
        cases sub with
        | true => simpa [spliceInto, spliceSem] using hcons
        | false =>
          by_cases hp : p = par
          · simp only [spliceInto, spliceSem, hp, if_true]
            exact evalStmts_append ρ md b body rest ys xs hb hr
          · simpa [spliceInto, spliceSem, hp] using hcons

/-! ## The main induction -/

section main
variable (ρ : Env) (ms : List Macro) (md' : MacroDen)

/-- what is needed of the function that handles a (rebuilt) gate statement -/
def CallOK (call : Stmt → M Stmt) : Prop :=
  ∀ (n : String) (gd : GateDef) (a : List (String × Val)) (bo : Bind) (y : Sem) (g' : Stmt),
    (∀ m, findMacro ms n = some m → a.map (·.1) = m.params.map (·.1)) →
    call (.gate n gd a) = .ok g' → evalStmt ρ (denoteMacros ρ ms) bo (.gate n gd a) = .ok y →
    evalStmt ρ md' bo g' = .ok (spl y) ∧ noCalls ms g' = true

variable (hmd' : ∀ n, findMacro ms n = none → lookup md' n = none)
include hmd'

theorem noCalls_gate_lookup {s : Stmt} (h : noCalls ms s = true) : ∀ n gd a, s = .gate n gd a → lookup md' n = none := by
  intro n gd a hs
  subst hs
  simp only [noCalls, isMacro, Bool.not_eq_true', Option.isSome_eq_false_iff, Option.isNone_iff_eq_none] at h
  exact hmd' n h

mutual
  /-- `GateReplacer`: expanding a statement of a macro body under the arguments of a call means the same as
  evaluating it under the bindings of the call -/
  theorem replStmt_sem (call : Stmt → M Stmt) (hcall : CallOK ρ ms md' call)
      (args : List (String × Val)) (bo : Bind) (vs : List SArg) (hvs : evalArgs ρ bo args = .ok vs) :
      ∀ (s s' : Stmt) (x : Sem), wfStmt ms s = true → replStmt call args s = .ok s' →
        evalStmt ρ (denoteMacros ρ ms) (bindOf args vs) s = .ok x →
        evalStmt ρ md' bo s' = .ok (spl x) ∧ noCalls ms s' = true
    | .gate n gd gargs, s', x, hwf, hr, he => by
      simp only [wfStmt, wfGate, Bool.and_eq_true, beq_iff_eq, decide_eq_true_eq, List.all_eq_true] at hwf
      obtain ⟨⟨⟨⟨hname, hnames⟩, hnd⟩, hok⟩, hmac⟩ := hwf
      simp only [replStmt, bind, Except.bind] at hr
      cases h1 : substArgs args gargs with
      | error e => rw [h1] at hr; cases hr
      | ok new =>
        rw [h1] at hr; simp only at hr
        cases h2 : GateDef.callKw gd new with
        | error e => rw [h2] at hr; cases hr
        | ok g =>
          rw [h2] at hr; simp only at hr
          obtain ⟨ws, hws, hgs⟩ := evalStmt_gate_inv he
          obtain ⟨hnew, hnn⟩ := subst_args hvs h1 hok hws
          have hg := callKw_ok h2 (by rw [hnn, hnames]) hnd
          subst hg
          apply hcall gd.name gd new bo x s' _ hr
          · rw [evalStmt_gate, hnew, ← hname]; exact hgs
          · intro m hm
            rw [← hname] at hm
            rw [hm] at hmac
            simp only [beq_iff_eq] at hmac
            rw [hnn, hnames, hmac]
    | .loop c body, s', x, hwf, hr, he => by
      simp only [wfStmt, Bool.and_eq_true] at hwf
      simp only [replStmt, bind, Except.bind] at hr
      cases h1 : substVal args c with
      | error e => rw [h1] at hr; cases hr
      | ok c' =>
        rw [h1] at hr; simp only at hr
        cases h2 : replStmt call args body with
        | error e => rw [h2] at hr; cases hr
        | ok b' =>
          rw [h2] at hr; simp only at hr
          have := (mkLoop_ok hr).1; subst this
          simp only [evalStmt, bind, Except.bind] at he
          cases h3 : evalInt ρ (bindOf args vs) c with
          | error e => rw [h3] at he; cases he
          | ok k =>
            rw [h3] at he; simp only at he
            cases h4 : evalStmt ρ (denoteMacros ρ ms) (bindOf args vs) body with
            | error e => rw [h4] at he; cases he
            | ok y =>
              rw [h4] at he; simp only [pure, Except.pure, Except.ok.injEq] at he; subst he
              have ih := replStmt_sem call hcall args bo vs hvs body b' y hwf.2 h2 h4
              simp [evalStmt, subst_int hvs h1 hwf.1 h3, ih.1, ih.2, spl, noCalls, bind, Except.bind, pure, Except.pure]
    | .block par sub it body, s', x, hwf, hr, he => by
      simp only [wfStmt, Bool.and_eq_true] at hwf
      simp only [replStmt, bind, Except.bind] at hr
      cases h1 : replList call args par body with
      | error e => rw [h1] at hr; cases hr
      | ok stmts =>
        rw [h1] at hr; simp only at hr
        cases h2 : substVal args it with
        | error e => rw [h2] at hr; cases hr
        | ok it' =>
          rw [h2] at hr; simp only at hr
          have := mkBlock_ok hr; subst this
          simp only [evalStmt, bind, Except.bind] at he
          cases h3 : evalInt ρ (bindOf args vs) it with
          | error e => rw [h3] at he; cases he
          | ok k =>
            rw [h3] at he; simp only at he
            cases h4 : evalStmts ρ (denoteMacros ρ ms) (bindOf args vs) body with
            | error e => rw [h4] at he; cases he
            | ok ys =>
              rw [h4] at he; simp only [pure, Except.pure, Except.ok.injEq] at he; subst he
              have ih := replList_sem call hcall args bo vs hvs par body stmts ys hwf.2 h1 h4
              simp [evalStmt, subst_int hvs h2 hwf.1 h3, ih.1, ih.2, spl, noCalls, bind, Except.bind, pure, Except.pure]
  theorem replList_sem (call : Stmt → M Stmt) (hcall : CallOK ρ ms md' call)
      (args : List (String × Val)) (bo : Bind) (vs : List SArg) (hvs : evalArgs ρ bo args = .ok vs) (par : Bool) :
      ∀ (l l' : List Stmt) (xs : List Sem), wfStmtList ms l = true → replList call args par l = .ok l' →
        evalStmts ρ (denoteMacros ρ ms) (bindOf args vs) l = .ok xs →
        evalStmts ρ md' bo l' = .ok (splList par xs) ∧ noCallsList ms l' = true
    | [], l', xs, _, hr, he => by
      simp only [replList, pure, Except.pure, Except.ok.injEq] at hr; subst hr
      simp only [evalStmts, pure, Except.pure, Except.ok.injEq] at he; subst he
      simp [evalStmts, splList, noCallsList, pure, Except.pure]
    | s :: r, l', xs, hwf, hr, he => by
      simp only [wfStmtList, Bool.and_eq_true] at hwf
      simp only [replList, bind, Except.bind] at hr
      cases h1 : replStmt call args s with
      | error e => rw [h1] at hr; cases hr
      | ok s' =>
        rw [h1] at hr; simp only at hr
        cases h2 : replList call args par r with
        | error e => rw [h2] at hr; cases hr
        | ok r' =>
          rw [h2] at hr; simp only [pure, Except.pure, Except.ok.injEq] at hr; subst hr
          simp only [evalStmts, bind, Except.bind] at he
          cases h3 : evalStmt ρ (denoteMacros ρ ms) (bindOf args vs) s with
          | error e => rw [h3] at he; cases he
          | ok y =>
            rw [h3] at he; simp only at he
            cases h4 : evalStmts ρ (denoteMacros ρ ms) (bindOf args vs) r with
            | error e => rw [h4] at he; cases he
            | ok ys =>
              rw [h4] at he; simp only [pure, Except.pure, Except.ok.injEq] at he; subst he
              have ih1 := replStmt_sem call hcall args bo vs hvs s s' y hwf.1 h1 h3
              have ih2 := replList_sem call hcall args bo vs hvs par r r' ys hwf.2 h2 h4
              refine ⟨?_, noCalls_spliceInto ms par s' r' ih1.2 ih2.2⟩
              simp only [splList]
              exact spliceEval ρ md' bo par s' r' (spl y) (splList par ys) (noCalls_gate_lookup ms md' hmd' ih1.2) ih1.1 ih2.1
end

/-- `replace_gate` with any fuel satisfies `CallOK` on a well-formed table -/
theorem replaceGate_callOK (hwf : wfMacrosFrom ms [] ms = true) : ∀ (fuel : Nat), CallOK ρ ms md' (replaceGate ms fuel) := by
  intro fuel
  induction fuel with
  | zero =>
    intro n gd a bo y g' hnames hr he
    simp only [replaceGate] at hr
    cases hf : findMacro ms n with
    | none =>
      rw [hf] at hr; simp only [pure, Except.pure, Except.ok.injEq] at hr; subst hr
      obtain ⟨vs, hvs, hgs⟩ := evalStmt_gate_inv he
      simp only [gateSem, findMacro_none_lookup ρ ms n hf, pure, Except.pure, Except.ok.injEq] at hgs; subst hgs
      refine ⟨?_, by simp [noCalls, isMacro, hf]⟩
      rw [evalStmt_gate, hvs]; simp [gateSem, hmd' n hf, spl, bind, Except.bind, pure, Except.pure]
    | some m =>
      rw [hf] at hr; simp only at hr
      split at hr <;> cases hr
  | succ f ih =>
    intro n gd a bo y g' hnames hr he
    simp only [replaceGate] at hr
    cases hf : findMacro ms n with
    | none =>
      rw [hf] at hr; simp only [pure, Except.pure, Except.ok.injEq] at hr; subst hr
      obtain ⟨vs, hvs, hgs⟩ := evalStmt_gate_inv he
      simp only [gateSem, findMacro_none_lookup ρ ms n hf, pure, Except.pure, Except.ok.injEq] at hgs; subst hgs
      refine ⟨?_, by simp [noCalls, isMacro, hf]⟩
      rw [evalStmt_gate, hvs]; simp [gateSem, hmd' n hf, spl, bind, Except.bind, pure, Except.pure]
    | some m =>
      rw [hf] at hr; simp only at hr
      split at hr
      · cases hr
      · obtain ⟨vs, hvs, hgs⟩ := evalStmt_gate_inv he
        obtain ⟨hwb, F, hl, hF⟩ := lookup_denote ρ ms hwf n m hf
        simp only [gateSem, hl] at hgs
        split at hgs
        · rw [hF vs, ← hnames m hf] at hgs
          exact replStmt_sem ρ ms md' hmd' (replaceGate ms f) ih a bo vs hvs m.body g' y hwb hr hgs
        · cases hgs

mutual
  /-- `MacroExpander`: the same for the statements outside the macros (nothing is substituted there) -/
  theorem expStmt_sem (call : Stmt → M Stmt) (hcall : CallOK ρ ms md' call) (b : Bind) :
      ∀ (s s' : Stmt) (x : Sem), wfStmt ms s = true → expStmt call s = .ok s' →
        evalStmt ρ (denoteMacros ρ ms) b s = .ok x →
        evalStmt ρ md' b s' = .ok (spl x) ∧ noCalls ms s' = true
    | .gate n gd gargs, s', x, hwf, hr, he => by
      simp only [wfStmt, wfGate, Bool.and_eq_true, beq_iff_eq, decide_eq_true_eq, List.all_eq_true] at hwf
      obtain ⟨⟨⟨⟨hname, hnames⟩, hnd⟩, hok⟩, hmac⟩ := hwf
      simp only [expStmt] at hr
      apply hcall n gd gargs b x s' _ hr he
      intro m hm
      rw [hm] at hmac
      simp only [beq_iff_eq] at hmac
      rw [hnames, hmac]
    | .loop c body, s', x, hwf, hr, he => by
      simp only [wfStmt, Bool.and_eq_true] at hwf
      simp only [expStmt, bind, Except.bind] at hr
      cases h2 : expStmt call body with
      | error e => rw [h2] at hr; cases hr
      | ok b' =>
        rw [h2] at hr; simp only at hr
        have := (mkLoop_ok hr).1; subst this
        simp only [evalStmt, bind, Except.bind] at he
        cases h3 : evalInt ρ b c with
        | error e => rw [h3] at he; cases he
        | ok k =>
          rw [h3] at he; simp only at he
          cases h4 : evalStmt ρ (denoteMacros ρ ms) b body with
          | error e => rw [h4] at he; cases he
          | ok y =>
            rw [h4] at he; simp only [pure, Except.pure, Except.ok.injEq] at he; subst he
            have ih := expStmt_sem call hcall b body b' y hwf.2 h2 h4
            simp [evalStmt, h3, ih.1, ih.2, spl, noCalls, bind, Except.bind, pure, Except.pure]
    | .block par sub it body, s', x, hwf, hr, he => by
      simp only [wfStmt, Bool.and_eq_true] at hwf
      simp only [expStmt, bind, Except.bind] at hr
      cases h1 : expList call par body with
      | error e => rw [h1] at hr; cases hr
      | ok stmts =>
        rw [h1] at hr; simp only at hr
        have := mkBlock_ok hr; subst this
        simp only [evalStmt, bind, Except.bind] at he
        cases h3 : evalInt ρ b it with
        | error e => rw [h3] at he; cases he
        | ok k =>
          rw [h3] at he; simp only at he
          cases h4 : evalStmts ρ (denoteMacros ρ ms) b body with
          | error e => rw [h4] at he; cases he
          | ok ys =>
            rw [h4] at he; simp only [pure, Except.pure, Except.ok.injEq] at he; subst he
            have ih := expList_sem call hcall b par body stmts ys hwf.2 h1 h4
            simp [evalStmt, h3, ih.1, ih.2, spl, noCalls, bind, Except.bind, pure, Except.pure]
  theorem expList_sem (call : Stmt → M Stmt) (hcall : CallOK ρ ms md' call) (b : Bind) (par : Bool) :
      ∀ (l l' : List Stmt) (xs : List Sem), wfStmtList ms l = true → expList call par l = .ok l' →
        evalStmts ρ (denoteMacros ρ ms) b l = .ok xs →
        evalStmts ρ md' b l' = .ok (splList par xs) ∧ noCallsList ms l' = true
    | [], l', xs, _, hr, he => by
      simp only [expList, pure, Except.pure, Except.ok.injEq] at hr; subst hr
      simp only [evalStmts, pure, Except.pure, Except.ok.injEq] at he; subst he
      simp [evalStmts, splList, noCallsList, pure, Except.pure]
    | s :: r, l', xs, hwf, hr, he => by
      simp only [wfStmtList, Bool.and_eq_true] at hwf
      simp only [expList, bind, Except.bind] at hr
      cases h1 : expStmt call s with
      | error e => rw [h1] at hr; cases hr
      | ok s' =>
        rw [h1] at hr; simp only at hr
        cases h2 : expList call par r with
        | error e => rw [h2] at hr; cases hr
        | ok r' =>
          rw [h2] at hr; simp only [pure, Except.pure, Except.ok.injEq] at hr; subst hr
          simp only [evalStmts, bind, Except.bind] at he
          cases h3 : evalStmt ρ (denoteMacros ρ ms) b s with
          | error e => rw [h3] at he; cases he
          | ok y =>
            rw [h3] at he; simp only at he
            cases h4 : evalStmts ρ (denoteMacros ρ ms) b r with
            | error e => rw [h4] at he; cases he
            | ok ys =>
              rw [h4] at he; simp only [pure, Except.pure, Except.ok.injEq] at he; subst he
              have ih1 := expStmt_sem call hcall b s s' y hwf.1 h1 h3
              have ih2 := expList_sem call hcall b par r r' ys hwf.2 h2 h4
              refine ⟨?_, noCalls_spliceInto ms par s' r' ih1.2 ih2.2⟩
              simp only [splList]
              exact spliceEval ρ md' b par s' r' (spl y) (splList par ys) (noCalls_gate_lookup ms md' hmd' ih1.2) ih1.1 ih2.1
end

end main

end Jaqal.ExpandMacros
