import JaqalProofs.Lemmas.WalkDisc
import JaqalProofs.Lemmas.WalkBracket
import JaqalProofs.Lemmas.WalkAddr
/-!
# Locating the loop behind a "measure_all -> prepare_all not supported in loops" rejection
-/
namespace Jaqal.Walk

theorem paddrs_append (l₁ l₂ : List Tok) : paddrs (l₁ ++ l₂) = paddrs l₁ ++ paddrs l₂ := by
  induction l₁ with
  | nil => rfl
  | cons t r ih =>
    cases t with
    | g k a => cases k <;> simp [paddrs, ih]
    | lopen n => simp [paddrs, ih]
    | lclose => simp [paddrs, ih]

theorem openAfter_mem : ∀ (toks : List Tok) (c : Option Addr) (s : Addr), openAfter toks c = some s →
    s ∈ c.toList ++ paddrs toks
  | [], c, s, h => by simp only [openAfter] at h; simp [h, paddrs]
  | .g .prep a :: r, c, s, h => by
    simp only [openAfter] at h
    have := openAfter_mem r (some a) s h
    simp only [Option.toList_some, List.singleton_append] at this
    simp only [paddrs, List.mem_append]; right; exact this
  | .g .meas a :: r, c, s, h => by
    simp only [openAfter] at h
    have := openAfter_mem r none s h
    simp only [paddrs, List.mem_append]; right; simpa using this
  | .g (.other _) a :: r, c, s, h => by simpa [openAfter, paddrs] using openAfter_mem r c s h
  | .lopen _ :: r, c, s, h => by simpa [openAfter, paddrs] using openAfter_mem r c s h
  | .lclose :: r, c, s, h => by simpa [openAfter, paddrs] using openAfter_mem r c s h

theorem pairs_starts_mem : ∀ (toks : List Tok) (c : Option Addr) (x : Addr × Addr), x ∈ pairsFrom toks c →
    x.1 ∈ c.toList ++ paddrs toks
  | [], c, x, h => by simp [pairsFrom] at h
  | .g .prep a :: r, c, x, h => by
    have := pairs_starts_mem r (some a) x (by simpa [pairsFrom] using h)
    simp only [Option.toList_some, List.singleton_append] at this
    simp only [paddrs, List.mem_append]; right; exact this
  | .g .meas a :: r, some s0, x, h => by
    simp only [pairsFrom, List.mem_cons] at h
    rcases h with h | h
    · subst h; simp
    · have := pairs_starts_mem r none x h
      simp only [paddrs, List.mem_append]; right; simpa using this
  | .g .meas a :: r, none, x, h => by
    have := pairs_starts_mem r none x (by simpa [pairsFrom] using h)
    simpa [paddrs] using this
  | .g (.other _) a :: r, c, x, h => by simpa [pairsFrom, paddrs] using pairs_starts_mem r c x (by simpa [pairsFrom] using h)
  | .lopen _ :: r, c, x, h => by simpa [pairsFrom, paddrs] using pairs_starts_mem r c x (by simpa [pairsFrom] using h)
  | .lclose :: r, c, x, h => by simpa [pairsFrom, paddrs] using pairs_starts_mem r c x (by simpa [pairsFrom] using h)

/-- the subcircuit left open is not among the closed ones (prepare_all addresses being distinct) -/
theorem open_not_closed : ∀ (toks : List Tok) (c : Option Addr) (s : Addr),
    (c.toList ++ paddrs toks).Nodup → openAfter toks c = some s → ∀ x ∈ pairsFrom toks c, x.1 ≠ s
  | [], c, s, _, _, x, hx => by simp [pairsFrom] at hx
  | .g .prep a :: r, c, s, hnd, h, x, hx => by
    simp only [openAfter] at h
    simp only [pairsFrom] at hx
    refine open_not_closed r (some a) s ?_ h x hx
    simp only [paddrs] at hnd
    exact (List.nodup_append.mp hnd).2.1
  | .g .meas a :: r, some s0, s, hnd, h, x, hx => by
    simp only [openAfter] at h
    simp only [paddrs, Option.toList_some, List.singleton_append] at hnd
    simp only [pairsFrom, List.mem_cons] at hx
    rcases hx with hx | hx
    · subst hx
      intro he; simp only at he; subst he
      have := openAfter_mem r none _ h
      simp only [Option.toList_none, List.nil_append] at this
      exact (List.nodup_cons.mp hnd).1 this
    · exact open_not_closed r none s (by simpa using (List.nodup_cons.mp hnd).2) h x hx
  | .g .meas a :: r, none, s, hnd, h, x, hx => by
    simp only [openAfter] at h
    simp only [pairsFrom] at hx
    exact open_not_closed r none s (by simpa [paddrs] using hnd) h x hx
  | .g (.other _) a :: r, c, s, hnd, h, x, hx => by
    simp only [openAfter] at h
    simp only [pairsFrom] at hx
    exact open_not_closed r c s (by simpa [paddrs] using hnd) h x hx
  | .lopen _ :: r, c, s, hnd, h, x, hx => by
    simp only [openAfter] at h
    simp only [pairsFrom] at hx
    exact open_not_closed r c s (by simpa [paddrs] using hnd) h x hx
  | .lclose :: r, c, s, hnd, h, x, hx => by
    simp only [openAfter] at h
    simp only [pairsFrom] at hx
    exact open_not_closed r c s (by simpa [paddrs] using hnd) h x hx

/-- where the loop check fired -/
def ErrLoc (toks : List Tok) (st : DState) (stack : List CFrame) : Prop :=
  ∃ pre n par b a post st' st'' s stack',
    toks = pre ++ flatStmt (.loop n par b) a ++ post ∧
    crun pre ⟨st.cur, st.subs, stack⟩ = .ok ⟨st'.cur, st'.subs, stack'⟩ ∧ n > 1 ∧
    st'.cur = some s ∧ discList b a 0 st' = .ok st'' ∧ s ∈ st''.subs.map (·.1)

theorem blockExit_err {e : Option Addr} {n : Int} {st : DState} {err : DiscErr} (h : blockExit e n st = .error err) :
    err = .measureToPrepareInLoop ∧ n > 1 ∧ ∃ s, e = some s ∧ s ∈ st.subs.map (·.1) := by
  cases e with
  | none => simp [blockExit] at h
  | some s =>
    simp only [blockExit] at h
    split at h
    · rename_i hc
      simp only [Bool.and_eq_true, decide_eq_true_eq, List.any_eq_true, beq_iff_eq] at hc
      obtain ⟨hn, p, hp, hps⟩ := hc
      cases h
      exact ⟨rfl, hn, s, rfl, List.mem_map.mpr ⟨p, hp, hps⟩⟩
    · cases h

mutual
  theorem errLoc_stmt : ∀ (s : Stmt) (a : Addr) (st : DState) (stack : List CFrame),
      discStmt s a st = .error .measureToPrepareInLoop → ErrLoc (flatStmt s a) st stack
    | .gate .prep, a, st, stack, h => by simp [discStmt] at h
    | .gate .meas, a, st, stack, h => by cases hc : st.cur <;> simp [discStmt, hc] at h
    | .gate (.other _), a, st, stack, h => by cases hc : st.cur <;> simp [discStmt, hc] at h
    | .block par b, a, st, stack, h => by
      simp only [discStmt] at h
      cases hl : discList b a 0 st with
      | error e =>
        simp only [hl, Except.error.injEq] at h; subst h
        simpa [flatStmt] using errLoc_list b a 0 st stack hl
      | ok st' => simp [hl, blockExit_one] at h
    | .loop n par b, a, st, stack, h => by
      simp only [discStmt] at h
      cases hl : discList b a 0 st with
      | error e =>
        simp only [hl, Except.error.injEq] at h; subst h
        obtain ⟨pre, n', par', b', a', post, st', st'', s, stack', h1, h2, h3, h4, h5, h6⟩ :=
          errLoc_list b a 0 st (⟨n, st.cur⟩ :: stack) hl
        refine ⟨.lopen n :: pre, n', par', b', a', post ++ [.lclose], st', st'', s, stack', ?_, ?_, h3, h4, h5, h6⟩
        · simp only [flatStmt] at h1 ⊢; rw [h1]; simp
        · simpa only [crun, cstep] using h2
      | ok st' =>
        simp only [hl] at h
        obtain ⟨_, hn, s, hs, hmem⟩ := blockExit_err h
        exact ⟨[], n, par, b, a, [], st, st', s, stack, by simp, rfl, hn, hs, hl, hmem⟩
  theorem errLoc_list : ∀ (l : List Stmt) (a : Addr) (i : Nat) (st : DState) (stack : List CFrame),
      discList l a i st = .error .measureToPrepareInLoop → ErrLoc (flatList l a i) st stack
    | [], a, i, st, stack, h => by simp [discList] at h
    | s :: l, a, i, st, stack, h => by
      simp only [discList] at h
      cases hs : discStmt s (a ++ [i]) st with
      | error e =>
        simp only [hs, Except.error.injEq] at h; subst h
        obtain ⟨pre, n', par', b', a', post, st', st'', s', stack', h1, h2, h3, h4, h5, h6⟩ :=
          errLoc_stmt s (a ++ [i]) st stack hs
        exact ⟨pre, n', par', b', a', post ++ flatList l a (i + 1), st', st'', s', stack', by simp [flatList, h1], h2, h3, h4, h5, h6⟩
      | ok st1 =>
        simp only [hs] at h
        obtain ⟨pre, n', par', b', a', post, st', st'', s', stack', h1, h2, h3, h4, h5, h6⟩ :=
          errLoc_list l a (i + 1) st1 stack h
        refine ⟨flatStmt s (a ++ [i]) ++ pre, n', par', b', a', post, st', st'', s', stack', by simp [flatList, h1], ?_, h3, h4, h5, h6⟩
        rw [crun_append, disc_flat_stmt, hs]
        simpa [liftD] using h2
end

end Jaqal.Walk
