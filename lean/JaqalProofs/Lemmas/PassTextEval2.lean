import JaqalProofs.Lemmas.PassTextSubs
/-!
# Kernel evaluations for `Props/C10Text.lean`, second counterexample (split off to keep each file fast)

`subcircuit { g }` with the injected gate set `{g()}`: accepted, `expand_subcircuits` succeeds (`_choose_bounding_gate`
makes fresh definitions `prepare_all`, `measure_all` that are in no gate set), the result is `IntsBounded`; the tree of the
result's text is refused under the same configuration (the real code: `No gate prepare_all defined`) and accepted without a
gate set.
-/
set_option linter.unusedVariables false
namespace Jaqal.PassText
open Jaqal Jaqal.Builder Jaqal.Pipeline Jaqal.RoundTrip Jaqal.Passes

/-- `inject_pulses = {"g": GateDefinition("g", [])}` -/
def cxNatives : Config := { natives := some [{ name := "g", tag := .native, params := [], hasUnitary := false }] }

/-- `subcircuit { g }` -/
def cxText2 : String := "subcircuit{g}\n"

theorem cxText2_refused :
    (match parseProgram cxNatives cxText2 with
     | .ok c =>
       (match apply .subs c with
        | .ok c' => (match parseBuild cxNatives (unbuild c') with | .error _ => true | .ok _ => false)
        | .error _ => false)
     | .error _ => false) = true := by decide +kernel

theorem cxText2_bounded :
    (match parseProgram cxNatives cxText2 with
     | .ok c =>
       (match apply .subs c with
        | .ok c' => decide (IntsBounded c')
        | .error _ => false)
     | .error _ => false) = true := by decide +kernel

theorem cxText2_plain :
    (match parseProgram cxNatives cxText2 with
     | .ok c =>
       (match apply .subs c with
        | .ok c' => (parseBuild {} (unbuild c')).toOption.isSome
        | .error _ => false)
     | .error _ => false) = true := by decide +kernel

end Jaqal.PassText
