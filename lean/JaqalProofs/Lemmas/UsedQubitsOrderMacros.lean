import JaqalProofs.Lemmas.UsedQubitsOrder
/-!
Branch-order independence through macro calls (C13): permuting the branches of parallel blocks INSIDE macro bodies.

`MacrosPerm ms ms'`: the same macros (names, parameters) whose bodies are related by `PermPar`. The used-qubit walk
expands a call into the callee's body, so `Acts`, `Conflict`, `Repeat` and the success of the analysis are shown invariant
under replacing the macro table by a `MacrosPerm`-related one.
-/
namespace Jaqal.UsedQubits
open Jaqal.Resolve

/-- the same macros, with the branches of parallel blocks of their bodies permuted -/
inductive MacrosPerm : List Macro → List Macro → Prop
  | nil : MacrosPerm [] []
  | cons {m m' : Macro} {r r' : List Macro} : (m.name = m'.name ∧ m.params = m'.params ∧ PermPar m.body m'.body) →
      MacrosPerm r r' → MacrosPerm (m :: r) (m' :: r')

theorem permPar_symm {s s' : Stmt} (h : PermPar s s') : PermPar s' s := by
  induction h with
  | refl s => exact .refl s
  | here hp => exact .here hp.symm
  | inBlock _ ih => exact .inBlock ih
  | inLoop _ ih => exact .inLoop ih
  | trans _ _ ih1 ih2 => exact .trans ih2 ih1

theorem MacrosPerm.symm {ms ms' : List Macro} (h : MacrosPerm ms ms') : MacrosPerm ms' ms := by
  induction h with
  | nil => exact .nil
  | cons hm _ ih => exact .cons ⟨hm.1.symm, hm.2.1.symm, permPar_symm hm.2.2⟩ ih

theorem MacrosPerm.refl (ms : List Macro) : MacrosPerm ms ms := by
  induction ms with
  | nil => exact .nil
  | cons m r ih => exact .cons ⟨rfl, rfl, .refl _⟩ ih

theorem MacrosPerm.find {ms ms' : List Macro} (h : MacrosPerm ms ms') (n : String) :
    (ms.find? (fun m => m.name == n) = none ∧ ms'.find? (fun m => m.name == n) = none) ∨
    ∃ m m', ms.find? (fun m => m.name == n) = some m ∧ ms'.find? (fun m => m.name == n) = some m' ∧
      PermPar m.body m'.body := by
  induction h with
  | nil => left; simp
  | @cons m m' r r' hm _ ih =>
    by_cases e : (m.name == n) = true
    · right
      have e' : (m'.name == n) = true := by rw [← hm.1]; exact e
      exact ⟨m, m', by simp [List.find?, e], by simp [List.find?, e'], hm.2.2⟩
    · have e' : ¬ (m'.name == n) = true := by rw [← hm.1]; exact e
      simpa [List.find?, e, e'] using ih

variable (allQ : Used)

theorem acts_macros {ms ms' : List Macro} (h : MacrosPerm ms ms') {ctx : Ctx} {s : Stmt} {r : String} {i : Int}
    (ha : Acts allQ ms ctx s r i) : Acts allQ ms' ctx s r i := by
  induction ha with
  | native h1 h2 h3 h4 h5 => exact Acts.native h1 h2 h3 h4 h5
  | busy h1 h2 => exact Acts.busy h1 h2
  | @call ctx name gd args m bs r i h1 h2 h3 _ ih =>
    rcases h.find name with ⟨hn, _⟩ | ⟨m0, m', hm0, hm', hp⟩
    · rw [hn] at h2; cases h2
    · rw [hm0] at h2; cases h2
      exact Acts.call h1 hm' h3 ((acts_perm allQ ms' hp _ r i).1 ih)
  | block hs _ ih => exact Acts.block hs ih
  | loop _ ih => exact Acts.loop ih

theorem acts_macros_iff {ms ms' : List Macro} (h : MacrosPerm ms ms') (ctx : Ctx) (s : Stmt) (r : String) (i : Int) :
    Acts allQ ms ctx s r i ↔ Acts allQ ms' ctx s r i :=
  ⟨acts_macros allQ h, acts_macros allQ h.symm⟩

theorem conflict_macros {ms ms' : List Macro} (h : MacrosPerm ms ms') {ctx : Ctx} {s : Stmt}
    (hc : Conflict allQ ms ctx s) : Conflict allQ ms' ctx s := by
  induction hc with
  | here hjk h1 h2 a1 a2 => exact Conflict.here hjk h1 h2 (acts_macros allQ h a1) (acts_macros allQ h a2)
  | block hs _ ih => exact Conflict.block hs ih
  | loop _ ih => exact Conflict.loop ih
  | @call ctx name gd args m bs h1 h2 h3 _ ih =>
    rcases h.find name with ⟨hn, _⟩ | ⟨m0, m', hm0, hm', hp⟩
    · rw [hn] at h2; cases h2
    · rw [hm0] at h2; cases h2
      exact Conflict.call h1 hm' h3 ((conflict_perm allQ ms' hp _).1 ih)

theorem repeat_macros {ms ms' : List Macro} (h : MacrosPerm ms ms') {ctx : Ctx} {s : Stmt}
    (hc : Repeat allQ ms ctx s) : Repeat allQ ms' ctx s := by
  induction hc with
  | here ht hjk h1 h2 l1 l2 v1 v2 m1 m2 => exact Repeat.here ht hjk h1 h2 l1 l2 v1 v2 m1 m2
  | block hs _ ih => exact Repeat.block hs ih
  | loop _ ih => exact Repeat.loop ih
  | @call ctx name gd args m bs h1 h2 h3 _ ih =>
    rcases h.find name with ⟨hn, _⟩ | ⟨m0, m', hm0, hm', hp⟩
    · rw [hn] at h2; cases h2
    · rw [hm0] at h2; cases h2
      exact Repeat.call h1 hm' h3 ((repeat_perm allQ ms' hp _).1 ih)

/-- the plain analysis succeeds with the permuted macro table if it does with the original one -/
theorem ok_macros {ms ms' : List Macro} (h : MacrosPerm ms ms') :
    ∀ f ctx s, (∃ u, usedStmtF false allQ ms f ctx s = .ok u) → ∃ u', usedStmtF false allQ ms' f ctx s = .ok u' := by
  intro f
  induction f with
  | zero => intro ctx s ⟨u, hu⟩; simp [usedStmtF] at hu
  | succ f ih =>
    intro ctx s ⟨u, hu⟩
    cases s with
    | gate name gd args =>
      simp only [usedStmtF] at hu ⊢
      split at hu
      · rcases h.find name with ⟨hn, _⟩ | ⟨m0, m', hm0, hm', hp⟩
        · simp only [hn] at hu; cases hu
        · simp only [hm0, hm'] at hu ⊢
          simp only [bind, Except.bind] at hu ⊢
          split at hu
          · cases hu
          · exact ok_perm allQ ms' hp f _ (ih _ _ ⟨u, hu⟩)
      · exact ⟨u, hu⟩
      · exact ⟨u, hu⟩
      · exact ⟨u, hu⟩
    | block par sub it body =>
      simp only [usedStmtF, Bool.false_and] at hu ⊢
      rw [foldBlock_ok_iff]
      intro s hs
      exact ih ctx s (foldBlock_all_ok _ _ _ _ _ hu s hs)
    | loop c body =>
      simp only [usedStmtF] at hu ⊢
      exact ih ctx body ⟨u, hu⟩

theorem macros_depth_sum {ms ms' : List Macro} (h : MacrosPerm ms ms') :
    (ms.map (fun m => stmtDepth m.body + 1)).sum = (ms'.map (fun m => stmtDepth m.body + 1)).sum := by
  induction h with
  | nil => rfl
  | cons hm _ ih => simp only [List.map_cons, List.sum_cons, ih, stmtDepth_perm hm.2.2]

end Jaqal.UsedQubits
