import JaqalModel.Model.OutputList
/-!
# Lemmas about `OutputList.consume` and the stage structure of `OutputList.parseOutputs`

* `Prepared` / `prepare` / `finish`: `parseOutputs c outs = prepare c >>= (finish · outs)` — everything before `consume` is
  independent of the outputs (`parseOutputs_eq`), and what a successful `prepare` means stage by stage (`prepare_ok`);
* `consume_cons_ok`: one `process_trace`;
* `consume_visits`, `consume_indices`, `consume_values`, `consume_length`: the readouts of a successful run;
* `consume_take`: outputs after the last visit are never looked at;
* `consume_prefix_short`: a proper prefix of an accepted list that is shorter than the visits is refused with `JaqalError`;
* `consume_congr`: only `HwOut.value` of an entry matters;
* `consume_tables`: lengths, cells and totals of the tables; `consume_in_range`: accepted values index the tables.
-/
namespace Jaqal.OutputList
open Jaqal Jaqal.Builder

/-! ### Stages -/

/-- what `parse_jaqal_output_list` has computed when `w.visit(circuit)` starts -/
structure Prepared where
  /-- `len(traces)` -/
  sections : Nat
  /-- `len(subcircuit.measured_qubits)` -/
  qubits : Nat
  /-- the tables of `w.subcircuits` -/
  tables : List (List Nat)
  /-- the subcircuit index of every visit of the walk, in order -/
  visits : List Nat
  deriving Repr, DecidableEq

/-- everything after the three passes and before the outputs are looked at -/
def prepareExpanded (x : Circuit) : M Prepared := do
  let (body, _) ← RunModel.skeleton x
  RunModel.tooLarge x.registers
  let n ← measuredQubits x.registers
  let traces ← match Walk.discover body with
    | .ok t => pure t
    | .error e => throw (RunModel.ofDiscErr e)
  UsedQubits.checkDisjoint x
  let tbls ← allocTables n traces.length
  let starts := traces.map (·.1)
  match Walk.visit (Walk.fuelBound starts body) starts body with
  | .ok visits => pure { sections := traces.length, qubits := n, tables := tbls, visits := visits }
  | .error e => throw (RunModel.ofVErr e)

def prepare (c : Circuit) : M Prepared := do
  let x ← RunModel.expandAll [] c
  prepareExpanded x

/-- `process_trace` at every visit, and the result object -/
def finish (p : Prepared) (outs : List HwOut) : M OutputSummary := do
  let (rs, tb) ← consume p.visits outs 0 p.tables
  pure { subcircuits := p.sections, readouts := rs, tables := tb }

theorem parseExpanded_eq (x : Circuit) (outs : List HwOut) :
    parseExpanded x outs = (prepareExpanded x).bind (fun p => finish p outs) := by
  unfold parseExpanded prepareExpanded finish
  cases RunModel.skeleton x with
  | error e => rfl
  | ok bt =>
    obtain ⟨body, tbl⟩ := bt
    simp only [bind, Except.bind]
    cases RunModel.tooLarge x.registers with
    | error e => rfl
    | ok u =>
      simp only []
      cases measuredQubits x.registers with
      | error e => rfl
      | ok n =>
        simp only []
        cases Walk.discover body with
        | error e => rfl
        | ok traces =>
          simp only [pure, Except.pure]
          cases UsedQubits.checkDisjoint x with
          | error e => rfl
          | ok u =>
            simp only []
            cases allocTables n traces.length with
            | error e => rfl
            | ok tbls =>
              simp only []
              cases Walk.visit (Walk.fuelBound (traces.map (·.1)) body) (traces.map (·.1)) body with
              | error e => rfl
              | ok visits => rfl

theorem parseOutputs_eq (c : Circuit) (outs : List HwOut) :
    parseOutputs c outs = (prepare c).bind (fun p => finish p outs) := by
  unfold parseOutputs prepare
  cases RunModel.expandAll [] c with
  | error e => rfl
  | ok x =>
    simp only [bind, Except.bind]
    exact parseExpanded_eq x outs

/-- the stages a successful `prepareExpanded` went through -/
theorem prepareExpanded_ok {x : Circuit} {p : Prepared} (h : prepareExpanded x = .ok p) :
    ∃ body tbl traces, RunModel.skeleton x = .ok (body, tbl) ∧ RunModel.tooLarge x.registers = .ok () ∧
      measuredQubits x.registers = .ok p.qubits ∧ Walk.discover body = .ok traces ∧
      UsedQubits.checkDisjoint x = .ok () ∧ allocTables p.qubits traces.length = .ok p.tables ∧
      Walk.visit (Walk.fuelBound (traces.map (·.1)) body) (traces.map (·.1)) body = .ok p.visits ∧
      p.sections = traces.length := by
  unfold prepareExpanded at h
  cases hs : RunModel.skeleton x with
  | error e => simp [hs, bind, Except.bind] at h
  | ok bt =>
    obtain ⟨body, tbl⟩ := bt
    simp only [hs, bind, Except.bind] at h
    cases hl : RunModel.tooLarge x.registers with
    | error e => simp [hl] at h
    | ok u =>
      cases u
      simp only [hl] at h
      cases hn : measuredQubits x.registers with
      | error e => simp [hn] at h
      | ok n =>
        simp only [hn] at h
        cases hd : Walk.discover body with
        | error e => simp [hd, throw, throwThe, MonadExceptOf.throw] at h
        | ok traces =>
          simp only [hd, pure, Except.pure] at h
          cases hc : UsedQubits.checkDisjoint x with
          | error e => simp [hc] at h
          | ok u =>
            cases u
            simp only [hc] at h
            cases ha : allocTables n traces.length with
            | error e => simp [ha] at h
            | ok tbls =>
              simp only [ha] at h
              cases hv : Walk.visit (Walk.fuelBound (traces.map (·.1)) body) (traces.map (·.1)) body with
              | error e => simp [hv, throw, throwThe, MonadExceptOf.throw] at h
              | ok visits =>
                simp only [hv, Except.ok.injEq] at h
                subst h
                exact ⟨body, tbl, traces, rfl, rfl, rfl, hd, rfl, ha, hv, rfl⟩

theorem prepare_ok {c : Circuit} {p : Prepared} (h : prepare c = .ok p) :
    ∃ x, RunModel.expandAll [] c = .ok x ∧ prepareExpanded x = .ok p := by
  unfold prepare at h
  cases hx : RunModel.expandAll [] c with
  | error e => simp [hx, bind, Except.bind] at h
  | ok x => exact ⟨x, rfl, by simpa [hx, bind, Except.bind] using h⟩

/-- a result of `parseOutputs` comes from a successful `prepare` and a successful `consume` -/
theorem parseOutputs_ok {c : Circuit} {outs : List HwOut} {s : OutputSummary} (h : parseOutputs c outs = .ok s) :
    ∃ p, prepare c = .ok p ∧ consume p.visits outs 0 p.tables = .ok (s.readouts, s.tables) ∧ s.subcircuits = p.sections := by
  rw [parseOutputs_eq] at h
  cases hp : prepare c with
  | error e => simp [hp, Except.bind] at h
  | ok p =>
    simp only [hp, Except.bind, finish, bind] at h
    cases hc : consume p.visits outs 0 p.tables with
    | error e => simp [hc] at h
    | ok r =>
      obtain ⟨rs, tb⟩ := r
      simp only [hc, pure, Except.pure, Except.ok.injEq] at h
      subst h
      exact ⟨p, rfl, hc, rfl⟩

/-- the tables `OutputParser.__init__` builds all have `2 ^ n` entries, one table per trace -/
theorem allocTables_ok {n k : Nat} {tbls : List (List Nat)} (h : allocTables n k = .ok tbls) :
    tbls = List.replicate k (List.replicate (2 ^ n) 0) := by
  unfold allocTables at h
  split at h
  · next hk => subst hk; simpa [pure, Except.pure] using h.symm
  · split at h
    · simp [throw, throwThe, MonadExceptOf.throw] at h
    · simpa [pure, Except.pure] using h.symm

/-! ### One `process_trace` -/

theorem consume_nil (outs : List HwOut) (i : Nat) (tbls : List (List Nat)) : consume [] outs i tbls = .ok ([], tbls) := rfl

theorem consume_cons_ok {sc : Nat} {vs : List Nat} {outs : List HwOut} {i : Nat} {tbls : List (List Nat)}
    {rs : List (Nat × Nat × Int)} {tb : List (List Nat)} (h : consume (sc :: vs) outs i tbls = .ok (rs, tb)) :
    ∃ t o os v t' rs', tbls[sc]? = some t ∧ outs = o :: os ∧ o.value = .ok v ∧ accept t v = .ok t' ∧
      consume vs os (i + 1) (tbls.set sc t') = .ok (rs', tb) ∧ rs = (i, sc, v) :: rs' := by
  unfold consume at h
  cases ht : tbls[sc]? with
  | none => simp [ht, throw, throwThe, MonadExceptOf.throw] at h
  | some t =>
    simp only [ht] at h
    cases outs with
    | nil => simp [throw, throwThe, MonadExceptOf.throw] at h
    | cons o os =>
      simp only [bind, Except.bind] at h
      cases hv : o.value with
      | error e => simp [hv] at h
      | ok v =>
        simp only [hv] at h
        cases ha : accept t v with
        | error e => simp [ha] at h
        | ok t' =>
          simp only [ha] at h
          cases hr : consume vs os (i + 1) (tbls.set sc t') with
          | error e => simp [hr] at h
          | ok r =>
            obtain ⟨rs', tb'⟩ := r
            simp only [hr, pure, Except.pure, Except.ok.injEq, Prod.mk.injEq] at h
            obtain ⟨h1, h2⟩ := h
            subst h1 h2
            exact ⟨t, o, os, v, t', rs', rfl, rfl, hv, ha, hr, rfl⟩

/-- the converse: the equations of one step give the result -/
theorem consume_cons_of {sc : Nat} {vs : List Nat} {o : HwOut} {os : List HwOut} {i : Nat} {tbls : List (List Nat)}
    {t t' : List Nat} {v : Int} (ht : tbls[sc]? = some t) (hv : o.value = .ok v) (ha : accept t v = .ok t') :
    consume (sc :: vs) (o :: os) i tbls =
      (consume vs os (i + 1) (tbls.set sc t')).bind (fun r => .ok ((i, sc, v) :: r.1, r.2)) := by
  rw [consume]
  simp only [ht, bind, Except.bind, hv, ha]
  cases consume vs os (i + 1) (tbls.set sc t') with
  | error e => rfl
  | ok r => rfl

/-! ### The readouts -/

theorem consume_visits : ∀ (vs : List Nat) (outs : List HwOut) (i : Nat) (tbls : List (List Nat))
    (rs : List (Nat × Nat × Int)) (tb : List (List Nat)), consume vs outs i tbls = .ok (rs, tb) →
    rs.map (·.2.1) = vs ∧ rs.map (·.1) = List.range' i vs.length ∧ rs.length = vs.length ∧ vs.length ≤ outs.length
  | [], outs, i, tbls, rs, tb, h => by
    simp only [consume_nil, Except.ok.injEq, Prod.mk.injEq] at h
    obtain ⟨h1, _⟩ := h
    subst h1
    simp
  | sc :: vs, outs, i, tbls, rs, tb, h => by
    obtain ⟨t, o, os, v, t', rs', _, ho, _, _, hr, hrs⟩ := consume_cons_ok h
    obtain ⟨h1, h2, h3, h4⟩ := consume_visits vs os (i + 1) _ rs' tb hr
    subst ho hrs
    simp [h1, h2, h3, List.range'_succ]
    omega

/-- the value of the `j`-th readout is the value of the `j`-th output -/
theorem consume_values : ∀ (vs : List Nat) (outs : List HwOut) (i : Nat) (tbls : List (List Nat))
    (rs : List (Nat × Nat × Int)) (tb : List (List Nat)), consume vs outs i tbls = .ok (rs, tb) →
    ∀ j, j < vs.length → ∃ o r, outs[j]? = some o ∧ rs[j]? = some r ∧ o.value = .ok r.2.2
  | [], _, _, _, _, _, _ => by intro j hj; simp at hj
  | sc :: vs, outs, i, tbls, rs, tb, h => by
    obtain ⟨t, o, os, v, t', rs', _, ho, hv, _, hr, hrs⟩ := consume_cons_ok h
    subst ho hrs
    intro j hj
    cases j with
    | zero => exact ⟨o, (i, sc, v), rfl, rfl, hv⟩
    | succ j =>
      have := consume_values vs os (i + 1) _ rs' tb hr j (by simpa using hj)
      simpa using this

/-! ### Extra outputs, missing outputs, the two forms of an output -/

theorem consume_take : ∀ (vs : List Nat) (outs : List HwOut) (i : Nat) (tbls : List (List Nat)),
    consume vs (outs.take vs.length) i tbls = consume vs outs i tbls
  | [], outs, i, tbls => by simp [consume_nil]
  | sc :: vs, outs, i, tbls => by
    cases outs with
    | nil => simp
    | cons o os =>
      simp only [List.length_cons, List.take_succ_cons]
      rw [consume, consume]
      cases tbls[sc]? with
      | none => rfl
      | some t =>
        simp only [bind, Except.bind]
        cases o.value with
        | error e => rfl
        | ok v =>
          simp only []
          cases accept t v with
          | error e => rfl
          | ok t' =>
            simp only []
            rw [consume_take vs os (i + 1) (tbls.set sc t')]

theorem consume_append_extra (vs : List Nat) (outs extra : List HwOut) (i : Nat) (tbls : List (List Nat))
    (hl : vs.length ≤ outs.length) : consume vs (outs ++ extra) i tbls = consume vs outs i tbls := by
  rw [← consume_take vs (outs ++ extra), ← consume_take vs outs, List.take_append_of_le_length hl]

/-- an accepted list cut short before the last visit: `JaqalError("Not enough outputs…")` -/
theorem consume_prefix_short : ∀ (vs : List Nat) (outs rest : List HwOut) (i : Nat) (tbls : List (List Nat))
    (r : List (Nat × Nat × Int) × List (List Nat)), consume vs (outs ++ rest) i tbls = .ok r → outs.length < vs.length →
    consume vs outs i tbls = .error (.jaqal "not-enough-outputs")
  | [], _, _, _, _, _, _, hl => by simp at hl
  | sc :: vs, outs, rest, i, tbls, (rs, tb), h, hl => by
    obtain ⟨t, o, os, v, t', rs', ht, ho, hv, ha, hr, _⟩ := consume_cons_ok h
    cases outs with
    | nil =>
      rw [consume]
      simp only [ht]
      rfl
    | cons o1 outs1 =>
      simp only [List.cons_append, List.cons.injEq] at ho
      obtain ⟨h1, h2⟩ := ho
      subst h1 h2
      rw [consume_cons_of ht hv ha, consume_prefix_short vs outs1 rest (i + 1) _ _ hr (by simpa using hl)]
      rfl

/-- only the integer an entry stands for (or the way it fails to stand for one) matters -/
theorem consume_congr : ∀ (vs : List Nat) (outs outs' : List HwOut) (i : Nat) (tbls : List (List Nat)),
    outs.map HwOut.value = outs'.map HwOut.value → consume vs outs i tbls = consume vs outs' i tbls
  | [], _, _, _, _, _ => by simp [consume_nil]
  | sc :: vs, outs, outs', i, tbls, h => by
    cases outs with
    | nil =>
      cases outs' with
      | nil => rfl
      | cons _ _ => simp at h
    | cons o os =>
      cases outs' with
      | nil => simp at h
      | cons o' os' =>
        simp only [List.map_cons, List.cons.injEq] at h
        obtain ⟨h1, h2⟩ := h
        rw [consume, consume]
        cases tbls[sc]? with
        | none => rfl
        | some t =>
          simp only [bind, Except.bind, h1]
          cases o'.value with
          | error e => rfl
          | ok v =>
            simp only []
            cases accept t v with
            | error e => rfl
            | ok t' =>
              simp only []
              rw [consume_congr vs os os' (i + 1) (tbls.set sc t') h2]

/-! ### The tables -/

theorem bump_spec : ∀ (t : List Nat) (i : Nat) (t' : List Nat), Result.bump t i = some t' →
    i < t.length ∧ t'.length = t.length ∧ t'.sum = t.sum + 1 ∧
    ∀ x, t'[x]? = if x = i then (t[x]?).map (· + 1) else t[x]?
  | [], _, _, h => by simp [Result.bump] at h
  | a :: t, 0, t', h => by
    simp only [Result.bump, Option.some.injEq] at h
    subst h
    refine ⟨by simp, by simp, by simp; omega, ?_⟩
    intro x
    cases x <;> simp
  | a :: t, i + 1, t', h => by
    simp only [Result.bump, Option.map_eq_some_iff] at h
    obtain ⟨t1, h1, h2⟩ := h
    subst h2
    obtain ⟨g1, g2, g3, g4⟩ := bump_spec t i t1 h1
    refine ⟨by simp; omega, by simp [g2], by simp [g3]; omega, ?_⟩
    intro x
    cases x with
    | zero => simp
    | succ x => simpa using g4 x

/-- the position `accept` increments -/
theorem accept_spec {t t' : List Nat} {v : Int} (h : accept t v = .ok t') :
    ∃ i, normIndex t.length v = .ok i ∧ i < t.length ∧ t'.length = t.length ∧ t'.sum = t.sum + 1 ∧
      ∀ x, t'[x]? = if x = i then (t[x]?).map (· + 1) else t[x]? := by
  unfold accept at h
  cases hn : normIndex t.length v with
  | error e => simp [hn, bind, Except.bind] at h
  | ok i =>
    simp only [hn, bind, Except.bind] at h
    cases hb : Result.bump t i with
    | none => simp [hb, throw, throwThe, MonadExceptOf.throw] at h
    | some t1 =>
      simp only [hb, pure, Except.pure, Except.ok.injEq] at h
      subst h
      obtain ⟨g1, g2, g3, g4⟩ := bump_spec t i t1 hb
      exact ⟨i, rfl, g1, g2, g3, g4⟩

/-- the position of a table of length `L` that `table[k] += 1` increments, if any -/
def position (L : Nat) (k : Int) : Option Nat :=
  match normIndex L k with
  | .ok i => some i
  | .error _ => none

/-- the number of readouts of subcircuit `j` that numpy counts at position `x` of a table of length `L` -/
def hits (L j x : Nat) (rs : List (Nat × Nat × Int)) : Nat :=
  rs.countP (fun r => r.2.1 == j && (position L r.2.2 == some x))

/-- `tbls[j][x]` -/
def cell (tbls : List (List Nat)) (j x : Nat) : Option Nat := (tbls[j]?).bind (·[x]?)

/-- total of table `j` -/
def total (tbls : List (List Nat)) (j : Nat) : Option Nat := (tbls[j]?).map List.sum

theorem consume_tables (L : Nat) : ∀ (vs : List Nat) (outs : List HwOut) (i : Nat) (tbls : List (List Nat))
    (rs : List (Nat × Nat × Int)) (tb : List (List Nat)), consume vs outs i tbls = .ok (rs, tb) →
    (∀ t ∈ tbls, t.length = L) →
    tb.length = tbls.length ∧ (∀ t ∈ tb, t.length = L) ∧
    (∀ j x, cell tb j x = (cell tbls j x).map (· + hits L j x rs)) ∧
    (∀ j, total tb j = (total tbls j).map (· + vs.count j))
  | [], outs, i, tbls, rs, tb, h, hL => by
    simp only [consume_nil, Except.ok.injEq, Prod.mk.injEq] at h
    obtain ⟨h1, h2⟩ := h
    subst h1 h2
    refine ⟨rfl, hL, ?_, ?_⟩
    · intro j x; simp [hits]
    · intro j; simp
  | sc :: vs, outs, i, tbls, rs, tb, h, hL => by
    obtain ⟨t, o, os, v, t', rs', ht, ho, hv, ha, hr, hrs⟩ := consume_cons_ok h
    obtain ⟨k, hk, hkl, hlen, hsum, hget⟩ := accept_spec ha
    have hsc : sc < tbls.length := by
      rcases List.getElem?_eq_some_iff.mp ht with ⟨hlt, _⟩
      exact hlt
    have htL : t.length = L := hL t (List.mem_of_getElem? ht)
    have hL' : ∀ u ∈ tbls.set sc t', u.length = L := by
      intro u hu
      rcases List.mem_or_eq_of_mem_set hu with hu | hu
      · exact hL u hu
      · subst hu; rw [hlen, htL]
    obtain ⟨g1, g2, g3, g4⟩ := consume_tables L vs os (i + 1) (tbls.set sc t') rs' tb hr hL'
    subst hrs
    refine ⟨by rw [g1, List.length_set], g2, ?_, ?_⟩
    · intro j x
      rw [g3 j x]
      by_cases hj : sc = j
      · subst hj
        have hc : cell (tbls.set sc t') sc x = t'[x]? := by
          simp [cell, hsc]
        have hc0 : cell tbls sc x = t[x]? := by simp [cell, ht]
        rw [hc, hc0, hget x]
        by_cases hx : x = k
        · subst hx
          have : hits L sc x ((i, sc, v) :: rs') = hits L sc x rs' + 1 := by
            simp [hits, position, ← htL, hk]
          rw [this]
          simp only [if_true, Option.map_map]
          congr 1
          funext y
          simp only [Function.comp]
          omega
        · have : hits L sc x ((i, sc, v) :: rs') = hits L sc x rs' := by
            have hne : ¬ (position L v = some x) := by
              rw [← htL, position, hk]
              intro hh
              injection hh with hh
              exact hx hh.symm
            simp [hits, hne]
          rw [this]
          simp only [hx, if_false]
      · have hc : cell (tbls.set sc t') j x = cell tbls j x := by
          simp [cell, hj]
        have : hits L j x ((i, sc, v) :: rs') = hits L j x rs' := by
          simp [hits, hj]
        rw [hc, this]
    · intro j
      rw [g4 j]
      by_cases hj : sc = j
      · subst hj
        have hc : total (tbls.set sc t') sc = some t'.sum := by
          simp [total, hsc]
        have hc0 : total tbls sc = some t.sum := by simp [total, ht]
        rw [hc, hc0, hsum]
        simp only [Option.map_some, List.count_cons_self]
        congr 1
        omega
      · have hc : total (tbls.set sc t') j = total tbls j := by
          simp [total, hj]
        rw [hc, List.count_cons_of_ne (by simpa using hj)]

/-- every accepted value is one numpy can index the table with -/
theorem consume_in_range (L : Nat) : ∀ (vs : List Nat) (outs : List HwOut) (i : Nat) (tbls : List (List Nat))
    (rs : List (Nat × Nat × Int)) (tb : List (List Nat)), consume vs outs i tbls = .ok (rs, tb) →
    (∀ t ∈ tbls, t.length = L) → ∀ r ∈ rs, ∃ k, normIndex L r.2.2 = .ok k ∧ k < L
  | [], outs, i, tbls, rs, tb, h, _ => by
    simp only [consume_nil, Except.ok.injEq, Prod.mk.injEq] at h
    obtain ⟨h1, _⟩ := h
    subst h1
    intro r hr
    cases hr
  | sc :: vs, outs, i, tbls, rs, tb, h, hL => by
    obtain ⟨t, o, os, v, t', rs', ht, ho, hv, ha, hr, hrs⟩ := consume_cons_ok h
    obtain ⟨k, hk, hkl, hlen, _, _⟩ := accept_spec ha
    have htL : t.length = L := hL t (List.mem_of_getElem? ht)
    have hL' : ∀ u ∈ tbls.set sc t', u.length = L := by
      intro u hu
      rcases List.mem_or_eq_of_mem_set hu with hu | hu
      · exact hL u hu
      · subst hu; rw [hlen, htL]
    subst hrs
    intro r hm
    rcases List.mem_cons.mp hm with hm | hm
    · subst hm
      exact ⟨k, by rw [← htL]; exact hk, by rw [← htL]; exact hkl⟩
    · exact consume_in_range L vs os (i + 1) _ rs' tb hr hL' r hm

end Jaqal.OutputList
