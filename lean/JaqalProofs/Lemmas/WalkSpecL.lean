import JaqalProofs.Lemmas.WalkAddr
/-!
# The tree-recursive visit specification `specStmt/specList`

Position framework: while the spec walks the tree in flat order with counter `k`, every start
`starts[j]`, `j < k`, lies before the current position and every `starts[j]`, `j ≥ k`, does not.
Consequences: the spec emits exactly `execVisits` of the unrolled subtree (C08_unroll), and the counter
after a subtree is the index of the first start that is not inside it.
-/
namespace Jaqal.Walk

variable (starts : List Addr)

def Passed (k : Nat) (p : Addr) : Prop := ∀ j x, j < k → starts[j]? = some x → lexLt x p = true
def NotPassed (k : Nat) (p : Addr) : Prop := ∀ j x, k ≤ j → starts[j]? = some x → lexLt x p = false

/-- validity of the starts below a statement at address `p` -/
def Vs (s : Stmt) (p : Addr) : Prop :=
  ∀ x ∈ starts, ∀ r, x = p ++ r →
    match s with
    | .gate _ => r = []
    | .block _ b => ValidAt b r
    | .loop _ _ b => ValidAt b r

/-- validity of the starts below the statements `l` that sit at `a ++ [i]`, `a ++ [i+1]`, … -/
def Vl (l : List Stmt) (a : Addr) (i : Nat) : Prop :=
  ∀ x ∈ starts, ∀ j r, x = a ++ (i + j) :: r → ValidAt l (j :: r)

theorem validAt_lt {b : List Stmt} {m : Nat} {r : List Nat} (h : ValidAt b (m :: r)) : m < b.length := by
  cases r with
  | nil =>
    obtain ⟨k, hk⟩ := h
    exact (List.getElem?_eq_some_iff.mp hk).1
  | cons m' r' =>
    rcases h with ⟨p, b', hk, _⟩ | ⟨c, p, b', hk, _⟩ <;> exact (List.getElem?_eq_some_iff.mp hk).1

theorem Vl_head {s : Stmt} {l : List Stmt} {a : Addr} {i : Nat} (h : Vl starts (s :: l) a i) : Vs starts s (a ++ [i]) := by
  intro x hx r hr
  have hv := h x hx 0 r (by simp [hr])
  cases r with
  | nil =>
    obtain ⟨k, hk⟩ := hv
    simp only [List.getElem?_cons_zero, Option.some.injEq] at hk
    subst hk; rfl
  | cons m r' =>
    rcases hv with ⟨p, b, hk, hv⟩ | ⟨c, p, b, hk, hv⟩
    · simp only [List.getElem?_cons_zero, Option.some.injEq] at hk; subst hk; exact hv
    · simp only [List.getElem?_cons_zero, Option.some.injEq] at hk; subst hk; exact hv

theorem Vl_tail {s : Stmt} {l : List Stmt} {a : Addr} {i : Nat} (h : Vl starts (s :: l) a i) : Vl starts l a (i + 1) := by
  intro x hx j r hr
  have hv := h x hx (j + 1) r (by rw [hr]; congr 2; omega)
  exact (validAt_cons_succ s l j r).mp hv

theorem Vl_of_Vs_block {b : List Stmt} {p : Addr} (h : ∀ x ∈ starts, ∀ r, x = p ++ r → ValidAt b r) : Vl starts b p 0 := by
  intro x hx j r hr
  exact h x hx (j :: r) (by simpa using hr)

theorem indexOf_get : ∀ (l : List Addr), l.Nodup → ∀ k p, l[k]? = some p → indexOf? l p = some k
  | [], _, k, p, h => by simp at h
  | s :: l, hnd, 0, p, h => by simp at h; simp [indexOf?, h]
  | s :: l, hnd, k + 1, p, h => by
    simp only [List.getElem?_cons_succ] at h
    have hnd' := List.nodup_cons.mp hnd
    have hne : s ≠ p := by
      intro he; subst he
      exact hnd'.1 (List.mem_of_getElem? h)
    simp [indexOf?, hne, indexOf_get l hnd'.2 k p h]

theorem indexOf_none : ∀ (l : List Addr) p, p ∉ l → indexOf? l p = none
  | [], p, _ => rfl
  | s :: l, p, h => by
    simp only [List.mem_cons, not_or] at h
    simp [indexOf?, Ne.symm h.1, indexOf_none l p h.2]

theorem execVisits_append (u v : List (GK × Addr)) : execVisits starts (u ++ v) = execVisits starts u ++ execVisits starts v := by
  simp [execVisits]

theorem execVisits_replicate (n : Nat) (u : List (GK × Addr)) :
    execVisits starts (List.replicate n u).flatten = (List.replicate n (execVisits starts u)).flatten := by
  induction n with
  | zero => simp [execVisits]
  | succ n ih => simp [List.replicate_succ, execVisits_append, ih]

theorem passed_mono {k : Nat} {p q : Addr} (h : Passed starts k p) (hpq : lexLt p q = true) : Passed starts k q :=
  fun j x hj hx => lexLt_trans (h j x hj hx) hpq

variable {starts}

/-- entering the body of a block or loop at `p` -/
theorem enter_block {k : Nat} {p : Addr} (hp : Passed starts k p) (hn : NotPassed starts k p)
    (hne : ∀ x ∈ starts, x ≠ p) : Passed starts k (p ++ [0]) ∧ NotPassed starts k (p ++ [0]) := by
  refine ⟨passed_mono starts hp (lexLt_prefix p 0 []), ?_⟩
  intro j x hj hx
  cases h : lexLt x (p ++ [0]) with
  | false => rfl
  | true => exact absurd (between_first p x (hn j x hj hx) h) (hne x (List.mem_of_getElem? hx))

/-- leaving the body `b` of the block or loop at `a ++ [i]` -/
theorem exit_block {k : Nat} {a : Addr} {i : Nat} {b : List Stmt}
    (hv : ∀ x ∈ starts, ∀ r, x = (a ++ [i]) ++ r → ValidAt b r)
    (hp : Passed starts k (a ++ [i] ++ [b.length])) (hn : NotPassed starts k (a ++ [i] ++ [b.length])) :
    Passed starts k (a ++ [i + 1]) ∧ NotPassed starts k (a ++ [i + 1]) := by
  constructor
  · refine passed_mono starts hp ?_
    have := lexLt_sibling a i [b.length] (i + 1)
    simpa using this
  · intro j x hj hx
    cases h : lexLt x (a ++ [i + 1]) with
    | false => rfl
    | true =>
      have h0 := hn j x hj hx
      have h1 : lexLt x (a ++ [i]) = false := by
        cases h1 : lexLt x (a ++ [i]) with
        | false => rfl
        | true =>
          have := lexLt_trans h1 (lexLt_prefix (a ++ [i]) b.length [])
          rw [h0] at this; cases this
      obtain ⟨r, hr⟩ := between_siblings a i x h1 h
      have hval := hv x (List.mem_of_getElem? hx) r (by simp [hr])
      cases r with
      | nil => simp [ValidAt] at hval
      | cons m r' =>
        have hm := validAt_lt hval
        have := lexLt_sibling (a ++ [i]) m r' b.length
        rw [hr] at h0
        simp only [List.append_assoc, List.singleton_append] at this h0
        rw [h0] at this
        simp at this; omega

mutual
  theorem spec_stmt (hs : starts.Pairwise (fun x y => lexLt x y = true)) :
      ∀ (s : Stmt) (a : Addr) (i k : Nat), Vs starts s (a ++ [i]) →
        Passed starts k (a ++ [i]) → NotPassed starts k (a ++ [i]) →
        (specStmt starts s (a ++ [i]) k).1 = execVisits starts (unrollStmt s (a ++ [i])) ∧
        k ≤ (specStmt starts s (a ++ [i]) k).2 ∧
        Passed starts (specStmt starts s (a ++ [i]) k).2 (a ++ [i + 1]) ∧
        NotPassed starts (specStmt starts s (a ++ [i]) k).2 (a ++ [i + 1])
    | .gate g, a, i, k, hv, hp, hn => by
      have hsib : lexLt (a ++ [i]) (a ++ [i + 1]) = true := by
        have := lexLt_sibling a i [] (i + 1); simpa using this
      -- anything in [a++[i], a++[i+1]) that is a start equals a++[i]
      have hbetween : ∀ (j : Nat) (x : Addr), starts[j]? = some x → lexLt x (a ++ [i]) = false → lexLt x (a ++ [i + 1]) = true → x = a ++ [i] := by
        intro j x hx h1 h2
        obtain ⟨r, hr⟩ := between_siblings a i x h1 h2
        have := hv x (List.mem_of_getElem? hx) r (by simp [hr])
        simp only at this
        subst this; simpa using hr
      by_cases hk : starts[k]? = some (a ++ [i])
      · simp only [specStmt, hk, if_true, unrollStmt, execVisits, List.filterMap_cons, List.filterMap_nil]
        rw [indexOf_get starts (pairwise_lexLt_nodup hs) k _ hk]
        refine ⟨rfl, by omega, ?_, ?_⟩
        · intro j x hj hx
          by_cases hjk : j < k
          · exact lexLt_trans (hp j x hjk hx) hsib
          · have : j = k := by omega
            subst this; rw [hk] at hx; cases hx; exact hsib
        · intro j x hj hx
          cases h : lexLt x (a ++ [i + 1]) with
          | false => rfl
          | true =>
            have hxe := hbetween j x hx (hn j x (by omega) hx) h
            subst hxe
            have hkj : k < j := by omega
            have := List.pairwise_iff_getElem.mp hs k j (List.getElem?_eq_some_iff.mp hk).1 (List.getElem?_eq_some_iff.mp hx).1 hkj
            rw [(List.getElem?_eq_some_iff.mp hk).2, (List.getElem?_eq_some_iff.mp hx).2, lexLt_irrefl] at this
            cases this
      · have hnot : (a ++ [i]) ∉ starts := by
          intro hmem
          obtain ⟨j, hj, hjx⟩ := List.mem_iff_getElem.mp hmem
          have hx : starts[j]? = some (a ++ [i]) := List.getElem?_eq_some_iff.mpr ⟨hj, hjx⟩
          by_cases hjk : j < k
          · have := hp j _ hjk hx; rw [lexLt_irrefl] at this; cases this
          · by_cases hjk' : j = k
            · subst hjk'; exact hk hx
            · have hk' : k < starts.length := by omega
              have := List.pairwise_iff_getElem.mp hs k j hk' hj (by omega)
              rw [hjx] at this
              have h2 := hn k starts[k] (Nat.le_refl _) (List.getElem?_eq_some_iff.mpr ⟨hk', rfl⟩)
              rw [h2] at this; cases this
        simp only [specStmt, hk, if_false, unrollStmt, execVisits, List.filterMap_cons, List.filterMap_nil]
        rw [indexOf_none starts _ hnot]
        refine ⟨rfl, Nat.le_refl _, passed_mono starts hp hsib, ?_⟩
        intro j x hj hx
        cases h : lexLt x (a ++ [i + 1]) with
        | false => rfl
        | true =>
          have hxe := hbetween j x hx (hn j x hj hx) h
          subst hxe
          exact absurd (List.mem_of_getElem? hx) hnot
    | .block p b, a, i, k, hv, hp, hn => by
      have hne : ∀ x ∈ starts, x ≠ a ++ [i] := by
        intro x hx he
        have := hv x hx [] (by simp [he])
        simp [ValidAt] at this
      obtain ⟨hp0, hn0⟩ := enter_block hp hn hne
      have ih := spec_list hs b (a ++ [i]) 0 k (Vl_of_Vs_block starts hv) hp0 hn0
      simp only [Nat.zero_add] at ih
      obtain ⟨h1, h2, h3, h4⟩ := ih
      obtain ⟨h5, h6⟩ := exit_block hv h3 h4
      simp only [specStmt, unrollStmt]
      exact ⟨h1, h2, h5, h6⟩
    | .loop c p b, a, i, k, hv, hp, hn => by
      have hne : ∀ x ∈ starts, x ≠ a ++ [i] := by
        intro x hx he
        have := hv x hx [] (by simp [he])
        simp [ValidAt] at this
      obtain ⟨hp0, hn0⟩ := enter_block hp hn hne
      have ih := spec_list hs b (a ++ [i]) 0 k (Vl_of_Vs_block starts hv) hp0 hn0
      simp only [Nat.zero_add] at ih
      obtain ⟨h1, h2, h3, h4⟩ := ih
      obtain ⟨h5, h6⟩ := exit_block hv h3 h4
      simp only [specStmt, unrollStmt]
      exact ⟨by rw [execVisits_replicate, h1], h2, h5, h6⟩
  theorem spec_list (hs : starts.Pairwise (fun x y => lexLt x y = true)) :
      ∀ (l : List Stmt) (a : Addr) (i k : Nat), Vl starts l a i →
        Passed starts k (a ++ [i]) → NotPassed starts k (a ++ [i]) →
        (specList starts l a i k).1 = execVisits starts (unrollList l a i) ∧
        k ≤ (specList starts l a i k).2 ∧
        Passed starts (specList starts l a i k).2 (a ++ [i + l.length]) ∧
        NotPassed starts (specList starts l a i k).2 (a ++ [i + l.length])
    | [], a, i, k, hv, hp, hn => by
      simp only [specList, unrollList, execVisits, List.filterMap_nil, List.length_nil, Nat.add_zero]
      exact ⟨trivial, Nat.le_refl _, hp, hn⟩
    | s :: l, a, i, k, hv, hp, hn => by
      obtain ⟨h1, h2, h3, h4⟩ := spec_stmt hs s a i k (Vl_head starts hv) hp hn
      obtain ⟨h5, h6, h7, h8⟩ := spec_list hs l a (i + 1) _ (Vl_tail starts hv) h3 h4
      simp only [specList, unrollList, execVisits_append, List.length_cons]
      refine ⟨by rw [h1, h5], Nat.le_trans h2 h6, ?_, ?_⟩
      · rw [show i + (l.length + 1) = i + 1 + l.length by omega]; exact h7
      · rw [show i + (l.length + 1) = i + 1 + l.length by omega]; exact h8
end

end Jaqal.Walk
