import JaqalProofs.Lemmas.BuiltTyped
/-!
# The rebuild at the end of `fill_in_let` is total

`rebuild_total : TypedC c → letSx ov c = .ok sx → Total (build (rebuildCfg c) sx)` — `Builder.build` on the S-expression the
visitors of `fill_in_let` produce (`["gate", name, obj…]`, `["loop", obj, block]`, `["subcircuit_block", obj, stmt…]`,
`["sequential_block" | "parallel_block", stmt…]`, `["macro", name, param…, block]`, embedded constants / registers,
`["usepulses", module, "*"]`) fails with `JaqalError` only.  It is `C16_builder_total` for these shapes instead of parser shapes:
the leaves are embedded objects (nothing is looked up in the context), the leaf lemmas are those of `Lemmas/BuilderTotal.lean`,
the context-free invariants of the circuit loop those of `Lemmas/BuilderNames.lean` (`GInv`) and `Lemmas/BuiltWellFormed.lean`
(`SInv`, `buildAny_shape`).
-/
namespace Jaqal.Builder
open Jaqal Jaqal.FillIn

/-! ### Leaves: numbers, `None`, embedded objects -/

def isLeaf : BSx → Bool
  | .int _ => true
  | .flt _ => true
  | .none => true
  | .val (.str _) => false
  | .val _ => true
  | _ => false

theorem buildVal_leaf {ctx : Ctx} {f : Nat} {a : BSx} (h : isLeaf a = true) : ∃ v, buildVal ctx f a = .ok v := by
  cases a with
  | int i => exact ⟨_, by cases f <;> rfl⟩
  | flt d => exact ⟨_, by cases f <;> rfl⟩
  | none => exact ⟨_, by cases f <;> rfl⟩
  | val v =>
    cases v with
    | str _ => simp [isLeaf] at h
    | _ => exact ⟨_, by cases f <;> rfl⟩
  | str _ => simp [isLeaf] at h
  | list _ => simp [isLeaf] at h

theorem buildVal_leaf_total {ctx : Ctx} {f : Nat} {a : BSx} (h : isLeaf a = true) : Total (buildVal ctx f a) := by
  obtain ⟨v, hv⟩ := buildVal_leaf (ctx := ctx) (f := f) h
  rw [hv]; exact Total.ok _

theorem isLeaf_depth {a : BSx} (h : isLeaf a = true) : a.depth = 0 := by
  cases a <;> simp [isLeaf] at h <;> rfl

mutual
/-- the statements `visitStmt` writes -/
def isLStmt : BSx → Bool
  | .list (.str cmd :: args) =>
    if cmd = "gate" then
      match args with
      | .str _ :: gargs => gargs.all isLeaf
      | _ => false
    else if cmd = "loop" then
      match args with
      | [count, block] => isLeaf count && isLStmt block
      | _ => false
    else if cmd = "sequential_block" ∨ cmd = "parallel_block" then isLStmts args
    else if cmd = "subcircuit_block" then
      match args with
      | count :: stmts => isLeaf count && isLStmts stmts
      | [] => false
    else false
  | _ => false
def isLStmts : List BSx → Bool
  | [] => true
  | s :: ss => isLStmt s && isLStmts ss
end

theorem isLStmts_mem : ∀ {l : List BSx}, isLStmts l = true → ∀ x ∈ l, isLStmt x = true := by
  intro l
  induction l with
  | nil => intro _ x hx; cases hx
  | cons a as ih =>
    intro h x hx
    simp only [isLStmts, Bool.and_eq_true] at h
    rcases List.mem_cons.1 hx with rfl | hx
    · exact h.1
    · exact ih h.2 x hx

theorem buildGate_leaf_total {cfg : Config} {mode : KeyMode} {ctx : Ctx} {f : Nat} {name : String}
    {gargs : List BSx} (hg : ∀ a ∈ gargs, isLeaf a = true) (st : St) :
    Total (buildGate cfg mode ctx (buildVal ctx f) (.str name :: gargs) st) := by
  simp only [buildGate]
  refine Total.bind ?_ (fun _ _ => ?_)
  · unfold nestingCheck
    split
    · exact Total.throw _
    · exact Total.pure _
  unfold buildGateMemo
  simp only []
  cases (if mode = KeyMode.off then Option.none else Memo.find mode.numByValue st.memo (mkKey mode ctx name gargs)) with
  | some g => exact Total.pure _
  | none =>
    simp only []
    refine Total.bind ?_ (fun _ _ => Total.pure _)
    unfold buildGateFresh
    refine Total.bind ?_ (fun q _ => ?_)
    · intro e h
      unfold getGateDef at h
      split at h
      · cases h
      · split at h
        · cases h
        · cases h; exact Good.jaqal _
    · refine Total.bind (mapM_total (fun a ha => buildVal_leaf_total (hg a ha))) (fun vals _ => ?_)
      exact Total.bind (callDef_total _ _) (fun _ _ => Total.pure _)

/-- **statements** -/
theorem buildAny_total_let (cfg : Config) (mode : KeyMode) : ∀ (f : Nat) (ctx : Ctx) (e : BSx) (st : St),
    e.depth ≤ f → isLStmt e = true → SPost (buildAny cfg mode f ctx e st) := by
  intro f
  induction f with
  | zero =>
    intro ctx e st hd h
    cases e with
    | list l => simp [BSx.depth] at hd
    | _ => simp [isLStmt] at h
  | succ f ih =>
    intro ctx e st hd h
    cases e with
    | list l =>
      simp only [BSx.depth, Nat.add_le_add_iff_right] at hd
      show SPost (anyStep cfg mode (buildAny cfg mode f) (buildVal ctx f) ctx l st)
      unfold isLStmt at h
      split at h
      · rename_i cmd args heq
        cases heq
        obtain ⟨_, hda⟩ := depthList_cons_le hd
        by_cases h1 : cmd = "gate"
        · subst h1
          simp only [if_true] at h
          split at h
          · rename_i name gargs
            have hg : ∀ a ∈ gargs, isLeaf a = true := by simpa [List.all_eq_true] using h
            simp only [anyStep, if_true]
            refine ⟨Total.bind (buildGate_leaf_total hg st) (fun _ _ => Total.pure _), ?_⟩
            intro o s1 hr
            obtain ⟨p, _, h2⟩ := bind_ok hr
            simp only [pure, Except.pure, Except.ok.injEq, Prod.mk.injEq] at h2
            exact ⟨_, h2.1.symm⟩
          · cases h
        simp only [h1, if_false] at h
        by_cases h2 : cmd = "loop"
        · subst h2
          simp only [if_true] at h
          split at h
          · rename_i count block
            simp only [Bool.and_eq_true] at h
            obtain ⟨_, hdb'⟩ := depthList_cons_le hda
            obtain ⟨hdb, _⟩ := depthList_cons_le hdb'
            simp only [anyStep, show ("loop" = "gate") = False from by decide,
              show ("loop" = "sequential_block" ∨ "loop" = "block") = False from by decide,
              show ("loop" = "parallel_block") = False from by decide,
              show ("loop" = "unscheduled_block") = False from by decide,
              show ("loop" = "subcircuit_block") = False from by decide, if_false, if_true]
            have hb := ih ctx block st hdb h.2
            refine ⟨?_, ?_⟩
            · refine Total.bind (buildVal_leaf_total h.1) (fun cnt _ => ?_)
              refine Total.bind hb.1 (fun p hp => ?_)
              obtain ⟨o, s1⟩ := p
              obtain ⟨s, rfl⟩ := hb.2 o s1 hp
              exact Total.bind (validateCount_total _) (fun _ _ => Total.pure _)
            · intro o s1 hr
              obtain ⟨cnt, _, h3⟩ := bind_ok hr
              obtain ⟨p, hp, h4⟩ := bind_ok h3
              obtain ⟨o', s2⟩ := p
              obtain ⟨s, rfl⟩ := hb.2 o' s2 hp
              obtain ⟨_, _, h5⟩ := bind_ok h4
              simp only [pure, Except.pure, Except.ok.injEq, Prod.mk.injEq] at h5
              exact ⟨_, h5.1.symm⟩
          · cases h
        simp only [h2, if_false] at h
        by_cases h3 : cmd = "sequential_block" ∨ cmd = "parallel_block"
        · simp only [h3, if_true] at h
          have hmem : ∀ x ∈ args, ∀ (c : Ctx), ∀ s, SPost (buildAny cfg mode f c x s) :=
            fun x hx c s => ih c x s (Nat.le_trans (depth_le_of_mem hx) hda) (isLStmts_mem h x hx)
          rcases h3 with h3 | h3
          · subst h3
            simp only [anyStep, show ("sequential_block" = "gate") = False from by decide, if_false,
              if_true, true_or]
            exact block_spost (fun x hx s => hmem x hx _ s)
          · subst h3
            simp only [anyStep, show ("parallel_block" = "gate") = False from by decide, if_false,
              show ("parallel_block" = "sequential_block" ∨ "parallel_block" = "block") = False from by decide,
              if_true]
            exact block_spost (fun x hx s => hmem x hx _ s)
        simp only [h3, if_false] at h
        by_cases h4 : cmd = "subcircuit_block"
        · subst h4
          simp only [if_true] at h
          split at h
          · rename_i count stmts
            simp only [Bool.and_eq_true] at h
            obtain ⟨_, hds⟩ := depthList_cons_le hda
            have hkids : ∀ x ∈ stmts, ∀ s, SPost (buildAny cfg mode f { ctx with inSub := true } x s) :=
              fun x hx s => ih _ x s (Nat.le_trans (depth_le_of_mem hx) hds) (isLStmts_mem h.2 x hx)
            simp only [anyStep, show ("subcircuit_block" = "gate") = False from by decide, if_false,
              show ("subcircuit_block" = "sequential_block" ∨ "subcircuit_block" = "block") = False from by decide,
              show ("subcircuit_block" = "parallel_block") = False from by decide,
              show ("subcircuit_block" = "unscheduled_block") = False from by decide, if_true, List.tail_cons]
            by_cases hflag : (ctx.inSub || ctx.inPar) = true
            · simp only [hflag, if_true]
              exact ⟨Total.throw _, fun o s1 hr => by cases hr⟩
            · simp only [hflag, Bool.false_eq_true, if_false]
              have hcount : Total (subCount (buildVal ctx f) count) := by
                unfold subCount
                split
                · exact Total.pure _
                · exact Total.pure _
                · exact buildVal_leaf_total h.1
              refine ⟨?_, ?_⟩
              · refine Total.bind (mapMSt_total stmts st (fun x hx s => (hkids x hx s).1)) (fun p hp => ?_)
                obtain ⟨os, s1⟩ := p
                obtain ⟨ss, hss⟩ := asStmts_of_stmts (mapMSt_stmts stmts st s1 os hkids hp)
                refine Total.bind hcount (fun cnt _ => ?_)
                refine Total.bind (validateCount_total _) (fun _ _ => ?_)
                simp only [hss]
                exact Total.pure _
              · intro o s1 hr
                obtain ⟨p, _, h5⟩ := bind_ok hr
                obtain ⟨cnt, _, h6⟩ := bind_ok h5
                obtain ⟨_, _, h7⟩ := bind_ok h6
                obtain ⟨ss, _, h8⟩ := bind_ok h7
                simp only [pure, Except.pure, Except.ok.injEq, Prod.mk.injEq] at h8
                exact ⟨_, h8.1.symm⟩
          · cases h
        · simp [h4] at h
      · cases h
    | _ => simp [isLStmt] at h

/-! ### Top-level children -/

/-- `["macro", name, param…, block]` as `macroSx` writes it -/
def isLMacro : BSx → Bool
  | .list (.str "macro" :: .str _ :: rest) =>
    (rest.dropLast.all isStr) &&
      (match rest.getLast? with
       | some b => isLStmt b
       | Option.none => false)
  | _ => false

/-- an embedded object, a `usepulses` statement, a macro definition or a statement -/
def isLChild (c : BSx) : Bool :=
  (match c with
   | .val (.str _) => false
   | .val _ => true
   | .list [.str "usepulses", .str _, .str _] => true
   | _ => false) || isLMacro c || isLStmt c

/-- what a top-level child is built to: never a `case` -/
def LPost (r : M (Obj × St)) : Prop := Total r ∧ ∀ o s1, r = .ok (o, s1) → o ≠ .case

theorem buildAny_child_total {cfg : Config} {mode : KeyMode} {f : Nat} {ctx : Ctx} {c : BSx} {st : St}
    (hc : isLChild c = true) (hd : c.depth ≤ f) : LPost (buildAny cfg mode f ctx c st) := by
  unfold isLChild at hc
  simp only [Bool.or_eq_true] at hc
  rcases hc with (hc | hc) | hc
  · -- an embedded object or a usepulses statement
    split at hc
    · cases hc
    · rename_i v hv
      have hleaf : isLeaf (.val v) = true := by cases v <;> first | rfl | exact absurd rfl (hv _)
      obtain ⟨w, hw⟩ := buildVal_leaf (ctx := ctx) (f := f) hleaf
      rw [buildAny_atom _ _ _ _ _ _ (by intro l; simp), hw]
      exact ⟨Total.ok _, fun o s1 hr => by cases hr; intro h; cases h⟩
    · rename_i a b
      cases f with
      | zero => simp [BSx.depth] at hd
      | succ f =>
        show LPost (anyStep cfg mode (buildAny cfg mode f) (buildVal ctx f) ctx [.str "usepulses", .str a, .str b] st)
        simp only [anyStep, show ("usepulses" = "gate") = False from by decide, if_false,
          show ("usepulses" = "sequential_block" ∨ "usepulses" = "block") = False from by decide,
          show ("usepulses" = "parallel_block") = False from by decide,
          show ("usepulses" = "unscheduled_block") = False from by decide,
          show ("usepulses" = "subcircuit_block") = False from by decide,
          show ("usepulses" = "loop") = False from by decide,
          show ("usepulses" = "case") = False from by decide,
          show ("usepulses" = "branch") = False from by decide,
          show ("usepulses" = "macro") = False from by decide, if_true]
        by_cases hs : isStar (.str b) = true
        · simp only [hs, Bool.not_true, Bool.false_eq_true, if_false, pure_bind]
          exact ⟨Total.pure _, fun o s1 hr => by cases hr; intro h; cases h⟩
        · simp only [hs, Bool.not_false, if_true]
          exact ⟨Total.bind (Total.throw _) (fun _ _ => Total.pure _), fun o s1 hr => by
            simp [throw_eq, bind, Except.bind] at hr⟩
    · cases hc
  · -- a macro definition
    unfold isLMacro at hc
    split at hc
    · rename_i n rest
      simp only [Bool.and_eq_true] at hc
      cases f with
      | zero => simp [BSx.depth] at hd
      | succ f =>
        simp only [BSx.depth, Nat.add_le_add_iff_right] at hd
        obtain ⟨_, hd1⟩ := depthList_cons_le hd
        obtain ⟨_, hd2⟩ := depthList_cons_le hd1
        show LPost (anyStep cfg mode (buildAny cfg mode f) (buildVal ctx f) ctx (.str "macro" :: .str n :: rest) st)
        simp only [anyStep, show ("macro" = "gate") = False from by decide, if_false,
          show ("macro" = "sequential_block" ∨ "macro" = "block") = False from by decide,
          show ("macro" = "parallel_block") = False from by decide,
          show ("macro" = "unscheduled_block") = False from by decide,
          show ("macro" = "subcircuit_block") = False from by decide,
          show ("macro" = "loop") = False from by decide,
          show ("macro" = "case") = False from by decide,
          show ("macro" = "branch") = False from by decide, if_true]
        by_cases hlen : (List.length (BSx.str n :: rest)) < 2
        · simp only [hlen, if_true]
          exact ⟨Total.throw _, fun o s1 hr => by cases hr⟩
        · simp only [hlen, if_false, strOf, pure_bind]
          by_cases hdef : (List.lookup n st.gctx).isSome = true
          · simp only [if_pos hdef]
            refine ⟨?_, fun o s1 hr => ?_⟩
            · intro e he; cases he; exact Good.jaqal _
            · cases hr
          · simp only [if_neg hdef, pure_bind]
            obtain ⟨ps, hps, _⟩ := mapM_macroParam _ hc.1
            simp only [hps, bind, Except.bind]
            cases hlast : rest.getLast? with
            | none => simp [hlast] at hc
            | some blockE =>
              simp only [hlast] at hc
              simp only []
              have hmem : blockE ∈ rest := List.mem_of_getLast? hlast
              have hsp := buildAny_total_let cfg mode f (ctx.withParams ps) blockE st
                (Nat.le_trans (depth_le_of_mem hmem) hd2) hc.2
              refine ⟨?_, ?_⟩
              · intro e he
                cases hr : buildAny cfg mode f (ctx.withParams ps) blockE st with
                | error e' => rw [hr] at he; cases he; exact hsp.1 _ hr
                | ok p =>
                  rw [hr] at he
                  simp only [] at he
                  split at he
                  · cases he
                  · cases he; exact Good.jaqal _
              · intro o s1 hr
                cases hr2 : buildAny cfg mode f (ctx.withParams ps) blockE st with
                | error e' => rw [hr2] at hr; cases hr
                | ok p =>
                  rw [hr2] at hr
                  simp only [] at hr
                  split at hr
                  · simp only [pure, Except.pure, Except.ok.injEq, Prod.mk.injEq] at hr
                    rw [← hr.1]; intro h; cases h
                  · cases hr
    · cases hc
  · -- a statement
    have := buildAny_total_let cfg mode f ctx c st hd hc
    exact ⟨this.1, fun o s1 hr => by obtain ⟨s, rfl⟩ := this.2 o s1 hr; intro h; cases h⟩

/-! ### `rebuild_macro_in_context` needs the name of a statement only -/

mutual
theorem rebuildStmt_total' (g : GCtx) : ∀ (s : Stmt), ArgShape s → StmtKnown g s → Total (rebuildStmt g s)
  | .gate name gd args, hok, hkn => by
    simp only [rebuildStmt]
    obtain ⟨e, hl, hd⟩ := hkn gd (by simp [gateDefsOf])
    have hname : gd.name = name := hok.1.symm
    rw [hname] at hl
    rw [hl]
    cases e with
    | gdef g0 => exact Total.pure _
    | «macro» m =>
      simp only []
      split
      · have htag : gd.tag = DefTag.macro := by rw [← hd]; rfl
        simp only [htag, beq_self_eq_true, if_true]
        exact Total.pure _
      · exact Total.bind (callDef_total _ _) (fun _ _ => Total.pure _)
  | .block par sub it body, hok, hkn => by
    simp only [rebuildStmt]
    have hb : ∀ s ∈ body, StmtKnown g s := by
      intro s hsm gd hgd
      exact hkn gd (by simp only [gateDefsOf]; exact mem_gateDefsOfList.2 ⟨s, hsm, hgd⟩)
    refine Total.bind (rebuildList_total' g body hok hb) (fun p _ => ?_)
    split
    · exact Total.pure _
    · exact Total.pure _
  | .loop c b, hok, hkn => by
    simp only [rebuildStmt]
    refine Total.bind (rebuildStmt_total' g b hok (fun gd hgd => hkn gd (by simpa [gateDefsOf] using hgd))) (fun p _ => ?_)
    split
    · exact Total.pure _
    · exact Total.pure _
theorem rebuildList_total' (g : GCtx) : ∀ (l : List Stmt), ArgShapeL l → (∀ s ∈ l, StmtKnown g s) → Total (rebuildList g l)
  | [], _, _ => by simp only [rebuildList]; exact Total.pure _
  | s :: ss, hok, hkn => by
    simp only [rebuildList]
    refine Total.bind (rebuildStmt_total' g s hok.1 (hkn s (by simp))) (fun _ _ => ?_)
    exact Total.bind (rebuildList_total' g ss hok.2 (fun x hx => hkn x (by simp [hx]))) (fun _ _ => Total.pure _)
end

theorem stepTail_total' {cfg : Config} {mode : KeyMode} {inject : Option (List (String × GateDef))} {acc : Acc} {o : Obj}
    {st : St} (hcase : o ≠ .case)
    (hm : ∀ m, o = .macro m → ArgShape m.body ∧ StmtKnown st.gctx m.body) :
    Total (stepTail cfg mode inject acc o st) := by
  cases o with
  | val v =>
    cases v <;> simp only [stepTail] <;> first
      | exact Total.throw _
      | exact Total.bind (addVar_total _ _ _) (fun _ _ => Total.pure _)
  | «macro» m =>
    simp only [stepTail]
    obtain ⟨h1, h2⟩ := hm m rfl
    refine Total.bind ?_ (fun m' _ => ?_)
    · unfold rebuildMacro
      exact Total.bind (rebuildStmt_total' st.gctx m.body h1 h2) (fun _ _ => Total.pure _)
    · by_cases hl : (List.lookup m'.name st.gctx).isSome = true
      · simp only [hl, if_true]
        exact Total.bind (Total.throw _) (fun _ _ => Total.pure _)
      · simp only [hl]
        exact Total.pure _
  | stmt s => simp only [stepTail]; exact Total.pure _
  | case => exact absurd rfl hcase
  | usepulses n =>
    simp only [stepTail]
    by_cases ha : cfg.autoload = true
    · simp only [ha, if_true]
      split
      · exact Total.throw _
      · cases cfg.imports n with
        | none => intro e he; cases he; exact Or.inr rfl
        | some gs => exact Total.pure _
    · simp only [ha]; exact Total.pure _

/-! ### The loop of `build_circuit` -/

theorem circuitLoop_total_let {cfg : Config} {mode : KeyMode} (hmode : mode ≠ .noReset)
    {inject : Option (List (String × GateDef))} {fuel : Nat} :
    ∀ (cs : List BSx) (acc : Acc), GInv cfg acc → SInv acc →
    (∀ c ∈ cs, isLChild c = true ∧ c.depth ≤ fuel) →
    Total (circuitLoop cfg mode inject fuel acc cs) := by
  intro cs
  induction cs with
  | nil => intro acc _ _ _; exact Total.pure _
  | cons c cs ih =>
    intro acc hg ha hcs
    obtain ⟨hshape, hdep⟩ := hcs c (by simp)
    simp only [circuitLoop, circuitStep]
    have hpost : LPost (buildAny cfg mode fuel acc.ctx c acc.st) := buildAny_child_total hshape hdep
    refine Total.bind (Total.bind hpost.1 (fun p hp => ?_)) (fun a2 ha2 => ?_)
    · obtain ⟨o, st⟩ := p
      have hk := buildAny_known fuel acc.ctx c acc.st st o hg.b.k hp
      have hsh := buildAny_shape fuel acc.ctx c acc.st st o ha.memo hp
      refine stepTail_total' (hpost.2 o st hp) ?_
      intro m hm
      subst hm
      exact ⟨hsh.2, hk.obj⟩
    · obtain ⟨p, hp, h3⟩ := bind_ok ha2
      obtain ⟨o, st⟩ := p
      have hk := buildAny_known fuel acc.ctx c acc.st st o hg.b.k hp
      have hsh := buildAny_shape fuel acc.ctx c acc.st st o ha.memo hp
      exact ih a2 (stepTail_general hmode hg hk (fun ho => buildAny_pure_obj hp ho) h3)
        (stepTail_shape hmode ha hk.ext hsh.1 hsh.2 h3) (fun d hd => hcs d (by simp [hd]))

/-- `build` on a circuit-level S-expression whose children are embedded objects, `usepulses` statements, macro
definitions and statements of the shapes above -/
theorem build_total_let (cfg : Config) (cs : List BSx) (hcs : ∀ c ∈ cs, isLChild c = true) :
    Total (build cfg (.list (.str "circuit" :: cs))) := by
  unfold build buildWith
  refine Total.bind ?_ (fun inject hinj => ?_)
  · unfold Config.inject
    cases cfg.natives with
    | none => exact Total.pure _
    | some gs =>
      simp only []
      refine Total.bind ?_ (fun _ _ => Total.pure _)
      intro e h
      unfold normNatives at h
      simp only [] at h
      split at h
      · cases h; exact Good.jaqal _
      · cases h
  · unfold buildCore
    simp only []
    refine Total.bind ?_ (fun _ _ => Total.pure _)
    have hnat : NatOK (inject.getD []) := by
      unfold Config.inject at hinj
      cases hn : cfg.natives with
      | none => simp [hn, pure, Except.pure] at hinj; subst hinj; exact ⟨fun p hp => (by cases hp), by simp⟩
      | some gs =>
        simp only [hn] at hinj
        obtain ⟨d, hd, h4⟩ := bind_ok hinj
        simp only [pure, Except.pure] at h4
        cases h4
        exact normNatives_natOK hd
    refine circuitLoop_total_let (by decide) cs _ ?_ ?_ ?_
    · refine ⟨HInv.toBInv ?_, fun _ _ => ?_⟩ <;> exact ⟨rfl, rfl, rfl, rfl, hnat⟩
    · exact ⟨(fun k s hk => by cases hk), (fun s hs => by cases hs), (fun m hm => by cases hm), (fun m hm => by cases hm)⟩
    · intro c hc
      refine ⟨hcs c hc, ?_⟩
      simp only [BSx.depth, BSx.depthList]
      have := depth_le_of_mem hc
      omega

/-! ### What the visitors write has these shapes -/

theorem OutT_not_str {v : Val} (h : OutT v = true) : isLeaf (ofVal v) = true := by
  cases v <;> first | rfl | (simp [OutT, RegL] at h)

theorem visitArgs_leaf {ov : List (String × Num)} : ∀ (args : List (String × Val)) (vs : List BSx),
    (∀ a ∈ args, InT a.2 = true) → visitArgs (letVal ov false) args = .ok vs → ∀ x ∈ vs, isLeaf x = true
  | [], vs, _, h => by simp only [visitArgs, pure, Except.pure] at h; cases h; intro x hx; cases hx
  | (n, v) :: rest, vs, ht, h => by
    simp only [visitArgs] at h
    obtain ⟨v', hv', h⟩ := bind_ok h
    obtain ⟨rest', hr, h⟩ := bind_ok h
    cases h
    intro x hx
    rcases List.mem_cons.1 hx with rfl | hx
    · exact OutT_not_str ((letVal_typed v (ht (n, v) (List.mem_cons_self ..))).2 v' hv')
    · exact visitArgs_leaf rest rest' (fun a ha => ht a (List.mem_cons_of_mem _ ha)) hr x hx

mutual
  theorem letStmt_shape {ov : List (String × Num)} : ∀ (s : Stmt) (x : BSx), StmtIn s →
      visitStmt (letVal ov false) (letVal ov false) s = .ok x → isLStmt x = true
    | .gate name gd args, x, ht, h => by
      simp only [visitStmt] at h
      obtain ⟨vs, hvs, h⟩ := bind_ok h
      cases h
      unfold isLStmt
      simp only [if_true, List.all_eq_true]
      exact visitArgs_leaf args vs ht hvs
    | .block par sub it body, x, ht, h => by
      simp only [StmtIn] at ht
      simp only [visitStmt] at h
      obtain ⟨ss, hss, h⟩ := bind_ok h
      have hkids := letStmts_shape body ss ht.2 hss
      cases sub with
      | true =>
        simp only [if_true] at h
        obtain ⟨c, hc, h⟩ := bind_ok h
        cases h
        unfold isLStmt
        simp only [show ("subcircuit_block" = "gate") = False from by decide,
          show ("subcircuit_block" = "loop") = False from by decide,
          show ("subcircuit_block" = "sequential_block" ∨ "subcircuit_block" = "parallel_block") = False from by decide,
          if_false, if_true, Bool.and_eq_true]
        exact ⟨OutT_not_str ((letVal_typed it (CntIn_InT ht.1)).2 c hc), hkids⟩
      | false =>
        simp only [Bool.false_eq_true, if_false, pure, Except.pure] at h
        cases h
        unfold isLStmt
        cases par <;>
          simp only [blockCmd, if_true, Bool.false_eq_true, if_false,
            show ("sequential_block" = "gate") = False from by decide,
            show ("sequential_block" = "loop") = False from by decide,
            show ("parallel_block" = "gate") = False from by decide,
            show ("parallel_block" = "loop") = False from by decide, true_or, or_true] <;> exact hkids
    | .loop c b, x, ht, h => by
      simp only [StmtIn] at ht
      simp only [visitStmt] at h
      obtain ⟨c', hc', h⟩ := bind_ok h
      obtain ⟨b', hb', h⟩ := bind_ok h
      cases h
      unfold isLStmt
      simp only [show ("loop" = "gate") = False from by decide, if_false, if_true, Bool.and_eq_true]
      exact ⟨OutT_not_str ((letVal_typed c (CntIn_InT ht.1)).2 c' hc'), letStmt_shape b b' ht.2 hb'⟩
  theorem letStmts_shape {ov : List (String × Num)} : ∀ (l : List Stmt) (xs : List BSx), StmtsIn l →
      visitStmts (letVal ov false) (letVal ov false) l = .ok xs → isLStmts xs = true
    | [], xs, _, h => by simp only [visitStmts, pure, Except.pure] at h; cases h; rfl
    | s :: r, xs, ht, h => by
      simp only [visitStmts] at h
      obtain ⟨x, hx, h⟩ := bind_ok h
      obtain ⟨xs', hxs, h⟩ := bind_ok h
      cases h
      simp only [isLStmts, Bool.and_eq_true]
      exact ⟨letStmt_shape s x ht.1 hx, letStmts_shape r xs' ht.2 hxs⟩
end

theorem isLStmt_child {x : BSx} (h : isLStmt x = true) : isLChild x = true := by
  simp [isLChild, h]

/-- **the rebuild is total** (the body of the circuit is a block that is not a subcircuit block, as every circuit's is) -/
theorem rebuild_total (ov : List (String × Num)) (c : Circuit) (ht : TypedC c)
    (hblk : ∃ par it bs, c.body = .block par false it bs) : RebuildTotal ov c := by
  intro sx hsx
  obtain ⟨par, it, bs, hcb⟩ := hblk
  have htb : StmtsIn bs := by have := ht.body; rw [hcb] at this; exact this.2
  unfold letSx letStmt at hsx
  obtain ⟨body, hbody, hsx⟩ := bind_ok hsx
  obtain ⟨stmts, hstmts, hsx⟩ := bind_ok hsx
  obtain ⟨regs, hregs, hsx⟩ := bind_ok hsx
  obtain ⟨macros, hmacros, hsx⟩ := bind_ok hsx
  simp only [pure, Except.pure] at hsx
  cases hsx
  -- the statements of the body
  have hall : isLStmts stmts = true := by
    rw [hcb] at hbody
    simp only [visitStmt] at hbody
    obtain ⟨ss, hss, hbody⟩ := bind_ok hbody
    simp only [Bool.false_eq_true, if_false, pure, Except.pure] at hbody
    cases hbody
    simp only [tailOf, pure, Except.pure] at hstmts
    cases hstmts
    exact letStmts_shape bs _ htb hss
  unfold circuitSx
  intro e he
  refine build_total_let (rebuildCfg c) _ ?_ e he
  intro x hx
  simp only [List.mem_append, List.mem_map] at hx
  rcases hx with (((⟨u, _, rfl⟩ | ⟨v, hv, rfl⟩) | ⟨v, hv, rfl⟩) | hx) | hx
  · rfl
  · have := ht.constants v hv
    cases v <;> simp [isConst] at this
    rfl
  · -- a visited register
    obtain ⟨v0, hv0, hlv⟩ := mapM_ok hregs v hv
    have := (letVal_typed v0 (ht.registers v0 hv0)).2 v hlv
    cases v <;> first | rfl | (simp [OutT, RegL] at this)
  · -- a macro
    obtain ⟨m, hm, hlm⟩ := mapM_ok hmacros x hx
    unfold letMacro letStmt at hlm
    obtain ⟨b, hb, hlm⟩ := bind_ok hlm
    cases hlm
    have hbs := letStmt_shape m.body b (ht.macros m hm) hb
    unfold isLChild isLMacro macroSx
    simp [List.dropLast_concat, List.getLast?_concat, hbs, List.all_map, isStr]
  · exact isLStmt_child (isLStmts_mem hall x hx)

end Jaqal.Builder

#print axioms Jaqal.Builder.rebuild_total
