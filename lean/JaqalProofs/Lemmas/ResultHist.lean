import JaqalModel.Model.Result
/-! Lemmas about `histogram` / `bump` / `acceptAll` (core Lean only). -/
namespace Jaqal.Result

theorem histogram_length (len : Nat) (outs : List Nat) : (histogram len outs).length = len := by
  simp [histogram]

theorem histogram_getElem? (len : Nat) (outs : List Nat) (i : Nat) :
    (histogram len outs)[i]? = if i < len then some (outs.count i) else none := by
  unfold histogram
  rw [List.getElem?_map]
  by_cases h : i < len
  · rw [List.getElem?_range h, if_pos h]; rfl
  · rw [if_neg h, List.getElem?_eq_none (by simpa using h)]; rfl

theorem histogram_nil (len : Nat) : histogram len [] = List.replicate len 0 := by
  apply List.ext_getElem?
  intro i
  rw [histogram_getElem?, List.getElem?_replicate]
  simp

theorem bump_eq (l : List Nat) : ∀ i, bump l i = if i < l.length then some (l.modify i (· + 1)) else none := by
  induction l with
  | nil => intro i; simp [bump]
  | cons x xs ih =>
    intro i
    cases i with
    | zero => simp [bump]
    | succ i =>
      simp only [bump, ih, List.length_cons, Nat.add_lt_add_iff_right, List.modify_succ_cons]
      split <;> simp

theorem histogram_snoc {len o : Nat} (outs : List Nat) :
    (histogram len outs).modify o (· + 1) = histogram len (outs ++ [o]) := by
  apply List.ext_getElem?
  intro j
  rw [List.getElem?_modify, histogram_getElem?, histogram_getElem?]
  by_cases hj : j < len
  · simp only [hj, if_true, Option.map_eq_map, Option.map_some, List.count_append, List.count_singleton]
    by_cases hoj : o = j
    · subst hoj; simp
    · have : (o == j) = false := by simpa using hoj
      simp [hoj, this]
  · simp [hj]

theorem foldlM_bump (len : Nat) (outs : List Nat) : ∀ pre : List Nat,
    outs.foldlM bump (histogram len pre) =
      if ∀ o ∈ outs, o < len then some (histogram len (pre ++ outs)) else none := by
  induction outs with
  | nil => intro pre; simp
  | cons o outs ih =>
    intro pre
    rw [List.foldlM_cons, bump_eq, histogram_length]
    by_cases ho : o < len
    · rw [if_pos ho]
      simp only [Option.bind_eq_bind, Option.bind_some]
      rw [histogram_snoc pre, ih]
      simp [ho, List.append_assoc]
    · rw [if_neg ho]
      simp only [Option.bind_eq_bind, Option.bind_none]
      rw [if_neg]
      intro h; exact ho (h o (List.mem_cons_self ..))

theorem sum_map_add {α} (l : List α) (f g : α → Nat) :
    (l.map (fun x => f x + g x)).sum = (l.map f).sum + (l.map g).sum := by
  induction l with
  | nil => simp
  | cons a l ih => simp only [List.map_cons, List.sum_cons, ih]; omega

theorem sum_indicator (len a : Nat) :
    ((List.range len).map (fun i => if a = i then 1 else 0)).sum = if a < len then 1 else 0 := by
  induction len with
  | zero => simp
  | succ len ih =>
    rw [List.range_succ, List.map_append, List.sum_append, ih]
    simp only [List.map_cons, List.map_nil, List.sum_cons, List.sum_nil]
    by_cases h1 : a < len
    · have : a ≠ len := by omega
      simp [h1, this]; omega
    · by_cases h2 : a = len
      · subst h2; simp
      · simp [h1, h2]; omega

/-- the histogram counts exactly the in-range outcomes -/
theorem histogram_sum (len : Nat) (outs : List Nat) :
    (histogram len outs).sum = (outs.filter (· < len)).length := by
  induction outs with
  | nil => rw [histogram_nil]; simp
  | cons a outs ih =>
    have : histogram len (a :: outs) =
        (List.range len).map (fun i => outs.count i + (if a = i then 1 else 0)) := by
      unfold histogram
      apply List.map_congr_left
      intro i _
      rw [List.count_cons]
      simp
    rw [this, sum_map_add, sum_indicator]
    have ih' : ((List.range len).map (fun i => outs.count i)).sum = (outs.filter (· < len)).length := ih
    rw [ih', List.filter_cons]
    by_cases h : a < len <;> simp [h]

end Jaqal.Result
