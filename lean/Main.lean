import JaqalModel
/-! Line-protocol driver: one JSON object per line in, one per line out. -/
open Lean Jaqal

def opAsStr (j : Json) : R Json := do
  let k ← jnat (← jget j "k"); let n ← jnat (← jget j "n")
  pure (.str (Result.asStr k n))

def opOfStr (j : Json) : R Json := do
  let s ← jstr (← jget j "s")
  pure (jofOpt jofNat (Result.ofStr s))

def opViewKeys (j : Json) : R Json := do
  let k ← jnat (← jget j "k"); let len ← jnat (← jget j "len")
  pure (jofList Json.str (Result.viewKeys k len))

def opHistogram (j : Json) : R Json := do
  let len ← jnat (← jget j "len"); let outs ← jlist jnat (← jget j "outs")
  pure (jofList jofNat (Result.histogram len outs))

/-- ops contributed by the component files -/
def allOps : List (String × (Json → R Json)) :=
  Jaqal.Emulator.ops ++ Jaqal.NumText.ops ++ Jaqal.UnitTiming.ops ++ Jaqal.Walk.ops ++ Jaqal.Result.ops ++ Jaqal.ParserOps.ops ++ Jaqal.FrontEnds.ops ++ Jaqal.GateDef.ops ++ Jaqal.PassOps1.ops ++ Jaqal.UsedQubits.ops ++ Jaqal.Builder.ops ++ Jaqal.GenOps.ops ++ Jaqal.FillIn.ops ++ Jaqal.Pipeline.ops ++ Jaqal.Passes.ops ++ Jaqal.RunModel.ops ++ Jaqal.OutputList.ops ++ Jaqal.UnitTimingCircuit.ops

def opGrammarTable (_ : Json) : R Json :=
  pure (jofList (fun (p : String × List String) => Json.arr #[.str p.1, jofList Json.str p.2]) Jaqal.Grammar.productions)

def dispatch (op : String) (j : Json) : R Json :=
  match op with
  | "as_str" => opAsStr j
  | "of_str" => opOfStr j
  | "view_keys" => opViewKeys j
  | "histogram" => opHistogram j
  | "grammar_table" => opGrammarTable j
  | _ =>
    match allOps.lookup op with
    | some f => f j
    | none => .error s!"unknown op {op}"

def handleLine (line : String) : String :=
  match Json.parse line with
  | .error e => (jobj [("err", .str s!"bad json: {e}")]).compress
  | .ok j =>
    match (do let op ← jstr (← jget j "op"); dispatch op j) with
    | .ok out => (jobj [("out", out)]).compress
    | .error e => (jobj [("err", .str e)]).compress

partial def loop (h : IO.FS.Stream) (o : IO.FS.Stream) : IO Unit := do
  let line ← h.getLine
  if line.isEmpty then return ()
  let l := line.trimAscii.toString
  if !l.isEmpty then
    o.putStrLn (handleLine l)
  loop h o

def main : IO Unit := do
  let i ← IO.getStdin
  let o ← IO.getStdout
  loop i o
  o.flush
