import JaqalModel.Base.Json
import JaqalModel.Base.Num
import JaqalModel.Base.Sx
import JaqalModel.Model.Result
