#!/bin/sh
# MANIFEST.setup_cmd: regenerate the tables that are translated from /repo's source, then build the Lean development.
HERE="$(cd "$(dirname "$0")" && pwd)"
cd "$HERE" || exit 2
PYTHONPATH="$HERE" /venv/bin/python -W ignore -m harness.effects_scan --emit >/dev/null 2>&1
PYTHONPATH="$HERE" /venv/bin/python -W ignore -m harness.lexer_extract >/dev/null 2>&1
cd lean && lake build
