"""Open known finding of C05 (see known_findings.txt, id defaulted-stop-frozen): its witness, run on every
check, and the matcher that recognises exactly this failure shape among oracle failures."""
import re

WITNESS_TEXT = "let n 2\nregister r[6]\nmap a r[0:n]\nmap c a[1:]\nprepare_all\nX c[0]\nmeasure_all\n"
WITNESS_OV = {"n": 4}

_MAP = re.compile(r"^\s*map\s+(\S+)\s+([A-Za-z_][\w.]*)\s*(?:\[([^\]]*)\])?\s*;?\s*$")
_REG = re.compile(r"^\s*register\s+(\S+)\s*\[\s*([^\]\s]+)\s*\]")


def frozen_default_shape(text, override_names):
    """True iff the program has `map C A[k:]` / `A[:]` / `A[k::s]` (defaulted stop) where A is an ALIAS whose size
    depends on a let that the overrides change (through its own bounds, or through its source)."""
    ov = set(override_names)
    dependent = set()  # registers / aliases whose SIZE depends on an overridden let
    aliases = set()
    for line in re.split(r"[\n;]", text):
        m = _REG.match(line)
        if m:
            if m.group(2) in ov:
                dependent.add(m.group(1))
            continue
        m = _MAP.match(line)
        if not m:
            continue
        name, src, sl = m.group(1), m.group(2), m.group(3)
        aliases.add(name)
        if sl is None:
            if src in dependent:
                dependent.add(name)
            continue
        parts = [p.strip() for p in sl.split(":")]
        if len(parts) == 1:
            continue  # single qubit
        defaulted_stop = len(parts) >= 2 and parts[1] == ""
        if defaulted_stop and src in dependent and src in aliases:
            return True
        if any(p in ov for p in parts) or (defaulted_stop and src in dependent):
            dependent.add(name)
    return False


def matches_known(kf, fl):
    if not str(kf.get("id", "")).startswith("defaulted-stop-frozen"):
        return False
    if not str(fl.get("what", "")).startswith("meaning_under_overrides"):
        return False
    case = fl.get("case") or {}
    text = case.get("text")
    ovs = case.get("overrides") or case.get("override") or []
    names = [o[0] for o in ovs] if isinstance(ovs, list) else list(ovs)
    return bool(text) and frozen_default_shape(text, names)


def extra_run(ctx, res):
    """Run the witness of the open finding on the real code (prints KNOWN-FINDING through the normal path)."""
    from jaqalpaq.parser import parse_jaqal_string
    from jaqalpaq.core.algorithm import fill_in_let
    from . import gates, dump

    c = parse_jaqal_string(WITNESS_TEXT, inject_pulses=gates.GATES, autoload_pulses=False)
    filled = fill_in_let(c, WITNESS_OV)
    rewritten = fill_in_let(parse_jaqal_string(WITNESS_TEXT.replace("let n 2", "let n 4"), inject_pulses=gates.GATES, autoload_pulses=False))
    ok = [dump.val(r) for r in filled.registers.values()] == [dump.val(r) for r in rewritten.registers.values()]
    res.oracle_case(
        "meaning_under_overrides",
        ok,
        {"text": WITNESS_TEXT, "overrides": [["n", 4]], "witness_of": "defaulted-stop-frozen"},
        "alias c = a[1:] keeps the stop computed from the declared n (size 1) instead of following the override (size 3)",
    )
    if ok:
        res.notes.append("known finding defaulted-stop-frozen no longer reproduces")
