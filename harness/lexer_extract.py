#!/venv/bin/python
"""Extract the token rules of the loaded `JaqalLexer` into Lean.

    /venv/bin/python /verif/harness/lexer_extract.py [--out PATH] [--check]

Parses `JaqalLexer._master_re.pattern` (the regular expression sly compiled from the token rules: named
alternatives in rule order) with Python's own regular-expression parser (`re._parser`) and writes
`JaqalModel/Generated/LexerRules.lean`:

* `rules    : List (String × Re)`   -- (group name, regular expression) in rule order, over the AST of
                                       `JaqalModel/Spec/Regex.lean`
* `literals : List Char`            -- `JaqalLexer.literals`, sorted
* `ignore   : List Char`            -- `JaqalLexer.ignore`
* `keywords : List (String × String)` -- `JaqalLexer._remapping["IDENTIFIER"]`: identifier text -> token type
* `masterPattern : String`          -- the pattern text itself, for the record

`JaqalProofs/Lemmas/LexerRegex.lean` proves that the hand-written recognisers of `Model/Lexer.lean` compute
the backtracking match of exactly these rules, so a change of a token rule in `slyparse.py` changes the
generated file and breaks that proof (instead of having to be noticed by a comparison with a pinned copy).

API: `extract() -> dict`, `render(d) -> str`, `regenerate(path=DEFAULT_OUT) -> bool` (True if the file changed).
`--check` exits 1 if the file on disk differs from what would be generated.
"""
import argparse
import os
import re
import sys

DEFAULT_OUT = "/verif/lean/JaqalModel/Generated/LexerRules.lean"

_p = re._parser
_c = re._constants if hasattr(re, "_constants") else None
MAXREPEAT = _p.MAXREPEAT


class Unsupported(Exception):
    pass


def _lean_char(n):
    c = chr(n)
    if 32 < n < 127 and c not in "'\\":
        return f"'{c}'"
    return f"(Char.ofNat {n})"


def _lean_str(s):
    out = ['"']
    for ch in s:
        n = ord(ch)
        if ch == '"':
            out.append('\\"')
        elif ch == "\\":
            out.append("\\\\")
        elif ch == "\n":
            out.append("\\n")
        elif ch == "\t":
            out.append("\\t")
        elif 32 <= n < 127:
            out.append(ch)
        else:
            out.append("\\u{%x}" % n)
    out.append('"')
    return "".join(out)


def _cls(neg, items):
    parts = []
    for kind, v in items:
        if kind == "ch":
            parts.append(f".ch {_lean_char(v)}")
        else:
            parts.append(f".range {_lean_char(v[0])} {_lean_char(v[1])}")
    return f"(.cls {'true' if neg else 'false'} [{', '.join(parts)}])"


def _seq(parts):
    if not parts:
        raise Unsupported("empty sequence")
    out = parts[-1]
    for p in reversed(parts[:-1]):
        out = f"(.seq {p} {out})"
    return out


def _alt(parts):
    out = parts[-1]
    for p in reversed(parts[:-1]):
        out = f"(.alt {p} {out})"
    return out


def _item(op, av):
    name = str(op)
    if name == "LITERAL":
        return _cls(False, [("ch", av)])
    if name == "NOT_LITERAL":
        return _cls(True, [("ch", av)])
    if name == "IN":
        neg = False
        items = []
        for k, v in av:
            kn = str(k)
            if kn == "NEGATE":
                neg = True
            elif kn == "LITERAL":
                items.append(("ch", v))
            elif kn == "RANGE":
                items.append(("range", v))
            else:
                raise Unsupported(f"character class item {kn}")
        return _cls(neg, items)
    if name == "SUBPATTERN":
        group, add_flags, del_flags, sub = av
        if add_flags or del_flags:
            raise Unsupported("inline flags")
        return _sub(sub)
    if name == "BRANCH":
        return _alt([_sub(a) for a in av[1]])
    if name in ("MAX_REPEAT", "MIN_REPEAT"):
        lo, hi, sub = av
        body = _sub(sub)
        if name == "MAX_REPEAT":
            if (lo, hi) == (0, 1):
                return f"(.opt {body})"
            if (lo, hi) == (0, MAXREPEAT):
                return f"(.star {body})"
            if (lo, hi) == (1, MAXREPEAT):
                return f"(.plus {body})"
        elif (lo, hi) == (0, MAXREPEAT):
            return f"(.lazyStar {body})"
        raise Unsupported(f"repetition {name} {lo},{hi}")
    raise Unsupported(f"regular expression construct {name}")


def _sub(seq):
    return _seq([_item(op, av) for op, av in seq])


def extract():
    """The token rules of the loaded JaqalLexer."""
    from jaqalpaq.parser.slyparse import JaqalLexer

    pattern = JaqalLexer._master_re.pattern
    tree = _p.parse(pattern)
    names = {v: k for k, v in tree.state.groupdict.items()}
    items = list(tree)
    if len(items) != 1 or str(items[0][0]) != "BRANCH":
        raise Unsupported("the master pattern is not an alternation")
    rules = []
    for alt in items[0][1][1]:
        if len(alt) != 1 or str(alt[0][0]) != "SUBPATTERN" or alt[0][1][0] not in names:
            raise Unsupported("an alternative of the master pattern is not a named group")
        group, add_flags, del_flags, sub = alt[0][1]
        rules.append((names[group], _sub(sub)))
    remap = JaqalLexer._remapping
    if set(remap) - {"IDENTIFIER"}:
        raise Unsupported(f"token remapping for {sorted(remap)}")
    return {
        "pattern": pattern,
        "rules": rules,
        "literals": sorted(JaqalLexer.literals),
        "ignore": list(JaqalLexer.ignore),
        "keywords": list(remap.get("IDENTIFIER", {}).items()),
    }


def render(d):
    lines = [
        "import JaqalModel.Spec.Regex",
        "/-!",
        "GENERATED by `/verif/harness/lexer_extract.py` from the loaded `JaqalLexer` — do not edit.",
        "",
        "`rules` are the alternatives of `JaqalLexer._master_re.pattern` (the token rules, in rule order) parsed",
        "with Python's `re._parser`; `literals`, `ignore`, `keywords` are `JaqalLexer.literals`, `.ignore` and",
        "`._remapping[\"IDENTIFIER\"]`.",
        "-/",
        "namespace Jaqal.LexerRules",
        "open Jaqal.Regex",
        "",
        "def masterPattern : String :=",
        "  " + _lean_str(d["pattern"]),
        "",
        "def rules : List (String × Re) := [",
    ]
    lines += [f"  ({_lean_str(n)}, {r})" + ("," if i + 1 < len(d["rules"]) else "") for i, (n, r) in enumerate(d["rules"])]
    lines += [
        "]",
        "",
        "def literals : List Char := [" + ", ".join(_lean_char(ord(c)) for c in d["literals"]) + "]",
        "",
        "def ignore : List Char := [" + ", ".join(_lean_char(ord(c)) for c in d["ignore"]) + "]",
        "",
        "def keywords : List (String × String) := [",
    ]
    lines += [f"  ({_lean_str(k)}, {_lean_str(str(v))})" + ("," if i + 1 < len(d["keywords"]) else "") for i, (k, v) in enumerate(d["keywords"])]
    lines += ["]", "", "end Jaqal.LexerRules", ""]
    return "\n".join(lines)


def regenerate(path=DEFAULT_OUT):
    """Write the generated file if it differs; returns True when it changed (or did not exist)."""
    text = render(extract())
    old = open(path).read() if os.path.exists(path) else None
    if old == text:
        return False
    os.makedirs(os.path.dirname(path), exist_ok=True)
    with open(path, "w") as f:
        f.write(text)
    return True


def main():
    ap = argparse.ArgumentParser()
    ap.add_argument("--out", default=DEFAULT_OUT)
    ap.add_argument("--check", action="store_true", help="do not write; exit 1 if the file on disk is stale")
    args = ap.parse_args()
    if args.check:
        text = render(extract())
        old = open(args.out).read() if os.path.exists(args.out) else None
        print("up to date" if old == text else "STALE: " + args.out)
        sys.exit(0 if old == text else 1)
    print(("regenerated " if regenerate(args.out) else "unchanged ") + args.out)


if __name__ == "__main__":
    main()
