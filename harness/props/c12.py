"""C12 — only well-bracketed prepare/measure programs are executed."""
from ._generic import make, STD_TRUST

globals().update(
    make(
        pid="C12",
        props=["JaqalProofs/Props/C12.lean", "JaqalProofs/Props/C12Run.lean", "JaqalProofs/Props/C03End.lean"],
        targets=["JaqalProofs.Props.C12", "JaqalProofs.Props.C12Run", "JaqalProofs.Props.C03End"],
        diffs=[("harness.agents.walk_diff", 1500, 10000), ("harness.agents.c12_entry", 2500, 25000)],
        trusted=[
            STD_TRUST,
            "hand-written model JaqalModel/Model/Walk.lean of DiscoverSubcircuits (state current / subcircuits, the entry-trace check at loop exit) over a statement skeleton (gate = prepare | measure | other, block, loop); specification JaqalModel/Model/WalkSpec.lean (`Bracketed`: a left-to-right automaton over the flat token sequence that never looks at addresses)",
            "correspondence harness harness/agents/walk_diff.py: real DiscoverSubcircuits / run_jaqal_circuit on generated nestings; traces, error class compared exactly; direct oracle = an independent Python bracket checker written from the property text",
            "the used-qubit / parallel-disjointness half of DiscoverSubcircuits is C13; macros are expanded before discovery (C04)",
        ],
        assumptions=["'every gate lies between a prepare_all and the following measure_all' is read as 'a subcircuit is open at every ordinary gate' (a trailing open subcircuit is accepted and yields none), flat order includes the bodies of zero-count loops — DESIGN.md §7 C12"],
    )
)
