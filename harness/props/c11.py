"""C11 — analyses and transformations never modify their input circuit."""
import os

from ._generic import make, STD_TRUST
from .. import common


def tables(ctx, res):
    """Translator: regenerate JaqalModel/Generated/Effects.lean from the Python AST of /repo's current source."""
    from .. import effects_scan

    sites = effects_scan.scan()
    path = os.path.join(common.LEAN, "JaqalModel", "Generated", "Effects.lean")
    effects_scan.emit_lean(sites, path)
    unsafe = effects_scan.unsafe_sites(sites)
    res.extra["effects_table"] = {"sites": len(sites), "open_sites": len(unsafe)}
    for u in unsafe[:10]:
        res.notes.append("open mutation site: " + str(u))


globals().update(
    make(
        pid="C11",
        props=["JaqalProofs/Props/C11.lean"],
        targets=["JaqalProofs.Props.C11"],
        diffs=[("harness.agents.heap_history", 1500, 8000)],
        tables=tables,
        trusted=[
            STD_TRUST,
            "translator harness/effects_scan.py: every heap-mutation site of the anchored modules is extracted from the Python AST on every run into JaqalModel/Generated/Effects.lean with the provenance class of its receiver; the classification (fresh / self_init / own_state / self_ir / param / global / unknown) is a conservative SYNTACTIC analysis and is trusted; sites not safe by class must be listed in harness/effects_justified.json with the argument for why the receiver is not reachable from an input circuit",
            "heap model JaqalModel/Model/Heap.lean (objects with identity, alloc / write / list-append / dict-set / reads); theorems C11_frame, C11_history, C11_static are about this model; C11_sites_safe is `decide` over the regenerated table",
            "dynamic cross-check harness/agents/heap_history.py: deep structural snapshot (types, scalars, container lengths, id() of every container) of everything reachable from one shared circuit before and after every call of random call histories over the ten operations, and every result compared with the same call on a freshly parsed copy",
            "mutation inside C code (numpy) is invisible to the scanner",
        ],
        assumptions=[
            "this is the property where the theorem carries least: a frame lemma over an effect summary whose link to the Python is a syntactic scan; the history oracle carries the behavioural weight",
            "UsePulsesStatement._load caches the loaded gate table on a statement object reachable from circuit.usepulses; none of the C11 operations reaches it and the cache does not take part in equality, text or any pass (justified in effects_justified.json)",
        ],
    )
)
