"""C09 — subcircuit blocks mean prepare_all … measure_all."""
from ._generic import make, STD_TRUST
from ..extra_c09 import extra_run

globals().update(
    make(
        pid="C09",
        props=["JaqalProofs/Props/C09.lean", "JaqalProofs/Props/C09Exec.lean", "JaqalProofs/Props/C08Outputs.lean"],
        targets=["JaqalProofs.Props.C09", "JaqalProofs.Props.C09Exec", "JaqalProofs.Props.C08Outputs"],
        diffs=[("harness.agents.pass1_diff", 700, 6000), ("harness.agents.c09_scale", 100, 600), ("harness.agents.c09_combo", 600, 8000), ("harness.agents.outlist_diff", 1000, 8000, {"subcircuit_spelling_agrees", "one_readout_per_visit_in_order"}), ("harness.agents.c09_traps", 400, 5000)],
        extra_run=extra_run,
        trusted=[
            STD_TRUST,
            "hand-written model JaqalModel/Model/ExpandSubcircuits.lean (incl. _choose_bounding_gate and macro bodies); the execution half ('executed and reported exactly like prepare_all; B; measure_all') rests on C08/C12 (walker refinement to flat/unrolled order, which is insensitive to sequential-in-sequential nesting) and is checked directly on the real emulator and output parser by harness/extra_c09.py",
            "correspondence harness harness/agents/pass1_diff.py (whole dumps of the real expand_subcircuits, caller-supplied / named / native / default bounding gates)",
        ],
        assumptions=["the iteration count of a subcircuit block is an annotation for hardware and is dropped by the expansion (C09_shape_subcircuit states it)"],
    )
)
