"""C08 — execution terminates and yields one readout per subcircuit visit, in order."""
from ._generic import make, STD_TRUST
from ..extra_c08 import extra_run

globals().update(
    make(
        pid="C08",
        props=["JaqalProofs/Props/C08.lean", "JaqalProofs/Props/C08Run.lean", "JaqalProofs/Lemmas/WalkSerialize.lean", "JaqalProofs/Props/C08Outputs.lean", "JaqalProofs/Props/C03End.lean", "JaqalProofs/Props/C03EndFull.lean"],
        targets=["JaqalProofs.Props.C08", "JaqalProofs.Props.C08Run", "JaqalProofs.Lemmas.WalkSerialize", "JaqalProofs.Props.C08Outputs", "JaqalProofs.Props.C03End", "JaqalProofs.Props.C03EndFull"],
        diffs=[("harness.agents.walk_diff", 1500, 10000), ("harness.agents.outlist_diff", 1500, 12000, {"one_readout_per_visit_in_order", "too_few_outputs_rejected", "extra_outputs_ignored", "strings_and_ints_agree", "frequencies_count_own_readouts", "subcircuit_spelling_agrees", "bool_outputs_count_as_ints"}), ("harness.agents.c08_history", 600, 600), ("harness.agents.c08_edge", 1000, 600, {"edge_terminates", "edge_accepted", "edge_emulator_visits", "edge_output_list_visits", "edge_own_readouts", "edge_outcome_possible", "edge_scope_float_let", "edge_scope_macro_subcircuit"}), ("harness.agents.c08_scale", 250, 250), ("harness.agents.c08_traps", 400, 400, {"traps_terminates", "traps_accepted", "traps_emulator_visits", "traps_output_list_visits", "traps_own_readouts", "traps_outcome_possible", "traps_after_failure"})],
        extra_run=extra_run,
        trusted=[
            STD_TRUST,
            "hand-written model JaqalModel/Model/Walk.lean of TraceVisitor (fuel-indexed state machine over index / objective / address, with the zero-iteration skip) and TraceSerializer / Visitor.trace_statements; specification WalkSpec.lean (`unroll`, `execVisits`, `specVisits`, `segment`)",
            "correspondence harness harness/agents/walk_diff.py: visit order = [readout.subcircuit.index] of the real run_jaqal_circuit, serialised gates per trace of the real TraceSerializer; every real run under signal.alarm (a timeout is a failure)",
            "history stream harness/agents/c08_history.py: 2–7 calls of parse / fill_in_let / run_jaqal_circuit / parse_jaqal_output_list per case with SHARED argument objects (the same override dict reused and mutated by the caller between programs that share let names, the same circuit and output list objects), expected visits from an independent reference",
            "numpy.random.choice is an external oracle: it samples only outcomes with non-zero probability (checked per readout by the harness, not proved)",
        ],
        assumptions=[
            "a *visit* of subcircuit k is an execution, in the unrolled program, of the gate occurrence at which trace k starts (DESIGN.md §7 C08); a trace that starts inside a repeated loop and ends after it is visited once per iteration (observation, not a finding)",
            "Lean's termination checker accepting `visit` with the explicit fuel bound `fuelBound` is the termination argument for the model; the real code is run under an alarm",
        ],
    )
)
