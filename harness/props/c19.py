"""C19 — unit-timing normalisation preserves the lock-step schedule."""
from ._generic import make, STD_TRUST

globals().update(
    make(
        pid="C19",
        props=["JaqalProofs/Props/C19.lean", "JaqalProofs/Props/C19Circuit.lean", "JaqalProofs/Props/C19Parsed.lean", "JaqalProofs/Props/C19ParsedFull.lean"],
        targets=["JaqalProofs.Props.C19", "JaqalProofs.Props.C19Circuit", "JaqalProofs.Props.C19Parsed", "JaqalProofs.Props.C19ParsedFull"],
        diffs=[("harness.agents.time_diff", 1500, 20000), ("harness.agents.c19_edge", 3000, 10000), ("harness.agents.c19_scale", 600, 1500), ("harness.agents.c19_circuit_diff", 3000, 1500)],
        trusted=[
            STD_TRUST,
            "hand-written model JaqalModel/Model/UnitTiming.lean of BlockNormalizer / UnrollIterator / zip_longest chunking; specification JaqalModel/Spec/Schedule.lean (gate = 1 step, sequential = sum, parallel = max with a common start, loop = n back-to-back copies of its body)",
            "correspondence harness harness/agents/time_diff.py (real normalize_blocks_with_unitary_timing on parsed text, builder S-expressions and directly constructed objects; result bodies compared exactly)",
            "gate statements are abstracted to opaque identities (name + arguments are carried along unchanged by the pass)",
        ],
        assumptions=["macro bodies are not normalised by the pass (as its docstring says) and are outside the theorem"],
    )
)
