"""C05 — let substitution (with overrides) preserves meaning in the chosen environment."""
from ._generic import make, STD_TRUST
from ..extra_c05 import extra_run, matches_known

globals().update(
    make(
        pid="C05",
        props=["JaqalProofs/Props/C05.lean", "JaqalProofs/Props/ParsedC05.lean", "JaqalProofs/Props/C05Text.lean"],
        targets=["JaqalProofs.Props.C05", "JaqalProofs.Props.ParsedC05", "JaqalProofs.Props.C05Text"],
        diffs=[("harness.agents.pass2_diff", 700, 4000), ("harness.agents.c05_edge", 1500, 3000, {"no_constant_left", "value_exact", "frame_preserved", "meaning_expanded", "invalid_env_rejected", "valid_env_accepted", "emulated_rotation", "terminates"}), ("harness.agents.c05_scale", 120, 200, {"no_constant_left","value_exact","frame_preserved","meaning_expanded","invalid_env_rejected","valid_env_accepted","emulated_register","terminates"}), ("harness.agents.c05_traps", 800, 800)],
        extra_run=extra_run,
        known_matcher=matches_known,
        trusted=[
            STD_TRUST,
            "hand-written model JaqalModel/Model/FillIn.lean: LetFiller / RegisterVisitor as a visitor producing an S-expression with embedded objects, followed by the builder model (Model/Builder.lean) with the circuit's native gates injected and autoload off — the rebuild re-runs every constructor check on the substituted values",
            "C05_meaning is stated against JaqalModel/Spec/Sem.lean: the result under the empty environment means what the original means under the override environment (an integral-float override reads as the integer, as as_integer does)",
            "correspondence harness harness/agents/pass2_diff.py (whole dumps and error classes of the real fill_in_let with overrides: int, integral float, fractional float, shrinking / growing sizes, invalid indices, zero / negative sizes and steps); direct oracles incl. meaning_under_overrides (against the program text with its let lines rewritten) and meaning_vs_reference",
        ],
        assumptions=[
            "WellFormed c (plain sequential body, block invariants, well-kinded header lists) — what the builder produces",
            "C05_idempotent_full (a second fill_in_let returns the same circuit) is kept as a named proposition; it needs totality of the rebuild; checked on the model (fill_in_let_twice) and on the real code (oracle idempotent)",
        ],
    )
)
