"""C07 — identifiers resolve lexically; statement meaning ignores unrelated statements."""
from ._generic import make, STD_TRUST

globals().update(
    make(
        pid="C07",
        props=["JaqalProofs/Props/C07.lean"],
        targets=["JaqalProofs.Props.C07"],
        diffs=[("harness.agents.build_diff", 700, 6000), ("harness.agents.c07_entry", 100, 500), ("harness.agents.c07_edge", 800, 4000), ("harness.agents.c07_scale", 100, 300), ("harness.agents.c07_prebuilt", 100, 400), ("harness.agents.c07_traps", 500, 3000)],
        trusted=[
            STD_TRUST,
            "hand-written model JaqalModel/Model/Builder.lean of circuitbuilder.Builder (two namespaces, parameter shadowing, block-context markers, the gate memo table threaded as explicit state and keyed exactly as GateMemoizer._make_gate_memo_key does) and the constructors' checks; buildNoMemo is the same builder without the table",
            "C07_memo_transparent_parser proves build = buildNoMemo for every parser-shaped S-expression (header children before body children, which the grammar guarantees); for arbitrary hand-made S-expressions the statement is false (a usepulses after a gate statement with autoload on) and is kept as the named proposition C07_memo_transparent_full with its counterexample",
            "correspondence harness harness/agents/build_diff.py: real build / parse_jaqal_string on S-expressions of generated programs with every name-collision pattern, and the real builder with GateMemoizer.get patched to miss",
        ],
        assumptions=["the C07 quantifier is 'all programs' (texts); hand-made S-expressions with a pulse import after a body statement are outside it"],
    )
)
