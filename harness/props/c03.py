"""C03 — emulator state equals the ordered product of gate unitaries on |0..0>."""
from ._generic import make, STD_TRUST

globals().update(
    make(
        pid="C03",
        props=["JaqalProofs/Props/C03.lean", "JaqalProofs/Lemmas/WalkSerialize.lean", "JaqalProofs/Props/C03Unitary.lean", "JaqalProofs/Props/C03Run.lean", "JaqalProofs/Props/C03End.lean"],
        targets=["JaqalProofs.Props.C03", "JaqalProofs.Lemmas.WalkSerialize", "JaqalProofs.Props.C03Unitary", "JaqalProofs.Props.C03Run", "JaqalProofs.Props.C03End"],
        diffs=[("harness.agents.emu_diff", 400, 4000), ("harness.agents.walk_diff", 600, 6000), ("harness.agents.c03_gatesets", 400, 2500), ("harness.agents.c03_edge", 2000, 20000), ("harness.agents.c03_scale", 120, 300), ("harness.agents.c03_combo", 250, 8000), ("harness.agents.c03_traps", 600, 6000)],
        trusted=[
            STD_TRUST,
            "hand-written model JaqalModel/Model/Emulator.lean: the loop nest of UnitarySerializedEmulator._make_subcircuit transcribed step for step (rowMask / colIndex / applyGate / runGates), executable over Gaussian dyadic numbers",
            "correspondence harness harness/agents/emu_diff.py: real circuits through the real UnitarySerializedEmulator, state vectors compared exactly (the injected gate matrices are Gaussian dyadic, so IEEE arithmetic is exact)",
            "the serialisation of a trace into a gate list (TraceSerializer) is modelled in Model/Walk.lean and proved in Props/C08.lean / C12.lean; the pipeline passes in C04/C05/C06/C09",
            "numpy elementwise complex arithmetic is IEEE; rounding for non-dyadic matrices (general rotation angles) is NOT modelled",
        ],
        assumptions=[
            "theorems are stated for lists of distinct, in-range qubit indices (C03 quantifies over tuples of distinct qubits); the emulator itself does not reject repeated qubit arguments",
            "IEEE rounding for non-dyadic gate matrices is runtime behaviour outside the model",
        ],
    )
)
