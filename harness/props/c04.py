"""C04 — macro expansion preserves the meaning of the program."""
from ._generic import make, STD_TRUST

globals().update(
    make(
        pid="C04",
        props=["JaqalProofs/Props/C04.lean", "JaqalProofs/Props/ParsedC04.lean"],
        targets=["JaqalProofs.Props.C04", "JaqalProofs.Props.ParsedC04"],
        diffs=[("harness.agents.pass1_diff", 700, 6000), ("harness.agents.c04_entry", 60, 60), ("harness.agents.c04_scale", 20, 20), ("harness.agents.c04_traps", 400, 400)],
        trusted=[
            STD_TRUST,
            "hand-written model JaqalModel/Model/ExpandMacros.lean of MacroExpander / replace_gate / GateReplacer on the by-value IR (JaqalModel/Model/Ir.lean); specification of gate-level meaning JaqalModel/Spec/Sem.lean (registers denote lists of fundamental qubits, macro calls by substitution, same-kind nested blocks spliced), written independently of the library's resolution and expansion code",
            "correspondence harness harness/agents/pass1_diff.py: whole-circuit dumps of the real expand_macros compared exactly; the specification itself is validated against an 'implementation meaning' computed from the real objects after expand_macros(fill_in_let(c, overrides)); direct oracles incl. an independent Python reference interpreter (C04_meaning_ref)",
            "CPython's recursion limit is not modelled (fuel = number of macros is exact for the acyclic macro tables the builder produces)",
        ],
        assumptions=[
            "C04_meaning is stated for WellFormed circuits (an explicit decidable predicate: what the builder guarantees — macros call earlier macros only, argument names = parameter names, …); the builder refuses later-defined or recursive macro names",
            "a wrong-arity call is always rejected; the class is JaqalError unless an earlier-expanded statement fails first (C04_arity / C04_arity_call / C04_arity_first)",
        ],
    )
)
