"""C01 — generated Jaqal text parses back to the same circuit (round trip)."""
from ._generic import make, STD_TRUST

globals().update(
    make(
        pid="C01",
        props=["JaqalProofs/Props/C01.lean", "JaqalProofs/Props/C01Literals.lean"],
        targets=["JaqalProofs.Props.C01", "JaqalProofs.Props.C01Literals"],
        diffs=[("harness.agents.c01_diff", 350, 700), ("harness.agents.num_diff", 1500, 3000)],
        trusted=[
            STD_TRUST,
            "composition of the component models: Lexer/Parser (C02), Builder (C07/C14), Generator and PyEq (C20), NumText (number literals) in JaqalModel/Model/Pipeline.lean (`parseProgram`, `roundTrip`, and the token-level generator `toks` / `unbuild`)",
            "proved: the literal layer completely (C01Literals: every canonical decimal and every integer is written so that the lexer reads the same value back as exactly one token, byte-stable); layer A (C01_tokens_derive: the generator's tokens derive, in the grammar, the statement tree unbuild c, for every printable circuit — hence parsed back by C02_complete); C01_printable / C01_no_same_kind_nesting / C01_wf for every circuit parse_jaqal_string returns, in any statement order; layer C (C01_rebuild_canonical: the builder maps unbuild c back to EXACTLY c) for programs whose statements come in the generator's order — every generated text is such a program; layer B (C01_lex_gen: lexing the generated text gives those tokens) for every printable LexSafe circuit; the composition C01_roundtrip_canonical",
            "kept as named propositions in Props/C01.lean, each with the missing lemma named: C01_reorder_full (hoisting lets / the register / aliases / macros of an accepted program into the generator's order does not change what the builder makes — needs acyclicity of the macro table for nestingCheck), C01_lexsafe_full (every parser-produced circuit is LexSafe — false for integer literals beyond CPython's 4300-digit limit, where the real code fails earlier), and C01_roundtrip_full / C01_rebuild_full / C01_lex_gen_full, which follow from those two by proved implications (C01_roundtrip_partial); all layer statements are evaluated in the model on every generated program (driver op round_trip_layers, incl. Cexact) next to the round trip of the real code",
            "floats are modelled by their exact decimal value (DESIGN.md §3.3): literals with ≤ 15 significant digits in the normal range; integral floats ≥ 2^53 become ints through the exact binary value and are sent through the direct oracles only",
        ],
        assumptions=["the model takes autoload_pulses = False with injected or no native gates; pulse imports are outside the round-trip model (C14_precedence covers gate-table precedence)"],
    )
)
