"""C01 — generated Jaqal text parses back to the same circuit (round trip)."""
from ._generic import make, STD_TRUST
from ..extra_c01 import extra_run, matches_known

globals().update(
    make(
        pid="C01",
        props=["JaqalProofs/Props/C01.lean", "JaqalProofs/Props/C01Literals.lean", "JaqalProofs/Props/C01Autoload.lean", "JaqalProofs/Props/C01Builder.lean"],
        targets=["JaqalProofs.Props.C01", "JaqalProofs.Props.C01Literals", "JaqalProofs.Props.C01Autoload", "JaqalProofs.Props.C01Builder"],
        diffs=[("harness.agents.c01_diff", 350, 700), ("harness.agents.num_diff", 1500, 3000)],
        extra_run=extra_run,
        known_matcher=matches_known,
        trusted=[
            STD_TRUST,
            "composition of the component models: Lexer/Parser (C02), Builder (C07/C14), Generator and PyEq (C20), NumText (number literals) in JaqalModel/Model/Pipeline.lean (`parseProgram`, `roundTrip`, and the token-level generator `toks` / `unbuild`)",
            "proved (Props/C01.lean): C01_roundtrip_bounded — the whole round trip for every accepted text in any statement order under the decidable hypothesis IntsBounded (no integer of more than 4300 digits is written); layers A (C01_tokens_derive), B (C01_lex_gen_bounded, C01_lexsafe_iff), C (C01_reorder, C01_rebuild_exact); the literal layer completely (C01Literals); C01_big_stop: the hypothesis cannot be dropped (open known finding int-beyond-str-limit, witness in harness/extra_c01.py)",
            "all layer statements are also evaluated in the model on every generated program (driver op round_trip_layers, incl. exact rebuild) next to the round trip of the real code, in random statement orders and after every pass",
            "floats are modelled by their exact decimal value (DESIGN.md §3.3): literals with ≤ 15 significant digits in the normal range; integral floats ≥ 2^53 become ints through the exact binary value and are sent through the direct oracles only",
        ],
        assumptions=["the model takes autoload_pulses = False with injected or no native gates; pulse imports are outside the round-trip model (C14_precedence covers gate-table precedence)"],
    )
)
