"""C01 — generated Jaqal text parses back to the same circuit (round trip)."""
from ._generic import make, STD_TRUST

globals().update(
    make(
        pid="C01",
        props=["JaqalProofs/Props/C01.lean", "JaqalProofs/Props/C01Literals.lean"],
        targets=["JaqalProofs.Props.C01", "JaqalProofs.Props.C01Literals"],
        diffs=[("harness.agents.c01_diff", 350, 700), ("harness.agents.num_diff", 1500, 3000)],
        trusted=[
            STD_TRUST,
            "composition of the component models: Lexer/Parser (C02), Builder (C07/C14), Generator and PyEq (C20), NumText (number literals) in JaqalModel/Model/Pipeline.lean (`parseProgram`, `roundTrip`, and the token-level generator `toks` / `unbuild`)",
            "proved: the literal layer completely (C01Literals: every canonical decimal and every integer is written so that the lexer reads the same value back as exactly one token, byte-stable), the token layer (C01_tokens_derive: the token stream of the generated text is derivable to the S-expression the parser must return, hence by C02_complete the parser accepts it with exactly that tree), the composition C01_compose / C01_roundtrip_partial, C01_meaning (via C20_sound)",
            "kept as named propositions with the missing lemma named in Props/C01.lean: C01_printable_full (every slot of a parser-built circuit has a spelling), C01_lex_gen_full (text layer: lexing the generated text gives exactly `toks c`), C01_rebuild_full (builder layer: rebuilding the un-built S-expression gives an == circuit) — each is exercised on every generated program by the executable `round_trip_layers` operation and by the direct oracles reparse_equal / text_fixpoint / same_meaning / nothing_lost / after_passes / builder_api on the real code",
            "floats are modelled by their exact decimal value (DESIGN.md §3.3): literals with ≤ 15 significant digits in the normal range; integral floats ≥ 2^53 become ints through the exact binary value and are sent through the direct oracles only",
        ],
        assumptions=["the model takes autoload_pulses = False with injected or no native gates; pulse imports are outside the round-trip model (C14_precedence covers gate-table precedence)"],
    )
)
