"""C20 — circuit equality is an equivalence consistent with meaning and text."""
from ._generic import make, STD_TRUST

globals().update(
    make(
        pid="C20",
        props=["JaqalProofs/Props/C20.lean", "JaqalProofs/Props/C20Autoload.lean"],
        targets=["JaqalProofs.Props.C20", "JaqalProofs.Props.C20Autoload"],
        diffs=[
            ("harness.agents.gen_diff", 2500, 20000),
            # circuit-level oracles only: C20 speaks about circuits; node-level comparisons across classes are measured, not judged
            ("harness.agents.c20_pairs", 3000, 20000, {"eq_never_raises", "eq_symmetric", "eq_reflexive", "equal_pair_has_same_declarations_and_meaning",
                                                     "declaration_change_is_unequal", "meaning_change_is_unequal",
                                                     "different_declarations_or_meaning_different_text", "reparse_equal"}), ("harness.agents.c20_edge", 3000, 25000), ("harness.agents.c20_scale", 1600, 8000)
        ],
        trusted=[
            STD_TRUST,
            "hand-written models JaqalModel/Model/PyEq.lean (every __eq__ of jaqalpaq.core transcribed: reflected-operand fallback, and-short-circuit, zip_longest padding, dict equality as key set + per-key equality, the fundamental/alias branch of Register.__eq__) and Model/Generator.lean (generate_jaqal_program byte for byte)",
            "C20_sound is proved for ParserLike circuits (distinct dictionary keys; every qubit's source is the register value held in the circuit's own dictionary or the macro parameter of that name) listing their macros in the same order — what the builder guarantees; its meaning conclusion is stated against JaqalModel/Spec/Sem.lean with numbers compared by value",
            "correspondence harness harness/agents/gen_diff.py: real == in both argument orders on parsed programs, circuits after passes, builder-API circuits with two fundamental registers, constructor-built objects, and every program against each of its single-token mutants (25 mutation kinds); generated text compared byte for byte",
        ],
        assumptions=[
            "NaN is outside the decimal model (GateStatement.__eq__ has a NaN rule; finite numbers only)",
            "'a circuit equals the re-parse of its own generated text' is the C01 round trip; here it is the direct oracle reparse_equal / generated_text_fixpoint",
        ],
    )
)
