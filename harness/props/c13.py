"""C13 — used-qubit analysis is exact; overlapping parallel branches are rejected."""
from ._generic import make, STD_TRUST

globals().update(
    make(
        pid="C13",
        props=["JaqalProofs/Props/C13.lean", "JaqalProofs/Props/C13Exact.lean", "JaqalProofs/Props/C13Run.lean", "JaqalProofs/Props/C13End.lean", "JaqalProofs/Props/C13EndFull.lean"],
        targets=["JaqalProofs.Props.C13", "JaqalProofs.Props.C13Exact", "JaqalProofs.Props.C13Run", "JaqalProofs.Props.C13End", "JaqalProofs.Props.C13EndFull"],
        diffs=[("harness.agents.used_diff", 700, 5000), ("harness.agents.c13_history", 500, 6000), ("harness.agents.c13_edge", 300, 5000), ("harness.agents.c13_combo", 250, 2000), ("harness.agents.c13_traps", 500, 3000)],
        trusted=[
            STD_TRUST,
            "hand-written model JaqalModel/Model/UsedQubits.lean of UsedQubitIndicesVisitor (macro arguments evaluated in the caller's context, busy = all qubits, idle = none, registers expanded through Resolve) and of the disjoint merges DiscoverSubcircuits adds (parallel branches; a gate's own arguments)",
            "C13_exact is proved against the inductive relation `Acts` (what the visitor's walk reaches: blocks, loops, macro calls with bound arguments, leaves by parameter kind); the statement against the meaning specification (C13_exact_full) is kept as a named proposition with C13_exact_partial isolating the missing bridge (resolveQubit = Sem.evalQubit, C06) — covered by the direct oracle used_exact_pipeline on the real code",
            "C13_order_state cites C03_interleave: disjoint used sets give the independence hypothesis under which any interleaving of branches yields the same state",
            "correspondence harness harness/agents/used_diff.py (real get_used_qubit_indices on circuits and sub-statements, real DiscoverSubcircuits rejection, real emulator state vectors across branch permutations, exact)",
        ],
        assumptions=["branch-permutation theorems cover parallel blocks of the circuit body; parallel blocks inside macro bodies are exercised by the oracles only"],
    )
)
