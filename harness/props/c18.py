"""C18 — gate definitions check calls; idle and stretched variants act as specified."""
from ._generic import make, STD_TRUST

globals().update(
    make(
        pid="C18",
        props=["JaqalProofs/Props/C18.lean"],
        targets=["JaqalProofs.Props.C18"],
        diffs=[("harness.agents.gdef_diff", 1000, 3000), ("harness.agents.c18_scale", 100, 100)],
        trusted=[
            STD_TRUST,
            "hand-written model JaqalModel/Model/GateDef.lean of Parameter.validate, AbstractGate.call (positional / keyword / mixed, OrderedDict semantics), add_idle_gates, stretched_gates (dict iteration order, the wrapper's binding of its parent's unitary) and the emulator's argument split; C18_fits_table proves `fits` equal to an independently written specification table for EVERY value, not a sample",
            "correspondence harness harness/agents/gdef_diff.py: every kind × value class × positional/keyword/mixed × arity against the real classes; add_idle_gates / stretched_gates on random gate sets with marker unitaries; the real emulator on programs with idle and stretched gates",
            "non-finite floats (nan, inf) are outside the decimal model and are checked on the real code only",
        ],
        assumptions=["a repeated keyword in a call is a TypeError at the Python call site before AbstractGate.call runs; the model's keyword calls assume distinct keywords"],
    )
)
