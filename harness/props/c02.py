"""C02 — the parser accepts exactly the Jaqal grammar and is insensitive to layout."""
import json
import os

from ._generic import make, STD_TRUST
from .. import common


def regen(ctx, res):
    """Translator (runs before `lake build`): regenerate JaqalModel/Generated/LexerRules.lean — the token rules, literals,
    ignore set and keyword table as a regex AST — from the master pattern of the LOADED JaqalLexer. `C02_regex`
    (Lemmas/LexerRegex.lean) proves the hand-written tokenizer of the model equal to a generic regex matcher run on that
    table, so a changed token rule makes the proof obligation fail to build."""
    from .. import lexer_extract

    changed = lexer_extract.regenerate()
    res.extra["lexer_rules_regenerated"] = bool(changed)


def tables(ctx, res):
    """Regenerate the grammar table from the LOADED JaqalParser and compare with the table the
    theorems were written against; also sly's conflict counts (sly resolves conflicts silently)."""
    from jaqalpaq.parser.slyparse import JaqalParser, JaqalLexer

    prods = [(p.name, [str(s) for s in p.prod]) for p in JaqalParser._grammar.Productions]
    lr = JaqalParser._lrtable
    conflicts = (len(lr.sr_conflicts), len(lr.rr_conflicts))
    pinned = []
    if ctx.driver:
        r = ctx.driver.batch([{"op": "grammar_table"}])[0]
        if r[0] == "out":
            pinned = [(a, list(b)) for a, b in r[1]]
    res.extra["grammar_table"] = {"productions_now": len(prods), "productions_pinned": len(pinned), "sr_rr_conflicts": list(conflicts)}
    if conflicts != (0, 0):
        res.broken.append(("table", "sly-conflicts", f"sly reports {conflicts} shift/reduce, reduce/reduce conflicts (resolved silently)"))
    def canon(ps):
        """rename nonterminals by order of first appearance as a left-hand side: a renamed rule is not a changed grammar"""
        names = {}
        for lhs, _ in ps:
            names.setdefault(lhs, f"N{len(names)}")
        return [(names[l], [names.get(x, x) for x in r]) for l, r in ps]

    prods, pinned = canon(prods), canon(pinned)
    if [(a, b) for a, b in prods] != pinned:
        diff = [p for p in prods if p not in pinned][:5] + [p for p in pinned if p not in prods][:5]
        res.broken.append(("table", "grammar-productions", "the productions of the loaded JaqalParser differ from JaqalModel/Spec/GrammarTable.lean: " + json.dumps(diff)))
    toks = {"master_re": JaqalLexer._master_re.pattern, "remapping": {k: dict(v) for k, v in JaqalLexer._remapping.items()}, "literals": sorted(JaqalLexer.literals), "ignore": JaqalLexer.ignore}
    pin = os.path.join(common.ROOT, "harness", "pinned_lexer.json")
    if os.path.exists(pin):
        old = json.load(open(pin))
        if old != toks:
            changed = [k for k in toks if toks[k] != old.get(k)]
            res.broken.append(("table", "lexer-rules", f"token rules of the loaded JaqalLexer differ from harness/pinned_lexer.json in {changed}"))
    else:
        res.notes.append("pinned_lexer.json missing")


globals().update(
    make(
        pid="C02",
        props=["JaqalProofs/Props/C02.lean", "JaqalProofs/Lemmas/LexerRegex.lean"],
        targets=["JaqalProofs.Props.C02", "JaqalProofs.Lemmas.LexerRegex"],
        diffs=[("harness.agents.parse_diff", 800, 8000), ("harness.agents.c02_entry", 150, 1200), ("harness.agents.c02_edge", 1200, 4000)],
        extra_run=tables,
        tables=regen,
        trusted=[
            STD_TRUST,
            "hand-written models JaqalModel/Model/Lexer.lean (sly's ordered-alternation lexer) and Model/Parser.lean (recursive descent returning sly's S-expressions and error positions); specification JaqalModel/Spec/Grammar.lean (inductive derivation relation written from the language description, does not import the parser)",
            "regenerated tie: the 88 productions and the token rules are read from the loaded JaqalParser/JaqalLexer classes on every run and compared with the pinned tables; sly's shift/reduce and reduce/reduce conflict counts must be 0 (with none, sly's LALR automaton accepts exactly the CFG — sly itself is trusted)",
            "correspondence harness harness/agents/parse_diff.py: grammar-directed programs with random layout, single-token mutants, character mutants, noise; acceptance, S-expression and (line, column) compared exactly with parse_to_sexpression / JaqalLexer.tokenize",
            "Python `re` semantics for the token patterns (cross-checked by the lex correspondence)",
        ],
        assumptions=[
            "error position: for syntax errors the first token at which the consumed prefix stops being viable; for errors raised by grammar actions (header after body, register size, import) the first token of the offending statement — DESIGN.md §7 C02",
            "C02_error_pos is proved as C02_error_pos_partial (the position is a token start of the text, an illegal character, or EOF); the viability half and the text-level layout statement are kept as named propositions (C02_error_pos_full, C02_layout_full), not proved; both are covered by direct oracles on the real code (reject_position, relayout_same_sexpr)",
        ],
    )
)
