"""C15 — result views are normalised and mutually consistent (little-endian)."""
import warnings
import numpy

from jaqalpaq.core.result import (
    Readout,
    RelativeFrequencySubcircuit,
    ProbabilisticSubcircuit,
    ReadoutSubcircuit,
    parse_jaqal_output_list,
)
from jaqalpaq.core.algorithm.walkers import Trace
from jaqalpaq.parser import parse_jaqal_string

from .. import gates

PROPS_FILES = ["JaqalProofs/Props/C15.lean", "JaqalProofs/Props/C03Unitary.lean", "JaqalProofs/Props/C08Outputs.lean"]
LAKE_TARGETS = ["JaqalProofs.Props.C15", "JaqalProofs.Props.C03Unitary", "JaqalProofs.Props.C08Outputs"]
TRUSTED = [
    "Lean 4.33 kernel; axioms of each theorem ⊆ {propext, Classical.choice, Quot.sound}",
    "hand-written model JaqalModel/Model/Result.lean of Readout.as_str, OutputParser string decoding, *_by_str views, accept_readout, ProbabilisticSubcircuit normalisation (over exact rationals)",
    "correspondence harness harness/props/c15.py (runs the real classes of jaqalpaq.core.result in-process)",
    "CPython int/str formatting (f'{n:b}', zfill, int(s,2)); numpy clip/sum/divide are IEEE: exact on the dyadic inputs the harness uses, otherwise compared with tolerance 1e-12 (rounding not modelled)",
]
ASSUMPTIONS = [
    "probabilities are modelled over exact rationals; float rounding in the renormalisation (sum = 1 only to ~1 ulp) is runtime behaviour outside the model",
]


class _FakeSub:
    def __init__(self, k):
        self.measured_qubits = list(range(k))
        self.index = 0


def _trace(k):
    return Trace([0], [1], used_qubits=list(range(k)))


def oracle_readout(k, n):
    """Direct oracle on the real Readout: string form has k chars, char i = bit i, round trip."""
    r = Readout(n, 0)
    r._subcircuit = _FakeSub(k)
    s = r.as_str
    if len(s) != k:
        return False, f"len(as_str)={len(s)} != {k}"
    for i, c in enumerate(s):
        if c != "01"[(n >> i) & 1]:
            return False, f"char {i} of {s!r} is not bit {i} of {n}"
    if int(s[::-1], 2) != n or r.as_int != n:
        return False, "round trip"
    return True, None


def impl_views(k):
    rf = numpy.arange(2**k, dtype=float)
    sc = RelativeFrequencySubcircuit(_trace(k), 0, relative_frequencies=rf)
    d = sc.relative_frequency_by_str
    return list(d.keys()), [float(v) for v in d.values()], [float(v) for v in sc.relative_frequency_by_int]


def custom_run(ctx, res):
    rng = ctx.rng
    drv = ctx.driver
    kmax_exh = ctx.n(7, 11)
    # ---------------- correspondence: as_str / of_str on every (k, n), exhaustive up to kmax_exh
    reqs, meta = [], []
    for k in range(1, kmax_exh + 1):
        for n in range(2**k):
            reqs.append({"op": "as_str", "k": k, "n": n})
            meta.append((k, n))
    # sampled larger sizes and out-of-range values (the code does not guard n >= 2^k)
    for _ in range(ctx.n(300, 3000)):
        k = rng.randint(1, 40)
        n = rng.randrange(2 ** (k + rng.choice([0, 0, 0, 1, 2])))
        reqs.append({"op": "as_str", "k": k, "n": n})
        meta.append((k, n))
    if drv:
        outs = drv.batch(reqs)
    else:
        outs = [None] * len(reqs)
    back = []
    for (k, n), o in zip(meta, outs):
        r = Readout(n, 0)
        r._subcircuit = _FakeSub(k)
        impl = r.as_str
        res.count(f"as_str k={'<=6' if k<=6 else '7-11' if k<=11 else '>11'} {'in-range' if n < 2**k else 'overflow'}")
        if o is not None:
            res.case("as_str", {"k": k, "n": n}, nontrivial=(n > 0))
            if o != ("out", impl):
                res.disagree("as_str", {"k": k, "n": n}, o, impl)
        if n < 2**k:
            ok, why = oracle_readout(k, n)
            res.oracle_case("readout_views", ok, {"k": k, "n": n}, why, nontrivial=(n > 0))
        back.append(impl)
    # of_str: strings the hardware could send (and some malformed ones)
    reqs2, meta2 = [], []
    for s in back[:: max(1, len(back) // ctx.n(800, 6000))]:
        reqs2.append({"op": "of_str", "s": s})
        meta2.append(s)
    for _ in range(ctx.n(100, 1000)):
        s = "".join(rng.choice("01") for _ in range(rng.randint(1, 30)))
        reqs2.append({"op": "of_str", "s": s})
        meta2.append(s)
    for s in ["", "2", "01a", "1 ", "x"]:
        reqs2.append({"op": "of_str", "s": s})
        meta2.append(s)
    outs2 = drv.batch(reqs2) if drv else []
    for s, o in zip(meta2, outs2):
        try:
            impl = str(int(s[::-1], 2))
        except ValueError:
            impl = None
        if s.strip() != s or "_" in s:
            continue
        res.case("of_str", {"s": s})
        if o != ("out", impl):
            res.disagree("of_str", {"s": s}, o, impl)
    # views
    reqs3 = [{"op": "view_keys", "k": k, "len": 2**k} for k in range(1, ctx.n(9, 13))]
    outs3 = drv.batch(reqs3) if drv else [None] * len(reqs3)
    for rq, o in zip(reqs3, outs3):
        k = rq["k"]
        keys, vals, byint = impl_views(k)
        if o is not None:
            res.case("view_keys", {"k": k})
            if o != ("out", keys):
                res.disagree("view_keys", {"k": k}, "(keys differ)", keys[:8])
        ok = (
            len(keys) == 2**k
            and len(set(keys)) == 2**k
            and all(len(s) == k for s in keys)
            and all(int(s[::-1], 2) == i for i, s in enumerate(keys))
            and vals == byint
        )
        res.oracle_case("views_enumerate", ok, {"k": k}, "by_str view is not each outcome once in integer order")
    # histogram / relative frequencies through the real OutputParser, strings and ints interpreted identically
    G = gates.GATES
    hist_reqs = []
    for t in range(ctx.n(60, 600)):
        k = rng.randint(1, 5)
        nsub = rng.randint(1, 3)
        reps = rng.randint(1, 4)
        body = "".join("prepare_all\nmeasure_all\n" for _ in range(nsub))
        text = f"register r[{k}]\nloop {reps} {{\n{body}}}\n"
        circ = parse_jaqal_string(text, inject_pulses=G, autoload_pulses=False)
        total = nsub * reps
        ints = [rng.randrange(2**k) for _ in range(total)]
        strs = [format(n, "b").zfill(k)[::-1] for n in ints]
        mixed = [s if rng.random() < 0.5 else n for s, n in zip(strs, ints)]
        case = {"k": k, "nsub": nsub, "reps": reps, "outs": ints}
        r_int = parse_jaqal_output_list(circ, ints)
        r_str = parse_jaqal_output_list(circ, strs)
        r_mix = parse_jaqal_output_list(circ, mixed)
        ok = True
        why = None
        for r in (r_int, r_str, r_mix):
            if [ro.as_int for ro in r.readouts] != ints or [ro.as_str for ro in r.readouts] != strs:
                ok, why = False, "string and integer outputs are not interpreted identically"
            for si, sc in enumerate(r.subcircuits):
                own = [ro.as_int for ro in sc.readouts]
                exp = [ints[j] for j in range(total) if j % nsub == si]
                hist = [own.count(i) for i in range(2**k)]
                if own != exp or [int(v) for v in sc.relative_frequency_by_int] != hist:
                    ok, why = False, "relative frequencies are not the counts of the subcircuit's own readouts"
                if list(sc.relative_frequency_by_str.keys()) != [format(n, "b").zfill(k)[::-1] for n in range(2**k)]:
                    ok, why = False, "by_str keys"
        res.oracle_case("outputs_str_int_hist", ok, case, why)
        if drv and t < ctx.n(40, 300):
            own0 = [ints[j] for j in range(total) if j % nsub == 0]
            impl = [str(int(v)) for v in r_int.subcircuits[0].relative_frequency_by_int]
            hist_reqs.append(({"op": "histogram", "len": 2**k, "outs": own0}, impl))
    if drv and hist_reqs:
        for (rq, impl), o in zip(hist_reqs, drv.batch([r for r, _ in hist_reqs])):
            res.case("histogram", {"len": rq["len"], "outs": rq["outs"]})
            if o != ("out", impl):
                res.disagree("histogram", {"len": rq["len"], "outs": rq["outs"]}, o, impl)
    # probabilities: non-negative, sum to one (tolerance: float rounding is outside the model)
    for t in range(ctx.n(100, 1500)):
        k = rng.randint(1, 6)
        raw = numpy.array([rng.random() for _ in range(2**k)])
        p = raw / raw.sum()
        # perturb within the warn band
        p = p * (1 + rng.choice([0, 1e-15, -1e-15, 1e-14]))
        with warnings.catch_warnings():
            warnings.simplefilter("ignore")
            try:
                sc = ProbabilisticSubcircuit(_trace(k), 0, probabilities=p.copy())
            except RuntimeError:
                res.oracle_case("probabilities_normalised", True, None)
                continue
        q = sc.probability_by_int
        ok = bool((q >= 0).all() and abs(q.sum() - 1) < 1e-12 and list(sc.probability_by_str.values()) == list(q))
        res.oracle_case("probabilities_normalised", ok, {"k": k, "p": [float(x) for x in p[:4]]}, "probabilities not normalised / views differ")
    _normalize_corr(ctx, res)


def _normalize_corr(ctx, res):
    """normalisation, exact: dyadic inputs so numpy arithmetic is exact where it matters."""
    drv = ctx.driver
    if not drv:
        return
    probe = drv.batch([{"op": "normalize", "p": [["1", "1"]]}])[0]
    if probe[0] == "err" and "unknown op" in str(probe[1]):
        res.notes.append("normalize op not in the driver yet")
        return
    from fractions import Fraction

    rng = ctx.rng.sub("normalize")
    pending = []
    for t in range(ctx.n(300, 3000)):
        k = rng.randint(1, 4)
        d = 2**k
        kind = rng.choice(["exact", "exact", "scaled", "neg", "big", "zero"])
        w = [rng.randint(0, 8) for _ in range(d)]
        if sum(w) == 0:
            w[0] = 1
        tot = sum(w)
        while tot & (tot - 1):
            w[rng.randrange(d)] += 1
            tot += 1
        p = [Fraction(x, tot) for x in w]
        if kind == "scaled":
            p = [x * Fraction(rng.choice([1, 2, 3]), rng.choice([1, 2, 4])) for x in p]
        elif kind == "neg":
            p[rng.randrange(d)] -= Fraction(1, 2 ** rng.randint(1, 30))
        elif kind == "big":
            p[rng.randrange(d)] += Fraction(1, 2 ** rng.randint(1, 30))
        elif kind == "zero":
            p = [Fraction(0)] * d
        arr = numpy.array([float(x) for x in p])
        with warnings.catch_warnings(record=True) as wl:
            warnings.simplefilter("always")
            try:
                sc = ProbabilisticSubcircuit(_trace(k), 0, probabilities=arr.copy())
                impl = ("ok", [float(v) for v in sc.probability_by_int], any(issubclass(x.category, RuntimeWarning) and "Error in probabilities" in str(x.message) for x in wl))
            except RuntimeError:
                impl = ("err",)
        pending.append((kind, p, impl))
    outs = drv.batch([{"op": "normalize", "p": [[str(x.numerator), str(x.denominator)] for x in p]} for _, p, _ in pending])
    for (kind, p, impl), o in zip(pending, outs):
        case = {"p": [str(x) for x in p]}
        res.count(f"normalize {kind} -> {impl[0]}")
        res.case("normalize", case)
        if o[0] != "out":
            res.disagree("normalize", case, o, impl)
            continue
        m = o[1]
        if "err" in m:
            if impl[0] != "err":
                res.disagree("normalize", case, m, impl)
            continue
        if impl[0] == "err":
            res.disagree("normalize", case, m, impl)
            continue
        mq = [Fraction(int(a), int(b)) for a, b in m["ok"]]
        close = all(abs(float(a) - b) <= 1e-12 for a, b in zip(mq, impl[1]))
        if not close or bool(m["warn"]) != impl[2]:
            res.disagree("normalize", case, m, impl)
        ok = all(v >= 0 for v in impl[1]) and abs(sum(impl[1]) - 1) < 1e-12
        res.oracle_case("probabilities_normalised", ok, case, "accepted probabilities not normalised")


def custom_replay(ctx, res, payload):
    case = payload.get("case") or {}
    print("replay", payload.get("oracle"), case)
    if "k" in case and "n" in case:
        print("impl oracle:", oracle_readout(case["k"], case["n"]))
        if ctx.driver:
            print("model:", ctx.driver.batch([{"op": "as_str", "k": case["k"], "n": case["n"]}]))
    return 0


from ._generic import make, STD_TRUST  # noqa: E402

_g = make(
    pid="C15",
    props=PROPS_FILES,
    targets=LAKE_TARGETS,
    diffs=[("harness.agents.res_diff", 600, 4000), ("harness.agents.c15_history", 400, 4000), ("harness.agents.c15_edge", 300, 3000), ("harness.agents.c15_scale", 300, 2000), ("harness.agents.outlist_diff", 1000, 8000, {"strings_and_ints_agree", "frequencies_count_own_readouts", "bool_outputs_count_as_ints", "one_readout_per_visit_in_order"})],
    trusted=[STD_TRUST] + TRUSTED[1:],
    assumptions=ASSUMPTIONS,
    extra_run=custom_run,
)
run = _g["run"]
search = _g["search"]
TRUSTED = _g["TRUSTED"]


def replay(ctx, res, payload):
    case = payload.get("case") or {}
    if isinstance(case, dict) and "k" in case and "n" in case and "kind" not in case:
        return custom_replay(ctx, res, payload)
    return _g["replay"](ctx, res, payload)
