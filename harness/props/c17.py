"""C17 — Jaqal text, the builder API and Q-syntax build the same circuit."""
from ._generic import make, STD_TRUST

globals().update(
    make(
        pid="C17",
        props=["JaqalProofs/Props/C17.lean"],
        targets=["JaqalProofs.Props.C17"],
        diffs=[("harness.agents.qsyn_diff", 1200, 10000), ("harness.agents.c17_scale", 600, 4000), ("harness.agents.c17_traps", 4000, 40000)],
        trusted=[
            STD_TRUST,
            "hand-written model JaqalModel/Model/FrontEnds.lean: a common program type and, for each front end, the S-expression it hands to circuitbuilder.build — lowerQ (Stack frames, QBlock.build, starts_with_prepare, Namer, circuit_from_stack), lowerOO (CircuitBuilder method calls), parseSx (what parse_to_sexpression returns for the rendered text)",
            "the three front ends meet at `build`; C17_same proves the three S-expressions equal up to `norm` (the three spellings of an absent subcircuit count), and Props/C17Build.lean proves `build (norm e) = build e` against the builder model",
            "correspondence harness harness/agents/qsyn_diff.py: the real Q-syntax decorator, the real CircuitBuilder and the real parser driven with the same generated program; S-expressions compared with the model's, the three circuits compared with real == (both orders) and by dump",
        ],
        assumptions=[
            "programs are those expressible in all three front ends (lets, registers, gates with numeric / let / qubit arguments, nested blocks, loops, subcircuits with absent / literal / let counts)",
            "that a Q-syntax rejection is specifically a JaqalError, and that text/builder reject what Q-syntax rejects (non-integral let as register size), are correspondence-level facts",
        ],
    )
)
