"""C06 — every qubit reference resolves to the right physical qubit through aliases."""
from ._generic import make, STD_TRUST

globals().update(
    make(
        pid="C06",
        props=["JaqalProofs/Props/C06.lean", "JaqalProofs/Props/ParsedC06.lean"],
        targets=["JaqalProofs.Props.C06", "JaqalProofs.Props.ParsedC06"],
        diffs=[
            # the correspondence of both scripts is kept in full; of their direct oracles only those that state C06
            # (the others state C05 / C03 / C13 and are judged by those checks — in particular C05's open known finding
            # `defaulted-stop-frozen` surfaces through meaning_under_overrides and must not be reported a second time here)
            ("harness.agents.pass2_diff", 700, 4000, {"slice_equation", "consumers_agree", "alias_same_as_direct",
                                                      "fill_in_map_no_name_capture", "fill_in_map_same_meaning_and_fundamental"}),
            ("harness.agents.emu_diff", 150, 1500, {"alias_same_as_direct", "kron_reference"}), ("harness.agents.c06_edge", 1500, 1500), ("harness.agents.c06_scale", 40, 72), ("harness.agents.c06_traps", 400, 400), ("harness.agents.c06_deep", 120, 1200)
        ],
        trusted=[
            STD_TRUST,
            "hand-written model JaqalModel/Model/Resolve.lean of Register.resolve_size / resolve_qubit and NamedQubit.resolve_qubit; specification JaqalModel/Spec/Sem.lean, where a register DENOTES the list of fundamental qubits it stands for and a slice is the sub-list picked by range(start, stop, step) — written independently of the closed-form start + i·step arithmetic; C06_resolve_eq_spec proves the two agree for every chain depth, negative steps, let-valued bounds and sizes",
            "C06_agree_used / _fill / _emulator: the used-qubit visitor, fill_in_map and the emulator's qubit extraction all factor through resolveQubit in the models; that the real consumers do so is checked by the oracle consumers_agree (resolve_qubit vs get_used_qubit_indices vs the state-vector index the emulator acts on) and alias_same_as_direct",
            "correspondence harness harness/agents/pass2_diff.py (`resolve` and the specification's `eval_qubit` vs the real resolve_qubit on alias chains up to depth 5; whole dumps of the real fill_in_map) and harness/agents/emu_diff.py (alias_same_as_direct on the real emulator)",
        ],
        assumptions=[
            "ValidChain (decidable): what the constructors' checks guarantee for literal values (C06_valid_of_builder)",
            "fill_in_map raises JaqalError on a macro body that indexes by a macro parameter (the reference has no fixed fundamental qubit before expansion): the pass is not applicable there",
        ],
    )
)
