"""C16 — failures are JaqalErrors with a position; no crashes, hangs or sticky state."""
from ._generic import make, STD_TRUST
from ..extra_c16 import extra_run

globals().update(
    make(
        pid="C16",
        extra_run=extra_run,
        props=["JaqalProofs/Props/C16.lean", "JaqalProofs/Props/C16ParseBuild.lean", "JaqalProofs/Props/C16Builder.lean", "JaqalProofs/Props/C16Outputs.lean", "JaqalProofs/Props/C16Flags.lean", "JaqalProofs/Props/C16FlagsFull.lean"],
        targets=["JaqalProofs.Props.C16", "JaqalProofs.Props.C16ParseBuild", "JaqalProofs.Props.C16Builder", "JaqalProofs.Props.C16Outputs", "JaqalProofs.Props.C16Flags", "JaqalProofs.Props.C16FlagsFull"],
        diffs=[("harness.agents.c16_diff", 150, 700), ("harness.agents.c16_edge", 150, 700), ("harness.agents.c16_combo", 120, 500), ("harness.agents.outlist_diff", 1000, 8000, {"one_readout_per_visit_in_order", "too_few_outputs_rejected"})],
        trusted=[
            STD_TRUST,
            "composition of all component models in JaqalModel/Model/RunModel.lean: `runModel cfg ov txt` = parse_jaqal_string followed by run_jaqal_circuit up to (not including) floating-point arithmetic: parse → build → expand_subcircuits → fill_in_let → expand_macros → discovery + disjointness → register / native-gate checks → per-trace serialisation → walk",
            "proved without hypotheses: C16_parse_build_total (for EVERY text and configuration, parsing + building fails only with JaqalParseError / JaqalError / ImportError — never another class, never out of fuel; composes C02_sound, derives_parserSx and C16_builder_total), C16_total_parse, C16_pos_parse (a parse error's position is a token start / the offset where lexing fails / EOF), C16_deterministic / C16_history_perm / C16_history_interleave (the model is a function: a history of calls is the list of per-call results), the class lemmas of every later stage on typed circuits (C09_total_class, C04_total_class, checkDisjoint / resolve / serialiser classes, C08_terminates)",
            "C16_total_partial composes them for the whole run under named structural hypotheses that are CHECKED on every generated program by the correspondence operation `well_formed` / the decidable `stageB` (that the circuit the builder returns, and its images under the first passes, satisfy the typing predicates the class lemmas need); the remaining gap to a hypothesis-free C16_total is stated in Props/C16.lean",
            "direct oracles harness/agents/c16_diff.py on the real entry points (parse_jaqal_string with every flag combination, parse_jaqal_string_header, run_jaqal_circuit, run_jaqal_string with a gate-set module on disk, parse_jaqal_output_list): only_jaqalerror_or_importerror over valid programs, token / character damage, every prefix, deep nesting, huge literals, missing / clashing pulse modules, no / two registers; parse_error_has_position; terminates (alarm); no_sticky_state (histories in one process); fresh_process_agrees (subprocess)",
        ],
        assumptions=[
            "not expressible in the model: CPython's recursion limit (converted to JaqalError at the entry points; tested up to 2000 nesting levels), memory exhaustion for large registers (converted to JaqalError; the model has one constant), numpy's sampler",
            "sticky state lives in the Python process (sys.modules, function attributes): the model is pure by construction, so this half of the property rests on the history / fresh-process oracles and on the pinned table of process-global state (C11_globals_pinned)",
        ],
    )
)
