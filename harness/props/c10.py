"""C10 — passes commute, are idempotent, and keep circuits legal."""
from ._generic import make, STD_TRUST
from ..extra_c10 import extra_run, matches_known

globals().update(
    make(
        pid="C10",
        props=["JaqalProofs/Props/C10.lean", "JaqalProofs/Props/ParsedC10.lean", "JaqalProofs/Props/ParsedEx.lean", "JaqalProofs/Props/C10Text.lean", "JaqalProofs/Props/C10Text2.lean"],
        targets=["JaqalProofs.Props.C10", "JaqalProofs.Props.ParsedC10", "JaqalProofs.Props.ParsedEx", "JaqalProofs.Props.C10Text", "JaqalProofs.Props.C10Text2"],
        extra_run=extra_run,
        known_matcher=matches_known,
        diffs=[("harness.agents.c10_diff", 500, 1500), ("harness.agents.c10_scale", 88, 300), ("harness.agents.c10_traps", 350, 2000), ("harness.agents.c10_deep", 150, 1500)],
        trusted=[
            STD_TRUST,
            "composition of the pass models (ExpandMacros, ExpandSubcircuits, FillIn) and of parse_jaqal_string's flag handling in JaqalModel/Model/Passes.lean; the pass orders of parse_jaqal_string / run_jaqal_circuit / parse_jaqal_output_list are REGENERATED from the Python ASTs on every run (harness/agents/c10_extract.py) and compared with the model's `pipelines` table",
            "proved: C10_canonical / C10_commute_meaning / C10_commute_perm (any orders and repetitions of an applicable pass sequence give the same meaning, with `Applicable` making 'each pass is applicable' precise, incl. the side condition that alias fill-in bakes in declared let values), the six pairwise commutation lemmas, C10_idempotent_macros / _subs, C10_idempotent_meaning (all four passes), C10_flags(_ok) (flagged parse = passes on the plain parse), legality preservation for subs / let / map",
            "kept as named propositions: C10_idempotent_let_full / _map_full (syntactic idempotence of the two rebuilding passes: needs totality of the second rebuild), C10_legal_preserved_full (WellFormed after macro substitution), C10_legal_text (re-parse of generated text: needs the C01 layers B and C) — each covered by direct oracles on the real code (idempotent, legal_after_pass, flags_equal_passes, commute_meaning, commute_pairwise)",
        ],
        assumptions=[
            "fill_in_map is applicable only when the overrides in force change no let that an alias bound / index / size depends on (or after fill_in_let), and not on macro bodies indexing by a macro parameter or shadowing the register's name (JaqalError = not applicable)",
            "expand_subcircuits deliberately changes meaning (subcircuit block ↦ prepare … measure sequence); commutation with it is stated through the semantic map spellSem",
        ],
    )
)
