"""C14 — no program is accepted with a reference that cannot be honoured."""
from ._generic import make, STD_TRUST
from ..extra_c14 import extra_run

globals().update(
    make(
        pid="C14",
        props=["JaqalProofs/Props/C14.lean", "JaqalProofs/Props/C14Run.lean", "JaqalProofs/Props/C14Stages.lean", "JaqalProofs/Props/C14StagesFull.lean"],
        targets=["JaqalProofs.Props.C14", "JaqalProofs.Props.C14Run", "JaqalProofs.Props.C14Stages", "JaqalProofs.Props.C14StagesFull"],
        diffs=[("harness.agents.build_diff", 700, 6000), ("harness.agents.c14_inject", 120, 250), ("harness.agents.c14_edge", 2000, 10000), ("harness.agents.c14_scale", 250, 800), ("harness.agents.c14_combo", 3500, 6000), ("harness.agents.c14_traps", 1500, 4000), ("harness.agents.c14_deep", 1500, 2500)],
        extra_run=extra_run,
        trusted=[
            STD_TRUST,
            "hand-written model JaqalModel/Model/Builder.lean (see C07) incl. Register / NamedQubit constructor checks and gate-definition calls (Model/GateDef.lean); `RefsValid` / `NamesValid` are declarative predicates that do not mention the builder",
            "C14_sound_parser covers what is known at parse time (literal indices / slices / sizes, kinds, arity, names, definitions); values given by lets are checked when fill_in_let rebuilds the circuit and substituted macro arguments when expand_macros calls the definition — those stages are covered by the direct oracle harness/extra_c14.py on the real pipeline (and by C05 / C04)",
            "correspondence harness harness/agents/build_diff.py (boundary indices −1, 0, size−1, size, size+1; all slice forms; indexing lets / qubits; unknown gates with and without a gate set; wrong arity / kinds)",
        ],
        assumptions=["a literal index into a let-sized register is checked at build time against the declared value of the let (a false rejection if an override would enlarge the register — not a C14 violation)"],
    )
)
