"""Generic property module built on the component diff scripts (harness/agents/*_diff.py protocol).

A property module does
    from ._generic import make
    globals().update(make(pid="C03", props=[...], targets=[...], diffs=[("harness.agents.emu_diff", 600, 6000)], ...))
"""
import importlib
import json
import time

from .. import common


def _merge(res, modname, r, only=None):
    """only: optional set of oracle names of this script that state THIS property (the others are ignored)"""
    if only is not None:
        r = dict(r, oracle={k: v for k, v in (r.get("oracle") or {}).items() if k.split("(")[0] in only})
    for op, d in (r.get("corr") or {}).items():
        c = res.corr.setdefault(op, {"cases": 0, "disagreements": 0})
        c["cases"] += int(d.get("cases", 0))
        res.evaluations += int(d.get("cases", 0))
        for dis in d.get("disagreements", []) or []:
            c["disagreements"] += 1
            res.failures.append({"kind": "corr", "what": op, "case": dis.get("case"), "model": dis.get("model"), "impl": dis.get("impl"), "module": modname})
    for name, d in (r.get("oracle") or {}).items():
        o = res.oracle.setdefault(name, {"cases": 0, "failures": 0})
        o["cases"] += int(d.get("cases", 0))
        res.evaluations += int(d.get("cases", 0))
        for fl in d.get("failures", []) or []:
            o["failures"] += 1
            res.failures.append({"kind": "oracle", "what": name, "case": fl.get("case"), "detail": fl.get("detail"), "module": modname})
    for k, v in (r.get("distribution") or {}).items():
        try:
            res.count(f"{modname.split('.')[-1]}:{k}", int(v))
        except (TypeError, ValueError):
            res.distribution[f"{modname.split('.')[-1]}:{k}"] = v
    for s in (r.get("samples") or [])[:3]:
        res.samples.append({"from": modname.split(".")[-1], "case": s})
    nt = int(r.get("nontrivial", 0))
    # distinct non-trivial cases are counted by the scripts themselves (set of canonical JSON)
    res.extra["nontrivial_by_script"] = res.extra.get("nontrivial_by_script", 0) + nt
    for i in range(nt):
        res.nontrivial.add(f"{modname}:{i}")


def make(pid, props, targets, diffs, trusted, assumptions=(), extra_run=None, tables=None, known_matcher=None):
    """diffs: list of (module name, n_quick, n_thorough[, set of oracle names to keep])."""
    diffs = [tuple(d) + (None,) * (4 - len(d)) for d in diffs]

    def run(ctx, res):
        if extra_run:
            extra_run(ctx, res)
        for modname, nq, nt, only in diffs:
            mod = importlib.import_module(modname)
            n = nq if ctx.tier == "quick" else nt
            t0 = time.time()
            try:
                r = mod.run(seed=ctx.seed, n=n, driver=common.DRIVER, thorough=(ctx.tier == "thorough"))
            except Exception as e:  # the real code did something the script cannot digest: the tie is broken
                import traceback

                tb = traceback.format_exc()
                res.notes.append(f"{modname} crashed: {tb[-1500:]}")
                res.failures.append({"kind": "corr", "what": f"{modname.split('.')[-1]}:crash", "case": None, "model": None, "impl": f"{type(e).__name__}: {e}", "module": modname, "detail": tb[-1500:]})
                continue
            res.extra.setdefault("script_wall_s", {})[modname.split(".")[-1]] = round(time.time() - t0, 1)
            _merge(res, modname, r, only)

    def search(ctx, res, corr_new):
        """A proof or the correspondence broke: look harder for an input on which the real code
        violates the property (direct oracles only), with fresh seeds and more cases."""
        for k in range(1, 1 + getattr(ctx, "search_rounds", 3)):
            for modname, nq, nt, only in diffs:
                if getattr(ctx, "search_deadline", None) and time.time() > ctx.search_deadline:
                    res.notes.append("escalated search stopped at its time budget before " + modname)
                    return
                mod = importlib.import_module(modname)
                try:
                    r = mod.run(seed=ctx.seed * 1000 + 7919 * k, n=max(nq, 400) * 3, driver=common.DRIVER, thorough=False)
                except Exception:
                    continue
                sub = {"oracle": r.get("oracle"), "corr": {}}
                _merge(res, modname, sub, only)
            if any(f["kind"] == "oracle" for f in res.failures):
                return

    def replay(ctx, res, payload):
        case = payload.get("case")
        modname = payload.get("module") or (diffs[0][0] if diffs else None)
        print(json.dumps({"replaying": payload.get("oracle") or payload.get("kind"), "case": case}, default=str)[:2000])
        if payload.get("kind") == "broken-obligation":
            print(json.dumps(payload.get("broken"), indent=1)[:4000])
            for d in payload.get("correspondence_disagreements", []):
                case = d.get("case")
                modname = d.get("module") or modname
                break
        if case is None or modname is None:
            return 0
        mod = importlib.import_module(modname)
        out = mod.replay(case, common.DRIVER)
        print(json.dumps(out, indent=1, default=str)[:6000])
        return 0 if out.get("oracle_ok") in (True, None) and out.get("model") == out.get("impl") else 1

    d = dict(
        PROPS_FILES=list(props),
        LAKE_TARGETS=list(targets),
        TRUSTED=list(trusted),
        ASSUMPTIONS=list(assumptions),
        run=run,
        search=search,
        replay=replay,
    )
    if tables:
        d["generate_tables"] = tables
    if known_matcher:
        d["matches_known"] = known_matcher
    return d


STD_TRUST = "Lean 4.33 kernel (thorough tier: re-checked with leanchecker); axioms of every property theorem ⊆ {propext, Classical.choice, Quot.sound}; no sorry/admit/native_decide/bv_decide/own axioms (grep + #print axioms audited on every run)"
