"""Open known finding of C01 (known_findings.txt, id int-beyond-str-limit): its witness, run on every check, and the
matcher that recognises exactly this failure shape among oracle failures.

CPython refuses to convert an int of more than 4300 digits to a decimal string (and back). The lexer therefore never
delivers such a literal, but the builder COMPUTES one: the defaulted stop of a slice is the source's size, and the size of
`r[m:]` for a negative let `m` is `N - m`. With N and -m of 4300 nines each the program is accepted and
`generate_jaqal_program` raises ValueError: no text is produced for a circuit the parser accepted."""
import re

DIGITS = 4300


def witness_text(digits=DIGITS):
    n = "9" * digits
    return f"register r[{n}]\nlet m -{n}\nmap a r[m:]\nmap b a[:]\n"


_INT = re.compile(r"\d{%d,}" % (DIGITS - 1))


def matches_known(kf, fl):
    """The failure is this finding iff the failing program contains an integer literal of at least 4299 digits (so that a
    computed bound can pass the 4300-digit limit) AND what went wrong is the int-to-str limit during generation."""
    if not str(kf.get("id", "")).startswith("int-beyond-str-limit"):
        return False
    case = fl.get("case") or {}
    text = case.get("text") if isinstance(case, dict) else None
    detail = str(fl.get("detail") or "")
    return bool(text) and bool(_INT.search(text)) and "ValueError" in detail and ("4300" in detail or "integer string conversion" in detail)


def extra_run(ctx, res):
    """Run the witness on the real code (a failure is reported through the normal path and matched as KNOWN-FINDING)."""
    from jaqalpaq.parser import parse_jaqal_string
    from jaqalpaq.generator import generate_jaqal_program

    for digits, expect_ok in ((DIGITS - 1, True), (DIGITS, False)):
        text = witness_text(digits)
        case = {"text": text, "witness_of": "int-beyond-str-limit", "digits": digits}
        c = parse_jaqal_string(text, autoload_pulses=False)
        try:
            t = generate_jaqal_program(c)
            c2 = parse_jaqal_string(t, autoload_pulses=False)
            ok, detail = (c == c2 and generate_jaqal_program(c2) == t), "the re-parsed circuit differs"
        except Exception as e:  # noqa
            ok, detail = False, f"accepted by the parser, but generate_jaqal_program raises {type(e).__name__}: {str(e)[:160]}"
        res.oracle_case("reparse_equal", ok, case, detail)
        if digits == DIGITS and ok:
            res.notes.append("known finding int-beyond-str-limit no longer reproduces")
