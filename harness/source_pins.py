"""Source pins: the digest of every function / method / class body of /repo/src/jaqalpaq the correspondence was last
validated against (harness/pinned_source.json, committed; `python -m harness.source_pins --update` rewrites it after a
repair of /repo).

The behavioural correspondence between the Lean models and the Python code is evidence about ONE source text.  When the
source of the library differs from the pinned one, that evidence is stale: the check then does not stop at its every-day
sample but runs the property's failing-input search (fresh seeds, more cases) as well — a change-directed escalation.  A
drift is NOT a verdict: on a harmless rewrite the search finds nothing and the check passes; on the unchanged tree the drift
is empty and nothing extra runs.
"""
import ast
import hashlib
import json
import os
import sys

from . import common

PIN_FILE = os.path.join(os.path.dirname(os.path.abspath(__file__)), "pinned_source.json")


def _strip_docstrings(node):
    for n in ast.walk(node):
        if isinstance(n, (ast.FunctionDef, ast.AsyncFunctionDef, ast.ClassDef, ast.Module)):
            b = n.body
            if b and isinstance(b[0], ast.Expr) and isinstance(getattr(b[0], "value", None), ast.Constant) and isinstance(b[0].value.value, str):
                n.body = b[1:] or [ast.Pass()]
    return node


def _digest(node):
    return hashlib.sha1(ast.dump(_strip_docstrings(node), include_attributes=False).encode()).hexdigest()[:16]


def digest_tree(repo=None):
    """-> {"<relative path>::<qualified name>": digest} for every function, method and the rest of every module"""
    root = os.path.join(repo or common.REPO, "src", "jaqalpaq")
    out = {}
    for d, _, files in sorted(os.walk(root)):
        for f in sorted(files):
            if not f.endswith(".py"):
                continue
            p = os.path.join(d, f)
            rel = os.path.relpath(p, root)
            try:
                tree = ast.parse(open(p, encoding="utf-8").read())
            except SyntaxError:
                out[rel + "::<syntax error>"] = "x"
                continue

            def walk(body, prefix):
                rest = []
                for n in body:
                    if isinstance(n, (ast.FunctionDef, ast.AsyncFunctionDef)):
                        out[f"{rel}::{prefix}{n.name}"] = _digest(n)
                    elif isinstance(n, ast.ClassDef):
                        walk(n.body, f"{prefix}{n.name}.")
                        rest.append(ast.dump(ast.ClassDef(name=n.name, bases=n.bases, keywords=n.keywords, body=[], decorator_list=n.decorator_list)))
                    else:
                        rest.append(ast.dump(_strip_docstrings(n)))
                out[f"{rel}::{prefix}<top>"] = hashlib.sha1("\n".join(rest).encode()).hexdigest()[:16]

            walk(tree.body, "")
    return out


def drift(repo=None):
    """-> sorted list of "<path>::<name>" whose body differs from the pinned source (changed, added or removed)"""
    try:
        pinned = json.load(open(PIN_FILE))["digests"]
    except (OSError, ValueError, KeyError):
        return ["<no pinned source>"]
    now = digest_tree(repo)
    return sorted(k for k in set(pinned) | set(now) if pinned.get(k) != now.get(k))


def main():
    if "--update" in sys.argv:
        import subprocess

        head = subprocess.run(["git", "-C", common.REPO, "rev-parse", "HEAD"], capture_output=True, text=True).stdout.strip()
        json.dump({"repo_head": head, "digests": digest_tree()}, open(PIN_FILE, "w"), indent=0, sort_keys=True)
        print("pinned", len(digest_tree()), "units at", head)
        # the generated tables of the pinned source (restored by every check that does not own them, harness/main.py)
        import shutil
        for name in ("Effects.lean", "LexerRules.lean"):
            shutil.copy(os.path.join(common.LEAN, "JaqalModel", "Generated", name), os.path.join(common.ROOT, "harness", "pinned_tables", name))
    else:
        print(json.dumps(drift(), indent=1))


if __name__ == "__main__":
    main()
