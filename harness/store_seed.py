"""Store a confirmed seeded change: python -m harness.store_seed <src dir> <ID-k> '<detected_by json>'"""
import json
import os
import shutil
import sys

ROOT = os.path.dirname(os.path.dirname(os.path.abspath(__file__)))


def main():
    src, name, det = sys.argv[1], sys.argv[2], json.loads(sys.argv[3])
    dst = os.path.join(ROOT, "seeded", name)
    os.makedirs(dst, exist_ok=True)
    for f in ("patch.diff", "demo.py"):
        shutil.copy(os.path.join(src, f), os.path.join(dst, f))
    meta = json.load(open(os.path.join(src, "meta.json")))
    meta["round"] = 2
    meta["detected_by"] = det
    json.dump(meta, open(os.path.join(dst, "meta.json"), "w"), indent=1)
    print("stored", dst)


if __name__ == "__main__":
    main()
