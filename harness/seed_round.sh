#!/bin/sh
# usage: seed_round.sh <PID> <k> <store index>   — verify the sub-agent's change /tmp/mut-<PID>/out/<k> in that scratch worktree
# (clean demo exits 0, patched demo exits 1, tests pass with the patch), run the check of <PID> against the patched worktree,
# and store it as seeded/<PID>-<store index> with what was detected.  /repo itself is never touched.
# NOTE: the Lean project is shared: the checks of C02 and C11 regenerate a table from the source they are pointed at, so never
# run a C02 / C11 seed concurrently with any other check (a mutated LexerRules.lean breaks every build that imports the parser);
# every check restores the tables it does not own before building (harness/main.py), which covers sequential runs only.
P="$1"; K="$2"; N="$3"; W=${MUTPREFIX:-/tmp/mut-}$P; D=$W/out/$K
cd "$W" || exit 2
git checkout -q -- . 
export JAQALPAQ_RUN_EMULATOR=1
PYTHONPATH="$W/src" timeout 600 /venv/bin/python "$D/demo.py" >/dev/null 2>&1; C=$?
git apply "$D/patch.diff" || { echo "$P-$N: patch does not apply"; exit 2; }
PYTHONPATH="$W/src" timeout 600 /venv/bin/python "$D/demo.py" >/dev/null 2>&1; Q=$?
T=$(PYTHONPATH="$W/src" /venv/bin/python -m pytest -q -p no:cacheprovider --deselect tests/ipc tests 2>&1 | tail -1)
OUT=$(cd /verif && JAQALPAQ_REPO="$W" PYTHONPATH="$W/src" ./check "$P" 2>/dev/null | grep "VIOLATION\|^OK\|INFRA" | head -3)
git checkout -q -- .
case "$OUT" in
  *no-failing-input-found*) DET="VIOLATION reported, no-failing-input-found (first run)";;
  *VIOLATION*) DET="VIOLATION with failing input (first run)";;
  *OK*) DET="first run MISSED";;
  *) DET="check did not finish: $OUT";;
esac
echo "$P-$N: clean=$C patched=$Q tests=[$T] -> $DET"
if [ "$C" = 0 ] && [ "$Q" != 0 ]; then
  cd /verif && PYTHONPATH=/verif /venv/bin/python -m harness.store_seed "$D" "$P-$N" "{\"$P\": \"$DET\"}" >/dev/null
  /venv/bin/python - "$P-$N" "$T" <<'PY'
import json,sys
p=f"/verif/seeded/{sys.argv[1]}/meta.json"; m=json.load(open(p)); m["round"]=int(__import__("os").environ.get("ROUND","6")); m["tests_with_patch"]=sys.argv[2]; json.dump(m,open(p,"w"),indent=1)
PY
fi
