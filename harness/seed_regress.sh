#!/bin/sh
# usage: seed_regress.sh [-j N] [seed names…]      (default: every directory under /verif/seeded)
# Replays every stored seeded regression against the check of its property in scratch worktrees of /repo
# (created under /tmp and removed afterwards; /repo itself is never touched) and writes seeded/RESULTS.tsv:
#   <seed> <check verdict line> <oracle or broken obligation that fired>
# (rows of seeds not replayed in this call are kept)
J=4
if [ "$1" = "-j" ]; then J="$2"; shift; shift; fi
cd /verif || exit 2
NAMES="$*"
[ -z "$NAMES" ] && NAMES=$(ls seeded | grep -E '^C[0-9][0-9]-[0-9]+$')
OUT=/tmp/seed-regress.$$
mkdir -p "$OUT"
i=0
for k in $(seq 1 "$J"); do
  git -C /repo worktree add --detach "/tmp/sr-wt-$$-$k" >/dev/null 2>&1
done
one() {
  name="$1"; wt="$2"
  pid=${name%%-*}
  d=/verif/seeded/$name
  ( cd "$wt" && git checkout -q -- . && git apply "$d/patch.diff" 2>/dev/null ) || { echo "$name	PATCH-DOES-NOT-APPLY"; return; }
  v=$(cd /verif && JAQALPAQ_REPO="$wt" PYTHONPATH="$wt/src" ./check "$pid" 2>/dev/null | grep -E '^(OK|VIOLATION|INFRASTRUCTURE)' | tail -1)
  ( cd "$wt" && git checkout -q -- . )
  # what fired: the oracle of the failing input, or the broken obligation (read from the replay file just written)
  w=$(cd /verif && /venv/bin/python -c "
import json,sys
try:
    r=json.load(open('replays/$pid-0-0.json'))
    print(r.get('oracle') or ('broken: '+'; '.join(str(b[0]) for b in r.get('broken',[])[:2]) + ' corr: '+'; '.join(str(c.get('what')) for c in r.get('correspondence_disagreements',[])[:2])))
except Exception: print('')
" 2>/dev/null)
  case "$v" in VIOLATION*) ;; *) w="";; esac
  echo "$name	${v:-NO-VERDICT}	$w"
}
# N parallel lanes, each with its own worktree
# all seeds of one property go to the same lane: two checks of one property never run at the same time
# (they would share evidence / replay files and, for C02 and C11, the regenerated tables)
for name in $NAMES; do
  n=$(echo "${name%%-*}" | tr -d 'C' | sed 's/^0//')
  k=$(( n % J + 1 ))
  echo "$name" >> "$OUT/lane$k"
done
for k in $(seq 1 "$J"); do
  [ -f "$OUT/lane$k" ] || continue
  ( while read -r name; do one "$name" "/tmp/sr-wt-$$-$k"; done < "$OUT/lane$k" > "$OUT/res$k" ) &
done
wait
# merge: rows of the seeds replayed now replace their old rows, all other rows stay
cat "$OUT"/res* > "$OUT/new"
touch /verif/seeded/RESULTS.tsv
awk -F'\t' 'NR==FNR {seen[$1]=1; print; next} !($1 in seen)' "$OUT/new" /verif/seeded/RESULTS.tsv | sort > "$OUT/merged"
cp "$OUT/merged" /verif/seeded/RESULTS.tsv
for k in $(seq 1 "$J"); do git -C /repo worktree remove --force "/tmp/sr-wt-$$-$k" >/dev/null 2>&1; done
rm -rf "$OUT"
(cd /verif && PYTHONPATH=/verif /venv/bin/python -W ignore -m harness.effects_scan --emit >/dev/null 2>&1; PYTHONPATH=/verif /venv/bin/python -W ignore -m harness.lexer_extract >/dev/null 2>&1)
grep -c VIOLATION /verif/seeded/RESULTS.tsv
