"""Regenerate the table of repaired findings in DESIGN.md §8 from known_findings.txt
(run: PYTHONPATH=/verif /venv/bin/python -m harness.findings_table)."""
import os
import re

ROOT = os.path.dirname(os.path.dirname(os.path.abspath(__file__)))
HEAD = "| Property | `fix:` commit | What failed (witness) |\n|---|---|---|\n"


def main():
    rows = []
    for line in open(os.path.join(ROOT, "known_findings.txt")):
        m = re.match(r"fixed: property=(C\d\d) (\w+) (.*)", line.strip())
        if m:
            rows.append((m.group(1), m.group(2), m.group(3).replace("|", "\\|")))
    rows.sort(key=lambda r: r[0])  # stable: file order within a property
    table = HEAD + "".join(f"| {p} | `{c}` | {w} |\n" for p, c, w in rows)
    path = os.path.join(ROOT, "DESIGN.md")
    s = open(path).read()
    i = s.index(HEAD)
    j = i
    lines = s[i:].split("\n")
    k = 0
    while k < len(lines) and lines[k].startswith("|"):
        k += 1
    j = i + len("\n".join(lines[:k])) + 1
    s = s[:i] + table + s[j:]
    s = re.sub(r"\(\d+ at the time of writing;", f"({len(rows)} at the time of writing;", s)
    open(path, "w").write(s)
    print(len(rows), "rows")


if __name__ == "__main__":
    main()
