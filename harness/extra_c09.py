"""Direct oracle for the execution half of C09 on the real code: a program written with
`subcircuit { B }` is executed and reported exactly like `prepare_all; B; measure_all`."""
import signal
import warnings

import numpy

from .agents import walk_diff as W
from . import timeouts as _T


def _spell(items, style):
    """Render walk_diff items; every P…M section at one block level is written as a subcircuit block when style says so."""
    out = []
    i = 0
    while i < len(items):
        it = items[i]
        if it[0] == "g" and it[1] == "P":
            # find the matching M at this level with only ordinary gates / compound items between
            j = i + 1
            ok = True
            while j < len(items) and not (items[j][0] == "g" and items[j][1] in ("P", "M")):
                j += 1
            if j < len(items) and items[j][1] == "M" and style and not _has_pm(items[i + 1 : j]):
                inner = _spell(items[i + 1 : j], style)
                if inner is None:
                    return None
                out.append("subcircuit {\n" + inner + "\n}")
                i = j + 1
                continue
        if it[0] == "g":
            out.append(W.gate_text(it[1]))
        elif it[0] == "loop":
            inner = _spell(it[2], style)
            if inner is None:
                return None
            out.append(f"loop {it[1]} {{\n" + inner + "\n}")
        else:
            return None  # parallel shapes: not used for this oracle
        i += 1
    return "\n".join(out)


def _has_pm(items):
    for it in items:
        if it[0] == "g" and it[1] in ("P", "M"):
            return True
        if it[0] != "g" and _has_pm(it[-1] if isinstance(it[-1], list) else []):
            return True
    return False


def extra_run(ctx, res):
    R = W._load()
    from jaqalpaq.core.result import parse_jaqal_output_list

    rng = ctx.rng.sub("extra_c09")
    signal.signal(signal.SIGALRM, W._alarm)
    warnings.filterwarnings("ignore")
    n = ctx.n(200, 2000)
    done = tries = 0
    while done < n and tries < 40 * n:
        tries += 1
        items = W.gen_biased(rng, 0, 3)
        toks = []
        W.flat_tokens(items, [], toks)
        if W.ref_bracket(toks)[0] != "ok":
            continue
        a = _spell(items, False)
        b = _spell(items, True)
        if a is None or b is None or a == b:
            continue
        done += 1
        ta = f"register r[{W.NQ}]\n{a}\n"
        tb = f"register r[{W.NQ}]\n{b}\n"
        case = {"explicit": ta, "subcircuit": tb}
        signal.alarm(_T.limit(2))
        try:
            ca = R["parse"](ta, inject_pulses=R["GI"], autoload_pulses=False)
            cb = R["parse"](tb, inject_pulses=R["GI"], autoload_pulses=False)
            ra, rb = R["run"](ca), R["run"](cb)
            ok = (
                len(ra.subcircuits) == len(rb.subcircuits)
                and [x.subcircuit.index for x in ra.readouts] == [x.subcircuit.index for x in rb.readouts]
                and all(numpy.array_equal(x.state_vector, y.state_vector) for x, y in zip(ra.subcircuits, rb.subcircuits))
            )
            res.oracle_case("subcircuit_runs_like_prepare_measure", ok, case, "emulator results differ between the two spellings")
            outs = [rng.randrange(2**W.NQ) for _ in ra.readouts]
            pa, pb = parse_jaqal_output_list(ca, outs), parse_jaqal_output_list(cb, outs)
            ok = [(x.subcircuit.index, x.as_int) for x in pa.readouts] == [(x.subcircuit.index, x.as_int) for x in pb.readouts]
            res.oracle_case("subcircuit_output_parsed_like_prepare_measure", ok, case, "parse_jaqal_output_list differs between the two spellings")
        except W.Hang:
            _T.saw_hang()
            res.oracle_case("terminates", False, case, "no result within the time limit")
        except R["JaqalError"] as e:
            res.oracle_case("subcircuit_runs_like_prepare_measure", False, case, f"JaqalError: {e}")
        finally:
            signal.alarm(0)
    _reachability(ctx, res, R)


def _macro_program(rng):
    """Programs whose subcircuit blocks sit inside macros that are called from other macros, loops and blocks."""
    nm = rng.randrange(1, 5)
    lines = [f"register r[{W.NQ}]"]
    has_sub = []
    for i in range(nm):
        body = []
        for _ in range(rng.randrange(1, 4)):
            c = rng.random()
            callees = [j for j in range(i)]
            if callees and c < 0.45:
                j = rng.choice(callees)
                body.append(f"m{j} a")
            elif c < 0.75:
                inner = rng.choice(["X a", "X a; X a", "", "loop 2 { X a }"])
                cnt = rng.choice(["", "", "3 "])
                body.append(f"subcircuit {cnt}{{ {inner} }}")
            elif c < 0.9:
                body.append("loop 2 { subcircuit { X a } }")
            else:
                body.append("X a")
        lines.append(f"macro m{i} a {{ " + " ; ".join(body) + " }")
    main = []
    for _ in range(rng.randrange(1, 4)):
        j = rng.randrange(nm)
        q = f"r[{rng.randrange(W.NQ)}]"
        c = rng.random()
        if c < 0.5:
            main.append(f"m{j} {q}")
        elif c < 0.8:
            main.append(f"loop {rng.randrange(0, 3)} {{ m{j} {q} }}")
        else:
            main.append(f"{{ m{j} {q} }}")
    return "\n".join(lines + main) + "\n"


def _reachability(ctx, res, R):
    """`leaves no subcircuit block behind`: nothing reachable from the result — through blocks, loops, macro bodies AND the
    definitions the macro calls of the result point at — is a subcircuit block; the analyses that follow those
    definitions agree with the explicit spelling."""
    from jaqalpaq.core.algorithm import expand_subcircuits, get_used_qubit_indices, expand_macros
    from jaqalpaq.core import BlockStatement, LoopStatement, GateStatement, Macro

    rng = ctx.rng.sub("extra_c09_reach")

    def left(c):
        seen = set()
        bad = []

        def st(s, where):
            if isinstance(s, BlockStatement):
                if s.subcircuit:
                    bad.append(where)
                for k, x in enumerate(s.statements):
                    st(x, where + [k])
            elif isinstance(s, LoopStatement):
                st(s.statements, where + ["loop"])
            elif isinstance(s, GateStatement):
                gd = s.gate_def
                if isinstance(gd, Macro) and id(gd) not in seen:
                    seen.add(id(gd))
                    st(gd.body, where + [f"call {s.name}"])

        st(c.body, ["body"])
        for n, m in c.macros.items():
            st(m.body, [f"macro {n}"])
        return bad

    for _ in range(ctx.n(150, 1500)):
        text = _macro_program(rng)
        case = {"text": text}
        signal.alarm(_T.limit(2))
        try:
            c = R["parse"](text, inject_pulses=R["GI"], autoload_pulses=False)
            e = expand_subcircuits(c)
            bad = left(e)
            res.oracle_case("no_subcircuit_reachable", not bad, case, "subcircuit block reachable from the result at " + repr(bad[:3]))
            # the same circuit after the later passes, and the analysis that follows macro definitions
            bad2 = left(expand_macros(e))
            res.oracle_case("no_subcircuit_reachable", not bad2, case, "subcircuit block reachable after expand_macros at " + repr(bad2[:3]))
            ua = get_used_qubit_indices(e)
            ub = get_used_qubit_indices(expand_macros(e))
            norm = lambda u: {k: sorted(v) for k, v in u.items() if v}
            res.oracle_case("used_qubits_follow_expanded_definitions", norm(ua) == norm(ub), case,
                            f"used qubits of the expanded circuit {norm(ua)} differ from those after macro expansion {norm(ub)}")
        except W.Hang:
            _T.saw_hang()
            res.oracle_case("terminates", False, case, "no result within the time limit")
        except R["JaqalError"] as ex:
            res.oracle_case("no_subcircuit_reachable", False, case, f"JaqalError on a valid program: {ex}")
        finally:
            signal.alarm(0)
