"""Text noise: a cross-cutting input dimension for every property that speaks about PROGRAMS given as text.

The streams of most properties generate tidy texts (one statement per line, no comments). A change in the lexer's
treatment of comments, blank lines or trailing blanks breaks those properties as well — the program that is executed is no
longer the program that was written — but only C02's streams would see it. When this module is installed (by
`harness/main.py`, before any stream imports the library) every call of `parse_jaqal_string` on a `str` goes through
`decorate`, which rewrites a deterministic part of the texts (chosen by a hash of the text, so a replay decorates the same
way) with layout the grammar defines to be meaningless:

  * a block comment in front of the first line and another one behind the last line (several shapes, among them the
    star-rich ones `/***/` and `/** x **/`), so that the text contains at least two block comments with all the code between them;
  * a `// …` comment at the end of some lines;
  * an empty line, or a line holding only blanks, between two lines; trailing blanks / tabs.

Nothing else about the call changes. Texts that already contain `/*` or `*/` are left alone (an appended comment could close
an unterminated one). Properties whose streams compare error POSITIONS with the text they generated (C02, C16, C01, C10, C14)
are not decorated: a position in the decorated text is not a position in theirs.
"""
import hashlib

# properties whose checks run with the noise layer
PIDS = {"C03", "C04", "C05", "C06", "C07", "C08", "C09", "C12", "C13", "C15", "C17", "C18", "C19", "C20"}

_LEAD = ["/* lead */", "/***/", "/** lead **/", "/* a\n   b */", "/*\n*/"]
_TAIL = ["/* tail */", "/****/", "/* tail **/", "/**/", "/* x\n y\n*/"]
_LINE = [" // note", "\t// t", " //", " // a /* not a block comment"]

installed = False
stats = {"calls": 0, "decorated": 0}


def decorate(text):
    if not isinstance(text, str) or "/*" in text or "*/" in text or not text.strip():
        return text
    h = hashlib.sha1(text.encode("utf-8", "surrogatepass")).digest()
    if h[0] & 1 == 0:  # half of the texts stay as they are
        return text
    lines = text.split("\n")
    if h[1] & 1:
        # line comments at the end of up to two lines
        for j in (h[2] % len(lines), h[3] % len(lines)):
            if "//" not in lines[j]:
                lines[j] = lines[j] + _LINE[h[4] % len(_LINE)]
    if h[1] & 2:
        k = 1 + h[5] % len(lines)
        lines.insert(k, ["", "   ", "\t"][h[6] % 3])
    if h[1] & 4:
        j = h[7] % len(lines)
        if "//" not in lines[j]:
            lines[j] = lines[j] + ["  ", "\t", " \t "][h[8] % 3]
    body = "\n".join(lines)
    if h[1] & 8 or not (h[1] & 7):
        body = _LEAD[h[9] % len(_LEAD)] + ("\n" if h[10] & 1 else " ") + body
        body = body + ("\n" if not body.endswith("\n") or h[11] & 1 else "") + _TAIL[h[12] % len(_TAIL)] + ("\n" if h[13] & 1 else "")
    return body


def install():
    """Wrap the library's text entry point. Idempotent."""
    global installed
    if installed:
        return
    import functools
    import jaqalpaq.parser
    import jaqalpaq.parser.parser as P

    inner = P.parse_jaqal_string

    @functools.wraps(inner)
    def parse_jaqal_string(jaqal, *args, **kwargs):
        stats["calls"] += 1
        noisy = decorate(jaqal)
        if noisy is not jaqal:
            stats["decorated"] += 1
        return inner(noisy, *args, **kwargs)

    parse_jaqal_string.__wrapped_by_textnoise__ = True
    P.parse_jaqal_string = parse_jaqal_string
    jaqalpaq.parser.parse_jaqal_string = parse_jaqal_string
    try:
        import jaqalpaq.run.run as R

        if getattr(R, "parse_jaqal_string", None) is inner:
            R.parse_jaqal_string = parse_jaqal_string
    except Exception:
        pass
    installed = True
