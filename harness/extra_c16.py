"""C16: fixed probes of the pulse-module import path (run on every check, in-process, in a temporary import path).

Module shapes that the random import alphabets of c16_edge / c16_combo do not build: a directory that is not a package, a package
whose jaqal_gates defines no ALL_GATES, a jaqal_gates that raises while it is imported, an ALL_GATES that is not a gate table.
The property: only JaqalError / ImportError may escape, and a later valid text is unaffected."""
import os
import shutil
import tempfile

SHAPES = {
    "dir_without_init": {"jaqal_gates.py": "ALL_GATES = {}\n"},
    "dir_without_init_sub": {"sub/jaqal_gates.py": "ALL_GATES = {}\n"},
    "no_all_gates": {"__init__.py": "", "jaqal_gates.py": "y = 2\n"},
    "empty_jaqal_gates": {"__init__.py": "", "jaqal_gates.py": ""},
    "jaqal_gates_is_package_without_all": {"__init__.py": "", "jaqal_gates/__init__.py": "z = 1\n"},
    "good": {"__init__.py": "", "jaqal_gates.py": "from jaqalpaq.core import GateDefinition\nALL_GATES = {'G': GateDefinition('G', [])}\n"},
}


def extra_run(ctx, res):
    from jaqalpaq.parser import parse_jaqal_string
    from jaqalpaq.error import JaqalError

    root = tempfile.mkdtemp(prefix="c16probe")
    try:
        for name, files in SHAPES.items():
            for rel, content in files.items():
                p = os.path.join(root, "c16x_" + name, rel)
                os.makedirs(os.path.dirname(p), exist_ok=True)
                with open(p, "w") as f:
                    f.write(content)
        valid = "register r[1]\nG r[0]\n"
        for name in SHAPES:
            for dotted in ("c16x_" + name, "c16x_" + name + ".sub"):
                if dotted.endswith(".sub") and name != "dir_without_init_sub":
                    continue
                text = f"from .{dotted} usepulses *\nregister r[1]\n"
                outcome = None
                try:
                    parse_jaqal_string(text, autoload_pulses=True, import_path=root)
                    outcome = "ok"
                except (JaqalError, ImportError) as e:
                    outcome = type(e).__name__
                except BaseException as e:  # noqa: BLE001 — anything else is the violation
                    outcome = "ESCAPED " + type(e).__name__ + ": " + str(e)[:120]
                ok = not outcome.startswith("ESCAPED") and (outcome == "ok") == (name == "good")
                res.oracle_case("only_jaqalerror_or_importerror", ok, {"probe": "import-shape", "shape": name, "text": text}, outcome)
                # a failed import leaves nothing behind: the plain valid text still parses the same way
                try:
                    parse_jaqal_string(valid, autoload_pulses=False)
                    after = "ok"
                except BaseException as e:  # noqa: BLE001
                    after = type(e).__name__ + ": " + str(e)[:120]
                res.oracle_case("no_sticky_state", after == "ok", {"probe": "after-import-shape", "shape": name}, after)
    finally:
        shutil.rmtree(root, ignore_errors=True)
