#!/bin/sh
# usage: seed_test.sh <dir with patch.diff demo.py> <PID> [more PIDs…]
# Applies the seeded change to /repo, runs the demo, the test suite and the checks, then reverts.
D="$1"; shift
cd /repo || exit 2
git diff --quiet || { echo "/repo not clean"; exit 2; }
echo "== clean demo:"; PYTHONPATH=/repo/src JAQALPAQ_RUN_EMULATOR=1 /venv/bin/python "$D/demo.py" >/dev/null 2>&1; echo "exit $?"
git apply "$D/patch.diff" || { echo "patch does not apply"; exit 2; }
echo "== patched demo:"; PYTHONPATH=/repo/src JAQALPAQ_RUN_EMULATOR=1 /venv/bin/python "$D/demo.py" 2>&1 | grep -v WARNING | tail -3; 
PYTHONPATH=/repo/src JAQALPAQ_RUN_EMULATOR=1 /venv/bin/python "$D/demo.py" >/dev/null 2>&1; echo "exit $?"
echo "== tests:"; /venv/bin/python -m pytest -q -p no:cacheprovider --deselect tests/ipc -q 2>&1 | tail -1
for P in "$@"; do
  echo "== check $P:"; (cd /verif && ./check "$P" 2>/dev/null | grep -v WARNING | tail -2; )
done
git checkout -- . ; git status --short | head -3; (cd /verif && PYTHONPATH=/verif /venv/bin/python -W ignore -m harness.effects_scan --emit >/dev/null 2>&1; PYTHONPATH=/verif /venv/bin/python -W ignore -m harness.lexer_extract >/dev/null 2>&1)
