"""Regenerate /verif/MANIFEST.json from the table below (run: PYTHONPATH=/verif /venv/bin/python -m harness.manifest)."""
import json
import os

ROOT = os.path.dirname(os.path.dirname(os.path.abspath(__file__)))

# pid -> (claimed?, technique, level text, level note, design_ref)
CHECKS = {}


def claim(pid, technique, text, note, ref):
    CHECKS[pid] = dict(technique=technique, text=text, note=note, ref=ref)


COMMON_NOTE = (
    "Trusted: Lean 4.33 kernel and the axioms propext / Classical.choice / Quot.sound (no sorry, no native_decide, no bv_decide, no own axioms; "
    "audited by grep and #print axioms on every run, leanchecker in the thorough tier); the hand-written Lean model named in the evidence file; "
    "the correspondence harness (/verif/harness) that runs the real Python in-process and the compiled model on the same generated inputs; CPython, sly, numpy as listed in DESIGN.md §9. "
)

claim(
    "C03",
    "Lean 4 proof (Finset-sum / bit-level induction) of the loop nest = U⊗I matrix-vector product; exact differential correspondence with the real emulator",
    "Theorems C03_applyGate_eq_embed, C03_state(_vec/_GD), C03_idle, C03_identity, C03_embed_comm, C03_interleave prove, for every register size, every gate matrix over any commutative semiring, every ordered tuple of distinct qubits and every gate list, that the emulator's bit-twiddling loop nest computes the little-endian embedded matrix product in execution order, that gates without unitary are no-ops and that any interleaving of parallel branches on disjoint qubits gives the same state. The executable model is tied to /repo by exact (Gaussian-dyadic) state-vector comparison on generated programs run through the real emulator, plus direct oracles (numpy kron reference, alias-vs-direct, idle no-op, branch order, let override).",
    COMMON_NOTE + "Modelled, not verified: the Python loop nest is transcribed by hand; IEEE rounding for non-dyadic matrices is outside the model; trace serialisation and the passes are covered by C08/C12 and C04–C06/C09.",
    "DESIGN.md §7 C03",
)
claim(
    "C15",
    "Lean 4 proof (induction on bit strings, rational arithmetic) + exhaustive/differential correspondence with jaqalpaq.core.result",
    "Theorems in Props/C15.lean prove for every register size k and every outcome n < 2^k that as_str has exactly k characters with character i = bit i of n, that string and integer outputs round-trip, that the *_by_str views list each of the 2^k outcomes exactly once in integer order, that relative frequencies are readout counts, and (over exact rationals) that normalisation yields non-negative probabilities summing to one whenever the constructor does not raise. Correspondence is exhaustive for k ≤ 7 (quick) / k ≤ 11 (thorough) and sampled up to k = 40.",
    COMMON_NOTE + "Float rounding in the renormalisation (sum = 1 only to ~1 ulp) is runtime behaviour outside the model; compared with tolerance 1e-12.",
    "DESIGN.md §7 C15",
)
claim(
    "C19",
    "Lean 4 proof (structural induction over block trees) of schedule preservation; differential correspondence with normalize_blocks_with_unitary_timing",
    "Theorems C19_schedule, C19_schedule_order, C19_nodup, C19_duration, C19_flat, C19_frame(_slots), C19_ok_iff, C19_loop, C19_idempotent prove for every alternating nesting (any depth, unequal lengths, empty blocks, subcircuit blocks) that every gate instance keeps its time step (per-step order included), none is lost or duplicated, the result is flat, subcircuit annotations keep iteration count, start and duration, and that normalisation fails exactly for a loop (JaqalError) or subcircuit (assertion; unreachable through parser/builder) inside a parallel block.",
    COMMON_NOTE + "Gate statements are abstracted to opaque identities; macro bodies are not normalised by the pass and are outside the theorem.",
    "DESIGN.md §7 C19",
)

claim(
    "C12",
    "Lean 4 proof (two-way simulation between the visitor's bookkeeping and a declarative bracket automaton); differential correspondence with DiscoverSubcircuits",
    "Theorems C12_iff, C12_count, C12_errors(_loop) prove for every nesting of blocks and loops (any depth, any counts incl. 0) that subcircuit discovery accepts exactly the programs whose flat token sequence is well-bracketed per the property text (a subcircuit is open at every gate, every measure follows a prepare, no repeating loop closes a subcircuit that was open when its body began), that the traces are exactly the prepare/measure pairs in flat order (trailing prepare yields none, a repeated prepare discards the earlier opening), and that each rejection class names the violated rule.",
    COMMON_NOTE + "Statements are abstracted to a skeleton (prepare | measure | other gate, block, loop); macro expansion (C04) and the disjointness check (C13) are separate components; reading of the English rule as stated in the evidence assumptions.",
    "DESIGN.md §7 C12",
)
claim(
    "C08",
    "Lean 4 proof (refinement of the fuel-indexed walker to a tree-recursive specification, explicit fuel bound) + differential correspondence with run_jaqal_circuit / parse_jaqal_output_list under an alarm",
    "Theorems C08_terminates, C08_order, C08_unroll, C08_zero, C08_indices (and C03_serialize for the per-trace gate list) prove for every accepted nesting that the trace walker terminates within an explicit fuel bound, emits exactly the subcircuit visits of the unrolled program in order (a visit = executing the gate at which the trace starts), that loops with count ≤ 0 contribute none while their subcircuits stay numbered, and that readout indices are 0,1,2,… with per-subcircuit counts equal to occurrences. Direct oracles on the real code add: let-valued and overridden loop counts behave like literals, hardware output lists are consumed in visit order, sampled outcomes have non-zero probability, relative frequencies count own readouts.",
    COMMON_NOTE + "numpy.random.choice is an external oracle (checked per readout, not proved); the real code is run under a 5–10 s alarm, a timeout is a failure.",
    "DESIGN.md §7 C08",
)

ALL = [f"C{n:02d}" for n in range(1, 21)]
READY = {"C03", "C08", "C12", "C19"}  # checks that are built, pass on the unchanged tree and are registered


def main():
    checks = []
    for pid in ALL:
        if pid not in CHECKS or pid not in READY:
            continue
        c = CHECKS[pid]
        checks.append(
            {
                "property_id": pid,
                "quick_cmd": f"./check {pid} --tier quick",
                "thorough_cmd": f"./check {pid} --tier thorough",
                "evidence_file": f"evidence/{pid}.json",
                "replay_cmd_template": f"./check {pid} --replay {{path}}",
                "engine": "lean-model",
                "level_claimed": {"category": "proof", "text": c["text"], "design_ref": c["ref"]},
                "level_note": c["note"],
                "technique": c["technique"],
            }
        )
    na = [
        {"property_id": pid, "reason": "check not registered yet (component under construction; every property is planned to be claimed, see DESIGN.md §7)"}
        for pid in ALL
        if pid not in CHECKS or pid not in READY
    ]
    fixes = []
    try:
        import subprocess

        out = subprocess.run(["git", "-C", "/repo", "log", "--format=%h %s", "1d69af9..HEAD"], capture_output=True, text=True).stdout
        fixes = [l for l in out.split("\n") if l.strip()]
    except Exception:
        pass
    m = {
        "version": 1,
        "setup_cmd": "cd lean && lake build",
        "hooks": {
            "guard": "JAQALPAQ_VERIF",
            "enable": "no source hooks are needed: every check observes /repo through its public API and class attributes, in-process, from the working tree (the venv installs jaqalpaq in editable mode)",
            "baseline_off_cmd": "cd /repo && /venv/bin/python -m pytest -ra -q -p no:cacheprovider --timeout=900 --continue-on-collection-errors",
            "source_commits": [],
            "add_only": True,
        },
        "engines": [
            {
                "name": "lean-model",
                "path": "lean/",
                "serves_properties": [c["property_id"] for c in checks],
                "kind_free_text": "Lean 4 development: executable models (JaqalModel/, core Lean only, compiled to the line-protocol driver jaqal-model), specification layer (JaqalModel/Spec), theorems (JaqalProofs/Props/Cxx.lean), tied to /repo by regenerated tables and behavioural correspondence (harness/)",
            }
        ],
        "checks": checks,
        "not_applicable": na,
        "notes": "Unguarded repairs of genuine defects in /repo (one `fix:` commit each, recorded in known_findings.txt): " + "; ".join(fixes),
    }
    with open(os.path.join(ROOT, "MANIFEST.json"), "w") as f:
        json.dump(m, f, indent=1)
    print("claimed:", [c["property_id"] for c in checks])


if __name__ == "__main__":
    main()
