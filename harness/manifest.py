"""Regenerate /verif/MANIFEST.json from the table below (run: PYTHONPATH=/verif /venv/bin/python -m harness.manifest)."""
import json
import os

ROOT = os.path.dirname(os.path.dirname(os.path.abspath(__file__)))

# pid -> (claimed?, technique, level text, level note, design_ref)
CHECKS = {}


def claim(pid, technique, text, note, ref):
    CHECKS[pid] = dict(technique=technique, text=text, note=note, ref=ref)


COMMON_NOTE = (
    "Trusted: Lean 4.33 kernel and the axioms propext / Classical.choice / Quot.sound (no sorry, no native_decide, no bv_decide, no own axioms; "
    "audited by grep and #print axioms on every run, leanchecker in the thorough tier); the hand-written Lean model named in the evidence file; "
    "the correspondence harness (/verif/harness) that runs the real Python in-process and the compiled model on the same generated inputs; CPython, sly, numpy as listed in DESIGN.md §9. "
)

claim(
    "C03",
    "Lean 4 proof (Finset-sum / bit-level induction) of the loop nest = U⊗I matrix-vector product; exact differential correspondence with the real emulator",
    "Theorems C03_applyGate_eq_embed, C03_state(_vec/_GD), C03_idle, C03_identity, C03_embed_comm, C03_interleave prove, for every register size, every gate matrix over any commutative semiring, every ordered tuple of distinct qubits and every gate list, that the emulator's bit-twiddling loop nest computes the little-endian embedded matrix product in execution order, that gates without unitary are no-ops and that any interleaving of parallel branches on disjoint qubits gives the same state. Over the WHOLE RUN (Props/C03Run.lean, Lemmas/RunMeaning.lean): C03_run_total proves with no hypothesis that whenever runModel cfg ov txt returns a summary, the source program (subcircuit blocks spelled out) has a gate-level meaning under the overrides (Spec/Sem.lean: lets and overrides applied, macros expanded by substitution, every qubit resolved through its alias chain) and the summary — per subcircuit the serialised gates with their resolved qubits and numbers, the visit sequence, the subcircuit count — is exactly specSummary of that meaning tree, a function of the specification alone; C03_run_table / C03_run_args (every qubit and number the emulator uses is the specification's), C03_run_shape (the walker skeleton unrolls to the meaning's unrolled gate applications), C03_run_traces / C03_run_summary, C03_run_meaning(_raw/_source), C03_run_text are the steps. Together with C03_state this is the property's sentence end to end: the gates multiplied for a subcircuit are the unrolled meaning of the program. Props/C03End.lean draws the corollaries: C03_run_state / C03_run_state_norm (for every gate-matrix interpretation over any commutative semiring, the state the loop nests compute for subcircuit k from the run's own gate list equals U_j … U_1 |0…0⟩ with every U_j embedded on the qubits the SPECIFICATION resolves — under the decidable AppOK: distinct in-range qubits per gate — and has norm one for unitary matrices), C03_run_same_meaning(_total) (two programs with the same spelled-out meaning tree report the same summary), C08_run_let_run / C08_run_let_like_literal (a program and its image under fill_in_let — lets written as literals — run to the same result, errors included), C12_run_brackets_meaning and C08_run_visits_meaning (the number of subcircuits is the number of prepare/measure pairs of the meaning's flat gate names, the visits are those of its unrolled skeleton). C03_embed_unitary / C03_applyGate_norm / C03_norm_preserved (Props/C03Unitary.lean, any commutative star ring): embedding a unitary gate matrix on any ordered tuple of distinct qubits gives a unitary on the register, the loop nest preserves the norm, and the state computed from unitary gates has norm one — hence (C15_probabilities, over ℂ; C15_probabilities_GD for the executable Gaussian-dyadic program) the outcome probabilities are non-negative and sum to one before any renormalisation. The executable model is tied to /repo by exact (Gaussian-dyadic) state-vector comparison on generated programs run through the real emulator, plus direct oracles (numpy kron reference, alias-vs-direct, idle no-op, branch order, let override).",
    COMMON_NOTE + "Modelled, not verified: the Python loop nest is transcribed by hand; IEEE rounding for non-dyadic matrices is outside the model; trace serialisation and the passes are covered by C08/C12 and C04–C06/C09.",
    "DESIGN.md §7 C03",
)
claim(
    "C15",
    "Lean 4 proof (induction on bit strings, rational arithmetic) + exhaustive/differential correspondence with jaqalpaq.core.result",
    "Theorems in Props/C15.lean prove for every register size k and every outcome n < 2^k that as_str has exactly k characters with character i = bit i of n, that string and integer outputs round-trip, that the *_by_str views list each of the 2^k outcomes exactly once in integer order, that relative frequencies are readout counts, and (over exact rationals) that normalisation yields non-negative probabilities summing to one whenever the constructor does not raise. Correspondence is exhaustive for k ≤ 7 (quick) / k ≤ 11 (thorough) and sampled up to k = 40.",
    COMMON_NOTE + "Float rounding in the renormalisation (sum = 1 only to ~1 ulp) is runtime behaviour outside the model; compared with tolerance 1e-12.",
    "DESIGN.md §7 C15",
)
claim(
    "C19",
    "Lean 4 proof (structural induction over block trees) of schedule preservation; differential correspondence with normalize_blocks_with_unitary_timing",
    "On the REAL IR (Model/UnitTimingCircuit.lean: normalizeCircuit on circuits with Val arguments and counts, header copying and constructor re-checks included; Props/C19Circuit.lean): C19_circuit_refines(_error) / C19_circuit_complete_* (the circuit-level pass refines the skeletal one for every labelling of gate statements, so every theorem below transfers: C19_circuit_schedule(_order/_count), C19_circuit_duration, C19_circuit_flat, C19_circuit_subcircuits, C19_circuit_ok_iff, C19_circuit_loop, C19_circuit_idempotent), C19_circuit_header / C19_circuit_frame (constants, registers, macros, native gates, pulse imports unchanged; the gate statements of the result are a permutation of the input's, verbatim), C19_circuit_meaning (for every override environment the unrolled gate applications of the result's meaning are a permutation of the input's). Theorems C19_schedule, C19_schedule_order, C19_nodup, C19_duration, C19_flat, C19_frame(_slots), C19_ok_iff, C19_loop, C19_idempotent prove for every alternating nesting (any depth, unequal lengths, empty blocks, subcircuit blocks) that every gate instance keeps its time step (per-step order included), none is lost or duplicated, the result is flat, subcircuit annotations keep iteration count, start and duration, and that normalisation fails exactly for a loop (JaqalError) or subcircuit (assertion; unreachable through parser/builder) inside a parallel block.",
    COMMON_NOTE + "Gate statements are abstracted to opaque identities; macro bodies are not normalised by the pass and are outside the theorem.",
    "DESIGN.md §7 C19",
)

claim(
    "C12",
    "Lean 4 proof (two-way simulation between the visitor's bookkeeping and a declarative bracket automaton); differential correspondence with DiscoverSubcircuits",
    "Theorems C12_iff, C12_count, C12_errors(_loop) and, over the whole run model with subcircuit blocks, lets and MACROS EXPANDED, C12_run_accept / C12_run_reject prove for every nesting of blocks and loops (any depth, any counts incl. 0) that subcircuit discovery accepts exactly the programs whose flat token sequence is well-bracketed per the property text (a subcircuit is open at every gate, every measure follows a prepare, no repeating loop closes a subcircuit that was open when its body began), that the traces are exactly the prepare/measure pairs in flat order (trailing prepare yields none, a repeated prepare discards the earlier opening), and that each rejection class names the violated rule.",
    COMMON_NOTE + "C12_run_brackets_meaning (Props/C03End.lean) lifts this to the program AS WRITTEN: whenever the run returns a result, the flat token list read off the MEANING tree of the source program (Spec/Sem.lean; lets, overrides and macros resolved by the specification, not by the passes) is Bracketed and the number of subcircuits is the number of its prepare/measure pairs — a pure count on the meaning's flat gate names. The walker theorems are about the skeleton (prepare | measure | other gate, block, loop) of the expanded circuit; C12_run_accept / _reject (Props/C12Run.lean) connect them to RunModel.runCircuit — a result is produced only if the flat token list of the expanded program is well-bracketed, with one subcircuit per pair, and a program that is not is refused with the JaqalError of a bracket rule; macro expansion itself is C04, the disjointness check C13; reading of the English rule as stated in the evidence assumptions.",
    "DESIGN.md §7 C12",
)
claim(
    "C08",
    "Lean 4 proof (refinement of the fuel-indexed walker to a tree-recursive specification, explicit fuel bound) + differential correspondence with run_jaqal_circuit / parse_jaqal_output_list under an alarm",
    "Theorems C08_terminates, C08_order, C08_unroll, C08_zero, C08_indices (and C03_serialize for the per-trace gate list), lifted to the whole run model (subcircuit blocks, lets and macros expanded first) by C08_run_visits / C08_run_never_hangs, and from there to the program as written (Props/C03End.lean: C08_run_visits_meaning — the visits are a function of the program's meaning tree —, C08_run_let_run / C08_run_let_like_literal — loop counts given by (overridden) lets behave like literals: the program and its fill_in_let image run to the same result), prove for every accepted nesting that the trace walker terminates within an explicit fuel bound, emits exactly the subcircuit visits of the unrolled program in order (a visit = executing the gate at which the trace starts), that loops with count ≤ 0 contribute none while their subcircuits stay numbered, and that readout indices are 0,1,2,… with per-subcircuit counts equal to occurrences. The hardware-output parser is modelled end to end (Model/OutputList.lean: parse_jaqal_output_list = the same expansion, discovery and walk, consuming one output per visit) and Props/C08Outputs.lean proves, for every circuit and every output list: C08_outputs_one_per_visit (the subcircuit indices of the readouts are exactly the visit sequence of the unrolled program, readout indices 0,1,2,…, the j-th value is the j-th output), C08_outputs_like_emulator (same visits and subcircuit count as the emulator run), C08_outputs_short(_never_ok) (too few outputs ⇒ JaqalError), C08_outputs_extra_ignored(_all), C08_outputs_freq(_nonneg) (each table entry counts the subcircuit's own readouts of that value; a table's total is the number of its visits), C15_outputs_same / _value / _forms (an integer and its n-character bit string are interchangeable entry by entry), C09_outputs_exec (the spelled-out program is reported identically). Direct oracles on the real code add: let-valued and overridden loop counts behave like literals, hardware output lists are consumed in visit order, sampled outcomes have non-zero probability, relative frequencies count own readouts.",
    COMMON_NOTE + "numpy.random.choice is an external oracle (checked per readout, not proved); the real code is run under a 5–10 s alarm, a timeout is a failure.",
    "DESIGN.md §7 C08",
)

claim(
    "C02",
    "Lean 4 proof (soundness and completeness of the parser model w.r.t. an inductive grammar, separator-exchange, token-cover, text-level layout equivalence, first-non-viable-token error positions, tokenizer = regex matcher on the regenerated rule table) + regenerated grammar/lexer tables + differential correspondence with sly's lexer and parser",
    "Theorems C02_sound, C02_complete, C02_unique, C02_accepts_iff, C02_no_fuel_error prove that the parser model accepts a token string exactly when the Jaqal grammar (an independent inductive derivation relation) derives it, with a unique tree; C02_sep_exchange(_semi/_bar/_result) that exchanging any subset of `;`/`|` separators with newlines never changes the result; C02_no_drop that lexing covers the text with blanks, comments and exactly the reported tokens in order (nothing outside a comment is dropped); C02_layout that inserting or removing, between two tokens, blanks, block comments, line comments in front of a newline and blank lines next to a newline never changes acceptance or the tree (text level, every text); C02_error_pos_full / C02_error_eof_full that a reported error position is that of the FIRST token after which no continuation is syntactically possible (the tokens before it have a continuation, they plus the offending token have none), and EOF only when the whole text is a viable prefix that is not a program; C02_error_pos_partial that the position is a token start of the text, the offset where lexing fails, or EOF; C02_regex that the model's hand-written tokenizer equals a generic backtracking regex matcher run on the token-rule table, which a translator regenerates from the loaded JaqalLexer's master pattern on every run (JaqalModel/Generated/LexerRules.lean). The model is tied to /repo by table regeneration (88 productions, token rules as regex ASTs, zero sly conflicts) and by exact comparison of acceptance, S-expression and (line, column) on grammar-directed programs under random layout, token and character mutants and noise.",
    COMMON_NOTE + "Viability is stated against the context-free part of the grammar (Spec/Grammar.lean: Syntax — the productions without the two action side conditions), which is what an LALR parser can see. sly's LALR construction and Python `re` are trusted; the regex semantics used by C02_regex (ordered alternation, greedy / lazy repetition, backtracking) is the model's own (Spec/Regex.lean) and is compared with Python's by differential lexing. The entry-point stream harness/agents/c02_entry.py checks that all sixteen public parser entry points agree on acceptance, tree and position, and that no result depends on earlier calls.",
    "DESIGN.md §7 C02",
)
claim(
    "C04",
    "Lean 4 proof (substitution lemma: evaluation under call bindings = evaluation of the substituted body; induction over macro table and statements) + whole-dump differential correspondence with expand_macros",
    "Theorems C04_meaning, C04_no_calls, C04_header, C04_shape, C04_arity(_call/_first), C04_idempotent prove for every well-formed circuit (any number of macros, any acyclic call graph, parameters used as qubit / number / index / loop count / subcircuit count / passed on, any block context) and every override environment that macro expansion preserves the specification-level gate meaning, leaves no macro call, carries header data over unchanged, yields a spliced normal form that is a fixed point of the pass, and rejects wrong-arity calls.",
    COMMON_NOTE + "WellFormed is an explicit decidable predicate capturing what the builder guarantees; Props/ParsedC04.lean discharges it: C04_meaning_parsed, C04_no_calls_parsed, C04_header_parsed, C04_shape_parsed, C04_idempotent_parsed, C04_total_class_parsed state the same conclusions with `Pipeline.parseProgram cfg txt = .ok c` (the model of parse + build on a text) as the ONLY premise on the circuit, through Lemmas/ParsedLegal.lean: parsed_legal (every circuit the parser model returns, for every configuration and text, is Legal). CPython's recursion limit is not modelled.",
    "DESIGN.md §7 C04",
)
claim(
    "C09",
    "Lean 4 proof (the pass equals an explicit tree map; flat-sequence lemma) + differential correspondence with expand_subcircuits + direct execution oracle on both spellings",
    "Theorems C09_shape(_subcircuit/_other/_body), C09_none_left, C09_defs(_native), C09_header, C09_flat(_subcircuit/_sem), C09_idempotent, C09_total, C09_param_rejected, C09_exec prove that every subcircuit block (in the body and in every macro body) becomes a sequential block prepare :: body ++ [measure] with the native / caller-supplied / default definitions, nothing else changes, none remains, and the flat gate sequence is the input's with each subcircuit bracketed by prepare/measure. C09_exec (Props/C09Exec.lean) states the execution half over the whole run model: running the explicit spelling gives exactly the run summary (subcircuits in order, visits, serialised gates of every trace, or the same rejection) of running the original, for every circuit and override list; both spellings of generated programs are also run on the real emulator and output parser.",
    COMMON_NOTE + "C09_exec is a theorem about RunModel.runCircuit (the composition of the pass, walker, serialiser and discovery models validated by the C16 correspondence run_model); outcomes themselves (sampling) are outside the model.",
    "DESIGN.md §7 C09",
)
claim(
    "C11",
    "Lean 4 proof (frame theorem over a heap model; `decide` over an effect-site table regenerated from the Python AST on every run) + dynamic history oracle with deep snapshots",
    "C11_frame / C11_history / C11_static prove, in a heap model with object identity, that a call all of whose writes target objects it allocated itself leaves every pre-existing object unchanged, and that any history of such calls on a shared object gives the results of the calls on fresh copies. C11_sites_safe discharges the hypothesis for the table of all 268 mutation sites of the anchored modules, which a translator regenerates from /repo's source on every run (a new write through an input-rooted receiver fails the obligation). Because the provenance classification is syntactic and trusted, random call histories over all ten operations on one shared circuit are checked with deep structural snapshots and compared with fresh-copy results.",
    COMMON_NOTE + "This is the property where the theorem carries least (effect summary, syntactic provenance); the history oracle carries the behavioural weight. Mutation inside C code is invisible to the scanner.",
    "DESIGN.md §7 C11",
)
claim(
    "C15",
    "Lean 4 proof (induction on bit strings; exact rational arithmetic) + exhaustive/differential correspondence with jaqalpaq.core.result",
    "Theorems C15_as_str_length, C15_as_str_bit, C15_roundtrip(_all/_conv), C15_view_keys(_nodup), C15_histogram(_sum), C15_accept_all, C15_normalize(_ok_iff/_id/_reject) prove for every register size k and outcome n < 2^k that as_str has exactly k characters with character i = bit i of n (qubit 0 = LSB = leftmost), that string and integer outputs round-trip, that the *_by_str views list each of the 2^k outcomes exactly once in integer order, that relative frequencies are readout counts, and (over exact rationals) that normalisation yields non-negative probabilities summing to one exactly when the constructor does not raise. C15_probabilities / C15_probabilities_spec / C15_probabilities_GD (Props/C03Unitary.lean) prove that the exact state the emulator computes from unitary gate matrices has squared amplitudes that are non-negative and sum to one, for every register size, qubit tuple and gate list (the renormalisation then only repairs floating-point rounding). Correspondence is exhaustive for k ≤ 7 (quick) / k ≤ 11 (thorough), sampled up to k = 40.",
    COMMON_NOTE + "Float rounding in the renormalisation (sum = 1 only to ~1 ulp) is runtime behaviour outside the model; compared with tolerance 1e-12. The cutoff constants are decimal in the model (2e-6, 1e-13); the doubles differ by < 1e-22.",
    "DESIGN.md §7 C15",
)
claim(
    "C18",
    "Lean 4 proof (total case analysis over all values; permutation lemma for keyword calls; induction over gate-set dictionaries) + differential correspondence with GateDefinition / add_idle_gates / stretched_gates and the real emulator",
    "Theorems C18_kw(_conv), C18_accept(_index/_stmt), C18_fits_table, C18_mixed, C18_reject_class, C18_idle(_writes/_lookup/_exact/_special/_emu/_state), C18_stretch(_gate/_emu/_sound/_set/_update) prove for every signature and argument list that positional and keyword calls give the same statement, that a call is accepted exactly when arity matches and every argument fits its parameter's kind per an independently stated table (for every value), that rejections are JaqalErrors, that every non-prepare/measure gate gets an idle gate with the same signature, no qubits and no effect on the state (via C03_idle), and that a stretched gate takes one trailing float and calls exactly its own parent's unitary for every stretch value.",
    COMMON_NOTE + "Unitaries are abstract functions in the model; nan/inf are checked on the real code only.",
    "DESIGN.md §7 C18",
)

claim(
    "C13",
    "Lean 4 proof (exactness of the visitor w.r.t. an inductive reachability relation and, through a logical relation between the visitor's context and the specification's bindings, w.r.t. the meaning specification; rejection iff conflict; permutation invariance incl. macro bodies; bridge to C03_interleave) + differential correspondence with the used-qubit visitor, DiscoverSubcircuits and the emulator",
    "Theorems C13_exact(_stmt), C13_fuel_irrelevant, C13_leaf_*, C13_busy, C13_idle, C13_reject, C13_exact_spec / C13_exact_parsed, C13_order_used / _accept, C13_orderC_used / _accept / _reject, C13_indep_of_disjoint, C13_order_state(_perm), and over the whole run model C13_run_accept / C13_run_reject (a result is produced only if no reachable parallel block of the expanded program has overlapping branches; a conflict is refused with the JaqalError of the check before anything is serialised) prove for every circuit and sub-statement that the analysis returns exactly the qubits some reachable gate acts on (through blocks, loops, macro calls with arguments evaluated in the caller's scope, aliases and lets; busy gates = all, idle gates = none) — for every circuit parse_jaqal_string builds, exactly the fundamental qubits on which some gate application of the circuit's MEANING (Spec/Sem.lean: macros by substitution, registers as lists of qubits) acts —, that the emulator's check rejects exactly when two branches of a reachable parallel block (or two arguments of one gate) act on a common qubit, that permuting the branches of any parallel blocks, in the body and in macro bodies, changes neither the used sets nor acceptance, and that any permutation of pairwise independent branches leaves the state vector unchanged (through C03_interleave).",
    COMMON_NOTE + "C13_exact_parsed carries one proviso: gate definitions handed in through the configuration are not tagged as macros (Python's GateDefinition objects never are). The literal C13_exact_full of Props/C13.lean quantifies over hand-built circuits the builder never makes (float sizes, slices leaving their source) and is not claimed; the oracle used_exact_pipeline checks exactness on the real code.",
    "DESIGN.md §7 C13",
)
claim(
    "C17",
    "Lean 4 proof (the three front ends' S-expressions coincide up to builder-irrelevant spellings; build(norm e) = build e; namer freshness by pigeonhole) + three-way differential correspondence with the real Q-syntax, CircuitBuilder and parser",
    "Theorems C17_same, C17_q_accepts, C17_text_defined, C17_wrap(_spec), C17_fresh, C17_subcircuit_none_argument (and C17_build_norm / C17_build_front_ends in Props/C17Build.lean) prove for every program of the common type that the builder API and the parser hand `build` the same S-expression, that Q-syntax hands it the S-expression of the program wrapped in prepare_all/measure_all exactly when the body does not begin with a prepare or a subcircuit, that `build` cannot distinguish the remaining spellings, and that generated names are pairwise distinct and disjoint from all user names of both kinds (for all user name lists, including __c0/__r3-style names).",
    COMMON_NOTE + "The front-end models are S-expression producers; that rejections are JaqalErrors and that all three front ends reject the same programs are correspondence-level facts.",
    "DESIGN.md §7 C17",
)

claim(
    "C07",
    "Lean 4 proof (memo-table invariant preserved by every builder step ⇒ memoised build = memo-free build, for every S-expression) + differential correspondence with circuitbuilder.build with and without the memoiser",
    "Theorems C07_memo_transparent (∀ cfg e, build cfg e = buildNoMemo cfg e), C07_memo_sound, C07_context_free, C07_innermost_header / C07_innermost_param prove that the gate memoiser never changes what is built — so the built form of a statement depends only on its own text, the gate table and the bindings of the names occurring in it (including names inside array items), never on a textually identical statement elsewhere — and that inside a macro body an identifier is the parameter of that name if there is one, else the header binding. Counterexamples by `decide` document the three defects repaired on the way (old key ignoring names inside array items; numerals compared with ==; stale entries after a pulse import).",
    COMMON_NOTE + "The builder model threads the memo table and gate context as explicit state; error classes only (messages are not compared).",
    "DESIGN.md §7 C07",
)
claim(
    "C14",
    "Lean 4 proof (invariants over the builder's accumulated context: declarative RefsValid / NamesValid hold of every accepted circuit) + boundary-value correspondence + pipeline oracle over the stage at which a value becomes known",
    "Theorems C14_sound(_build/_parser), C14_sound_all, C14_names_distinct, C14_known_when_known_*, C14_checked_literal_index, C14_precedence_injected / _later prove that every circuit the builder accepts has all literal indices within 0..size-1, all literal slices with non-zero step, non-negative start and every element inside the source, every indexed or mapped thing a register or parameter, pairwise distinct names, every gate statement bound to a native gate, an earlier macro or (only without a gate set) an anonymous definition, with arity and kinds fitting; and which positions are deferred because their value is a let. The deferred positions are checked when fill_in_let rebuilds (C05) and when expand_macros calls the definition (C04); over the whole run model C14_run_text proves, for every text, configuration and override list with no hypothesis, that whenever the run produces a result every qubit and register argument of every gate that is serialised into a trace resolved with its index inside the size of EVERY level of its alias chain and inside the fundamental register (RefsHonoured Within; resolution succeeds exactly when the chain is in range at every level: resolveQubit_ok_iff), that the token written is the resolved qubit (no run on a different qubit), and C14_run_bad_ref_rejected that a reference which does not resolve makes the run fail with a JaqalError (never ImportError, never another class: execute_noImport); the direct oracle harness/extra_c14.py drives the real pipeline with the offending value entering as literal, let, override, macro argument, let-sized or override-sized register and requires JaqalError, and the reference qubit for valid programs.",
    COMMON_NOTE + "A literal index into a let-sized register is checked against the declared value (possible false rejection under an enlarging override; not a C14 violation).",
    "DESIGN.md §7 C14",
)
claim(
    "C20",
    "Lean 4 proof (reflexivity, symmetry, per-field inversion lemmas, logical relation from equality to the meaning specification) + differential correspondence with the real == in both orders and single-token mutants",
    "Theorems C20_refl, C20_symm (and C20_symm_value / _stmt unconditionally), C20_discriminates_* (one inversion lemma per field of every node kind: == True ⇒ the fields are equal by value), C20_sound_parsed and C20_sound_parsed_any (Props/C20Autoload.lean: EVERY configuration, usepulses imports through any import function included, the two circuits possibly parsed under different configurations) (any two circuits parse_jaqal_string returns that compare equal have identical let and register declarations and, for every override environment, meanings equal up to numeric value; no further hypothesis: parsed_parserLike shows every parsed circuit satisfies the invariant ParsedLike, including programs in which a macro parameter shadows the register a header alias refers to, and the order of the macro dictionaries does not matter), C20_sound / C20_sound_ordered / C20_sound_parsedLike (the same for hand-built circuits under explicit invariants), C20_ignored_fields_meaningless, and the generator lemmas C20_gen_total / _splice / _names. Counterexamples by `decide` document the repaired defects (a fundamental register equal to an alias of the same size in one direction only; Parameter == Constant).",
    COMMON_NOTE + "C20_sound_full — soundness for ARBITRARY hand-built circuits without any invariant — is false and proved false (C20_sound_full_false: `[m1, m2 calls m1]` against `[m2 calls m1, m1]` compare equal and denote differently; the builder never makes the second). NaN is outside the model.",
    "DESIGN.md §7 C20",
)

claim(
    "C05",
    "Lean 4 proof (logical relation between evaluation under the override environment and evaluation of the substituted circuit; inversion of the rebuild through the builder model) + whole-dump differential correspondence with fill_in_let under random override dictionaries",
    "Theorems C05_meaning, C05_no_consts, C05_shadow(_gate/_qubit), C05_frame, C05_revalidate, C05_shrink_rejected, C05_idempotent_val prove for every well-formed circuit and every override dictionary that the result means, under the empty environment, what the original means with each constant bound to its overriding value if given else its declared value; that no constant is left in any gate argument, index, size, bound, loop or subcircuit count (body, macros, registers); that macro parameters shadowing a constant are untouched; that block kinds, subcircuit annotations, macros, natives and usepulses are preserved; and that indices are re-checked against the NEW sizes (an override shrinking a register below a used index is rejected).",
    COMMON_NOTE + "Props/ParsedC05.lean (C05_meaning_parsed, C05_meaning_env_parsed, C05_no_consts_parsed, C05_frame_parsed, C05_idempotent_parsed) states the conclusions for every circuit the parser model returns, the well-formedness hypotheses discharged by parsed_legal. C05_idempotent_full (a second fill_in_let with ANY override dictionary returns the circuit unchanged) is proved as C05_idempotent in Props/C10.lean (Lemmas/PassesIdem.lean). One open known finding (defaulted-stop-frozen: `map c a[1:]` over an alias whose size depends on an overridden let keeps the stop computed at build time) is a genuine deviation from the property recorded in known_findings.txt; the model reproduces the code: C05_meaning is about the BUILT circuit, in which that stop is already a number, so the deviation sits between the text and the built circuit under overrides; the direct oracle meaning_under_overrides exhibits it and the check prints it as KNOWN-FINDING.",
    "DESIGN.md §7 C05",
)
claim(
    "C06",
    "Lean 4 proof (induction over alias chains: closed-form resolution = list denotation of the specification; consumers factor through one function) + differential correspondence with resolve_qubit / fill_in_map / the emulator",
    "Theorems C06_resolve_slice/_whole/_single, C06_resolve_closed_form, C06_resolve_eq_spec, C06_register_denotation, C06_total, C06_valid_of_builder, C06_in_range, C06_mapVal_qubit, C06_fill_in_map, C06_agree_used/_fill/_emulator, C06_alias_same_as_direct prove for alias chains of any depth (whole, single-qubit, strided incl. negative steps, literal / defaulted / let-valued bounds and sizes) that element i of src[start:stop:step] is element start+i·step of src, that the composed closed form equals the specification's extensional reading, that the index lies in the fundamental register, that alias fill-in rewrites every qubit argument (body and macros) to that fundamental qubit and preserves meaning, and that used-qubit analysis, fill-in and the emulator's extraction are the same function of the reference.",
    COMMON_NOTE + "Props/ParsedC06.lean: C06_fill_in_map_parsed discharges FillIn.WellFormed for every parsed circuit and keeps the decidable condition goodRefs (every qubit reference among the gate arguments goes through a valid chain with an integer index) explicit — it cannot be dropped: goodRefs_parsed_fails / goodRefs_parsed_fails_param exhibit parsed circuits without it (a slice leaving a let-sized register, which fill_in_let rejects; a macro body indexing a parameter, which fill_in_map refuses). That the real consumers all call resolve_qubit is a correspondence-level fact checked by oracles (consumers_agree, alias_same_as_direct) on the real emulator.",
    "DESIGN.md §7 C06",
)

claim(
    "C10",
    "Lean 4 proof (canonical-form theorem for applicable pass sequences; legality preserved by every pass; flags = passes) + pipeline table regenerated from the Python ASTs + differential correspondence over random pass sequences",
    "Theorems C10_canonical, C10_commute_meaning, C10_commute_perm, the six pairwise C10_comm_* lemmas, C10_idempotent (all four passes: a second application returns the same circuit; for fill_in_let with any second override dictionary) and C10_idempotent_meaning, C10_flags(_ok), C10_legal_preserved, C10_applicable_of_legal prove that any orders and repetitions of an applicable sequence of the four passes give the same meaning (with 'applicable' made precise: every intermediate circuit legal, and alias fill-in not baking in a let that the overrides in force change; subcircuit expansion acts through the semantic map spellSem), that every pass applied twice returns what it returns once, that every pass preserves legality (both well-formedness predicates and the deep register-chain invariant), and that the parser's expand flags are exactly the passes applied to the plain parse. The pass orders of parse_jaqal_string / run_jaqal_circuit / parse_jaqal_output_list are read out of the Python ASTs on every run and compared with the model's table.",
    COMMON_NOTE + "One open known finding (subs-bounding-not-reparsable, known_findings.txt): the LAST clause of C10 is false of the code and of the model for expand_subcircuits in two shapes — no gate set in force while the program itself calls prepare_all / measure_all with arguments, and a gate set in force that does not define them — where the generated text of the pass result does not parse back (Props/C10Text.lean: C10_text_subs_refuted, C10_text_subs_refuted_natives, found by the attempt to prove the clause; both witnesses are evaluated on the real code on every run and printed as KNOWN-FINDING; any other failure of legal_after_pass is a violation). Proved towards the clause: C10_text_reduces (for any printable, lex-safe circuit the re-parse of the generated text IS the builder run on unbuild c), C10_printable_subs / C10_namesOK_subs / C10_lexsafe_subs / C10_text_subs_layers (layers A and B for expand_subcircuits results of parsed circuits), C10_text_of_layerC / C10_text_subs_partial / C10_text_partial (the clause from the remaining layer), with C10_printable_full, C10_layerC_full, C10_text_full, C10_text_subs_full kept as named propositions. Legality is the model's decidable predicate `Legal` (what the builder accepts); Props/ParsedC10.lean proves it of every parsed circuit and so states the property from texts: C10_legal_parsed, C10_legal_preserved_parsed / C10_legal_seq_parsed (every pass, every sequence of passes on a parsed circuit gives a Legal circuit), C10_applicable_parsed (every sequence without fill_in_map is applicable from a parsed circuit — no hypothesis), C10_commute_parsed (two sequences with the same passes and overrides, both succeeding on a parsed circuit that has a meaning, give the same meaning), C10_commute_parsed_map / C10_applicable_parsed_side (with fill_in_map: under the side condition of its steps only), C10_idempotent_parsed / C10_idempotent_seq_parsed; Props/ParsedEx.lean evaluates all premises on a concrete text (non-vacuity). that the generated TEXT of a legal circuit parses back (C10_legal_text_partial) has C01's round trip as hypothesis and is covered by the direct oracle legal_after_pass. One open known finding (defaulted-stop-frozen, see C05) can surface under overrides; it is excluded by `Applicable`.",
    "DESIGN.md §7 C10",
)
claim(
    "C16",
    "Lean 4 proof (totality and error-class theorems for parse + build on every text; class lemmas for every later stage; model purity) + direct oracles on the real entry points over hostile inputs, call histories and fresh subprocesses",
    "C16_total proves, for EVERY character string, configuration (gate set, autoload switch, import function) and override list, with no hypothesis, that the whole run parse → build → expand_subcircuits → fill_in_let → expand_macros → discovery / disjointness / resolution / serialisation → execute fails only with JaqalParseError / JaqalError / ImportError — never another exception class, never non-termination (no fuel exhaustion); it composes C02_no_fuel_error, C16_parse_build_total, built_typed / built_scoped / built_fits, C09_total_class, C05_total_class, C04_total_class, expand_flat, flatT_execClass, C03_serialize and C08_terminates. C16_pos proves that a parse error's position is EOF or the line and column of a token start of the text / of the character the lexer refuses. C16_outputs_total / C16_outputs_no_crash_no_hang (Props/C16Outputs.lean) prove the same for the second execution entry point, parse_jaqal_output_list (Model/OutputList.lean): for every text, configuration and every output list whose consumed entries are outcomes 0..2^n-1 (as ints or n-character bit strings) it fails only with JaqalParseError / JaqalError / ImportError and never hangs; C16_outputs_classes / C16_outputs_odd_only say exactly where another class escapes (ValueError / IndexError / OverflowError, only from an invalid entry among the first |visits| outputs — outside what C15 and C16 quantify over); C16_outputs_pos(_same) give the position clause. C16_deterministic / C16_history_perm / C16_history_interleave state purity of the model. The part of the property that lives in the Python process is checked by direct oracles: only JaqalError / ImportError over valid programs, token and character damage, every prefix, deep nesting (blocks, loops, macro chains), huge literals, missing and clashing pulse modules, no / two registers; error positions; termination under an alarm; outcome independent of call history in one process and equal to a fresh interpreter's.",
    COMMON_NOTE + "CPython's recursion limit, memory exhaustion and numpy's sampler are runtime behaviour outside the model (converted to JaqalError at the entry points by fix commits; tested by the oracles, not proved). Error positions of JaqalErrors raised after parsing are not part of the model (the library attaches none there).",
    "DESIGN.md §7 C16",
)

claim(
    "C01",
    "Lean 4 proof (round trip cut into token / text / rebuild layers: the generator's tokens derive the circuit's statement tree in the grammar, lexing the generated text gives those tokens, the builder maps the tree back to the same circuit — for programs in any statement order, by a bubble-sort argument over the builder's loop; complete literal layer) + differential correspondence of the whole round trip and of each layer with generate_jaqal_program / parse_jaqal_string",
    "C01_roundtrip_bounded proves, for EVERY text the parser accepts (any statement order; C01_roundtrip_bounded_any, C01_roundtrip_exact_any, C01_roundtrip_bounded_again_any, C01_meaning_parsed_any in Props/C01Autoload.lean: for EVERY configuration — autoload on, any import function, any injected gate table — by a simulation between the autoload builder and the plain builder started from the imported table, Lemmas/RoundTripAutoload.lean; the re-parse uses the same configuration, and C01_auto_inject_matters shows that this cannot be dropped) whose circuit writes no integer of more than 4300 digits (decidable hypothesis IntsBounded), that the generator succeeds, its text is accepted, parses to a circuit == the original, generating again gives the same text byte for byte (C01_roundtrip_bounded_again: the re-parsed circuit is again IntsBounded), and the re-parsed circuit has the same gate-level meaning under every override environment (C01_meaning_parsed). Ingredients: C01_tokens_derive / C01_parse_toks (layer A: the tokens written for any printable circuit are a program of the grammar with tree unbuild c); C01_lex_gen_bounded with C01_lexsafe / C01_lexsafe_iff (layer B: lexing the generated text gives those tokens; names and floats of a parsed circuit are always writable, ints iff bounded); C01_reorder / C01_rebuild / C01_rebuild_exact (layer C: sorting an accepted program's statements into the generator's order does not change what the builder makes, and the builder maps unbuild c back to EXACTLY c); C01_printable, C01_no_same_kind_nesting, C01_wf; the literal layer C01_float_roundtrip, C01_int_roundtrip, C01_num_roundtrip, C01_*_stable, C01_no_token_merge*, C01_readers_are_the_regexes; C01_builder_api, C01_zero_step_rejected and the fixpoint lemmas for builder-API spellings. C01_big_stop shows in the model that the bound cannot be dropped.",
    COMMON_NOTE + "One open known finding (int-beyond-str-limit, known_findings.txt): CPython cannot write or read an int of more than 4300 digits; a COMPUTED slice bound can exceed that (`register r[N]; let m -N; map a r[m:]; map b a[:]`, N = 4300 nines) and generate_jaqal_program raises ValueError on an accepted program — the unrestricted C01_roundtrip_full is therefore false of the code and of the model, the theorem carries IntsBounded, and the check prints the finding as KNOWN-FINDING (witness evaluated on every run; with 4299 nines the round trip works). C01_meaning_parsed adds the last clause of the property to the round trip: the re-parsed circuit has the same gate-level meaning under every override environment (C01_roundtrip_bounded composed with C20_sound_parsed).",
    "DESIGN.md §7 C01",
)

TECH_SUFFIX = (
    "; failing-input search and model validation by direct oracles on the real code (independent references in harness/agents/cNN_*.py: "
    "entry points, call histories with shared objects, edge values, scale thresholds, unusual identifiers, text noise)"
)

ALL = [f"C{n:02d}" for n in range(1, 21)]
READY = {"C01", "C02", "C03", "C04", "C05", "C06", "C07", "C10", "C16", "C08", "C09", "C11", "C12", "C13", "C14", "C15", "C17", "C18", "C19", "C20"}  # checks that are built, pass on the unchanged tree and are registered


def main():
    checks = []
    for pid in ALL:
        if pid not in CHECKS or pid not in READY:
            continue
        c = CHECKS[pid]
        checks.append(
            {
                "property_id": pid,
                "quick_cmd": f"./check {pid} --tier quick",
                "thorough_cmd": f"./check {pid} --tier thorough",
                "evidence_file": f"evidence/{pid}.json",
                "replay_cmd_template": f"./check {pid} --replay {{path}}",
                "engine": "lean-model",
                "level_claimed": {"category": "proof", "text": c["text"], "design_ref": c["ref"]},
                "level_note": c["note"],
                "technique": c["technique"] + TECH_SUFFIX,
            }
        )
    na = [
        {"property_id": pid, "reason": "check not registered yet (component under construction; every property is planned to be claimed, see DESIGN.md §7)"}
        for pid in ALL
        if pid not in CHECKS or pid not in READY
    ]
    fixes = []
    try:
        import subprocess

        out = subprocess.run(["git", "-C", "/repo", "log", "--format=%h %s", "1d69af9..HEAD"], capture_output=True, text=True).stdout
        fixes = [l for l in out.split("\n") if l.strip()]
    except Exception:
        pass
    m = {
        "version": 1,
        "setup_cmd": "./setup.sh",
        "hooks": {
            "guard": "JAQALPAQ_VERIF",
            "enable": "no source hooks are needed: every check observes /repo through its public API and class attributes, in-process, from the working tree (the venv installs jaqalpaq in editable mode)",
            "baseline_off_cmd": "cd /repo && /venv/bin/python -m pytest -ra -q -p no:cacheprovider --timeout=900 --continue-on-collection-errors",
            "source_commits": [],
            "add_only": True,
        },
        "engines": [
            {
                "name": "lean-model",
                "path": "lean/",
                "serves_properties": [c["property_id"] for c in checks],
                "kind_free_text": "Lean 4 development: executable models (JaqalModel/, core Lean only, compiled to the line-protocol driver jaqal-model), specification layer (JaqalModel/Spec), theorems (JaqalProofs/Props/Cxx.lean), tied to /repo by regenerated tables and behavioural correspondence (harness/)",
            }
        ],
        "checks": checks,
        "not_applicable": na,
        "notes": "Unguarded repairs of genuine defects in /repo (one `fix:` commit each, recorded in known_findings.txt): " + "; ".join(fixes),
    }
    with open(os.path.join(ROOT, "MANIFEST.json"), "w") as f:
        json.dump(m, f, indent=1)
    print("claimed:", [c["property_id"] for c in checks])


if __name__ == "__main__":
    main()
