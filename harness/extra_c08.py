"""Additional direct oracles for C08 on the real code (let-valued loop counts, overrides, hardware output
lists, sampled outcomes), on top of harness/agents/walk_diff.py."""
import os
import signal
import warnings

from .agents import walk_diff as W
from . import timeouts as _T


def _map_counts(items, f):
    """Deep copy of a walk_diff item tree with every loop count c replaced by f(c)."""
    out = []
    for it in items:
        if isinstance(it, list) and it and it[0] in ("loop", "ploop"):
            out.append([it[0], f(it[1]), _map_counts(it[2], f)])
        elif isinstance(it, list) and it and it[0] == "g":
            out.append(list(it))
        elif isinstance(it, list) and it and isinstance(it[0], str):
            out.append([it[0]] + [_map_counts(x, f) if isinstance(x, list) else x for x in it[1:]])
        else:
            out.append(it)
    return out


def _lets_variant(items, rng, lets):
    """Same nesting with every loop count replaced by a let constant; returns Jaqal body text."""

    def name(c):
        nm = f"n{len(lets)}"
        lets.append((nm, c))
        return nm

    return W.jq(_map_counts(items, name))


def _with_counts(items, counts):
    counts = list(counts)
    return _map_counts(items, lambda c: counts.pop(0))


def extra_run(ctx, res):
    R = W._load()
    from jaqalpaq.core.result import parse_jaqal_output_list
    from jaqalpaq.core.algorithm import fill_in_let

    rng = ctx.rng.sub("extra_c08")
    signal.signal(signal.SIGALRM, W._alarm)
    warnings.filterwarnings("ignore")
    n = ctx.n(250, 2500)
    done = 0
    tries = 0
    while done < n and tries < 20 * n:
        tries += 1
        items = W.gen_biased(rng, 0, 3) if rng.random() < 0.8 else W.gen_items(rng, 0, 3)
        toks = []
        W.flat_tokens(items, [], toks)
        if W.ref_bracket(toks)[0] != "ok":
            continue
        done += 1
        src = W.src_of(items)
        case = {"src": src}
        signal.alarm(_T.limit())
        try:
            circ = R["parse"](src, inject_pulses=R["GI"], autoload_pulses=False)
            r0 = R["run"](circ)
            base = [ro.subcircuit.index for ro in r0.readouts]
            # (d) every sampled outcome has non-zero probability in its subcircuit's distribution
            ok = all(ro.subcircuit.probability_by_int[ro.as_int] > 0 for ro in r0.readouts)
            res.oracle_case("sampled_outcome_has_nonzero_probability", ok, case, "a readout has probability 0", nontrivial=bool(base))
            # relative frequencies count exactly the subcircuit's own readouts
            ok = True
            for sc in r0.subcircuits:
                own = [ro.as_int for ro in r0.readouts if ro.subcircuit is sc]
                hist = [own.count(i) for i in range(len(sc.relative_frequency_by_int))]
                if [int(v) for v in sc.relative_frequency_by_int] != hist or [ro.as_int for ro in sc.readouts] != own:
                    ok = False
            ok = ok and [ro.index for ro in r0.readouts] == list(range(len(r0.readouts)))
            res.oracle_case("frequencies_count_own_readouts", ok, case, "relative frequencies / readout indices", nontrivial=bool(base))
            # (c) hardware output list of matching length: same attribution, in order, consumed exactly
            outs = [rng.randrange(2 ** W.NQ) for _ in base]
            mixed = [format(o, "b").zfill(W.NQ)[::-1] if rng.random() < 0.5 else o for o in outs]
            rp = parse_jaqal_output_list(circ, mixed)
            ok = [ro.subcircuit.index for ro in rp.readouts] == base and [ro.as_int for ro in rp.readouts] == outs
            res.oracle_case("output_list_matches_visits", ok, {"src": src, "outs": outs}, "parse_jaqal_output_list attribution differs from the emulator's visit order", nontrivial=bool(base))
            # (a) let-valued counts behave like literals, with and without overrides
            lets = []
            body = _lets_variant(items, rng, lets)
            if lets:
                text = "".join(f"let {nm} {v}\n" for nm, v in lets) + f"register r[{W.NQ}]\n" + body + "\n"
                c2 = R["parse"](text, inject_pulses=R["GI"], autoload_pulses=False)
                r2 = R["run"](c2)
                ok = [ro.subcircuit.index for ro in r2.readouts] == base
                res.oracle_case("let_counts_like_literals", ok, {"src": text}, "let-valued loop counts give a different visit sequence")
                # overrides: new counts
                newc = [rng.choice([0, 1, 1, 2, 3]) for _ in lets]
                ov = {nm: v for (nm, _), v in zip(lets, newc)}
                items2 = _with_counts(items, list(newc))
                toks2 = []
                W.flat_tokens(items2, [], toks2)
                if W.ref_bracket(toks2)[0] == "ok":
                    rl = R["run"](R["parse"](W.src_of(items2), inject_pulses=R["GI"], autoload_pulses=False))
                    ro_ = R["run"](fill_in_let(c2, ov))
                    rq = R["run"](R["parse"](text, inject_pulses=R["GI"], autoload_pulses=False, override_dict=ov, expand_let=True))
                    want = [x.subcircuit.index for x in rl.readouts]
                    ok = [x.subcircuit.index for x in ro_.readouts] == want and [x.subcircuit.index for x in rq.readouts] == want
                    res.oracle_case("overridden_let_counts_like_literals", ok, {"src": text, "override": ov}, "overridden loop counts give a different visit sequence than the literal program")
        except W.Hang:
            _T.saw_hang()
            res.oracle_case("terminates", False, case, "no result within the time limit")
        except R["JaqalError"] as e:
            res.oracle_case("bracketed_program_runs", False, case, f"JaqalError: {e}")
        finally:
            signal.alarm(0)
