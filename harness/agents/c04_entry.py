#!/venv/bin/python
"""C04 stated at EVERY entry point through which macros get expanded (oracles only, no Lean driver involved).

    PYTHONPATH=/verif JAQALPAQ_RUN_EMULATOR=1 /venv/bin/python -W ignore /verif/harness/agents/c04_entry.py [--seed 0] [--n 60] [--thorough]

The existing C04 stream (pass1_diff) calls `expand_macros(circuit)` directly.  This stream generates well-typed programs
with macros as a small AST of its own (macros calling macros to depth >= 3, zero-parameter macros, parameters used as
qubit / number / index / loop count / whole register / forwarded, top-level calls placed ONLY inside loops / parallel
blocks / subcircuits / nested blocks, pulse imports, let / map headers with shadowing parameters), computes the gate
level meaning of the program with an independent reference (call-by-substitution on the AST, then evaluation of the
header: series / parallel / loop / subcircuit tree of native gate applications with resolved arguments) and compares
it with what the library yields through each entry point:

  pass          expand_macros(c), expand_macros(c, preserve_definitions=True/False), again after all other entry points
  parse_flag    parse_jaqal_string(text, expand_macro=True) and parse_jaqal_file(...), with / without return_usepulses
  parse_flags   the same combined with expand_let / expand_let_map / both, with / without override_dict
  after_pass    expand_macros(X) for X = fill_in_let(c, ov), expand_subcircuits(c), fill_in_map(fill_in_let(c)),
                expand_macros(c, True) (reference = the same evaluator on X lifted from the library objects)
  run           run_jaqal_circuit(c): results equal those of the reference expansion written out as a macro-free program
  output_list   parse_jaqal_output_list(c, outputs): same

oracles (name@entry group)
  C04e_yields      the entry point returns (a JaqalError is legitimate only where the same flags WITHOUT macro
                   expansion are rejected too: fill_in_map's documented refusals)
  C04e_no_calls    no statement anywhere in the result's body (loops, blocks, subcircuits) calls a macro
  C04e_meaning     meaning of the result == reference meaning of the original (same-kind non-subcircuit blocks spliced,
                   numbers by value)
  C04e_header      usepulses, constants, registers and aliases, native gates equal those of the same pipeline without
                   macro expansion
  C04e_flag_is_pass  parse flag result == expand_macros(parse(text), preserve_definitions=True) (whole dump)
  C04e_results     emulator / output-list results equal those of the macro-free reference program
  C04e_arity       a call with the wrong number of arguments (in the text, or made on the objects; at top level, inside
                   loops only, inside a macro body) raises JaqalError
HISTORIES: cases of several programs expanded one after the other in the same process, macro names and signatures and
the main body recurring with DIFFERENT macro bodies; every step is checked against its own reference.
"""
import argparse
import json
import os
import random
import signal
import sys
import tempfile
import warnings
from collections import Counter

DEFAULT_DRIVER = "/verif/lean/.lake/build/bin/jaqal-model"


def _imports():
    global dump, GATES, SIG, T, np
    global parse_jaqal_string, parse_jaqal_file, expand_macros, expand_subcircuits, fill_in_let, fill_in_map
    global run_jaqal_circuit, parse_jaqal_output_list
    global GateStatement, BlockStatement, LoopStatement, Parameter, Constant, NamedQubit, Register, Macro, JaqalError
    os.environ["JAQALPAQ_RUN_EMULATOR"] = "1"
    import numpy as np
    from harness import dump
    from harness import timeouts as T
    from harness.gates import GATES, SIG
    from jaqalpaq.parser import parse_jaqal_string, parse_jaqal_file
    from jaqalpaq.core.algorithm import expand_macros, expand_subcircuits, fill_in_let
    from jaqalpaq.core.algorithm.fill_in_map import fill_in_map
    from jaqalpaq.run import run_jaqal_circuit
    from jaqalpaq.core.result import parse_jaqal_output_list
    from jaqalpaq.core.gate import GateStatement
    from jaqalpaq.core.block import BlockStatement, LoopStatement
    from jaqalpaq.core.parameter import Parameter
    from jaqalpaq.core.constant import Constant
    from jaqalpaq.core.register import NamedQubit, Register
    from jaqalpaq.core.macro import Macro
    from jaqalpaq.error import JaqalError


# ------------------------------------------------------------------------------------------------
# AST (JSON lists)
#   terms   ["lit", v] ["let", n] ["par", p] ["reg", n] ["qa", n] ["idx", base, index]
#           closed forms used by the evaluator: ["const", n, v] ["freg", n, size] ["slice", base, a, e, st]
#   stmts   ["g", name, [terms]]  ["loop", count, blk]  ["blk", par, sub, iterations|None, [stmts]]
#   program {"usepulses": [...], "lets": [[n, v]], "reg": [n, size term], "maps": [[n, src term]],
#            "macros": [[name, [[p, kind]], cls, blk]], "body": [stmts]}

GATE_SIG = {"X": "q", "Y": "q", "Z": "q", "S": "q", "SX": "q", "N": "q", "P": "qi", "PF": "fq", "CX": "qq", "CZ": "qq",
            "SWAP": "qq", "ISWAP": "qq", "HH": "qq", "NS": "qq", "CCX": "qqq", "ROT3": "qqq"}
PLACES = ["any", "loop", "par", "sub", "seqinpar", "deep", "loop", "sub"]


def t_text(t):
    k = t[0]
    if k == "lit":
        return repr(t[1])
    if k in ("let", "par", "reg", "qa"):
        return t[1]
    if k == "idx":
        return f"{t_text(t[1])}[{t_text(t[2])}]"
    raise ValueError(t)


def s_text(s, ind=""):
    if s[0] == "g":
        return ind + " ".join([s[1]] + [t_text(a) for a in s[2]])
    if s[0] == "loop":
        return ind + f"loop {t_text(s[1])} " + s_text(s[2], ind).lstrip()
    _, par, sub, it, body = s
    if par:
        return ind + "< " + " | ".join(s_text(x).strip() for x in body) + " >"
    head = ("subcircuit " + (t_text(it) + " " if it is not None else "")) if sub else ""
    return ind + head + "{ " + "; ".join(s_text(x).strip() for x in body) + " }"


def slice_text(sl):
    a, e, st = sl
    out = (t_text(a) if a else "") + ":" + (t_text(e) if e else "")
    if st:
        out += ":" + t_text(st)
    return out


def program_text(p, with_macros=True, body=None):
    lines = [f"from {u} usepulses *" for u in p["usepulses"]]
    lines += [f"let {n} {v!r}" for n, v in p["lets"]]
    lines.append(f"register {p['reg'][0]}[{t_text(p['reg'][1])}]")
    for n, src in p["maps"]:
        if src[0] == "slice":
            lines.append(f"map {n} {t_text(src[1])}[{slice_text(src[2:])}]")
        else:
            lines.append(f"map {n} {t_text(src)}")
    if with_macros:
        for name, params, _cls, blk in p["macros"]:
            lines.append("macro " + " ".join([name] + [q for q, _ in params]) + " " + s_text(blk))
    for s in (p["body"] if body is None else body):
        lines.append(s_text(s))
    return "\n".join(lines) + "\n"


# ------------------------------------------------------------------------------------------------
# generator

class Ctx:
    def __init__(self, params=(), callable_=(), in_par=False, no_sub=False, depth=0, in_subc=False):
        self.params = list(params)      # [(name, kind)]
        self.callable = list(callable_)  # macro signatures [name, params, cls]
        self.in_par = in_par            # grammar: inside < >, only gates and { } blocks
        self.no_sub = no_sub            # no subcircuit block / subcircuit-containing macro here
        self.in_subc = in_subc          # inside a subcircuit (gates are runnable here)
        self.depth = depth

    def but(self, **kw):
        c = Ctx(self.params, self.callable, self.in_par, self.no_sub, self.depth, self.in_subc)
        for k, v in kw.items():
            setattr(c, k, v)
        return c


class Gen:
    def __init__(self, rng, place, runnable, thorough=False, mapsafe=False):
        self.rng = rng
        self.mapsafe = mapsafe      # nothing fill_in_map refuses: no parameter as index / register, no register-named parameter
        self.place = place
        self.runnable = runnable
        self.thorough = thorough
        self.roles = Counter()
        self.ov = {}

    # --- header
    def header(self):
        r = self.rng
        p = {"usepulses": [], "lets": [], "maps": [], "macros": [], "body": []}
        if r.random() < 0.45:
            p["usepulses"] = r.choice([["qscout.v1.std"], ["qscout.v1.std", "my.pulses"], ["a.b"]])
        self.ilets, self.flets = [], []
        for n in ["n", "k"][: r.randrange(0, 3)]:
            p["lets"].append([n, r.randrange(0, 3)])
            self.ilets.append(n)
        if r.random() < 0.5:
            p["lets"].append(["t", r.choice([1.5, 0.25, -3.0, 2.0, 100.5])])
            self.flets.append("t")
        size = r.randrange(4, 7)
        self.szlet = None
        if r.random() < 0.35:
            p["lets"].append(["sz", size])
            self.szlet = "sz"
            r.shuffle(p["lets"])
            p["reg"] = ["r", ["let", "sz"]]
        else:
            p["reg"] = ["r", ["lit", size]]
        # overrides (used by the entry points with expand_let / fill_in_let only)
        if p["lets"] and r.random() < 0.6:
            for n, v in p["lets"]:
                if r.random() < 0.6:
                    if n in self.ilets:
                        self.ov[n] = r.choice([0, 1, 2, 2.0, 1.0])
                    elif n == "sz":
                        self.ov[n] = v + r.choice([0, 1])
                    else:
                        self.ov[n] = r.choice([0.5, 3.0, -1.25, 7])
        sizes = [size, int(self.ov.get("sz", size))]
        lo = min(sizes)
        self.regs = {"r": lo}    # name -> size that is valid under both valuations
        self.qas = []
        if r.random() < 0.75:
            kind = r.randrange(5)
            if kind == 0:
                p["maps"].append(["a", ["reg", "r"]])
                self.regs["a"] = lo
            elif kind == 1:
                p["maps"].append(["a", ["slice", ["reg", "r"], ["lit", 1], ["lit", 4], None]])
                self.regs["a"] = 3
            elif kind == 2 and lo >= 5:
                p["maps"].append(["a", ["slice", ["reg", "r"], ["lit", 0], None, ["lit", 2]]])
                self.regs["a"] = 3
            elif kind == 3 and self.ilets and lo >= 5:
                p["maps"].append(["a", ["slice", ["reg", "r"], ["let", r.choice(self.ilets)], None, None]])
                self.regs["a"] = lo - 2
            else:
                stop = ["let", "sz"] if self.szlet and r.random() < 0.5 else None
                p["maps"].append(["a", ["slice", ["reg", "r"], ["lit", 1], stop, None]])
                self.regs["a"] = lo - 1
            if r.random() < 0.3:
                p["maps"].append(["c", ["slice", ["reg", "a"], ["lit", 0], ["lit", 3], None]])
                self.regs["c"] = 3
        if r.random() < 0.5:
            p["maps"].append(["b", ["idx", ["reg", "r"], ["lit", r.randrange(lo)]]])
            self.qas.append("b")
        if "a" in self.regs and r.random() < 0.4:
            idx = ["let", r.choice(self.ilets)] if self.ilets and r.random() < 0.5 else ["lit", r.randrange(3)]
            p["maps"].append(["d", ["idx", ["reg", "a"], idx]])
            self.qas.append("d")
        self.p = p
        return p

    # --- terms
    def _shadow(self, ctx):
        return {n for n, _ in ctx.params}

    def t_int(self, ctx, role, top=3):
        r = self.rng
        ips = [n for n, k in ctx.params if k == "i"]
        if self.mapsafe and role == "index":
            ips = []
        c = r.random()
        if ips and c < 0.5:
            self.roles["param as " + role] += 1
            return ["par", r.choice(ips)]
        ls = [n for n in self.ilets if n not in self._shadow(ctx)]
        if ls and c < 0.7:
            return ["let", r.choice(ls)]
        return ["lit", r.randrange(top)]

    def t_float(self, ctx):
        r = self.rng
        fps = [n for n, k in ctx.params if k in ("f", "i")]
        c = r.random()
        if fps and c < 0.5:
            self.roles["param as number"] += 1
            return ["par", r.choice(fps)]
        ls = [n for n in self.ilets + self.flets + ([self.szlet] if self.szlet else []) if n not in self._shadow(ctx)]
        if ls and c < 0.7:
            return ["let", r.choice(ls)]
        return ["lit", r.choice([0, 1, 2, 3, -1, 7, 1.5, 2.0, 0.25, -3.0])]

    def t_reg(self, ctx):
        r = self.rng
        rps = [n for n, k in ctx.params if k == "r"]
        names = [n for n in self.regs if n not in self._shadow(ctx)]
        if rps and (not names or r.random() < 0.5):
            self.roles["param forwarded as register"] += 1
            return ["par", r.choice(rps)]
        return ["reg", r.choice(names)] if names else None

    def t_qubit(self, ctx):
        r = self.rng
        qps = [n for n, k in ctx.params if k == "q"]
        rps = [n for n, k in ctx.params if k == "r"]
        c = r.random()
        if qps and c < 0.45:
            self.roles["param as qubit"] += 1
            return ["par", r.choice(qps)]
        if rps and c < 0.7:
            self.roles["param as indexed register"] += 1
            return ["idx", ["par", r.choice(rps)], self.t_int(ctx, "index")]
        sh = self._shadow(ctx)
        qa = [n for n in self.qas if n not in sh]
        if qa and r.random() < 0.2:
            return ["qa", r.choice(qa)]
        names = [n for n in self.regs if n not in sh]
        if not names:
            if qps:
                return ["par", r.choice(qps)]
            if rps:
                return ["idx", ["par", r.choice(rps)], ["lit", 0]]
            return None
        n = r.choice(names)
        if r.random() < 0.5:
            return ["idx", ["reg", n], self.t_int(ctx, "index")]
        return ["idx", ["reg", n], ["lit", r.randrange(self.regs[n])]]

    def arg(self, kind, ctx):
        if kind == "q":
            return self.t_qubit(ctx)
        if kind == "i":
            return self.t_int(ctx, "number")
        if kind == "f":
            return self.t_float(ctx)
        return self.t_reg(ctx)

    # --- statements
    def native(self, ctx):
        r = self.rng
        names = [g for g in GATE_SIG if not (self.runnable and g == "N")]
        name = r.choice(names)
        nq = GATE_SIG[name].count("q")
        if self.runnable and nq > 1:
            regs = [n for n in self.regs if n not in self._shadow(ctx) and self.regs[n] >= nq]
            if not regs or r.random() < 0.5:
                name = r.choice(["X", "Y", "Z", "S", "SX", "P", "PF"])
            else:
                n = r.choice(regs)
                return ["g", name, [["idx", ["reg", n], ["lit", i]] for i in r.sample(range(self.regs[n]), nq)]]
        args = [self.arg(k, ctx) for k in GATE_SIG[name]]
        if any(a is None for a in args):
            return None
        return ["g", name, args]

    def call(self, ctx, only=None):
        r = self.rng
        cands = [m for m in ctx.callable if not (ctx.no_sub and m[2] == "subby")]
        if only:
            cands = [m for m in cands if m[2] == only]
        if not cands:
            return None
        # prefer the most recent macro: long call chains
        m = cands[-1] if r.random() < 0.5 else r.choice(cands)
        args = [self.arg(k, ctx) for _, k in m[1]]
        if any(a is None for a in args):
            return None
        if ctx.params:
            self.roles["call inside a macro body"] += 1
            if any(a[0] == "par" or (a[0] == "idx" and (a[1][0] == "par" or a[2][0] == "par")) for a in args):
                self.roles["param forwarded to an inner macro"] += 1
        return ["g", m[0], args]

    def gate_or_call(self, ctx, pcall):
        s = self.call(ctx) if self.rng.random() < pcall else None
        if s is None and (self.runnable and not ctx.in_subc and not ctx.params):
            return None
        return s or self.native(ctx)

    def stmts(self, ctx, lo, hi, pcall):
        r = self.rng
        out = []
        for _ in range(r.randrange(lo, hi + 1)):
            s = self.stmt(ctx, pcall)
            if s is not None:
                out.append(s)
        if not out:
            s = self.native(ctx) or ["g", "X", [["idx", ["reg", "r"], ["lit", 0]]]]
            out.append(s)
        return out

    def stmt(self, ctx, pcall):
        r = self.rng
        c = r.random()
        if ctx.depth >= 3 or c < 0.55:
            return self.gate_or_call(ctx, pcall)
        d = ctx.depth + 1
        if ctx.in_par:
            # only { } blocks may nest in a parallel block
            return ["blk", False, False, None, self.stmts(ctx.but(in_par=False, no_sub=True, depth=d), 1, 3, pcall)]
        if c < 0.72:
            body = self.par(ctx.but(depth=d), pcall) if r.random() < (0.05 if self.runnable else 0.25) else \
                ["blk", False, False, None, self.stmts(ctx.but(depth=d), 1, 3, pcall)]
            return ["loop", self.t_int(ctx, "loop count", top=4), body]
        if c < 0.86 and not (self.runnable and r.random() < 0.8):
            return self.par(ctx.but(depth=d), pcall)
        if not ctx.no_sub:
            it = self.t_int(ctx, "subcircuit count", top=4) if r.random() < 0.4 else None
            if it is not None and it[0] == "lit" and it[1] == 0:
                it = ["lit", 1]
            return ["blk", False, True, it, self.stmts(ctx.but(no_sub=True, in_subc=True, depth=d), 1, 3, pcall)]
        return self.gate_or_call(ctx, pcall)

    def par(self, ctx, pcall):
        c = ctx.but(in_par=True, no_sub=True)
        return ["blk", True, False, None, self.stmts(c, 1, 3, pcall)]

    # --- macros
    def signature(self, idx):
        r = self.rng
        pool = ["x", "y", "z", "i", "j", "w", "q", "n", "k", "c", "a", "b", "t"]  # the last ones shadow globals (never r)
        k = 0 if r.random() < 0.2 else r.randrange(1, 5)
        if self.mapsafe:
            pool = pool[:9] + ["t"]
        names = r.sample(pool[:7] if r.random() < 0.6 else pool, k)
        params = [[n, r.choice(["q", "q", "i", "i", "f", "f" if self.mapsafe else "r"])] for n in names]
        cls = "subby" if r.random() < 0.3 else "plain"
        return [f"M{idx}", params, cls]

    def macro_body(self, sig, earlier):
        r = self.rng
        name, params, cls = sig
        ctx = Ctx(params=[tuple(x) for x in params], callable_=earlier, no_sub=(cls == "plain"), depth=1)
        if cls == "plain":
            body = self.stmts(ctx, 1, 4, 0.5)
            # a call of the previous plain macro, so that chains get long
            prev = [m for m in earlier if m[2] == "plain"]
            if prev and r.random() < 0.8:
                c = self.call(ctx.but(callable=[prev[-1]]))
                if c:
                    body.insert(r.randrange(len(body) + 1), c)
            if r.random() < (0.04 if self.runnable else 0.25):
                return ["blk", True, False, None, [b if b[0] == "g" else ["blk", False, False, None, [b]] for b in body]]
            return ["blk", False, False, None, body]
        # subcircuit-containing macro: (runnable: every gate inside a subcircuit)
        items = []
        for _ in range(r.randrange(1, 3)):
            c = r.random()
            inner = ["blk", False, True, self.t_int(ctx, "subcircuit count", top=3) if r.random() < 0.3 else None,
                     self.stmts(ctx.but(no_sub=True, in_subc=True, depth=2), 1, 3, 0.55)]
            if inner[3] is not None and inner[3][0] == "lit" and inner[3][1] == 0:
                inner[3] = None
            if c < 0.3:
                items.append(["loop", self.t_int(ctx, "loop count", top=3), ["blk", False, False, None, [inner]]])
            elif c < 0.5 and any(m[2] == "subby" for m in earlier):
                items.append(self.call(ctx, only="subby") or inner)
            else:
                items.append(inner)
            if not self.runnable and r.random() < 0.4:
                items.append(self.native(ctx) or inner)
        return ["blk", False, False, None, items]

    # --- main body
    def wrapped(self, kinds, ctx, only=None):
        """a call group wrapped in the given chain of constructs (outermost first)"""
        r = self.rng
        if not kinds:
            out = []
            for _ in range(r.randrange(1, 4)):
                out.append(self.call(ctx, only=only))
            if ctx.in_subc or not self.runnable:
                out += [self.native(ctx) for _ in range(r.randrange(0, 2))]
            out = [x for x in out if x is not None]
            r.shuffle(out)
            return out
        k, rest = kinds[0], kinds[1:]
        d = ctx.depth + 1
        if k == "loop":
            inner = self.wrapped(rest, ctx.but(depth=d), only)
            if not inner:
                return []
            if rest[:1] == ["par"] and len(inner) == 1 and r.random() < 0.5:
                return [["loop", self.t_int(ctx, "loop count", top=4), inner[0]]]
            return [["loop", self.t_int(ctx, "loop count", top=4), ["blk", False, False, None, inner]]]
        if k == "par":
            inner = self.wrapped(rest, ctx.but(in_par=True, no_sub=True, depth=d), only)
            inner = [x if x[0] == "g" or (x[0] == "blk" and not x[1] and not x[2]) else ["blk", False, False, None, [x]]
                     for x in inner]
            return [["blk", True, False, None, inner]] if inner else []
        if k == "seq":   # a { } block: only legal inside a parallel block
            inner = self.wrapped(rest, ctx.but(in_par=False, depth=d), only)
            return [["blk", False, False, None, inner]] if inner else []
        if k == "sub":
            inner = self.wrapped(rest, ctx.but(no_sub=True, in_subc=True, depth=d), only)
            it = self.t_int(ctx, "subcircuit count", top=3) if r.random() < 0.3 else None
            if it == ["lit", 0]:
                it = None
            return [["blk", False, True, it, inner]] if inner else []
        raise ValueError(k)

    def chain(self):
        r = self.rng
        place = self.place
        if place == "loop":
            ch = ["loop"] + r.choice([[], [], ["loop"], ["par"], ["sub"], ["loop", "par"]])
        elif place == "par":
            ch = ["par"] + r.choice([[], [], ["seq"], ["seq", "loop"], ["seq", "par"]])
        elif place == "sub":
            ch = ["sub"] + r.choice([[], [], ["loop"], ["par"], ["loop", "loop"], ["par", "seq"]])
        elif place == "seqinpar":
            ch = ["par", "seq"] + r.choice([[], ["loop"], ["par"]])
        else:  # deep
            ch = r.choice([["loop", "sub", "loop"], ["sub", "loop", "par", "seq"], ["loop", "loop", "par"],
                           ["loop", "par", "seq", "loop"], ["sub", "par", "seq", "par"], ["loop", "loop", "loop"]])
        if self.runnable and "par" in ch and r.random() < 0.8:
            ch = [k for k in ch if k not in ("par", "seq")]
        return list(ch)

    def body(self, sigs):
        r = self.rng
        ctx = Ctx(callable_=sigs)
        out = []
        if self.place == "any":
            if self.runnable:
                for _ in range(r.randrange(1, 4)):
                    sub = [m for m in sigs if m[2] == "subby"]
                    if sub and r.random() < 0.4:
                        out += self.wrapped(r.choice([[], ["loop"]]), ctx, only="subby")
                    else:
                        out += self.wrapped(["sub"], ctx)
                return out
            return self.stmts(ctx, 2, 5, 0.6)
        for _ in range(r.randrange(1, 4)):
            ch = self.chain()
            subby = [m for m in sigs if m[2] == "subby"]
            if subby and "sub" not in ch and "par" not in ch and r.random() < 0.5:
                out += self.wrapped(ch, ctx, only="subby")
                continue
            if self.runnable and "sub" not in ch:
                pos = ch.index("par") if "par" in ch else len(ch)
                ch.insert(r.randrange(pos + 1), "sub")
            out += self.wrapped(ch, ctx, only="plain" if ("sub" in ch or "par" in ch) else None)
            if r.random() < 0.4:
                g = self.native(ctx)
                if g is not None:
                    out.append(["blk", False, True, None, [g]] if self.runnable else g)
        return out

    def program(self):
        r = self.rng
        p = self.header()
        nm = r.choice([1, 2, 3, 3, 4, 4, 5, 6 if self.thorough else 5])
        sigs = [self.signature(i) for i in range(nm)]
        if not any(s[2] == "plain" for s in sigs):
            sigs[0][2] = "plain"
        self.sigs = sigs
        self.fill_macros(p)
        for _ in range(6):
            p["body"] = self.body(sigs)
            if any_call(p["body"], {s[0] for s in sigs}):
                break
        return p

    def fill_macros(self, p):
        p["macros"] = []
        for i, sig in enumerate(self.sigs):
            p["macros"].append([sig[0], sig[1], sig[2], self.macro_body(sig, self.sigs[:i])])


def walk_gates(s):
    if s[0] == "g":
        yield s
    elif s[0] == "loop":
        yield from walk_gates(s[2])
    else:
        for x in s[4]:
            yield from walk_gates(x)


def any_call(stmts, names):
    return any(g[1] in names for s in stmts for g in walk_gates(s))


# ------------------------------------------------------------------------------------------------
# reference: call-by-substitution on the AST, then evaluation (independent of the library's expansion and resolution)

class RefError(Exception):
    pass


def subst(t, env):
    k = t[0]
    if k == "par":
        if t[1] not in env:
            raise RefError(f"unbound parameter {t[1]}")
        return env[t[1]]
    if k == "idx":
        return ["idx", subst(t[1], env), subst(t[2], env)]
    if k == "slice":
        return ["slice", subst(t[1], env)] + [None if x is None else subst(x, env) for x in t[2:]]
    if k == "freg":
        return ["freg", t[1], subst(t[2], env)]
    return t


def expand_stmt(s, env, macros, fuel=60):
    """-> the statement with every macro call replaced by the macro's body under substitution (macro-free)"""
    if fuel < 0:
        raise RefError("call depth")
    if s[0] == "g":
        args = [subst(a, env) for a in s[2]]
        if s[1] in macros:
            params, body = macros[s[1]]
            if len(params) != len(args):
                raise RefError("arity")
            return expand_stmt(body, dict(zip(params, args)), macros, fuel - 1)
        return ["g", s[1], args]
    if s[0] == "loop":
        return ["loop", subst(s[1], env), expand_stmt(s[2], env, macros, fuel)]
    _, par, sub, it, body = s
    return ["blk", par, sub, None if it is None else subst(it, env), [expand_stmt(x, env, macros, fuel) for x in body]]


def expanded_size(p):
    """number of native gate applications of the expansion (a macro calling several macros at every level explodes)"""
    size = {}

    def count(blk):
        return sum(size.get(g[1], 1) for g in walk_gates(blk))

    for name, _params, _cls, blk in p["macros"]:
        size[name] = count(blk)
    return sum(count(s) for s in p["body"])


def call_depth(p):
    depth = {}
    for name, _params, _cls, blk in p["macros"]:
        depth[name] = 1 + max([depth[g[1]] for g in walk_gates(blk) if g[1] in depth] or [0])
    return max([depth[g[1]] for s in p["body"] for g in walk_gates(s) if g[1] in depth] or [0])


def names_of(p):
    """global name -> closed term"""
    names = {}
    lets = {n: ["const", n, v] for n, v in p["lets"]}

    def close(t):
        if t is None:
            return None
        k = t[0]
        if k == "let":
            return lets[t[1]]
        if k in ("reg", "qa"):
            return names[t[1]]
        if k == "idx":
            return ["idx", close(t[1]), close(t[2])]
        if k == "slice":
            return ["slice", close(t[1])] + [close(x) for x in t[2:]]
        return t

    names[p["reg"][0]] = ["freg", p["reg"][0], close(p["reg"][1])]
    for n, src in p["maps"]:
        names[n] = close(src)
    return close


def close_stmt(s, close):
    if s[0] == "g":
        return ["g", s[1], [close(a) for a in s[2]]]
    if s[0] == "loop":
        return ["loop", close(s[1]), close_stmt(s[2], close)]
    return ["blk", s[1], s[2], close(s[3]), [close_stmt(x, close) for x in s[4]]]


def _as_int(v):
    if isinstance(v, float):
        if v != int(v):
            raise RefError(f"{v} is not integral")
        v = int(v)
    if isinstance(v, bool) or not isinstance(v, int):
        raise RefError(f"{v!r} is not an integer")
    return v


def ev_num(t, vals):
    if t[0] == "lit":
        return t[1]
    if t[0] == "const":
        return vals.get(t[1], t[2])
    raise RefError(f"not a number: {t}")


def ev_reg(t, vals):
    k = t[0]
    if k == "freg":
        n = _as_int(ev_num(t[2], vals))
        if n < 1:
            raise RefError("register size")
        return [[t[1], i] for i in range(n)]
    if k == "slice":
        src = ev_reg(t[1], vals)
        a = 0 if t[2] is None else _as_int(ev_num(t[2], vals))
        e = len(src) if t[3] is None else _as_int(ev_num(t[3], vals))
        st = 1 if t[4] is None else _as_int(ev_num(t[4], vals))
        if st == 0:
            raise RefError("zero step")
        out = []
        for i in range(a, e, st):
            if not 0 <= i < len(src):
                raise RefError("slice leaves its source")
            out.append(src[i])
        return out
    raise RefError(f"not a register: {t}")


def ev_arg(t, vals):
    k = t[0]
    if k == "idx":
        reg = ev_reg(t[1], vals)
        i = _as_int(ev_num(t[2], vals))
        if not 0 <= i < len(reg):
            raise RefError("index out of range")
        return ["q"] + reg[i]
    if k in ("freg", "slice"):
        return ["r", ev_reg(t, vals)]
    v = ev_num(t, vals)
    if isinstance(v, float) and v == int(v):
        v = int(v)       # numbers are compared by value
    return ["n", v]


def meaning(s, vals):
    if s[0] == "g":
        return {"g": s[1], "a": [ev_arg(a, vals) for a in s[2]]}
    if s[0] == "loop":
        return {"l": _as_int(ev_num(s[1], vals)), "body": meaning(s[2], vals)}
    _, par, sub, it, body = s
    return {"b": [meaning(x, vals) for x in body], "par": bool(par), "sub": bool(sub),
            "it": 1 if it is None else _as_int(ev_num(it, vals))}


def norm(m):
    if "g" in m:
        return m
    if "l" in m:
        return {"l": m["l"], "body": norm(m["body"])}
    return {"b": norm_list(m["par"], m["b"]), "par": m["par"], "sub": m["sub"], "it": m["it"]}


def norm_list(par, l):
    out = []
    for s in l:
        if "b" in s and not s["sub"] and s["par"] == par:
            out.extend(norm_list(par, s["b"]))
        else:
            out.append(norm(s))
    return out


def splice(stmts, par):
    """the same statements with same-kind non-subcircuit blocks spliced (the grammar has no { { } } / < < > >)"""
    out = []
    for s in stmts:
        if s[0] == "loop":
            out.append(["loop", s[1], ["blk", s[2][1], s[2][2], s[2][3], splice(s[2][4], s[2][1])]])
        elif s[0] == "blk":
            inner = splice(s[4], s[1])
            if not s[2] and bool(s[1]) == bool(par):
                out.extend(inner)
            else:
                out.append(["blk", s[1], s[2], s[3], inner])
        else:
            out.append(s)
    return out


def reference(p):
    """-> (macro-free statements of the body, closed)"""
    macros = {name: ([q for q, _ in params], blk) for name, params, _cls, blk in p["macros"]}
    return [expand_stmt(s, {}, macros) for s in p["body"]]


def ref_meaning(p, flat, vals):
    close = names_of(p)
    return norm(meaning(["blk", False, False, None, [close_stmt(s, close) for s in flat]], vals))


# ------------------------------------------------------------------------------------------------
# library objects -> AST (closed terms; nothing of the library's resolution code is used)

def lift_term(v):
    if isinstance(v, bool):
        raise RefError("bool")
    if isinstance(v, (int, float)):
        return ["lit", v]
    if isinstance(v, Constant):
        x = v.value
        while isinstance(x, Constant):
            x = x.value
        return ["const", v.name, x]
    if isinstance(v, Parameter):
        return ["par", v.name]
    if isinstance(v, NamedQubit):
        return ["idx", lift_term(v.alias_from), lift_term(v.alias_index)]
    if isinstance(v, Register):
        if v.fundamental:
            return ["freg", v.name, lift_term(v._size)]
        sl = v.alias_slice
        if sl is None:
            return lift_term(v.alias_from)
        return ["slice", lift_term(v.alias_from)] + [None if x is None else lift_term(x) for x in (sl.start, sl.stop, sl.step)]
    raise RefError(f"cannot lift {type(v).__name__}")


def lift_stmt(s):
    if isinstance(s, GateStatement):
        return ["g", s.name, [lift_term(v) for v in s.parameters.values()]]
    if isinstance(s, LoopStatement):
        return ["loop", lift_term(s.iterations), lift_stmt(s.statements)]
    if isinstance(s, BlockStatement):
        return ["blk", bool(s.parallel), bool(s.subcircuit), lift_term(s.iterations), [lift_stmt(x) for x in s.statements]]
    raise RefError(f"cannot lift statement {type(s).__name__}")


def lifted_reference(c):
    """reference meaning of a library circuit that still has macros (call-by-substitution on the lifted AST)"""
    macros = {n: ([q.name for q in m.parameters], lift_stmt(m.body)) for n, m in c.macros.items()}
    return norm(meaning(expand_stmt(lift_stmt(c.body), {}, macros), {}))


def calls_left(c, macro_names):
    out = []

    def walk(s):
        if isinstance(s, GateStatement):
            if isinstance(s.gate_def, Macro) or s.name in macro_names:
                out.append(s.name)
        elif isinstance(s, LoopStatement):
            walk(s.statements)
        else:
            for x in s.statements:
                walk(x)

    walk(c.body)
    return out


def result_meaning(c):
    return norm(meaning(lift_stmt(c.body), {}))


def all_calls(c, reachable_only=True):
    """GateStatements calling a macro: in the body, and in the bodies of macros reachable from it"""
    out = []
    seen = set()

    def walk(s, where):
        if isinstance(s, GateStatement):
            if s.name in c.macros:
                out.append((where, s))
                if s.name not in seen:
                    seen.add(s.name)
                    walk(c.macros[s.name].body, "macro")
        elif isinstance(s, LoopStatement):
            walk(s.statements, where if where == "macro" else "loop")
        else:
            for x in s.statements:
                walk(x, where)

    walk(c.body, "top")
    return out


# ------------------------------------------------------------------------------------------------
# calling the library

class Hang(Exception):
    pass


def _on_alarm(_s, _f):
    raise Hang()


def guarded(f):
    """-> ("ok", value) | ("err", class name, message); every call into the library goes through here"""
    try:
        old = signal.signal(signal.SIGALRM, _on_alarm)
    except ValueError:      # not in the main thread
        old = None
    if old is not None:
        signal.alarm(int(T.limit()))
    try:
        with warnings.catch_warnings():
            warnings.simplefilter("ignore")
            return ("ok", f())
    except Hang:
        T.saw_hang()
        return ("err", "hang", f"no answer within {T.limit()} s")
    except RecursionError:
        return ("err", "RecursionError", "")
    except Exception as e:  # noqa
        return ("err", type(e).__name__, str(e)[:300])
    finally:
        if old is not None:
            signal.alarm(0)
            signal.signal(signal.SIGALRM, old)


def parse(text, **kw):
    return parse_jaqal_string(text, inject_pulses=GATES, autoload_pulses=False, **kw)


def parse_file(path, **kw):
    return parse_jaqal_file(path, inject_pulses=GATES, autoload_pulses=False, **kw)


def header_of(c):
    """usepulses, constants, registers and aliases, native gates (with their dictionary keys), dumped by value"""
    return {"usepulses": [[str(u.module), "*" if u.names is all else list(u.names)] for u in c.usepulses],
            "constants": [[k, dump.val(x)] for k, x in c.constants.items()],
            "registers": [[k, dump.val(x)] for k, x in c.registers.items()],
            "natives": [[k, dump.gatedef(g)] for k, g in c.native_gates.items()]}


def results_of(res):
    return [[float(x) for x in sc.simulated_probability_by_int] for sc in res.subcircuits], \
        [[x.as_int, x.subcircuit.index] for x in res.readouts]


def freq_of(res):
    return [[float(x) for x in sc.relative_frequency_by_int] for sc in res.subcircuits], \
        [[x.as_int, x.subcircuit.index] for x in res.readouts]


def close_enough(a, b):
    if len(a) != len(b):
        return False
    for x, y in zip(a, b):
        if len(x) != len(y) or any(abs(u - v) > 1e-9 for u, v in zip(x, y)):
            return False
    return True


class Checker:
    def __init__(self, tmpdir):
        self.oracle = {}
        self.dist = Counter()
        self.tmpdir = tmpdir
        self.nfile = 0

    def rec(self, name, ok, case, detail=""):
        o = self.oracle.setdefault(name, {"cases": 0, "failures": []})
        o["cases"] += 1
        if not ok:
            o["failures"].append({"case": case, "detail": detail})

    def path_for(self, text):
        self.nfile += 1
        path = os.path.join(self.tmpdir, f"p{self.nfile}.jaqal")
        with open(path, "w") as fd:
            fd.write(text)
        return path

    # one result circuit against the property
    def result(self, group, label, out, expect, base, case, step_no, legit_reject=False, macro_names=()):
        where = f"step {step_no}, {label}: "
        self.dist[f"entry {group}: {label}"] += 1
        if out[0] == "err":
            if out[1] == "JaqalError" and legit_reject:
                self.dist[f"entry {group}: rejected like the same flags without expansion"] += 1
                return None
            self.rec(f"C04e_yields@{group}", False, case, where + f"{out[1]}: {out[2]}")
            return None
        self.rec(f"C04e_yields@{group}", True, case)
        c = out[1]
        left = calls_left(c, macro_names)
        self.rec(f"C04e_no_calls@{group}", not left, case, where + f"macro calls left in the body: {left[:4]}")
        if not left:
            try:
                got = result_meaning(c)
            except RefError as e:
                got = f"unreadable result: {e}"
            self.rec(f"C04e_meaning@{group}", got == expect, case,
                     where + f"reference {json.dumps(expect)[:400]} / result {json.dumps(got)[:400]}")
        if base is not None:
            try:
                ok = header_of(c) == header_of(base)
                det = "header differs from the same pipeline without macro expansion"
            except Exception as e:  # noqa
                ok, det = False, f"header not dumpable: {type(e).__name__} {e}"
            self.rec(f"C04e_header@{group}", ok, case, where + det)
        return c

    def arity(self, group, label, out, case):
        self.dist[f"arity {group}: {label}"] += 1
        ok = out[0] == "err" and out[1] == "JaqalError"
        self.rec(f"C04e_arity@{group}", ok, case,
                 f"{label}: " + ("returned a circuit/result" if out[0] == "ok" else f"{out[1]}: {out[2]}"))


PARSE_FLAGS = [("expand_let",), ("expand_let_map",), ("expand_let", "expand_let_map")]


def check_step(ck, case, step_no):
    step = case["steps"][step_no]
    p, text, ov = step["p"], step["text"], step.get("ov") or {}
    only = step.get("entries")

    def want(label):
        return only is None or label in only

    try:
        flat = reference(p)
        M = ref_meaning(p, flat, {})
        Mov = ref_meaning(p, flat, ov) if ov else M
    except RefError as e:
        ck.dist[f"generator: reference undefined ({e})"] += 1
        return
    o = guarded(lambda: parse(text))
    if o[0] == "err":
        ck.dist[f"generator: plain parse rejects ({o[1]}: {o[2][:60]})"] += 1
        return
    c0 = o[1]
    names = set(c0.macros)
    # the reference is used only when two routes agree on it: the generator's AST, and the plain parse (no flag, no
    # pass) lifted back to an AST; a disagreement is a generator / front-end matter, not C04
    try:
        if lifted_reference(c0) != M:
            ck.dist["SELFCHECK (step skipped): AST reference != reference on the lifted parse"] += 1
            return
    except RefError as e:
        ck.dist[f"SELFCHECK (step skipped): lifted reference undefined ({e})"] += 1
        return
    ck.dist["steps checked"] += 1

    def res(group, label, out, expect, base, legit=False):
        return ck.result(group, label, out, expect, base, case, step_no, legit, names)

    # --- the pass itself
    r_true = None
    if want("pass(False)"):
        res("pass", "expand_macros(c)", guarded(lambda: expand_macros(c0)), M, c0)
    if want("pass(True)") or want("string"):
        r_true = res("pass", "expand_macros(c, preserve_definitions=True)",
                     guarded(lambda: expand_macros(c0, preserve_definitions=True)), M, c0)
    # --- parse flag alone
    flagged = []
    if want("string"):
        flagged.append(("parse_jaqal_string(expand_macro=True)", guarded(lambda: parse(text, expand_macro=True))))
    if want("string+usepulses"):
        flagged.append(("parse_jaqal_string(expand_macro=True, return_usepulses=True)",
                        guarded(lambda: parse(text, expand_macro=True, return_usepulses=True)[0])))
    if want("file"):
        path = ck.path_for(text)
        flagged.append(("parse_jaqal_file(expand_macro=True)", guarded(lambda: parse_file(path, expand_macro=True))))
    if want("file+usepulses"):
        path = ck.path_for(text)
        flagged.append(("parse_jaqal_file(expand_macro=True, return_usepulses=True)",
                        guarded(lambda: parse_file(path, expand_macro=True, return_usepulses=True)[0])))
    for label, out in flagged:
        c = res("parse_flag", label, out, M, c0)
        if c is not None and r_true is not None:
            try:
                same = dump.circuit(c) == dump.circuit(r_true)
            except Exception as e:  # noqa
                same = False
            ck.rec("C04e_flag_is_pass@parse_flag", same, case,
                   f"step {step_no}, {label} differs from expand_macros(parse(text), preserve_definitions=True)")
    # --- parse flags combined
    for flags in PARSE_FLAGS:
        for use_ov in ([False, True] if ov else [False]):
            key = "+".join(flags) + ("+ov" if use_ov else "")
            if not (want("flags:" + key) or want("file-flags:" + key)):
                continue
            kw = {f: True for f in flags}
            if use_ov:
                kw["override_dict"] = dict(ov)
            base = guarded(lambda: parse(text, **kw))
            legit = base[0] == "err" and base[1] == "JaqalError"
            if base[0] == "err" and not legit:
                ck.dist[f"note: {key} without expansion fails with {base[1]}"] += 1
                continue
            basec = base[1] if base[0] == "ok" else None
            expect = Mov if use_ov else M
            lab = ", ".join(f"{k}=True" for k in flags) + (", override_dict" if use_ov else "")
            if want("flags:" + key):
                res("parse_flags", f"parse_jaqal_string(expand_macro=True, {lab})",
                    guarded(lambda: parse(text, expand_macro=True, **kw)), expect, basec, legit)
            if want("file-flags:" + key):
                path = ck.path_for(text)
                res("parse_flags", f"parse_jaqal_file(expand_macro=True, {lab})",
                    guarded(lambda: parse_file(path, expand_macro=True, **kw)), expect, basec, legit)
    # --- the pass on a circuit that went through other passes
    pres = [("fill_in_let", lambda: fill_in_let(c0, dict(ov)), Mov),
            ("expand_subcircuits", lambda: expand_subcircuits(c0), None),
            ("fill_in_let(expand_subcircuits)", lambda: fill_in_let(expand_subcircuits(c0), dict(ov)), None),
            ("fill_in_map(fill_in_let)", lambda: fill_in_map(fill_in_let(c0)), M),
            ("expand_macros(preserve)", lambda: expand_macros(c0, preserve_definitions=True), M)]
    for label, pre, same_as in pres:
        if not want("after:" + label):
            continue
        x = guarded(pre)
        if x[0] == "err":
            ck.dist[f"after_pass: {label} itself rejects ({x[1]})"] += 1
            continue
        X = x[1]
        try:
            expect = lifted_reference(X)
        except RefError as e:
            ck.dist[f"after_pass: reference of {label}(c) undefined ({e})"] += 1
            continue
        if same_as is not None and expect != same_as:
            ck.dist[f"SELFCHECK: {label} changed the reference meaning"] += 1
        res("after_pass", f"expand_macros({label}(c))", guarded(lambda: expand_macros(X)), expect, X)
    # --- through the results
    if step.get("run") and (want("run") or want("output_list")):
        ref_text = program_text(p, with_macros=False, body=splice(flat, False))
        cr = guarded(lambda: parse(ref_text))
        if cr[0] == "err":
            ck.dist[f"generator: reference program rejected ({cr[1]}: {cr[2][:60]})"] += 1
        else:
            cref = cr[1]

            def run(c):
                np.random.seed(12345)
                return results_of(run_jaqal_circuit(c))

            a, b = guarded(lambda: run(c0)), guarded(lambda: run(cref))
            ck.dist["entry run: run_jaqal_circuit(c)"] += 1
            if a[0] == "err" and b[0] == "err" and a[1] == b[1] == "JaqalError":
                ck.dist["entry run: both programs rejected by the emulator (" + b[2][:40] + ")"] += 1
            elif a[0] == "ok" and b[0] == "ok":
                ok = close_enough(a[1][0], b[1][0]) and len(a[1][1]) == len(b[1][1])
                ck.rec("C04e_results@run", ok, case, f"step {step_no}: probabilities / number of readouts differ from "
                       f"the macro-free reference program: {json.dumps(a[1][0])[:200]} vs {json.dumps(b[1][0])[:200]}")
                ck.dist["entry run: compared, subcircuits=" + str(min(len(b[1][0]), 4))] += 1
            else:
                ck.rec("C04e_results@run", False, case, f"step {step_no}: run_jaqal_circuit(c) -> {str(a)[:200]} but the "
                       f"macro-free reference program -> {str(b)[:200]}")
            if b[0] == "ok" and want("output_list"):
                outs = [x[0] for x in b[1][1]]
                a2 = guarded(lambda: freq_of(parse_jaqal_output_list(c0, list(outs))))
                b2 = guarded(lambda: freq_of(parse_jaqal_output_list(cref, list(outs))))
                ck.dist["entry output_list: parse_jaqal_output_list(c, outputs)"] += 1
                if b2[0] == "ok":
                    ck.rec("C04e_results@output_list", a2 == b2, case,
                           f"step {step_no}: {str(a2)[:200]} vs macro-free reference {str(b2)[:200]}")
                elif not (a2[0] == "err" and a2[1] == b2[1]):
                    ck.rec("C04e_results@output_list", False, case,
                           f"step {step_no}: {str(a2)[:200]} vs macro-free reference {str(b2)[:200]}")
    # --- once more, after everything else ran on the same circuit object
    if want("pass(again)"):
        res("pass", "expand_macros(c) again, after the other entry points", guarded(lambda: expand_macros(c0)), M, c0)
    # --- wrong arity
    bad = step.get("bad")
    if bad:
        check_arity(ck, case, step, bad)


def mutate(c, which, how):
    calls = all_calls(c)
    if not calls:
        return None
    where, g = calls[which % len(calls)]
    if how == "drop" and g._parameters:
        g._parameters.pop(next(reversed(g._parameters)))
    else:
        g._parameters["extra__"] = 1
    return where


def check_arity(ck, case, step, bad):
    text, ov = step["text"], step.get("ov") or {}
    bt = bad["text"]
    ck.arity("parse_flag", "parse_jaqal_string(expand_macro=True)", guarded(lambda: parse(bt, expand_macro=True)), case)
    path = ck.path_for(bt)
    ck.arity("parse_flag", "parse_jaqal_file(expand_macro=True)", guarded(lambda: parse_file(path, expand_macro=True)), case)
    for flags in PARSE_FLAGS:
        kw = {f: True for f in flags}
        if ov:
            kw["override_dict"] = dict(ov)
        ck.arity("parse_flags", "parse_jaqal_string(expand_macro=True, " + ", ".join(flags) + ")",
                 guarded(lambda: parse(bt, expand_macro=True, **kw)), case)
    entries = [("pass", "expand_macros(c)", lambda c: expand_macros(c)),
               ("pass", "expand_macros(c, preserve_definitions=True)", lambda c: expand_macros(c, preserve_definitions=True)),
               ("after_pass", "expand_macros(fill_in_let(c))", lambda c: expand_macros(fill_in_let(c, dict(ov)))),
               ("after_pass", "expand_macros(expand_subcircuits(c))", lambda c: expand_macros(expand_subcircuits(c))),
               ("run", "run_jaqal_circuit(c)", lambda c: run_jaqal_circuit(c)),
               ("output_list", "parse_jaqal_output_list(c, [])", lambda c: parse_jaqal_output_list(c, []))]
    for group, label, f in entries:
        o = guarded(lambda: parse(text))
        if o[0] == "err":
            return
        c = o[1]
        where = mutate(c, bad["which"], bad["how"])
        if where is None:
            return
        ck.dist[f"arity on the objects: call {where}, {bad['how']}"] += 1
        ck.arity(group, label + " with a mutated call", guarded(lambda: f(c)), case)


# ------------------------------------------------------------------------------------------------
# cases

def _labels(ov):
    out = ["pass(False)", "pass(True)", "string", "string+usepulses", "file", "file+usepulses", "run", "output_list", "pass(again)"]
    for flags in PARSE_FLAGS:
        for use_ov in ([False, True] if ov else [False]):
            key = "+".join(flags) + ("+ov" if use_ov else "")
            out += ["flags:" + key, "file-flags:" + key]
    out += ["after:fill_in_let", "after:expand_subcircuits", "after:fill_in_let(expand_subcircuits)",
            "after:fill_in_map(fill_in_let)", "after:expand_macros(preserve)"]
    return out


def make_bad(rng, p):
    q = json.loads(json.dumps(p))
    bodies = {m[0]: m[3] for m in q["macros"]}
    sites, seen = [], set()

    def visit(stmts):
        for s in stmts:
            for g in walk_gates(s):
                if g[1] in bodies:
                    sites.append(g)
                    if g[1] not in seen:
                        seen.add(g[1])
                        visit([bodies[g[1]]])

    visit(q["body"])
    if not sites:
        return None
    g = rng.choice(sites)
    how = rng.choice(["drop", "add"])
    if how == "drop" and g[2]:
        g[2].pop()
    else:
        how = "add"
        g[2].append(["lit", 1])
    return {"text": program_text(q), "which": rng.randrange(0, 64), "how": rng.choice(["drop", "add"]), "text_how": how}


def gen_case(rng, idx, thorough):
    c = rng.random()
    kind = "single" if c < 0.62 else "history" if c < 0.82 else "arity"
    place = rng.choice(PLACES)
    runnable = rng.random() < 0.5
    mapsafe = rng.random() < 0.4
    if place in ("par", "seqinpar"):
        runnable = False        # the emulator wants disjoint parallel branches; those placements are checked structurally
    for _ in range(8):
        g = Gen(rng, place, runnable, thorough, mapsafe)
        p = g.program()
        if expanded_size(p) <= (600 if thorough else 250):
            break
    case = {"id": idx, "kind": kind, "place": place, "runnable": runnable, "mapsafe": mapsafe, "steps": []}

    def step():
        q = json.loads(json.dumps(p))
        return {"p": q, "text": program_text(q), "ov": dict(g.ov), "run": runnable}

    if kind == "single":
        case["steps"].append(step())
    elif kind == "arity":
        s = step()
        s["entries"] = rng.sample(_labels(g.ov), 3)
        s["bad"] = make_bad(rng, p)
        case["steps"].append(s)
    else:
        for i in range(rng.randrange(2, 5 if not thorough else 7)):
            if i:
                # the same names, signatures and (mostly) the same calls; other macro bodies
                g.fill_macros(p)
                if rng.random() < 0.3:
                    for _ in range(6):
                        p["body"] = g.body(g.sigs)
                        if any_call(p["body"], {s[0] for s in g.sigs}):
                            break
            s = step()
            s["entries"] = rng.sample(_labels(g.ov), rng.randrange(2, 6))
            case["steps"].append(s)
    case["roles"] = dict(g.roles)
    return case


def gen_cases(seed, n, thorough):
    rng = random.Random(seed * 1000003 + 4)
    return [gen_case(rng, i, thorough) for i in range(n)]


def describe(case, dist):
    dist[f"case kind={case['kind']}"] += 1
    dist[f"calls placed: {case['place']}" + (" (runnable: all gates inside subcircuits)" if case["runnable"] else "")] += 1
    if case.get("mapsafe"):
        dist["case without the constructs fill_in_map refuses"] += 1
    if case["kind"] == "history":
        dist[f"history length {len(case['steps'])}"] += 1
    for k in case.get("roles", {}):
        dist[f"programs with {k}"] += 1
    for s in case["steps"]:
        p = s["p"]
        d = call_depth(p)
        dist["macro call depth " + (str(d) if d < 5 else "5+")] += 1
        dist["macros per program " + str(len(p["macros"]))] += 1
        if any(not m[1] for m in p["macros"]):
            dist["programs with a zero-parameter macro"] += 1
        if any(m[2] == "subby" for m in p["macros"]):
            dist["programs with a subcircuit inside a macro"] += 1
        if p["usepulses"]:
            dist["programs with pulse imports"] += 1
        if s.get("ov"):
            dist["programs with let overrides"] += 1
        globals_ = {n for n, _ in p["lets"]} | {p["reg"][0]} | {n for n, _ in p["maps"]}
        if any(q in globals_ for m in p["macros"] for q, _ in m[1]):
            dist["programs with a parameter shadowing a global name"] += 1
        names = {m[0] for m in p["macros"]}
        top = [x for x in p["body"] if x[0] == "g" and x[1] in names]
        dist["top-level bare call: " + ("yes" if top else "no")] += 1


def run(seed: int, n: int, driver: str = DEFAULT_DRIVER, thorough: bool = False) -> dict:
    _imports()
    if thorough:
        n = n * 6
    old_limit = sys.getrecursionlimit()
    sys.setrecursionlimit(max(old_limit, 3000))
    cases = gen_cases(seed, n, thorough)
    nontrivial = set()
    with tempfile.TemporaryDirectory(prefix="c04_entry_") as tmp:
        ck = Checker(tmp)
        for case in cases:
            describe(case, ck.dist)
            for i, s in enumerate(case["steps"]):
                check_step(ck, case, i)
                if call_depth(s["p"]) >= 1:
                    nontrivial.add(s["text"])
    for v in ck.oracle.values():
        # histories first: they replay in a fresh process even when the defect needs an earlier expansion
        v["failures"] = sorted(v["failures"], key=lambda f: f["case"]["kind"] != "history")[:20]
    return {"corr": {}, "oracle": dict(sorted(ck.oracle.items())), "distribution": dict(sorted(ck.dist.items())),
            "samples": [{"kind": c["kind"], "place": c["place"], "texts": [s["text"] for s in c["steps"]]} for c in cases[:4]],
            "nontrivial": len(nontrivial)}


def replay(case: dict, driver: str = DEFAULT_DRIVER) -> dict:
    _imports()
    sys.setrecursionlimit(max(sys.getrecursionlimit(), 3000))
    with tempfile.TemporaryDirectory(prefix="c04_entry_") as tmp:
        ck = Checker(tmp)
        for i in range(len(case["steps"])):
            check_step(ck, case, i)
    fails = {k: v["failures"][0]["detail"] for k, v in ck.oracle.items() if v["failures"]}
    return {"model": None, "impl": None, "oracle_ok": not fails,
            "detail": "all oracles hold" if not fails else json.dumps(fails)[:3000]}


def main():
    ap = argparse.ArgumentParser()
    ap.add_argument("--driver", default=DEFAULT_DRIVER)
    ap.add_argument("--seed", type=int, default=0)
    ap.add_argument("--n", type=int, default=60)
    ap.add_argument("--thorough", action="store_true")
    a = ap.parse_args()
    r = run(a.seed, a.n, a.driver, a.thorough)
    bad = 0
    for k, v in r["oracle"].items():
        print(f"oracle {k}: {v['cases']} cases, {len(v['failures'])} failures")
        bad += len(v["failures"])
        for d in v["failures"][:2]:
            print("  FAIL", d["detail"][:600])
            print("       ", json.dumps([s["text"] for s in d["case"]["steps"]])[:1200])
    for k, v in r["distribution"].items():
        print(f"  {k}: {v}")
    print("nontrivial:", r["nontrivial"])
    sys.exit(1 if bad else 0)


if __name__ == "__main__":
    main()
