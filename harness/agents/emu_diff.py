#!/venv/bin/python
"""Differential test: Lean model `Jaqal.Emulator` (ops `apply_gate`, `run_gates`) against the real
`jaqalpaq.emulator.unitary.UnitarySerializedEmulator`.

Real circuits are built from Jaqal text with an injected gate set whose matrices have Gaussian-dyadic
entries only, so IEEE double arithmetic is exact and state vectors are compared EXACTLY.
Only direct register references `r[i]` are used (the Python reads `val.alias_index`).

Usage:  /venv/bin/python /verif/harness/agents/emu_diff.py [--driver PATH] [--count N] [--seed S] [--thorough]

`--driver` is a line-protocol executable that knows the ops in `JaqalModel/Model/EmulatorOps.lean`
(default: /verif/lean/.lake/build/bin/jaqal-model once the integrator has wired `Jaqal.Emulator.ops`
into `Main.lean`).
Exit status 0 iff no mismatch.
"""
import argparse, itertools, json, os, random, subprocess, sys, warnings

os.environ.setdefault("JAQALPAQ_RUN_EMULATOR", "1")
import numpy as np
from jaqalpaq.core import GateDefinition, Parameter, ParamType
from jaqalpaq.core.gatedef import BusyGateDefinition
from jaqalpaq.parser import parse_jaqal_string
from jaqalpaq.emulator.unitary import UnitarySerializedEmulator
from jaqalpaq.core.result import ProbabilisticSubcircuit

# The subcircuit constructor raises RuntimeError when the probabilities do not sum to 1 (non-unitary
# matrix, duplicated qubit arguments).  The loop nest under test has already run by then; lift the
# threshold (a class attribute, nothing in /repo is edited) so that the state vector can be read back.
ProbabilisticSubcircuit.CUTOFF_FAIL = float("inf")

Q = ParamType.QUBIT
I = ParamType.INT


# ---------------------------------------------------------------- gate set (Gaussian dyadic entries)
def M(rows):
    return np.array(rows, dtype=complex)


def perm(n, f, phase=lambda i: 1):
    """column i -> row f(i) with phase"""
    m = np.zeros((n, n), dtype=complex)
    for i in range(n):
        m[f(i), i] = phase(i)
    return m


def u_X(): return M([[0, 1], [1, 0]])
def u_Y(): return M([[0, -1j], [1j, 0]])
def u_Z(): return M([[1, 0], [0, -1]])
def u_S(): return M([[1, 0], [0, 1j]])
def u_SX(): return M([[1 + 1j, 1 - 1j], [1 - 1j, 1 + 1j]]) / 2
def u_HH():
    h = M([[1, 1], [1, -1]])
    return np.kron(h, h) / 2
def u_CX():  # control = arg0 = bit0, target = arg1 = bit1
    return perm(4, lambda i: (i & 1) | ((((i >> 1) ^ i) & 1) << 1))
def u_CZ(): return np.diag([1, 1, 1, -1]).astype(complex)
def u_SWAP(): return perm(4, lambda i: ((i & 1) << 1) | (i >> 1))
def u_ISWAP(): return perm(4, lambda i: ((i & 1) << 1) | (i >> 1), lambda i: 1j if i in (1, 2) else 1)
def u_CCX(): return perm(8, lambda i: (i & 3) | ((((i >> 2) ^ ((i & 1) & (i >> 1))) & 1) << 2))
def u_ASYM2():  # non-symmetric: 4-cycle with phases 1, i, -1, -i
    return perm(4, lambda i: (i + 1) % 4, lambda i: [1, 1j, -1, -1j][i])
def u_MIX2():  # non-symmetric, dense: (SX on bit0) then ASYM2
    return u_ASYM2() @ np.kron(np.eye(2), u_SX())
def u_PERM3(): return perm(8, lambda i: [3, 0, 6, 1, 7, 2, 5, 4][i])
def u_MIX3(): return u_PERM3() @ np.kron(u_HH(), u_S())
def u_P(k): return M([[1, 0], [0, 1j ** (k % 4)]])
def u_CP(k): return np.diag([1, 1, 1, [1, 1j, -1, -1j][k % 4]]).astype(complex)
# matrices whose size does not match the number of qubit arguments (the Python never checks)
def u_RND2():  # NOT unitary (the loop nest does not care)
    return M([[1, 0, 1j, 0], [0, 1, 0, -1], [1j, 1, 0, 0], [0, 0, 1, 1j]])
def u_BIG1(): return perm(4, lambda i: (i - 1) % 4)   # rows 0,1 act like X on one qubit
def u_SMALL2(): return u_X()                           # IndexError as soon as dsub_row >= 2

GATES = {}
ARITY = {}      # name -> list of 'q' / 'i' in declaration order
UNITARY = {}


def add(name, sig, u):
    params = [Parameter(f"p{k}", Q if s == "q" else I) for k, s in enumerate(sig)]
    GATES[name] = GateDefinition(name, params, ideal_unitary=u)
    ARITY[name] = sig
    UNITARY[name] = u


for nm in ["X", "Y", "Z", "S", "SX"]:
    add(nm, "q", globals()["u_" + nm])
for nm in ["HH", "CX", "CZ", "SWAP", "ISWAP", "ASYM2", "MIX2", "RND2"]:
    add(nm, "qq", globals()["u_" + nm])
for nm in ["CCX", "PERM3", "MIX3"]:
    add(nm, "qqq", globals()["u_" + nm])
add("P", "qi", u_P)
add("CP", "qiq", u_CP)      # classical parameter between the two qubit arguments
add("N", "q", None)         # no unitary: skipped
add("N2", "qq", None)
add("BIG1", "q", u_BIG1)
add("SMALL2", "qq", u_SMALL2)
GATES["prepare_all"] = BusyGateDefinition("prepare_all", [])
GATES["measure_all"] = BusyGateDefinition("measure_all", [])

NORMAL = [g for g in ARITY if g not in ("BIG1", "SMALL2")]


# ---------------------------------------------------------------- exact conversion
def dyad(x):
    """float -> (num, k) with x = num / 2^k exactly"""
    num, den = float(x).as_integer_ratio()
    k = den.bit_length() - 1
    assert den == 1 << k
    return num, k


def gd(z):
    """complex -> normalised [re, im, k]"""
    z = complex(z)
    (a, ka), (b, kb) = dyad(z.real), dyad(z.imag)
    k = max(ka, kb)
    a <<= k - ka
    b <<= k - kb
    while k > 0 and a % 2 == 0 and b % 2 == 0:
        a //= 2; b //= 2; k -= 1
    return [a, b, k]


def gd_json(z):
    return [str(t) for t in gd(z)]


def mat_json(m):
    return [[gd_json(z) for z in row] for row in m]


# ---------------------------------------------------------------- program generation
class Inst:
    def __init__(self, name, qubits, ints):
        self.name, self.qubits, self.ints = name, qubits, ints

    def text(self):
        qs, it = iter(self.qubits), iter(self.ints)
        args = [f"r[{next(qs)}]" if s == "q" else str(next(it)) for s in ARITY[self.name]]
        return " ".join([self.name] + args)

    def model(self):
        u = UNITARY[self.name]
        return {"U": None if u is None else mat_json(u(*self.ints)), "qs": self.qubits}


def rand_inst(rng, n, names, allow_dup=False, avoid=()):
    for _ in range(100):
        name = rng.choice(names)
        nq = ARITY[name].count("q")
        pool = [q for q in range(n) if q not in avoid]
        if allow_dup and pool:
            qubits = [rng.choice(pool) for _ in range(nq)]
        elif nq <= len(pool):
            qubits = rng.sample(pool, nq)
        else:
            continue
        ints = [rng.randrange(0, 8) for s in ARITY[name] if s == "i"]
        return Inst(name, qubits, ints)
    return None


def rand_body(rng, n, length, names, dup_rate):
    """returns (list of text lines, serialised list of Inst)"""
    lines, ser = [], []
    while len(ser) < length:
        r = rng.random()
        if r < 0.12 and n >= 2:
            # parallel block over disjoint qubits: any interleaving gives the same state (C03_embed_comm)
            used, branch = set(), []
            for _ in range(rng.randint(2, 3)):
                g = rand_inst(rng, n, [x for x in names if ARITY[x].count("q") <= 2], avoid=used)
                if g is None:
                    break
                used.update(g.qubits)
                branch.append(g)
            if len(branch) >= 2:
                lines.append("< " + " | ".join(g.text() for g in branch) + " >")
                ser.extend(branch)
                continue
        if r < 0.2:
            cnt = rng.randint(0, 3)
            inner = [rand_inst(rng, n, names) for _ in range(rng.randint(1, 2))]
            inner = [g for g in inner if g is not None]
            if inner:
                lines.append(f"loop {cnt} {{ " + " ; ".join(g.text() for g in inner) + " }")
                ser.extend(inner * cnt)
                continue
        g = rand_inst(rng, n, names, allow_dup=rng.random() < dup_rate)
        if g is not None:
            lines.append(g.text())
            ser.append(g)
    return lines, ser


def make_program(n, bodies):
    out = [f"register r[{n}]"]
    for lines in bodies:
        out.append("prepare_all")
        out.extend(lines)
        out.append("measure_all")
    return "\n".join(out) + "\n"


def run_python(text):
    """-> list of (state_vector, probabilities) per subcircuit, or the exception"""
    circ = parse_jaqal_string(text, inject_pulses=GATES, autoload_pulses=False)
    try:
        with warnings.catch_warnings():
            warnings.simplefilter("ignore")
            # the state vectors are computed when the job is built; `.execute()` would only sample readouts
            job = UnitarySerializedEmulator()(circ)
    except IndexError as e:
        return e
    return [(np.array(sc.state_vector), np.array(sc.simulated_probability_by_int)) for sc in job.subcircuits]


# ---------------------------------------------------------------- driver
def call_driver(driver, reqs):
    inp = "\n".join(json.dumps(r) for r in reqs) + "\n"
    p = subprocess.run([driver], input=inp, capture_output=True, text=True, check=True)
    outs = [json.loads(l) for l in p.stdout.splitlines() if l.strip()]
    assert len(outs) == len(reqs), (len(outs), len(reqs), p.stderr[:500])
    return outs


def main():
    ap = argparse.ArgumentParser()
    ap.add_argument("--driver", default="/verif/lean/.lake/build/bin/jaqal-model")
    ap.add_argument("--count", type=int, default=1500, help="number of random programs")
    ap.add_argument("--seed", type=int, default=20260923)
    ap.add_argument("--thorough", action="store_true", help="all qubit tuples for every gate up to n = 6")
    a = ap.parse_args()
    rng = random.Random(a.seed)

    reqs, expect, descr = [], [], []

    def expect_run(n, ser, py):
        """py = (vec, probs) from Python or 'error'"""
        reqs.append({"op": "run_gates", "n": n, "gates": [g.model() for g in ser]})
        expect.append(("run", py))

    def expect_apply(n, g, vin, vout):
        m = g.model()
        reqs.append({"op": "apply_gate", "n": n, "qs": m["qs"], "U": m["U"], "v": [gd_json(z) for z in vin]})
        expect.append(("apply", vout))

    # 1. random programs, several subcircuits each; each program also yields single-step checks:
    #    the same body with and without its last gate gives (v_in, v_out) for `apply_gate`.
    nprog = 0
    for _ in range(a.count):
        n = rng.randint(1, 5)
        bodies, sers = [], []
        for _ in range(rng.randint(1, 3)):
            lines, ser = rand_body(rng, n, rng.randint(0, 14), NORMAL + ["BIG1"], dup_rate=0.05)
            bodies.append(lines); sers.append(ser)
        text = make_program(n, bodies)
        py = run_python(text)
        assert not isinstance(py, Exception), (text, py)
        nprog += 1
        for ser, r in zip(sers, py):
            descr.append(text); expect_run(n, ser, r)
        # single-step: prefixes of the first body (plain instruction list, no blocks)
        flat = [rand_inst(rng, n, NORMAL + ["BIG1"], allow_dup=rng.random() < 0.05) for _ in range(rng.randint(1, 8))]
        flat = [g for g in flat if g is not None and UNITARY[g.name] is not None]
        if flat:
            t2 = make_program(n, [[g.text() for g in flat[:-1]], [g.text() for g in flat]])
            (vin, _), (vout, _) = run_python(t2)
            descr.append(t2); expect_apply(n, flat[-1], vin, vout)

    # 2. matrix too small for the number of qubit arguments: numpy raises IndexError
    for _ in range(60):
        n = rng.randint(2, 4)
        lines, ser = rand_body(rng, n, rng.randint(0, 4), NORMAL, 0.0)
        g = rand_inst(rng, n, ["SMALL2"], allow_dup=rng.random() < 0.3)
        text = make_program(n, [lines + [g.text()]])
        py = run_python(text)
        if isinstance(py, Exception):
            descr.append(text); expect_run(n, ser + [g], "error")
        else:
            # duplicate qubit arguments: dsub_row stays below 2, no error
            descr.append(text); expect_run(n, ser + [g], py[0])

    # 3. exhaustive qubit tuples for each gate after a scrambling prefix
    nmax = 6 if a.thorough else 4
    for n in range(1, nmax + 1):
        prefix = []
        for q in range(n):
            prefix.append(Inst("SX", [q], []))
            prefix.append(Inst("P", [q], [q + 1]))
        for q in range(n - 1):
            prefix.append(Inst("MIX2", [q, q + 1], []))
        if n >= 3:
            prefix.append(Inst("MIX3", [n - 1, 0, 1], []))
        ptxt = [g.text() for g in prefix]
        vin = None
        for name in NORMAL + ["BIG1"]:
            if UNITARY[name] is None:
                continue
            nq = ARITY[name].count("q")
            tuples = itertools.product(range(n), repeat=nq) if (a.thorough or n <= 3) else itertools.permutations(range(n), nq)
            tuples = list(tuples)
            # many subcircuits per program to amortise parsing
            for chunk in [tuples[k:k + 40] for k in range(0, len(tuples), 40)]:
                insts = [Inst(name, list(t), [3] * ARITY[name].count("i")) for t in chunk]
                text = make_program(n, [ptxt] + [ptxt + [g.text()] for g in insts])
                py = run_python(text)
                assert not isinstance(py, Exception), (text, py)
                vin = py[0][0]
                for g, (vout, _) in zip(insts, py[1:]):
                    descr.append(text); expect_apply(n, g, vin, vout)

    outs = call_driver(a.driver, reqs)
    bad = 0
    counts = {"run": 0, "apply": 0, "error": 0}
    for req, (kind, exp), out, text in zip(reqs, expect, outs, descr):
        ok = True
        why = ""
        if "err" in out:
            ok, why = False, "driver error " + out["err"]
        elif kind == "run" and isinstance(exp, str):
            counts["error"] += 1
            ok = out["out"] is None
            why = "python raised IndexError, model did not return null"
        elif kind == "run":
            counts["run"] += 1
            vec, probs = exp
            o = out["out"]
            if o is None:
                ok, why = False, "model returned null"
            else:
                want = [gd_json(z) for z in vec]
                if o["vec"] != want:
                    ok, why = False, f"vec: model {o['vec']} python {want}"
                else:
                    mp = [int(num) / 2 ** int(k) for num, k in o["probs"]]
                    if abs(sum(mp) - 1) > 1e-13:
                        pass  # not normalised: result.py rescales the probabilities (not modelled here)
                    elif len(mp) != len(probs) or max(abs(x - y) for x, y in zip(mp, probs)) > 1e-12:
                        ok, why = False, f"probs: model {mp} python {list(probs)}"
        else:
            counts["apply"] += 1
            want = [gd_json(z) for z in exp]
            if out["out"] != want:
                ok, why = False, f"apply: model {out['out']} python {want}"
        if not ok:
            bad += 1
            if bad <= 5:
                print("MISMATCH:", why)
                print(text)
                print(json.dumps(req)[:2000])
    print(f"emu_diff: programs={nprog} run_gates={counts['run']} apply_gate={counts['apply']} "
          f"index_error={counts['error']} mismatches={bad}")
    sys.exit(1 if bad else 0)


if __name__ == "__main__":
    main()
