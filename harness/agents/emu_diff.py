#!/venv/bin/python
"""C03 — emulator state vector: Lean model vs real code, plus direct oracles on the real code.

Importable as `harness.agents.emu_diff` (PYTHONPATH=/verif) and runnable as a CLI:

    PYTHONPATH=/verif /venv/bin/python -m harness.agents.emu_diff [--seed S] [--count N] [--driver PATH] [--thorough]
    /venv/bin/python /verif/harness/agents/emu_diff.py ...            (same thing)

`run(seed, n, driver, thorough) -> dict` and `replay(case, driver) -> dict` follow the "Diff-script protocol"
of /verif/notes/AGENT_CONVENTIONS.md.

Correspondence (`corr`), Lean model `Jaqal.Emulator` (ops `run_gates`, `apply_gate`) against the real code:
  * run_gates            – whole subcircuits through the REAL pipeline `run_jaqal_circuit` (macros, lets, alias
                           chains, subcircuit blocks, loops, parallel blocks); exact comparison of `state_vector`
                           (Gaussian-dyadic matrices only, IEEE arithmetic is exact) and probabilities to 1e-12.
  * apply_gate           – single step: v_in / v_out taken from the real emulator (prefix / prefix+gate).
  * run_gates_irregular  – matrices of the wrong shape / not unitary, which the code never checks (distinct qubits):
                           a matrix larger than 2^|qubits| (silently accepted), a matrix that is too small
                           (IndexError ↔ model `null`), a non-unitary matrix.  Duplicated qubit arguments can no longer
                           reach the loop nest through the public path (see the oracle below), so they are not in corr.

Direct oracles (`oracle`), property C03 evaluated on the real code alone:
  * kron_reference            – state_vector == U_k … U_1 e0, every U_j applied with numpy `tensordot` on the axes of
                                its argument qubits (bit j of the gate index ↔ j-th argument, bit i of the state index
                                ↔ register qubit i), exact comparison.
  * alias_same_as_direct      – the program with alias chains / let-valued bounds / let-sized register / macros gives
                                the same states as the flat program written on `r[i]` directly.
  * idle_and_no_unitary_noop  – removing idle gates (`add_idle_gates`) and gates without a unitary changes nothing.
  * parallel_order            – permuting the branches of parallel blocks (disjoint qubits) changes nothing.
  * duplicate_qubit_is_jaqalerror – a gate whose qubit arguments overlap (directly, through an alias, through macro
                                arguments, inside loops / parallel blocks) makes the real pipeline raise JaqalError,
                                while the same program with distinct qubits runs.
  * let_override              – `parse_jaqal_string(..., override_dict=ov, expand_let=True)` and `fill_in_let(c, ov)`
                                make run_jaqal_circuit use the overriding values (integer phase argument of P/PF, loop
                                counts): same states as the program with the overriding values written in the lets.
"""
import argparse
import itertools
import json
import os
import random
import subprocess
import sys
import warnings

import numpy as np

try:
    from harness import gates as HG
except ImportError:  # run as a plain script
    sys.path.insert(0, os.path.dirname(os.path.dirname(os.path.dirname(os.path.abspath(__file__)))))
    from harness import gates as HG

from jaqalpaq.core import GateDefinition, Parameter, ParamType
from jaqalpaq.core.gatedef import add_idle_gates
from jaqalpaq.core.algorithm import fill_in_let
from jaqalpaq.core.result import ProbabilisticSubcircuit
from jaqalpaq.error import JaqalError
from jaqalpaq.parser import parse_jaqal_string
from jaqalpaq.emulator.unitary import UnitarySerializedEmulator

DEFAULT_DRIVER = "/verif/lean/.lake/build/bin/jaqal-model"
Q, I = ParamType.QUBIT, ParamType.INT


# ------------------------------------------------------------------ gate set: shared set + extras
def _perm(d, f, phase=lambda i: 1):
    m = np.zeros((d, d), dtype=complex)
    for i in range(d):
        m[f(i), i] = phase(i)
    return m


def U_ASYM2():  # non-symmetric: 4-cycle with phases 1, i, -1, -i
    return _perm(4, lambda i: (i + 1) % 4, lambda i: [1, 1j, -1, -1j][i])


def U_MIX2():  # non-symmetric and dense
    return U_ASYM2() @ np.kron(np.eye(2), HG.U_SX())


def U_PERM3():
    return _perm(8, lambda i: [3, 0, 6, 1, 7, 2, 5, 4][i])


def U_MIX3():
    return U_PERM3() @ np.kron(HG.U_HH(), HG.U_S())


def U_CP(k):  # classical parameter BETWEEN the two qubit arguments
    return np.diag([1, 1, 1, [1, 1j, -1, -1j][int(k) % 4]]).astype(complex)


# irregular matrices (outside the hypotheses of the theorems; the code never checks)
def U_RND2():  # not unitary
    return np.array([[1, 0, 1j, 0], [0, 1, 0, -1], [1j, 1, 0, 0], [0, 0, 1, 1j]], dtype=complex)


def U_BIG1():  # 4x4 matrix for ONE qubit: rows 0,1 act like X
    return _perm(4, lambda i: (i - 1) % 4)


def U_SMALL2():  # 2x2 matrix for TWO qubits: IndexError as soon as dsub_row >= 2
    return HG.U_X()


def _make_gates():
    G = dict(HG.GATES)
    sig = dict(HG.SIG)

    def add(name, s, u):
        G[name] = GateDefinition(name, [Parameter(f"p{k}", Q if c == "q" else I) for k, c in enumerate(s)], ideal_unitary=u)
        sig[name] = s

    add("ASYM2", "qq", U_ASYM2)
    add("MIX2", "qq", U_MIX2)
    add("PERM3", "qqq", U_PERM3)
    add("MIX3", "qqq", U_MIX3)
    add("CP", "qiq", U_CP)
    add("N2", "qq", None)
    add("RND2", "qq", U_RND2)
    add("BIG1", "q", U_BIG1)
    add("SMALL2", "qq", U_SMALL2)
    return G, sig


GATES, SIG = _make_gates()
GATES_IDLE = add_idle_gates(GATES)
IRREGULAR = ["RND2", "BIG1", "SMALL2"]
NOUNITARY = ["N", "N2"]
REGULAR = [g for g in SIG if g not in IRREGULAR and g not in NOUNITARY]
IDLE = ["I_" + g for g in REGULAR]


def gate_unitary(name, ints):
    """The matrix the emulator will use (None: skipped)."""
    d = GATES_IDLE[name]
    return None if d.ideal_unitary is None else np.asarray(d.ideal_unitary(*ints))


def base_sig(name):
    return SIG[name[2:]] if name.startswith("I_") else SIG[name]


# ------------------------------------------------------------------ exact conversion
def _dyad(x):
    num, den = float(x).as_integer_ratio()
    k = den.bit_length() - 1
    assert den == 1 << k
    return num, k


def gd(z):
    z = complex(z)
    (a, ka), (b, kb) = _dyad(z.real), _dyad(z.imag)
    k = max(ka, kb)
    a <<= k - ka
    b <<= k - kb
    while k > 0 and a % 2 == 0 and b % 2 == 0:
        a //= 2
        b //= 2
        k -= 1
    return [str(a), str(b), str(k)]


def vec_json(v):
    return [gd(z) for z in v]


def mat_json(m):
    return [[gd(z) for z in row] for row in m]


# ------------------------------------------------------------------ real code
def _env():
    os.environ["JAQALPAQ_RUN_EMULATOR"] = "1"


def run_pipeline(text, ov=None, ov_mode=None):
    """The real pipeline: parse → run_jaqal_circuit (expand_subcircuits, fill_in_let, expand_macros, emulator).
    Returns [(state_vector, probabilities)] per subcircuit."""
    _env()
    from jaqalpaq.run import run_jaqal_circuit

    with warnings.catch_warnings():
        warnings.simplefilter("ignore")
        if ov_mode == "parse":
            c = parse_jaqal_string(text, override_dict=ov, expand_let=True, inject_pulses=GATES_IDLE, autoload_pulses=False)
        else:
            c = parse_jaqal_string(text, inject_pulses=GATES_IDLE, autoload_pulses=False)
            if ov_mode == "fill":
                c = fill_in_let(c, override_dict=ov)
        res = run_jaqal_circuit(c)
    return [(np.array(sc.state_vector), np.array(sc.simulated_probability_by_int)) for sc in res.subcircuits]


def run_emulator_raw(text):
    """Emulator job without sampling and with the probability-sum check lifted (irregular inputs leave the state
    non-normalised; the loop nest under test has already run when `ProbabilisticSubcircuit` complains).
    Returns the list of state vectors, the string 'IndexError' (numpy index out of range inside the loop nest),
    or 'unexpected <Type>: <message>' for anything else.  Never raises."""
    _env()
    old = ProbabilisticSubcircuit.CUTOFF_FAIL
    ProbabilisticSubcircuit.CUTOFF_FAIL = float("inf")
    try:
        with warnings.catch_warnings(), np.errstate(all="ignore"):
            warnings.simplefilter("ignore")
            c = parse_jaqal_string(text, inject_pulses=GATES_IDLE, autoload_pulses=False)
            job = UnitarySerializedEmulator()(c)
            return [np.array(sc.state_vector) for sc in job.subcircuits]
    except IndexError:
        return "IndexError"
    except Exception as e:
        return f"unexpected {type(e).__name__}: {e}"
    finally:
        ProbabilisticSubcircuit.CUTOFF_FAIL = old


def kron_reference(n, sub):
    """U_k … U_1 e0 with numpy tensors: axis (n-1-q) of the state tensor is register qubit q; bit j of a gate
    index is its j-th qubit argument."""
    psi = np.zeros((2,) * n, dtype=complex) if n else np.zeros((), dtype=complex)
    psi[(0,) * n] = 1
    for g in sub:
        u = gate_unitary(g["g"], g["a"])
        if u is None:
            continue
        qs = g["qs"]
        m = len(qs)
        t = u.reshape((2,) * (2 * m))  # axes: row bits m-1..0, column bits m-1..0
        col_axes = [m + (m - 1 - j) for j in range(m)]  # column bit j
        psi_axes = [n - 1 - qs[j] for j in range(m)]  # qubit qs[j]
        out = np.tensordot(t, psi, axes=(col_axes, psi_axes))
        # out axes: row bits m-1..0, then the untouched axes of psi in order; put row bit j on the axis of qs[j]
        out = np.moveaxis(out, [m - 1 - j for j in range(m)], psi_axes)
        psi = out
    return psi.reshape(-1)


# ------------------------------------------------------------------ program generator
class Prog:
    """A random program: header facts + structured body items + everything needed to render / serialise.

    item kinds
      ("gate", name, [qubit], [int], noop)          qubit: int | ("p", j)   int: int | let-name | ("p", j)
      ("call", macro-name, [qubit], [int])
      ("loop", count, [item])                       count: int | let-name
      ("par", [branch])                             branch: [item] (rendered bare when a single item, else `{ … }`;
                                                    Jaqal has no sequential block directly inside a sequential one)
    """

    def __init__(self, rng, n, nsub, maxlen, feat):
        self.rng, self.n, self.feat = rng, n, feat
        self.lets = {}  # name -> int
        self.maps = []  # (name, text-spec, [register index] or int for single)
        self.macros = {}  # name -> (nq, ni, [item])
        self.let_sized = rng.random() < 0.5
        self.lets["NQ"] = n
        for k in range(3):
            self.lets[f"K{k}"] = rng.randrange(8)
        for k in range(2):
            self.lets[f"L{k}"] = rng.randrange(4)
        for t in rng.sample(range(n), min(n, 2)):
            self.lets[f"T{t}"] = t
        self._gen_maps()
        self._gen_macros()
        self.subs = []  # (style, [item])
        for _ in range(nsub):
            style = rng.choice(["plain", "block", "blockN"])
            feat["sub_" + style] += 1
            self.subs.append((style, self._gen_items(rng.randint(0, maxlen), depth=0)))

    # ---- header
    def _bound(self, v):
        """a slice bound / index, literal or let-valued"""
        names = [k for k, x in self.lets.items() if x == v and k[0] in "TN"]
        if names and self.rng.random() < 0.5:
            return self.rng.choice(names)
        return str(v)

    def _gen_maps(self):
        rng, n = self.rng, self.n
        arrays = [("r", list(range(n)))]
        for name in ["a", "b", "c"]:
            if rng.random() < 0.7:
                src, res = rng.choice(arrays)
                if rng.random() < 0.2:
                    self.maps.append((name, f"map {name} {src}", list(res)))
                    arrays.append((name, list(res)))
                    continue
                L = len(res)
                lo = rng.randrange(L)
                hi = rng.randint(lo + 1, L)
                st = rng.choice([1, 1, 2])
                sub = res[lo:hi:st]
                spec = f"{self._bound(lo)}:{self._bound(hi)}" + (f":{st}" if st != 1 or rng.random() < 0.3 else "")
                self.maps.append((name, f"map {name} {src}[{spec}]", sub))
                arrays.append((name, sub))
        self.arrays = arrays
        self.singles = []
        for name in ["q", "p"]:
            if rng.random() < 0.6:
                src, res = rng.choice(arrays)
                k = rng.randrange(len(res))
                self.maps.append((name, f"map {name} {src}[{self._bound(k)}]", res[k]))
                self.singles.append((name, res[k]))

    def _gen_macros(self):
        rng = self.rng
        for name in ["MA", "MB"]:
            if rng.random() < 0.6:
                nq = rng.randint(1, min(3, self.n))
                ni = rng.randint(0, 1)
                body = []
                for _ in range(rng.randint(1, 3)):
                    if self.macros and rng.random() < 0.3:
                        mn = rng.choice(list(self.macros))
                        mq, mi, _ = self.macros[mn]
                        if mq <= nq:
                            qs = [("p", j) for j in rng.sample(range(nq), mq)]
                            ints = [(("p", nq) if ni and rng.random() < 0.5 else rng.randrange(8)) for _ in range(mi)]
                            body.append(("call", mn, qs, ints))
                            continue
                    g = rng.choice([x for x in REGULAR if base_sig(x).count("q") <= nq])
                    s = base_sig(g)
                    qs = [("p", j) for j in rng.sample(range(nq), s.count("q"))]
                    ints = [(("p", nq) if ni and rng.random() < 0.6 else self._int_arg()) for _ in range(s.count("i"))]
                    body.append(("gate", g, qs, ints, False))
                self.macros[name] = (nq, ni, body)

    def _int_arg(self):
        if self.rng.random() < 0.5:
            return self.rng.choice(["K0", "K1", "K2"])
        return self.rng.randrange(8)

    # ---- body
    def _gen_gate(self, pool, maxq=3):
        rng = self.rng
        r = rng.random()
        if r < 0.10:
            names, noop = IDLE, True
        elif r < 0.17:
            names, noop = NOUNITARY, True
        else:
            names, noop = REGULAR, False
        names = [g for g in names if base_sig(g).count("q") <= min(len(pool), maxq)]
        if not names:
            return None
        g = rng.choice(names)
        s = base_sig(g)
        qs = rng.sample(pool, s.count("q"))
        ints = [self._int_arg() for _ in range(s.count("i"))]
        return ("gate", g, qs, ints, noop)

    def _gen_call(self, pool):
        rng = self.rng
        ms = [m for m, (nq, _, _) in self.macros.items() if nq <= len(pool)]
        if not ms:
            return None
        m = rng.choice(ms)
        nq, ni, _ = self.macros[m]
        self.feat["macro_call"] += 1
        return ("call", m, rng.sample(pool, nq), [self._int_arg() for _ in range(ni)])

    def _gen_simple(self, pool):
        if self.rng.random() < 0.2:
            c = self._gen_call(pool)
            if c:
                return c
        return self._gen_gate(pool)

    def _gen_items(self, length, depth):
        rng, n = self.rng, self.n
        items = []
        allq = list(range(n))
        while len(items) < length:
            r = rng.random()
            if r < 0.15 and n >= 2:
                parts = list(allq)
                rng.shuffle(parts)
                nb = rng.randint(2, min(3, n))
                cuts = sorted(rng.sample(range(1, n), nb - 1))
                pools = [parts[a:b] for a, b in zip([0] + cuts, cuts + [n])]
                branches = []
                for pool in pools:
                    br = [x for x in (self._gen_simple(pool) for _ in range(rng.choice([1, 1, 2]))) if x]
                    # a branch must contain at least one real gate so that it survives the removal of no-ops
                    if not any(not (x[0] == "gate" and x[4]) for x in br):
                        g = None
                        while g is None or g[4]:
                            g = self._gen_gate(pool)
                        br.append(g)
                    branches.append(br)
                items.append(("par", branches))
                self.feat["par"] += 1
            elif r < 0.27 and depth < 2:
                cnt = rng.choice(["L0", "L1"]) if rng.random() < 0.5 else rng.randint(0, 3)
                body = self._gen_items(rng.randint(1, 3), depth + 1)
                if not any(not (x[0] == "gate" and x[4]) for x in body):
                    g = None
                    while g is None or g[4]:
                        g = self._gen_gate(allq)
                    body.append(g)
                items.append(("loop", cnt, body))
                self.feat["loop"] += 1
            else:
                x = self._gen_simple(allq)
                if x:
                    items.append(x)
        return items

    # ---- serialise: the executed gate list [{"g","qs","a"}] (idle / no-unitary gates included)
    def serialise_items(self, items, vals, qenv=None, ienv=None, perm=False):
        out = []
        for it in items:
            k = it[0]
            if k == "gate":
                _, g, qs, ints, _ = it
                out.append({"g": g, "qs": [self._rq(q, qenv) for q in qs], "a": [self._ri(a, vals, ienv) for a in ints]})
            elif k == "call":
                _, m, qs, ints = it
                nq, ni, body = self.macros[m]
                q2 = [self._rq(q, qenv) for q in qs]
                i2 = [self._ri(a, vals, ienv) for a in ints]
                out.extend(self.serialise_items(body, vals, q2, {nq + j: v for j, v in enumerate(i2)}))
            elif k == "loop":
                out.extend(self.serialise_items(it[2], vals, qenv, ienv) * self._ri(it[1], vals, ienv))
            elif k == "par":
                for br in it[1]:
                    out.extend(self.serialise_items(br, vals, qenv, ienv))
            elif k == "seq":
                out.extend(self.serialise_items(it[1], vals, qenv, ienv))
        return out

    @staticmethod
    def _rq(q, qenv):
        return qenv[q[1]] if isinstance(q, tuple) else q

    @staticmethod
    def _ri(a, vals, ienv):
        if isinstance(a, tuple):
            return ienv[a[1]]
        return vals[a] if isinstance(a, str) else a

    def serialise(self, vals=None):
        vals = dict(self.lets, **(vals or {}))
        return [self.serialise_items(items, vals) for _, items in self.subs]

    # ---- render
    def _qref(self, q, rng, pnames):
        if isinstance(q, tuple):
            return pnames[q[1]]
        forms = [f"r[{q}]"]
        if f"T{q}" in self.lets:
            forms.append(f"r[T{q}]")
        for name, res in self.arrays[1:]:
            for pos, t in enumerate(res):
                if t == q:
                    forms.append(f"{name}[{pos}]")
        for name, t in self.singles:
            if t == q:
                forms.append(name)
        if len(forms) > 1 and rng.random() < 0.8:
            f = rng.choice(forms[1:])
            self.feat["alias_ref"] += 1
            return f
        return forms[0]

    def _iref(self, a, pnames):
        return pnames[a[1]] if isinstance(a, tuple) else str(a)

    def _rgate(self, name, qs, ints, rng, pnames):
        qi, ii = iter(qs), iter(ints)
        args = [self._qref(next(qi), rng, pnames) if c == "q" else self._iref(next(ii), pnames) for c in base_sig(name)]
        return " ".join([name] + args)

    def render_items(self, items, rng, noop=True, permute=False, pnames=None):
        out = []
        for it in items:
            k = it[0]
            if k == "gate":
                if it[4] and not noop:
                    continue
                out.append(self._rgate(it[1], it[2], it[3], rng, pnames))
            elif k == "call":
                nq, ni, _ = self.macros[it[1]]
                args = [self._qref(q, rng, pnames) for q in it[2]] + [self._iref(a, pnames) for a in it[3]]
                out.append(" ".join([it[1]] + args))
            elif k == "loop":
                out.append(f"loop {it[1]} {{ " + " ; ".join(self.render_items(it[2], rng, noop, permute, pnames)) + " }")
            elif k == "seq":
                out.append("{ " + " ; ".join(self.render_items(it[1], rng, noop, permute, pnames)) + " }")
            elif k == "par":
                brs = []
                for br in it[1]:
                    parts = self.render_items(br, rng, noop, permute, pnames)
                    brs.append(parts[0] if len(parts) == 1 else "{ " + " ; ".join(parts) + " }")
                if permute:
                    rng.shuffle(brs)
                out.append("< " + " | ".join(brs) + " >")
        return out

    def header(self, vals=None):
        vals = dict(self.lets, **(vals or {}))
        out = [f"let {k} {v}" for k, v in vals.items()]
        out.append("register r[NQ]" if self.let_sized else f"register r[{self.n}]")
        out.extend(spec for _, spec, _ in self.maps)
        for name, (nq, ni, body) in self.macros.items():
            pn = [f"x{j}" for j in range(nq)] + [f"k{j}" for j in range(ni)]
            rr = random.Random(0)  # macro bodies only use parameters / literals / lets: no surface choice
            out.append(f"macro {name} " + " ".join(pn) + " { " + " ; ".join(self.render_items(body, rr, True, False, pn)) + " }")
        return out

    def render(self, seed, noop=True, permute=False, vals=None):
        """Aliased rendering. `seed` fixes the surface choices (alias forms, branch order)."""
        rng = random.Random(seed)
        out = self.header(vals)
        for style, items in self.subs:
            body = self.render_items(items, rng, noop, permute)
            if style == "plain":
                out += ["prepare_all"] + body + ["measure_all"]
            elif style == "block":
                out += ["subcircuit {"] + body + ["}"]
            else:
                out += ["subcircuit 3 {"] + body + ["}"]
        return "\n".join(out) + "\n"


def flat_text(n, subs, drop_noop=False):
    """The direct program: every gate on `r[i]`, literal numbers, no lets / maps / macros / blocks."""
    out = [f"register r[{n}]"]
    for sub in subs:
        out.append("prepare_all")
        for g in sub:
            if drop_noop and gate_unitary(g["g"], g["a"]) is None:
                continue
            qi, ii = iter(g["qs"]), iter(g["a"])
            out.append(" ".join([g["g"]] + [f"r[{next(qi)}]" if c == "q" else str(next(ii)) for c in base_sig(g["g"])]))
        out.append("measure_all")
    return "\n".join(out) + "\n"


def model_gates(sub):
    out = []
    for g in sub:
        u = gate_unitary(g["g"], g["a"])
        out.append({"U": None if u is None else mat_json(u), "qs": g["qs"]})
    return out


# ------------------------------------------------------------------ driver
def call_driver(driver, reqs):
    if not reqs:
        return []
    if not os.path.exists(driver):
        raise RuntimeError("model driver not built: " + driver + "  (cd /verif/lean && lake build jaqal-model)")
    inp = "\n".join(json.dumps(r, separators=(",", ":")) for r in reqs) + "\n"
    p = subprocess.run([driver], input=inp, capture_output=True, text=True)
    outs = [json.loads(l) for l in p.stdout.splitlines() if l.strip()]
    if len(outs) != len(reqs):
        raise RuntimeError(f"driver returned {len(outs)} lines for {len(reqs)} requests; rc={p.returncode}; {p.stderr[:500]}")
    return [o["out"] if "out" in o else {"driver_error": o.get("err")} for o in outs]


# ------------------------------------------------------------------ single-case evaluation (shared by run / replay)
def impl_run(case):
    """impl JSON of a `run` / `irregular` case: per subcircuit the state vector (or "IndexError")."""
    if case["kind"] == "irregular":
        r = run_emulator_raw(case["text"])  # never raises
        return r if isinstance(r, str) else [vec_json(v) for v in r]
    return [vec_json(v) for v, _ in run_pipeline(case["text"])]


def model_reqs(case):
    if case["kind"] == "apply":
        g = model_gates([case["gate"]])[0]
        return [{"op": "apply_gate", "n": case["n"], "qs": g["qs"], "U": g["U"], "v": case["vin"]}]
    return [{"op": "run_gates", "n": case["n"], "gates": model_gates(sub)} for sub in case["subs"]]


def model_view(case, outs):
    """model JSON comparable with impl_run / apply"""
    if case["kind"] == "apply":
        return outs[0]
    if case["kind"] == "irregular":
        if any(o is None for o in outs):
            return "IndexError"
        return [o["vec"] for o in outs]
    return [None if o is None else o.get("vec", o) for o in outs]


def oracle_kron(case):
    states = run_pipeline(case["text"])
    if len(states) != len(case["subs"]):
        return False, f"{len(states)} subcircuits reported, {len(case['subs'])} expected"
    for k, ((v, p), sub) in enumerate(zip(states, case["subs"])):
        ref = kron_reference(case["n"], sub)
        if v.shape != ref.shape or not np.array_equal(v, ref):
            return False, f"subcircuit {k}: state_vector {vec_json(v)} reference {vec_json(ref)}"
        if np.max(np.abs(p - np.abs(ref) ** 2)) > 1e-12:
            return False, f"subcircuit {k}: probabilities {list(p)} reference {list(np.abs(ref) ** 2)}"
    return True, ""


def _same_states(a, b, la, lb):
    if len(a) != len(b):
        return False, f"{la}: {len(a)} subcircuits, {lb}: {len(b)}"
    for k, ((v, _), (w, _)) in enumerate(zip(a, b)):
        if v.shape != w.shape or not np.array_equal(v, w):
            return False, f"subcircuit {k}: {la} {vec_json(v)} {lb} {vec_json(w)}"
    return True, ""


def oracle_pair(case):
    """alias / noop / par: two texts must give the same states"""
    return _same_states(run_pipeline(case["text"]), run_pipeline(case["other"]), "text", "other")


def oracle_override(case):
    ref = run_pipeline(case["ref_text"])
    for mode in ("parse", "fill"):
        got = run_pipeline(case["text"], ov=case["ov"], ov_mode=mode)
        ok, d = _same_states(got, ref, f"override({mode})", "values written in the lets")
        if not ok:
            return False, d
    # and the overriding values really matter / are the ones used: compare with the numpy reference
    for k, ((v, _), sub) in enumerate(zip(ref, case["subs"])):
        if not np.array_equal(v, kron_reference(case["n"], sub)):
            return False, f"subcircuit {k}: reference program differs from numpy reference"
    return True, ""


def oracle_duplicate(case):
    """`text` (overlapping qubit arguments) must raise JaqalError; `other` (distinct qubits) must run."""
    try:
        run_pipeline(case["other"])
    except Exception as e:
        return False, f"control program with distinct qubits failed: {type(e).__name__}: {e}"
    try:
        st = run_pipeline(case["text"])
    except JaqalError as e:
        return True, str(e)
    except Exception as e:
        return False, f"{type(e).__name__} instead of JaqalError: {e}"
    return False, "accepted; states " + json.dumps([vec_json(v) for v, _ in st])[:300]


def gen_duplicate_case(rng):
    names = [g for g in REGULAR + ["N2"] if base_sig(g).count("q") >= 2]  # well-formed gates only: the control must run
    g = rng.choice(names)
    sig = base_sig(g)
    m = sig.count("q")
    nq = rng.randint(m, 5)
    good = rng.sample(range(nq), m)
    bad = list(good)
    i, j = rng.sample(range(m), 2)
    bad[i] = bad[j]
    if m == 3 and rng.random() < 0.2:
        bad = [bad[j]] * 3
    ints = [rng.randrange(8) for _ in range(sig.count("i"))]
    mode = rng.choice(["direct", "alias", "single_alias", "macro", "macro_alias"])
    wrap = rng.choice(["none", "none", "loop", "par", "block"])
    header = [f"register r[{nq}]"]
    lo = rng.randint(0, min(bad + good))
    if "alias" in mode:
        header.append(f"map a r[{lo}:{nq}]")
        header.append(f"map s r[{bad[j]}]")

    def refs(qs):
        out = [f"r[{q}]" for q in qs]
        if mode in ("alias", "macro_alias"):
            out[i] = f"a[{qs[i] - lo}]"          # one of the two clashing positions goes through the alias
        elif mode == "single_alias":
            out[j] = "s"                           # s = r[bad[j]] = r[good[j]]; position i names the same qubit directly
        return out

    def stmt(qs):
        r = refs(qs)
        ri, ii = iter(r), iter(ints)
        if mode.startswith("macro"):
            return " ".join(["MD"] + r + [str(x) for x in ints])
        return " ".join([g] + [next(ri) if c == "q" else str(next(ii)) for c in sig])

    if mode.startswith("macro"):
        pq = [f"x{k}" for k in range(m)]
        pi = [f"k{k}" for k in range(len(ints))]
        ri, ii = iter(pq), iter(pi)
        header.append("macro MD " + " ".join(pq + pi) + " { " + " ".join([g] + [next(ri) if c == "q" else next(ii) for c in sig]) + " }")

    def body(qs):
        st = stmt(qs)
        free = [q for q in range(nq) if q not in qs]
        if wrap == "loop":
            st = f"loop 2 {{ {st} }}"
        elif wrap == "par" and free:
            st = f"< {st} | X r[{free[0]}] >"
        elif wrap == "block":
            return ["subcircuit {", "X r[0]", st, "}"]
        return ["prepare_all", "X r[0]", st, "measure_all"]

    mk = lambda qs: "\n".join(header + body(qs)) + "\n"
    return {"kind": "duplicate_qubit_is_jaqalerror", "mode": mode, "wrap": wrap, "text": mk(bad), "other": mk(good)}


ORACLES = {
    "kron_reference": oracle_kron,
    "alias_same_as_direct": oracle_pair,
    "idle_and_no_unitary_noop": oracle_pair,
    "parallel_order": oracle_pair,
    "let_override": oracle_override,
    "duplicate_qubit_is_jaqalerror": oracle_duplicate,
}


def _guard(f, case):
    try:
        return f(case)
    except Exception as e:  # an exception of the real code on a valid program is a failure of the property
        return False, f"{type(e).__name__}: {e}"


# ------------------------------------------------------------------ run
def run(seed: int, n: int, driver: str = DEFAULT_DRIVER, thorough: bool = False) -> dict:
    rng = random.Random(f"emu_diff:{seed}")
    feat = {k: 0 for k in ["par", "loop", "alias_ref", "macro_call", "sub_plain", "sub_block", "sub_blockN"]}
    dist = {}

    def bump(k, d=1):
        dist[k] = dist.get(k, 0) + d

    corr = {op: {"cases": 0, "disagreements": []} for op in ["run_gates", "apply_gate", "run_gates_irregular"]}
    oracle = {o: {"cases": 0, "failures": [], "total_failures": 0} for o in ORACLES}
    samples, distinct = [], set()
    pending = []  # (op, case, impl, nreq)
    probs_of = {}
    reqs = []

    def add_corr(op, case, impl):
        r = model_reqs(case)
        pending.append((op, case, impl, len(r)))
        reqs.extend(r)

    def add_oracle(name, case):
        ok, detail = _guard(ORACLES[name], case)
        oracle[name]["cases"] += 1
        oracle[name].setdefault("total_failures", 0)
        if not ok:
            oracle[name]["total_failures"] += 1
            if len(oracle[name]["failures"]) < 20:
                oracle[name]["failures"].append({"case": case, "detail": detail})

    # ---- 1. random structured programs through the real pipeline
    for _ in range(n):
        nq = rng.randint(1, 5)
        prog = Prog(rng, nq, rng.randint(1, 3), 8, feat)
        rs = rng.randrange(1 << 30)
        text = prog.render(rs)
        subs = prog.serialise()
        case = {"kind": "run", "text": text, "n": nq, "subs": subs}
        try:
            st = run_pipeline(text)
            impl = [vec_json(v) for v, _ in st]
            probs_of[id(case)] = [[float(x) for x in p] for _, p in st]
        except Exception as e:
            impl = f"{type(e).__name__}: {e}"
            bump("impl_exception")
        add_corr("run_gates", case, impl)
        add_oracle("kron_reference", case)
        add_oracle("alias_same_as_direct", {"kind": "alias_same_as_direct", "text": text, "other": flat_text(nq, subs)})
        add_oracle("idle_and_no_unitary_noop",
                   {"kind": "idle_and_no_unitary_noop", "text": text, "other": prog.render(rs, noop=False)})
        if "<" in text:
            add_oracle("parallel_order", {"kind": "parallel_order", "text": text, "other": prog.render(rs, permute=True)})
        ov = {k: rng.randrange(8) for k in ["K0", "K1", "K2"] if rng.random() < 0.7}
        ov.update({k: rng.randrange(4) for k in ["L0", "L1"] if rng.random() < 0.7})
        if ov:
            bump("override_changes_gate_list", int(prog.serialise(ov) != subs))
            add_oracle("let_override", {"kind": "let_override", "text": text, "ov": ov, "n": nq,
                                        "ref_text": prog.render(rs, vals=ov), "subs": prog.serialise(ov)})
        # bookkeeping
        executed = sum(1 for s in subs for g in s if gate_unitary(g["g"], g["a"]) is not None)
        skipped = sum(len(s) for s in subs) - executed
        bump(f"qubits={nq}")
        bump("subcircuits", len(subs))
        bump("gates_executed", executed)
        bump("gates_without_unitary_or_idle", skipped)
        bump("programs_with_maps", int(bool(prog.maps)))
        bump("programs_let_sized_register", int(prog.let_sized))
        for s in subs:
            for g in s:
                bump("gate:" + g["g"])
        if executed >= 1:
            distinct.add(text)
        if len(samples) < 3:
            samples.append(case)
    for k, v in feat.items():
        bump("feature:" + k, v)

    # ---- 2. single step: prefix / prefix+gate through the real emulator
    for _ in range(max(1, n // 2)):
        nq = rng.randint(1, 5)
        pre = []
        for _ in range(rng.randint(0, 6)):
            g = rng.choice([x for x in REGULAR if base_sig(x).count("q") <= nq])
            s = base_sig(g)
            pre.append({"g": g, "qs": rng.sample(range(nq), s.count("q")), "a": [rng.randrange(8) for _ in range(s.count("i"))]})
        last = pre.pop() if pre else {"g": "X", "qs": [0], "a": []}
        text = flat_text(nq, [pre, pre + [last]])
        try:
            (vin, _), (vout, _) = run_pipeline(text)
            case = {"kind": "apply", "text": text, "n": nq, "gate": last, "vin": vec_json(vin)}
            add_corr("apply_gate", case, vec_json(vout))
        except Exception as e:
            bump("impl_exception")
            case = {"kind": "apply", "text": text, "n": nq, "gate": last, "vin": vec_json(kron_reference(nq, pre))}
            add_corr("apply_gate", case, f"unexpected {type(e).__name__}: {e}")

    # ---- 3. irregular matrices (wrong shape / not unitary; the code never checks), distinct qubits only
    for _ in range(max(1, n // 3)):
        nq = rng.randint(2, 4)
        sub = []
        for _ in range(rng.randint(1, 6)):
            kind = rng.random()
            names = REGULAR + NOUNITARY if kind < 0.5 else (["BIG1", "RND2"] if kind < 0.85 else ["SMALL2"])
            g = rng.choice([x for x in names if base_sig(x).count("q") <= nq])
            s = base_sig(g)
            sub.append({"g": g, "qs": rng.sample(range(nq), s.count("q")), "a": [rng.randrange(8) for _ in range(s.count("i"))]})
        case = {"kind": "irregular", "text": flat_text(nq, [sub]), "n": nq, "subs": [sub]}
        impl = impl_run(case)
        bump("irregular:" + (impl if impl == "IndexError" else "unexpected" if isinstance(impl, str) else "state"))
        add_corr("run_gates_irregular", case, impl)

    # ---- 3b. overlapping qubit arguments are rejected by the real pipeline
    for _ in range(max(1, n // 3)):
        case = gen_duplicate_case(rng)
        bump("duplicate:" + case["mode"])
        bump("duplicate_wrap:" + case["wrap"])
        add_oracle("duplicate_qubit_is_jaqalerror", case)

    # ---- 4. thorough: every tuple of distinct qubits for every gate with a matrix, n up to 6
    if thorough:
        for nq in range(1, 7):
            prefix = []
            for q in range(nq):
                prefix += [{"g": "SX", "qs": [q], "a": []}, {"g": "P", "qs": [q], "a": [q + 1]}]
            for q in range(nq - 1):
                prefix.append({"g": "MIX2", "qs": [q, q + 1], "a": []})
            if nq >= 3:
                prefix.append({"g": "MIX3", "qs": [nq - 1, 0, 1], "a": []})
            for name in REGULAR + ["BIG1"]:
                s = base_sig(name)
                tuples = list(itertools.permutations(range(nq), s.count("q")))
                for chunk in [tuples[k:k + 40] for k in range(0, len(tuples), 40)]:
                    gs = [{"g": name, "qs": list(t), "a": [3] * s.count("i")} for t in chunk]
                    text = flat_text(nq, [prefix] + [prefix + [g] for g in gs])
                    vs = run_emulator_raw(text)
                    for k, g in enumerate(gs):
                        bad = isinstance(vs, str)
                        case = {"kind": "apply", "text": flat_text(nq, [prefix, prefix + [g]]), "n": nq, "gate": g,
                                "vin": vec_json(kron_reference(nq, prefix) if bad else vs[0]), "raw": True}
                        add_corr("apply_gate", case, vs if bad else vec_json(vs[k + 1]))
                        bump("thorough_apply")

    # ---- model side, one batch
    try:
        outs = call_driver(driver, reqs)
        derr = None
    except Exception as e:  # no driver / driver crash: every comparison is recorded as a disagreement
        outs, derr = [], f"driver failure {type(e).__name__}: {e}"
        bump("driver_failure")
    pos = 0
    for op, case, impl, k in pending:
        mouts = outs[pos:pos + k]
        try:
            model = derr if derr else model_view(case, mouts)
        except Exception as e:
            model = f"model output not understood {type(e).__name__}: {e}: {json.dumps(mouts)[:200]}"
        pos += k
        corr[op]["cases"] += 1
        if model == impl and op == "run_gates" and id(case) in probs_of and not isinstance(impl, str):
            # probabilities: exact dyadic |amplitude|^2 of the model against the reported floats
            mp = [[int(a) / 2 ** int(b) for a, b in o["probs"]] for o in mouts]
            ip = probs_of[id(case)]
            if any(len(x) != len(y) or max(abs(u - v) for u, v in zip(x, y)) > 1e-12 for x, y in zip(mp, ip)):
                model, impl = {"probs": mp}, {"probs": ip}
        corr[op].setdefault("_bad", 0)
        if model != impl:
            corr[op]["_bad"] += 1
            if len(corr[op]["disagreements"]) < 20:
                corr[op]["disagreements"].append({"case": case, "model": model, "impl": impl})
    for op in corr:
        corr[op]["total_disagreements"] = corr[op].pop("_bad", 0)

    return {"corr": corr, "oracle": oracle, "distribution": dist, "samples": samples, "nontrivial": len(distinct)}


# ------------------------------------------------------------------ replay
def replay(case: dict, driver: str = DEFAULT_DRIVER) -> dict:
    kind = case.get("kind")
    if kind in ORACLES:
        ok, detail = _guard(ORACLES[kind], case)
        try:
            impl = [vec_json(v) for v, _ in run_pipeline(case["text"], ov=case.get("ov"), ov_mode="fill" if case.get("ov") else None)]
        except Exception as e:
            impl = f"{type(e).__name__}: {e}"
        return {"model": None, "impl": impl, "oracle_ok": ok, "detail": detail}
    model = model_view(case, call_driver(driver, model_reqs(case)))
    if kind == "apply":
        try:
            vs = run_emulator_raw(case["text"]) if case.get("raw") else [v for v, _ in run_pipeline(case["text"])]
            impl = vs if isinstance(vs, str) else vec_json(vs[1])
        except Exception as e:
            impl = f"unexpected {type(e).__name__}: {e}"
        return {"model": model, "impl": impl, "oracle_ok": None, "detail": "" if model == impl else "model and impl differ"}
    try:
        impl = impl_run(case)
    except Exception as e:
        impl = f"{type(e).__name__}: {e}"
    ok, detail = (None, "")
    if kind == "run":
        ok, detail = _guard(oracle_kron, case)
    if model != impl:
        detail = ("model and impl differ; " + detail).strip("; ")
    return {"model": model, "impl": impl, "oracle_ok": ok, "detail": detail}


# ------------------------------------------------------------------ CLI
def main(argv=None):
    ap = argparse.ArgumentParser(description=__doc__.split("\n")[0])
    ap.add_argument("--driver", default=DEFAULT_DRIVER)
    ap.add_argument("--count", type=int, default=300, help="number of random programs")
    ap.add_argument("--seed", type=int, default=0)
    ap.add_argument("--thorough", action="store_true")
    ap.add_argument("--json", action="store_true", help="print the whole result as JSON")
    a = ap.parse_args(argv)
    res = run(a.seed, a.count, a.driver, a.thorough)
    if a.json:
        print(json.dumps(res))
    bad = 0
    for op, r in res["corr"].items():
        print(f"corr   {op:26s} cases={r['cases']:6d} disagreements={r['total_disagreements']}")
        bad += r["total_disagreements"]
        for d in r["disagreements"][:2]:
            print("   CASE", json.dumps(d)[:600])
    for o, r in res["oracle"].items():
        print(f"oracle {o:26s} cases={r['cases']:6d} failures={r['total_failures']}")
        bad += r["total_failures"]
        for d in r["failures"][:2]:
            print("   CASE", json.dumps(d)[:600])
    print(f"nontrivial={res['nontrivial']}  distribution=" + json.dumps({k: v for k, v in res["distribution"].items() if not k.startswith("gate:")}))
    return 1 if bad else 0


if __name__ == "__main__":
    sys.exit(main())
