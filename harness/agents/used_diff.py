#!/venv/bin/python
"""Differential test + direct oracles for property C13 (used-qubit analysis, parallel-disjointness check).

Model ops (JaqalModel/Model/UsedQubitsOps.lean): `used_qubits`, `used_qubits_stmt`, `parallel_check`.
Real code: `get_used_qubit_indices`, `UsedQubitIndicesVisitor` (statement level, after `visit_Circuit`),
the visitor with `validate_parallel = True`, `DiscoverSubcircuits().visit`, `run_jaqal_circuit`.

CLI:   PYTHONPATH=/verif /venv/bin/python /verif/harness/agents/used_diff.py [--driver EXE] [--seed S] [--n N] [--thorough]
Module: harness.agents.used_diff.run(seed, n, driver, thorough) -> dict ; replay(case, driver) -> dict

corr   used_qubits / used_qubits_stmt / parallel_check on the raw circuit, used_qubits_pipeline /
       parallel_check_pipeline on expand_macros(fill_in_let(expand_subcircuits(c))).
oracle (real code alone; the expected values come from the GENERATOR's own ground truth: every qubit reference is
       generated as a fundamental (register, index) first and only then rendered through an alias chain / macro parameter)
       used_exact        used set == ground-truth set (circuit and every addressed sub-statement; raw and pipeline)
       reject_iff        validate_parallel visitor / DiscoverSubcircuits reject with "Parallel branches…" <=> ground truth has a
                         parallel block with two intersecting branches
       order_used        permuting the branches of every parallel block keeps used sets and acceptance
       order_state       … and every subcircuit's state vector (exact equality; Gaussian-dyadic matrices)
       exceptions        no exception class other than JaqalError, no hang (analysis, disjointness check, DiscoverSubcircuits, pipeline)
       emulator_exceptions   the same for run_jaqal_circuit on accepted programs (reported separately: not C13's subject)
       gate_with_repeated_qubit_is_jaqalerror   one gate given the same qubit twice (directly / through aliases / through macro
                         arguments) makes run_jaqal_circuit, the validate_parallel visitor and DiscoverSubcircuits raise
                         JaqalError("Gate … acting on the same qubit more than once.")
The rejection oracles compare WHICH rejection comes first in visit order ("P" parallel branches / "G" repeated qubit in a gate).
"""
import os, sys, json, random, signal, subprocess, argparse, itertools, warnings

os.environ.setdefault("JAQALPAQ_RUN_EMULATOR", "1")
_ROOT = __import__("os").path.dirname(__import__("os").path.dirname(__import__("os").path.dirname(__import__("os").path.abspath(__file__))))
if _ROOT not in sys.path:
    sys.path.insert(0, _ROOT)

DEFAULT_DRIVER = "/verif/lean/.lake/build/bin/jaqal-model"
PAR_MSG = "Parallel branches of block acting on the same qubit."
GATE_MSG_TAIL = "acting on the same qubit more than once."


def rule_of(msg):
    """message of a JaqalError -> the model's rule tag (only the two C13 rejections are told apart)"""
    if msg == PAR_MSG:
        return "parallel-branches-same-qubit"
    if msg.endswith(GATE_MSG_TAIL):
        return "gate-same-qubit-twice"
    return "other"


def first_of(val, msg):
    """("ok"|{"err":..}, message) -> None (accepted) | "P" | "G" | "other" """
    if val == "ok":
        return None
    return {"parallel-branches-same-qubit": "P", "gate-same-qubit-twice": "G"}.get(rule_of(msg), "other")

_LIB = {}


def lib():
    """Lazy imports (no work at import time)."""
    if _LIB:
        return _LIB
    warnings.filterwarnings("ignore")
    from harness.gates import GATES_IDLE
    from harness import dump
    from jaqalpaq.parser import parse_jaqal_string
    from jaqalpaq.core import GateDefinition, Parameter, ParamType
    from jaqalpaq.core.block import BlockStatement, LoopStatement
    from jaqalpaq.core.algorithm import get_used_qubit_indices, expand_macros, fill_in_let, expand_subcircuits
    from jaqalpaq.core.algorithm.used_qubit_visitor import UsedQubitIndicesVisitor
    from jaqalpaq.core.algorithm.walkers import DiscoverSubcircuits
    from jaqalpaq.emulator import run_jaqal_circuit
    from jaqalpaq.error import JaqalError

    G = dict(GATES_IDLE)
    # an extra gate with a REGISTER parameter (no unitary)
    G["RG"] = GateDefinition("RG", [Parameter("g", ParamType.REGISTER)])

    class VP(UsedQubitIndicesVisitor):
        validate_parallel = True

    _LIB.update(locals())
    return _LIB


class Hang(Exception):
    pass


def _alarm(*a):
    raise Hang()


def guarded(f, secs=None):
    """-> ("ok", value) | ("err", class name, message)"""
    L = lib()
    old = signal.signal(signal.SIGALRM, _alarm)
    from harness import timeouts as _T
    signal.alarm(secs or _T.limit())
    try:
        return ("ok", f())
    except Hang:
        _T.saw_hang()
        return ("err", "hang", "")
    except L["JaqalError"] as e:
        return ("err", type(e).__name__, str(e))
    except RecursionError as e:
        return ("err", "RecursionError", "")
    except Exception as e:
        return ("err", type(e).__name__, str(e))
    finally:
        signal.alarm(0)
        signal.signal(signal.SIGALRM, old)


# ------------------------------------------------------------------------------------------
# Generator with ground truth
#
# AST: ("gate", name, args) | ("call", macro, args) | ("seq", items) | ("par", items) | ("loop", k, items)
# args: ("q", text, (reg, idx)) | ("reg", text, [(reg, idx)…]) | ("num", text) | ("p", name) | ("pi", name, i) | ("pc", name, let)

ONE = ["X", "Y", "Z", "S", "SX"]
TWO = ["CX", "CZ", "SWAP", "ISWAP", "HH", "NS"]
THREE = ["CCX", "ROT3"]


class Gen:
    def __init__(self, rng, mode):
        self.rng = rng
        self.mode = mode  # "typed" | "anon"
        self.header = []
        self.lets = {}
        self.regs = {}  # fundamental name -> size
        self.aliases = {}  # register-valued name -> list of fq
        self.qaliases = {}  # qubit-valued name -> fq
        self.macros = []  # (name, params, kinds, body) kinds: 'q' | 'r'
        self.feat = {}
        self.hidden = set()  # names shadowed by the parameters of the macro being generated

    def hit(self, k):
        self.feat[k] = self.feat.get(k, 0) + 1

    def build_header(self):
        rng = self.rng
        n = rng.choice([3, 4, 4, 5])
        self.lets["n"] = n
        self.lets["k"] = rng.choice([0, 1, 1, 2])
        self.lets["one"] = 1
        self.lets["two"] = 2
        for k, v in self.lets.items():
            self.header.append(f"let {k} {v}")
        if rng.random() < 0.15:
            self.header.append("register r[n]")
            self.hit("let_sized_register")
            self.letsized = True
        else:
            self.header.append(f"register r[{n}]")
            self.letsized = False
        self.regs["r"] = n
        self.aliases["r"] = [("r", i) for i in range(n)]
        if False:  # the builder accepts a single fundamental register only ("Circuit has too many registers")
            m = rng.choice([1, 2, 3])
            self.header.append(f"register s[{m}]")
            self.regs["s"] = m
            self.aliases["s"] = [("s", i) for i in range(m)]
            self.hit("two_registers")
        names = iter("abcdefgh")
        for _ in range(rng.randint(0, 5)):
            nm = next(names)
            src = rng.choice(list(self.aliases))
            l = self.aliases[src]
            kind = rng.random()
            if kind < 0.2:
                self.header.append(f"map {nm} {src}")
                self.aliases[nm] = list(l)
                self.hit("alias_whole")
            elif kind < 0.4:
                i = rng.randrange(len(l))
                it = self.idx_text(i)
                self.header.append(f"map {nm} {src}[{it}]")
                self.qaliases[nm] = l[i]
                self.hit("alias_single")
            else:
                start = rng.randrange(len(l))
                stop = rng.randint(start + 1, len(l))
                step = rng.choice([1, 1, 2, 2, 3])
                sub = l[start:stop:step]
                st, sp, se = self.idx_text(start), self.idx_text(stop), self.idx_text(step)
                form = rng.random()
                if form < 0.5:
                    self.header.append(f"map {nm} {src}[{st}:{sp}:{se}]")
                    self.hit("alias_strided" if step > 1 else "alias_slice3")
                elif step == 1:
                    self.header.append(f"map {nm} {src}[{st}:{sp}]")
                    self.hit("alias_slice2")
                else:
                    self.header.append(f"map {nm} {src}[{st}:{sp}:{se}]")
                    self.hit("alias_strided")
                self.aliases[nm] = sub
                if src not in self.regs:
                    self.hit("alias_chain")

    def idx_text(self, i):
        """an integer, sometimes through a let constant of that value"""
        c = [k for k, v in self.lets.items() if v == i]
        if c and self.rng.random() < 0.4:
            self.hit("let_index")
            return self.rng.choice(c)
        return str(i)

    def qubit(self, fq=None, avoid=()):
        """a qubit reference (text, fq) rendered through some alias path"""
        rng = self.rng
        cands = []
        for nm, l in self.aliases.items():
            if nm in self.hidden:
                continue
            for i, q in enumerate(l):
                if fq is None or q == fq:
                    cands.append((f"{nm}[{self.idx_text(i) if rng.random() < 0.3 else i}]", q))
        for nm, q in self.qaliases.items():
            if nm in self.hidden:
                continue
            if fq is None or q == fq:
                cands.append((nm, q))
        c2 = [c for c in cands if c[1] not in avoid] or cands
        t, q = rng.choice(c2)
        return ("q", t, q)

    def all_fq(self):
        return [q for r in self.regs for q in self.aliases[r]]

    def gate(self, scope, pool=None):
        """a native gate statement; scope = list of (param, kind) usable as arguments (inside a macro body).
        pool = fundamental qubits the statement should prefer (to steer conflicts)"""
        rng = self.rng
        k = rng.random()

        used_params = set()

        def qarg(avoid=()):
            if scope and rng.random() < 0.6:
                # a macro parameter, not one already given to this gate (mostly)
                cands = [(p, kind) for p, kind in scope if p not in used_params or rng.random() < 0.1]
                if cands:
                    p, kind = rng.choice(cands)
                    used_params.add(p)
                    if kind == "q":
                        return ("p", p)
                    i = rng.randrange(2)
                    return ("pi", p, i)
            if pool and rng.random() < 0.93:
                p2 = [q for q in pool if q not in avoid]
                if p2:
                    return self.qubit(fq=rng.choice(p2))
            return self.qubit(avoid=avoid)

        if self.mode == "anon":
            nm = rng.choice(["foo", "bar", "baz"])
            sig = {"foo": "q", "bar": "nq", "baz": "qnq"}[nm]
            args = []
            for ch in sig:
                if ch == "q":
                    args.append(qarg())
                else:
                    args.append(("num", rng.choice(["1", "2.5", "-3", "k", "0"])))
            self.hit("anon_gate")
            return ("gate", nm, args)
        if k < 0.025:
            self.hit("busy_gate")
            return ("gate", "prepare_all", [])
        if k < 0.16:
            nm = "I_" + rng.choice(ONE + TWO)
            self.hit("idle_gate")
            n = 1 if nm[2:] in ONE else 2
            args = []
            for _ in range(n):
                args.append(qarg())
            return ("gate", nm, args)
        if k < 0.22:
            self.hit("gate_N")
            return ("gate", "N", [qarg()])
        if k < 0.30 and not scope:
            nm = rng.choice([x for x in self.aliases if x not in self.hidden])
            self.hit("register_arg")
            return ("gate", "RG", [("reg", nm, list(self.aliases[nm]))])
        if k < 0.36:
            self.hit("classical_arg")
            if rng.random() < 0.5:
                return ("gate", "P", [qarg(), ("num", rng.choice(["1", "2", "3", "k"]))])
            return ("gate", "PF", [("num", rng.choice(["1", "2.0", "3", "k"])), qarg()])
        if k < 0.75:
            return ("gate", rng.choice(ONE), [qarg()])
        if k < 0.95:
            a = qarg()
            b = qarg(avoid=(a[2],) if a[0] == "q" else ())
            if rng.random() < 0.04:
                b = a  # now and then the same qubit twice on purpose
                self.hit("repeated_qubit_on_purpose")
            return ("gate", rng.choice(TWO), [a, b])
        # distinct qubits where the argument is not a macro parameter (a repeated qubit makes the emulator's
        # matrix non-unitary: RuntimeError "Error in probabilities" - not C13's business)
        a = qarg()
        b = qarg(avoid=tuple(x[2] for x in (a,) if x[0] == "q"))
        c = qarg(avoid=tuple(x[2] for x in (a, b) if x[0] == "q"))
        return ("gate", rng.choice(THREE), [a, b, c])

    def call(self, scope, upto):
        """a call of one of the macros defined so far (index < upto)"""
        rng = self.rng
        name, params, kinds, _ = self.macros[rng.randrange(upto)]
        args = []
        for kind in kinds:
            if kind == "q":
                qs = [p for p, kk in scope if kk == "q" and ("p", p) not in args]
                if qs and rng.random() < 0.7:
                    args.append(("p", rng.choice(qs)))
                else:
                    args.append(self.qubit(avoid=tuple(a[2] for a in args if a[0] == "q")))
            else:
                rs = [p for p, kk in scope if kk == "r"]
                if rs and rng.random() < 0.7:
                    args.append(("p", rng.choice(rs)))
                else:
                    cands = [nm for nm, l in self.aliases.items() if len(l) >= 2 and nm not in self.hidden]
                    nm = rng.choice(cands)
                    args.append(("reg", nm, list(self.aliases[nm])))
        self.hit("macro_call")
        if scope:
            self.hit("nested_macro_call")
        return ("call", name, args)

    def stmt(self, scope, upto, depth, where="seq"):
        """where = "top" (circuit body: anything), "seq" (inside { }: gate, call, < >, loop), "par" (inside < >: gate, call, { })"""
        rng = self.rng
        k = rng.random()
        if depth >= 3 or k < 0.45:
            if upto and rng.random() < 0.35:
                return self.call(scope, upto)
            return self.gate(scope)
        if k < 0.78 and where != "par":
            # parallel block: 2-4 branches, each a gate / call / sequential sub-block; mostly on distinct qubits
            nb = rng.randint(2, 4)
            fq = self.all_fq()
            rng.shuffle(fq)
            items = []
            for b in range(nb):
                pool = fq[b::nb] if rng.random() < 0.95 else None
                if rng.random() < 0.6:
                    if upto and rng.random() < 0.12:
                        items.append(self.call(scope, upto))
                    else:
                        items.append(self.gate([] if rng.random() < 0.7 else scope, pool))
                else:
                    sub = []
                    for _ in range(rng.randint(1, 3)):
                        if rng.random() < 0.1 and depth < 2:
                            sub.append(self.stmt(scope, upto, depth + 2, "seq"))
                        else:
                            sub.append(self.gate([] if rng.random() < 0.7 else scope, pool))
                    items.append(("seq", sub))
            self.hit(f"par_{nb}")
            return ("par", items)
        if k < 0.88 and where in ("top", "par"):
            self.hit("seq_block")
            return ("seq", [self.stmt(scope, upto, depth + 1, "seq") for _ in range(rng.randint(1, 3))])
        if where == "par":
            return self.gate(scope)
        self.hit("loop")
        return ("loop", rng.choice([0, 1, 2, 2, 3]), [self.stmt(scope, upto, depth + 1, "seq") for _ in range(rng.randint(1, 2))])

    def build_macros(self):
        rng = self.rng
        pnames = ["a", "b", "x"]  # 'a', 'b' also name map aliases: parameters shadow them
        for mi in range(rng.randint(0, 3)):
            np_ = rng.randint(1, 2)
            params = rng.sample(pnames, np_)
            kinds = ["r" if rng.random() < 0.2 else "q" for _ in params]
            scope = list(zip(params, kinds))
            self.hidden = set(params)
            if self.hidden & (set(self.aliases) | set(self.qaliases)):
                self.hit("param_shadows_alias")
            body = [self.stmt(scope, mi, 1, "seq") for _ in range(rng.randint(1, 3))]
            if mi and rng.random() < 0.7:
                body.insert(rng.randrange(len(body) + 1), self.call(scope, mi))
            self.hidden = set()
            self.macros.append((f"m{mi}", params, kinds, body))
            if "r" in kinds:
                self.hit("macro_register_param")

    def build(self):
        self.build_header()
        self.build_macros()
        rng = self.rng
        body = [self.stmt([], len(self.macros), 0, "top") for _ in range(rng.randint(1, 5))]
        self.body = [("gate", "prepare_all", [])] + body + [("gate", "measure_all", [])]
        return self


# rendering ---------------------------------------------------------------------------------

def r_arg(a):
    if a[0] in ("q", "reg", "num"):
        return a[1]
    if a[0] == "p":
        return a[1]
    if a[0] == "pi":
        return f"{a[1]}[{a[2]}]"
    raise ValueError(a)


def r_stmt(s, ind=""):
    t = s[0]
    if t == "gate" or t == "call":
        return ind + " ".join([s[1]] + [r_arg(a) for a in s[2]])
    if t == "seq":
        return ind + "{\n" + "\n".join(r_stmt(x, ind + "  ") for x in s[1]) + "\n" + ind + "}"
    if t == "par":
        return ind + "<\n" + ("\n" + ind + "|\n").join(r_stmt(x, ind + "  ") for x in s[1]) + "\n" + ind + ">"
    if t == "loop":
        return ind + f"loop {s[1]} {{\n" + "\n".join(r_stmt(x, ind + "  ") for x in s[2]) + "\n" + ind + "}"
    raise ValueError(s)


def render(g, macros=None, body=None):
    macros = g.macros if macros is None else macros
    body = g.body if body is None else body
    out = list(g.header)
    for name, params, kinds, mb in macros:
        out.append(f"macro {name} {' '.join(params)} {{\n" + "\n".join(r_stmt(x, "  ") for x in mb) + "\n}")
    out += [r_stmt(x) for x in body]
    return "\n".join(out) + "\n"


# ground truth ------------------------------------------------------------------------------

def gate_positions(mode, name, nargs):
    """which argument positions the definition's used_qubits covers: "all" | list of positions"""
    if mode == "anon":
        return list(range(nargs))  # untyped parameters: all yielded; only qubit/register VALUES contribute
    if name in ("prepare_all", "measure_all"):
        return "all"
    if name.startswith("I_"):
        return []
    if name == "PF":
        return [1]
    if name == "P":
        return [0]
    return list(range(nargs))


def ev_arg(a, env):
    """-> ("q", fq) | ("r", [fq]) | ("n",)"""
    if a[0] == "q":
        return ("q", a[2])
    if a[0] == "reg":
        return ("r", a[2])
    if a[0] == "num":
        return ("n",)
    if a[0] == "p":
        return env[a[1]]
    if a[0] == "pi":
        v = env[a[1]]
        assert v[0] == "r"
        return ("q", v[1][a[2]])
    raise ValueError(a)


def truth(g, s, env, allq, events):
    """the set of fundamental qubits some gate reachable from s acts on. `events` receives, in the visitor's visit order,
    "G" for every native gate statement two of whose used-qubit arguments share a qubit and "P" for every branch of a
    parallel block (reached through macro expansion) that shares a qubit with an earlier branch of the same block."""
    t = s[0]
    if t == "gate":
        pos = gate_positions(g.mode, s[1], len(s[2]))
        if pos == "all":
            return set(allq)
        out = set()
        for j in pos:
            v = ev_arg(s[2][j], env)
            cur = {v[1]} if v[0] == "q" else set(v[1]) if v[0] == "r" else set()
            if out & cur:
                events.append("G")
            out |= cur
        return out
    if t == "call":
        m = next(m for m in g.macros if m[0] == s[1])
        env2 = {p: ev_arg(a, env) for p, a in zip(m[1], s[2])}
        out = set()
        for x in m[3]:
            out |= truth(g, x, env2, allq, events)
        return out
    if t == "seq" or t == "loop":
        out = set()
        for x in s[-1]:
            out |= truth(g, x, env, allq, events)
        return out
    if t == "par":
        out = set()
        for x in s[1]:
            cur = truth(g, x, env, allq, events)
            if out & cur:
                events.append("P")
            out |= cur
        return out
    raise ValueError(s)


def as_used(fqs):
    d = {}
    for r, i in fqs:
        d.setdefault(r, set()).add(i)
    return {k: sorted(v) for k, v in d.items()}


def permute(g, s, rng):
    t = s[0]
    if t in ("gate", "call"):
        return s
    if t == "seq":
        return ("seq", [permute(g, x, rng) for x in s[1]])
    if t == "loop":
        return ("loop", s[1], [permute(g, x, rng) for x in s[2]])
    items = [permute(g, x, rng) for x in s[1]]
    rng.shuffle(items)
    return ("par", items)


def sub_at(body, path):
    """statement of the generator AST at an address (block child indices; a loop does not consume an index)"""
    items = body
    s = None
    for i in path:
        s = items[i]
        items = s[1] if s[0] in ("seq", "par") else s[2] if s[0] == "loop" else None
    return s


def addresses(body, prefix=()):
    out = []
    for i, s in enumerate(body):
        out.append(list(prefix) + [i])
        if s[0] in ("seq", "par"):
            out += addresses(s[1], tuple(prefix) + (i,))
        elif s[0] == "loop":
            out += addresses(s[2], tuple(prefix) + (i,))
    return out


# real code ---------------------------------------------------------------------------------

def parse(text, mode):
    L = lib()
    if mode == "typed":
        return L["parse_jaqal_string"](text, inject_pulses=L["G"], autoload_pulses=False)
    return L["parse_jaqal_string"](text, autoload_pulses=False)


def py_navigate(c, path):
    L = lib()
    s = c.body
    for i in path:
        while isinstance(s, L["LoopStatement"]):
            s = s.statements
        s = s.statements[i]
    return s


def norm_used(d):
    return {k: sorted(int(x) for x in v) for k, v in d.items()}


def impl_used(c):
    L = lib()
    r = guarded(lambda: norm_used(L["get_used_qubit_indices"](c)))
    return {"ok": r[1]} if r[0] == "ok" else {"err": r[1]}


def impl_used_stmt(c, path):
    L = lib()

    def f():
        v0 = L["UsedQubitIndicesVisitor"]()
        try:
            v0.visit(c)  # sets all_qubits first; the walk of the body may fail afterwards
        except Exception:
            pass
        v = L["UsedQubitIndicesVisitor"]()
        v.all_qubits = v0.all_qubits
        return norm_used(v.visit(py_navigate(c, path), context=None))

    r = guarded(f)
    return {"ok": r[1]} if r[0] == "ok" else {"err": r[1]}


def impl_parallel(c):
    L = lib()
    r = guarded(lambda: L["VP"]().visit(c))
    if r[0] == "ok":
        return "ok", ""
    if r[1] == "JaqalError":
        return {"err": r[1], "rule": rule_of(r[2])}, r[2]
    return {"err": r[1]}, r[2]


def impl_discover(c):
    L = lib()
    r = guarded(lambda: L["DiscoverSubcircuits"]().visit(c))
    if r[0] == "ok":
        return "ok", ""
    return {"err": r[1]}, r[2]


def pipeline(c):
    L = lib()
    return L["expand_macros"](L["fill_in_let"](L["expand_subcircuits"](c)))


def state_vectors(c):
    L = lib()

    def f():
        res = L["run_jaqal_circuit"](c)
        return [[complex(z) for z in sc.state_vector] for sc in res.subcircuits]

    return guarded(f, secs=None)


def model_norm(out):
    """driver output -> comparable with impl_*"""
    if isinstance(out, dict) and "ok" in out:
        return {"ok": {k: [int(x) for x in v] for k, v in out["ok"].items()}}
    if isinstance(out, dict) and "rule" in out:
        r = out["rule"]
        return {"err": out["err"], "rule": r if r in ("parallel-branches-same-qubit", "gate-same-qubit-twice") else "other"}
    return out


def drive(driver, reqs):
    """one subprocess for a batch of requests"""
    if not reqs:
        return []
    inp = "\n".join(json.dumps(r) for r in reqs) + "\n"
    p = subprocess.run([driver], input=inp, capture_output=True, text=True, timeout=1200)
    lines = [l for l in p.stdout.split("\n") if l.strip()]
    if len(lines) != len(reqs):
        raise RuntimeError(f"driver answered {len(lines)} lines for {len(reqs)} requests: {p.stderr[:500]}")
    outs = []
    for l in lines:
        j = json.loads(l)
        outs.append(j["out"] if "out" in j else {"driver_err": j.get("err")})
    return outs


# ------------------------------------------------------------------------------------------

def make_case(seed, idx):
    rng = random.Random(f"{seed}:{idx}")
    mode = "anon" if rng.random() < 0.15 else "typed"
    g = Gen(rng, mode).build()
    text = render(g)
    allq = g.all_fq()
    events = []
    tr = set()
    for s in g.body:
        tr |= truth(g, s, {}, allq, events)
    if g.mode == "anon":
        pass  # prepare_all / measure_all are anonymous parameterless gates there: nothing used
    addrs = addresses(g.body)
    rng.shuffle(addrs)
    paths = addrs[:3]
    stmts = []
    for p in paths:
        s = sub_at(g.body, p)
        cf = []
        stmts.append({"path": p, "used": as_used(truth(g, s, {}, allq, cf))})
    prng = random.Random(f"{seed}:{idx}:perm")
    pm = [(n, ps, ks, [permute(g, x, prng) for x in b]) for (n, ps, ks, b) in g.macros]
    pb = [permute(g, x, prng) for x in g.body]
    ptext = render(g, pm, pb)
    case = {
        "id": idx,
        "seed": seed,
        "mode": mode,
        "text": text,
        "perm_text": ptext,
        "expect": {"used": as_used(tr), "conflict": "P" in events, "repeat": "G" in events,
                   "first": events[0] if events else None, "stmts": stmts},
        "letsized": g.letsized,
    }
    return case, g.feat


# hand-written boundary programs (no ground truth: model correspondence + exception classes only)
EDGE = [
    ("typed", "let n -1\nregister r[3]\nprepare_all\nX r[n]\nmeasure_all\n"),
    ("typed", "let n 3\nregister r[3]\nprepare_all\nX r[n]\nmeasure_all\n"),
    ("typed", "let n 0\nregister r[n]\nprepare_all\nmeasure_all\n"),
    ("typed", "let n 3\nregister r[n]\nprepare_all\nRG r\nmeasure_all\n"),
    ("typed", "let n 3\nregister r[n]\nmap a r\nprepare_all\nRG a\nmeasure_all\n"),
    ("typed", "register r[4]\nmap a r[3:0:-1]\nprepare_all\nX a[0]\nRG a\nmeasure_all\n"),
    ("typed", "let m -1\nregister r[4]\nmap a r[3:0:m]\nprepare_all\nX a[0]\nX a[2]\nRG a\nmeasure_all\n"),
    ("typed", "register r[4]\nmap a r[1:4:2]\nmap b a[1:2]\nmap c b[0]\nprepare_all\n< X c | X r[3] >\nmeasure_all\n"),
    ("typed", "register r[3]\nmacro foo a b { X a; X b }\nmacro bar b a { foo a b; < X a | X b > }\nprepare_all\nbar r[0] r[1]\nmeasure_all\n"),
    ("typed", "register r[3]\nmacro foo a b { X a; X b }\nmacro bar b a { foo a b; < X a | X b > }\nprepare_all\nbar r[1] r[1]\nmeasure_all\n"),
    ("typed", "register r[3]\nmacro foo a { X a }\nmacro bar a { foo a }\nmacro baz a { bar a }\nprepare_all\n< baz r[0] | foo r[0] >\nmeasure_all\n"),
    ("typed", "register r[3]\nmacro foo a { X a[1] }\nmacro bar a { foo a; X a[0] }\nprepare_all\n< bar r | X r[2] >\nmeasure_all\n"),
    ("typed", "register r[3]\nmacro foo a { X a[3] }\nprepare_all\nfoo r\nmeasure_all\n"),
    ("typed", "register r[3]\nmacro foo a k { P a k }\nprepare_all\nfoo r[0] 2\nmeasure_all\n"),
    ("typed", "register r[3]\nprepare_all\n< prepare_all | X r[0] >\nmeasure_all\n"),
    ("typed", "register r[3]\nprepare_all\n< I_X r[0] | X r[0] | N r[1] | I_CX r[0] r[1] >\nmeasure_all\n"),
    ("typed", "register r[3]\nprepare_all\nCX r[0] r[0]\n< CX r[1] r[1] | X r[0] >\nmeasure_all\n"),
    ("typed", "register r[3]\nprepare_all\nloop 0 { < X r[0] | X r[0] > }\nmeasure_all\n"),
    ("anon", "register r[3]\nprepare_all\nfoo 1 r[2] 3.5\n< foo 2 r[2] 1 | bar r[1] | baz 1 2 >\nmeasure_all\n"),
    ("anon", "let k 2\nregister r[3]\nprepare_all\n< foo k | foo r[k] >\nmeasure_all\n"),
    ("anon", "register r[3]\nmacro m a { foo a 1 }\nprepare_all\n< m r[0] | m 3 | foo r[0] 2 >\nmeasure_all\n"),
]


def edge_cases():
    return [{"id": f"edge{i}", "mode": m, "text": t, "perm_text": t, "expect": None, "letsized": "r[n]" in t}
            for i, (m, t) in enumerate(EDGE)]


def repeat_cases(seed, k):
    """programs in which ONE gate statement is given the same fundamental qubit twice - directly, through aliases, through
    macro arguments (qubit and register parameters, nested macros) - inside an otherwise valid prepare_all … measure_all program.
    Oracle `gate_with_repeated_qubit_is_jaqalerror`: run_jaqal_circuit (and DiscoverSubcircuits on the raw circuit) must raise
    JaqalError("Gate … acting on the same qubit more than once.")."""
    out = []
    for idx in range(k):
        rng = random.Random(f"{seed}:rep:{idx}")
        n = rng.choice([3, 4, 5])
        i = rng.randrange(n)
        o = rng.choice([x for x in range(n) if x != i])
        lo = rng.randint(0, i)
        hdr = [f"let n {n}", f"let k {i}", f"register r[{n}]" if rng.random() < 0.7 else "register r[n]",
               f"map a r[{lo}:{n}]", f"map b a[{i - lo}]", "map c r"]
        refs = [f"r[{i}]", f"a[{i - lo}]", "b", f"c[{i}]", "r[k]", "c[k]"]
        x, y = rng.sample(refs, 2) if rng.random() < 0.8 else (refs[0], refs[0])
        kind = rng.choice(["direct", "macro_q", "macro_nested", "macro_reg", "three", "in_parallel", "in_loop"])
        g2 = rng.choice(TWO)
        macros, stmt = [], None
        if kind == "direct":
            stmt = f"{g2} {x} {y}"
        elif kind == "macro_q":
            macros = [f"macro mm x y {{ {g2} x y }}"]
            stmt = f"mm {x} {y}"
        elif kind == "macro_nested":
            macros = [f"macro mm x y {{ {g2} y x }}", f"macro m2 x {{ X r[{o}]; mm x {y} }}"]
            stmt = f"m2 {x}"
        elif kind == "macro_reg":
            macros = [f"macro m3 g {{ {g2} g[{i - lo}] {y} }}"]
            stmt = "m3 a"
        elif kind == "three":
            g3 = rng.choice(THREE)
            args = [x, f"r[{o}]", y]
            rng.shuffle(args)
            stmt = f"{g3} " + " ".join(args)
        elif kind == "in_parallel":
            stmt = f"< X r[{o}] | {{ {g2} {x} {y} }} >"
        else:
            stmt = f"loop 2 {{ {g2} {x} {y} }}"
        text = "\n".join(hdr + macros + ["prepare_all", f"X r[{o}]", stmt, "measure_all"]) + "\n"
        out.append({"id": f"rep{idx}", "seed": seed, "mode": "typed", "text": text, "perm_text": text, "expect": None,
                    "letsized": "r[n]" in text, "repeat_oracle": kind})
    return out


def _bump(d, k, n=1):
    d[k] = d.get(k, 0) + n


def evaluate(cases, driver, want_state=True):
    """run the real code and the model on the cases; returns the protocol dict pieces"""
    L = lib()
    dump = L["dump"]
    corr = {k: {"cases": 0, "disagreements": []} for k in
            ["used_qubits", "used_qubits_stmt", "parallel_check", "used_qubits_pipeline", "parallel_check_pipeline"]}
    orc = {k: {"cases": 0, "failures": []} for k in
           ["used_exact", "used_exact_stmt", "used_exact_pipeline", "reject_iff", "reject_iff_discover", "order_used",
            "order_state", "exceptions", "emulator_exceptions", "gate_with_repeated_qubit_is_jaqalerror"]}
    dist = {}
    reqs = []   # (op key, case, request, impl value)

    def fail(name, case, detail):
        if len(orc[name]["failures"]) < 20:
            orc[name]["failures"].append({"case": case, "detail": detail})
        else:
            orc[name].setdefault("more_failures", 0)
            orc[name]["more_failures"] += 1

    def check_exc(case, what, val):
        orc["exceptions"]["cases"] += 1
        if isinstance(val, dict) and "err" in val and val["err"] != "JaqalError":
            _bump(dist, f"exc:{what}:{val['err']}")
            fail("exceptions", case, f"{what}: {val['err']}")

    for case in cases:
        pr = guarded(lambda: parse(case["text"], case["mode"]))
        if pr[0] != "ok":
            _bump(dist, "parse_rejected:" + pr[1])
            case["parse_error"] = pr[1] + ": " + pr[2][:200]
            if pr[1] != "JaqalError" and pr[1] != "JaqalParseError":
                fail("exceptions", case, "parse: " + pr[1])
            continue
        c = pr[1]
        _bump(dist, "mode:" + case["mode"])
        exp = case["expect"]
        try:
            cj = dump.circuit(c)
        except Exception as e:
            _bump(dist, "undumpable")
            continue
        # --- used set of the circuit
        iu = impl_used(c)
        check_exc(case, "used", iu)
        reqs.append(("used_qubits", case, {"op": "used_qubits", "circuit": cj}, iu))
        if exp:
            orc["used_exact"]["cases"] += 1
            if iu != {"ok": exp["used"]}:
                fail("used_exact", case, f"impl {iu} expected {exp['used']}")
        # --- statement level
        for st in (exp["stmts"] if exp else []):
            ius = impl_used_stmt(c, st["path"])
            check_exc(case, "used_stmt", ius)
            reqs.append(("used_qubits_stmt", dict(case, path=st["path"]),
                         {"op": "used_qubits_stmt", "circuit": cj, "path": st["path"]}, ius))
            orc["used_exact_stmt"]["cases"] += 1
            if ius != {"ok": st["used"]}:
                fail("used_exact_stmt", dict(case, path=st["path"]), f"impl {ius} expected {st['used']}")
        # --- parallel check: visitor with validate_parallel, and DiscoverSubcircuits
        ip, msg = impl_parallel(c)
        check_exc(case, "parallel", ip)
        reqs.append(("parallel_check", case, {"op": "parallel_check", "circuit": cj}, ip))
        fst = first_of(ip, msg)
        _bump(dist, {None: "accepted", "P": "rejected_parallel", "G": "rejected_gate"}.get(fst, "other_error"))
        if exp:
            orc["reject_iff"]["cases"] += 1
            if fst != exp["first"]:
                fail("reject_iff", case, f"impl {ip} {msg!r}; ground truth first rejection={exp['first']} "
                                         f"(conflict={exp['conflict']}, repeated qubit in a gate={exp['repeat']})")
        idv, dmsg = impl_discover(c)
        check_exc(case, "discover_raw", idv)
        if exp and not (isinstance(idv, dict) and idv["err"] != "JaqalError"):
            orc["reject_iff_discover"]["cases"] += 1
            if first_of(idv, dmsg) != exp["first"]:
                fail("reject_iff_discover", case, f"DiscoverSubcircuits {idv} {dmsg!r}; first rejection={exp['first']}")
        if case.get("repeat_oracle"):
            orc["gate_with_repeated_qubit_is_jaqalerror"]["cases"] += 1
            _bump(dist, "repeat:" + case["repeat_oracle"])
            sv = state_vectors(c)
            ok_run = sv[0] == "err" and sv[1] == "JaqalError" and sv[2].endswith(GATE_MSG_TAIL)
            ok_disc = first_of(idv, dmsg) == "G" or (isinstance(idv, dict) and idv["err"] != "JaqalError")
            if not ok_run or first_of(ip, msg) != "G" or not ok_disc:
                fail("gate_with_repeated_qubit_is_jaqalerror", case,
                     f"run_jaqal_circuit {sv[:3] if sv[0] == 'err' else 'returned a result'}; validate_parallel visitor {ip} {msg!r}; "
                     f"DiscoverSubcircuits(raw) {idv} {dmsg!r}")
        # --- pipeline result
        pp = guarded(lambda: pipeline(c))
        if pp[0] != "ok":
            _bump(dist, "pipeline_error:" + pp[1])
            check_exc(case, "pipeline", {"err": pp[1]})
        else:
            c2 = pp[1]
            try:
                cj2 = dump.circuit(c2)
            except Exception:
                cj2 = None
            iu2 = impl_used(c2)
            check_exc(case, "used_pipeline", iu2)
            if exp:
                orc["used_exact_pipeline"]["cases"] += 1
                if iu2 != {"ok": exp["used"]}:
                    fail("used_exact_pipeline", case, f"impl {iu2} expected {exp['used']}")
            id2, dmsg2 = impl_discover(c2)
            check_exc(case, "discover_pipeline", id2)
            if exp:
                orc["reject_iff_discover"]["cases"] += 1
            if exp and first_of(id2, dmsg2) != exp["first"]:
                fail("reject_iff_discover", case, f"pipeline: DiscoverSubcircuits {id2} {dmsg2!r}; first rejection={exp['first']}")
            if cj2 is not None:
                reqs.append(("used_qubits_pipeline", case, {"op": "used_qubits", "circuit": cj2}, iu2))
                ip2, _ = impl_parallel(c2)
                reqs.append(("parallel_check_pipeline", case, {"op": "parallel_check", "circuit": cj2}, ip2))
        # --- branch order
        qr = guarded(lambda: parse(case["perm_text"], case["mode"])) if exp else ("skip",)
        if qr[0] == "skip":
            pass
        elif qr[0] == "ok":
            cp = qr[1]
            orc["order_used"]["cases"] += 1
            iup = impl_used(cp)
            ipp, pmsg = impl_parallel(cp)
            if iup != iu or (ipp == "ok") != (ip == "ok"):
                fail("order_used", case, f"original {iu} {ip}; permuted {iup} {ipp}")
            if want_state and case["mode"] == "typed" and ip == "ok":
                sv1 = state_vectors(c)
                sv2 = state_vectors(cp)
                orc["order_state"]["cases"] += 1
                if sv1[0] != sv2[0]:
                    fail("order_state", case, f"original {sv1[:2]} permuted {sv2[:2]}")
                elif sv1[0] == "ok":
                    _bump(dist, "state_compared")
                    if sv1[1] != sv2[1]:
                        fail("order_state", case, "state vectors differ")
                else:
                    _bump(dist, "emulator_error:" + sv1[1])
                    if sv1[1] != sv2[1]:
                        fail("order_state", case, f"errors differ {sv1[1:]} {sv2[1:]}")
                    orc["emulator_exceptions"]["cases"] += 1
                    if sv1[1] != "JaqalError":
                        # e.g. one gate given the same qubit twice (`HH r[4] r[4]`, accepted by the used-qubit
                        # analysis): RuntimeError "Error in probabilities" - the emulator's business (C03/C16), not C13's
                        fail("emulator_exceptions", case, f"run_jaqal_circuit: {sv1[1]} {sv1[2][:200]}")
        else:
            fail("order_used", case, f"permuted program does not parse: {qr[1:]}")

    outs = drive(driver, [r[2] for r in reqs]) if driver else [None] * len(reqs)
    for (key, case, req, impl), out in zip(reqs, outs):
        if out is None:
            continue
        if isinstance(out, dict) and "unknown op" in str(out.get("driver_err", "")):
            _bump(dist, "driver_unknown_op")   # the driver was built without Jaqal.UsedQubits.ops: correspondence skipped
            continue
        corr[key]["cases"] += 1
        m = model_norm(out)
        i = impl
        if isinstance(i, dict) and i.get("err") == "RecursionError":
            i = {"err": "hang"}
        if m != i:
            if len(corr[key]["disagreements"]) < 20:
                corr[key]["disagreements"].append({"case": case, "model": m, "impl": impl})
            else:
                corr[key]["more_disagreements"] = corr[key].get("more_disagreements", 0) + 1
    return corr, orc, dist


def run(seed: int, n: int, driver: str = DEFAULT_DRIVER, thorough: bool = False) -> dict:
    if thorough:
        n = max(n, 1) * 5
    cases = []
    feats = {}
    for idx in range(n):
        case, feat = make_case(seed, idx)
        cases.append(case)
        for k, v in feat.items():
            _bump(feats, "gen:" + k, 1)
    if driver and not os.path.exists(driver):
        driver = None
    cases_all = cases + edge_cases() + repeat_cases(seed, max(20, n // 5))
    corr, orc, dist = evaluate(cases_all, driver)
    dist.update(feats)
    if driver is None:
        dist["driver_missing"] = 1
    nontrivial = len({c["text"] for c in cases if "parse_error" not in c and ("<" in c["text"])})
    return {"corr": corr, "oracle": orc, "distribution": dist, "samples": cases[:3], "nontrivial": nontrivial}


def replay(case: dict, driver: str = DEFAULT_DRIVER) -> dict:
    c = dict(case)
    path = c.pop("path", None)
    corr, orc, dist = evaluate([c], driver if driver and os.path.exists(driver) else None)
    dis = [d for k in corr.values() for d in k["disagreements"]]
    fl = [(name, f["detail"]) for name, k in orc.items() for f in k["failures"]]
    model = dis[0]["model"] if dis else None
    impl = dis[0]["impl"] if dis else None
    return {"model": model, "impl": impl, "oracle_ok": (not fl), "detail": "; ".join(f"{a}: {b}" for a, b in fl) or
            ("no oracle failure; " + (f"{len(dis)} model disagreement(s)" if dis else "model agrees"))}


def main():
    ap = argparse.ArgumentParser()
    ap.add_argument("--driver", default=DEFAULT_DRIVER)
    ap.add_argument("--seed", type=int, default=0)
    ap.add_argument("--n", type=int, default=1000)
    ap.add_argument("--thorough", action="store_true")
    ap.add_argument("--verbose", action="store_true")
    a = ap.parse_args()
    res = run(a.seed, a.n, a.driver, a.thorough)
    bad = 0
    for k, v in res["corr"].items():
        nd = len(v["disagreements"]) + v.get("more_disagreements", 0)
        bad += nd
        print(f"corr   {k:28s} cases {v['cases']:6d} disagreements {nd}")
        for d in v["disagreements"][: (20 if a.verbose else 2)]:
            print("   model", json.dumps(d["model"]), "impl", json.dumps(d["impl"]), "path", d["case"].get("path"))
            print("   " + d["case"]["text"].replace("\n", "\n   "))
    for k, v in res["oracle"].items():
        nf = len(v["failures"]) + v.get("more_failures", 0)
        bad += nf
        print(f"oracle {k:28s} cases {v['cases']:6d} failures {nf}")
        for f in v["failures"][: (20 if a.verbose else 2)]:
            print("   ", f["detail"][:300])
            print("   " + f["case"]["text"].replace("\n", "\n   "))
    print("distribution", json.dumps(res["distribution"], sort_keys=True))
    print("nontrivial", res["nontrivial"])
    sys.exit(1 if bad else 0)


if __name__ == "__main__":
    main()
