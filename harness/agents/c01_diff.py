#!/venv/bin/python
"""Differential test and direct oracles for property C01 (whole-program round trip text -> circuit -> text).

Real code:  `jaqalpaq.parser.parse_jaqal_string`, `jaqalpaq.generator.generate_jaqal_program`, the passes of
            `jaqalpaq.core.algorithm`, `jaqalpaq.core.circuitbuilder.{build, CircuitBuilder}`.
Lean model: `Jaqal.Pipeline.{parseProgram, roundTrip}` through the driver ops `parse_program`, `round_trip`
            (JaqalModel/Model/PipelineOps.lean).

Run:   PYTHONPATH=/verif /venv/bin/python /verif/harness/agents/c01_diff.py [--driver PATH] [--n N] [--seed S] [--thorough]

Programs come from a type-directed generator that first builds an AST and then renders it under a random layout
(`;` / newline / `|` runs, blanks, tabs, line and block comments, padding inside blocks):
lets with int / float values of any sign and magnitude (floats in both `repr` layouts, 1-15 digits, exponents
-300...300, +-0.0, huge ints, integral floats), a register sized by a literal or a let, whole / single / strided-slice
aliases with literal, defaulted or let bounds incl. negative steps, 0-4 macros with an acyclic call graph whose
parameters are used as argument / array name / index / loop count / subcircuit count / passed on and may shadow
lets and registers, bodies nesting sequential / parallel / loop / subcircuit up to depth 6, empty blocks,
no-parameter macros, macro definitions interleaved with statements, `from ... usepulses *`; with
`inject_pulses=GATES` and without a gate set.  A fraction of the texts are single-edit mutants (undefined names,
out-of-range indices, duplicate names, illegal nesting, syntax errors) so that rejections are compared too.

corr
  parse_program : circuit dump, or the exception class (+ line/column of a JaqalParseError)
  round_trip_layers : the three layer statements of Props/C01.lean evaluated by the model (`Pipeline.layers`): the
                  parser model maps `toks c` to `unbuild c`, lexing `gen c` gives `toks c`, building `unbuild c` gives an
                  `==` circuit with the same text — expected to hold for every program the real code round-trips
  round_trip    : generated text byte for byte, `c == parse(gen(c))`, byte-stability of the second generation, dump
                  of the re-parsed circuit (or class and stage of the exception)

oracle (the real code alone)
  reparse_equal   : parse(gen(c)) == c in both argument orders
  text_fixpoint   : gen(parse(gen(c))) == gen(c) byte for byte
  same_meaning    : implementation meaning (gate tree with resolved qubits and numeric values after
                    expand_macros(fill_in_let(c)), same-kind blocks spliced) identical before and after the trip,
                    numbers compared with their type
  nothing_lost    : the canonical token stream of gen(parse(txt)) (own tokenizer, separators normalised) equals
                    the canonical rendering of the generating AST: every literal, identifier, alias bound, macro,
                    loop count, block kind and subcircuit count is there, in order.  Normalisations that the
                    library performs on purpose and the rendering reproduces: `as_integer` on let values
                    (`let a 2.0` is the int 2), defaulted slice bounds written out (start 0, stop = size, step 1),
                    `subcircuit 1` written without the count, header statements grouped (lets, register, maps)
                    and macros moved before the statements
  after_passes    : for P in expand_macros(+/- definitions), fill_in_let (+ overrides), fill_in_map,
                    expand_subcircuits, unit timing and their composition: gen(P(c)) parses, has the meaning of
                    P(c), generates the same text again, and is `==` P(c) whenever P(c) has no directly nested
                    same-kind block
  builder_api     : circuits built through `CircuitBuilder` / `build` S-expressions (core objects handed in,
                    python ints / floats of any finite magnitude as arguments and let values, counts given as
                    int / None / name, legal nesting) round-trip in the same sense
  literal_zero_step_rejected : no accepted circuit has a slice alias with the literal step 0 (`notate_slice` would not
                    write it); programs with `map a r[x:y:0]` next to a let bound are generated and must be rejected
  OPEN FINDING (not part of `run`; `--open-findings` runs it, `probe_open_findings()` returns it):
  big_computed_int : `register r[N]; let m -N; map a r[m:]; map b a[:]` with N = 4300 nines is ACCEPTED, the defaulted
                    stop of `b` is the 4301-digit size 2N of `a`, and `generate_jaqal_program` raises ValueError
                    (`str(int)` refuses more than 4300 digits).  The Lean statement of C01 therefore carries the
                    hypothesis `IntsBounded` (`C01_roundtrip_bounded`; `C01_big_stop` is this program in the model).
                    The same program with N = 4299 nines round-trips.
  (formerly separate oracles `literal_zero_step_survives`, `builder_api_integral_floats` and
  `after_passes_with_shadowing_parameters` recorded three defects of the library that have been repaired; their cases
  are now ordinary cases of the oracles above: an integral python float as register size / map index is stored as an
  int, fill_in_map refuses to write a register name that a macro parameter shadows, fill_in_let keeps alias names)
"""
import argparse
import json
import random
import re
import subprocess
import sys
from collections import Counter

DEFAULT_DRIVER = "/verif/lean/.lake/build/bin/jaqal-model"

_loaded = False


def _imports():
    global _loaded
    if _loaded:
        return
    global JaqalError, JaqalParseError, parse_jaqal_string, generate_jaqal_program, expand_macros, expand_subcircuits
    global normalize_blocks_with_unitary_timing, fill_in_let, fill_in_map, GATES, SIG, dump, build, CircuitBuilder
    global Constant, Parameter, Register, NamedQubit, GateStatement, BlockStatement, LoopStatement
    global SequentialBlockBuilder, ParallelBlockBuilder, SubcircuitBlockBuilder, NATIVES_JSON
    from jaqalpaq.error import JaqalError
    from jaqalpaq.parser.slyparse import JaqalParseError
    from jaqalpaq.parser import parse_jaqal_string
    from jaqalpaq.generator import generate_jaqal_program
    from jaqalpaq.core.algorithm import expand_macros, expand_subcircuits, normalize_blocks_with_unitary_timing, fill_in_let
    from jaqalpaq.core.algorithm.fill_in_map import fill_in_map
    from jaqalpaq.core import Constant, Parameter, Register, NamedQubit, GateStatement, BlockStatement, LoopStatement
    from jaqalpaq.core.circuitbuilder import build, CircuitBuilder, SequentialBlockBuilder, ParallelBlockBuilder, SubcircuitBlockBuilder
    from harness.gates import GATES, SIG
    from harness import dump
    NATIVES_JSON = [dump.gatedef(g) for g in GATES.values()]
    _loaded = True


# ------------------------------------------------------------------------------------------------ literals

def as_integer(v):
    if isinstance(v, float) and v == int(v):
        return int(v)
    return v


def float_text(rng):
    """a NUMBER literal: value of 1-15 significant digits and decimal exponent within -300...300"""
    k = rng.randrange(12)
    if k == 0:
        return rng.choice(["0.0", "-0.0", "+0.0", "0.00", "-.0", "1.0", "-1.0", "2.0", "100.0", "1.5", "3.0e0", "0.5"])
    nd = rng.choice([1, 1, 2, 2, 3, 4, 5, 7, 9, 12, 14, 15, rng.randint(1, 15)])
    digits = str(rng.randint(1, 9)) + "".join(rng.choice("0123456789") for _ in range(nd - 1))
    sign = rng.choice(["", "", "", "-", "-", "+"])
    style = rng.randrange(5)
    if style == 0:       # positional, the dot anywhere
        p = rng.randint(0, nd - 1)
        ip, fp = digits[:p], digits[p:]
        if p == 0 and sign == "":
            ip = "0"      # `.5` alone lexes as a DOTIDENTIFIER
        return sign + ip + "." + fp
    if style == 1:       # the whole exponent range
        e = rng.randint(-300, 300)
        return sign + digits[0] + "." + (digits[1:] or "0") + rng.choice("eE") + str(e)
    if style == 2:       # around the two switches of repr (1e-4 / 1e16)
        e = rng.choice([-7, -6, -5, -4, -3, -1, 0, 1, 14, 15, 16, 17, 21, 22])
        return sign + digits[0] + "." + (digits[1:] or "0") + "e" + rng.choice(["", "+"] if e >= 0 else [""]) + str(e)
    if style == 3:       # leading / trailing zeros, padded exponent
        e = rng.randint(-40, 40)
        return sign + "00" + digits[0] + "." + digits[1:] + "0" * rng.randint(1, 3) + "E" + ("-" if e < 0 else rng.choice(["", "+"])) + "%03d" % abs(e)
    # integral values written as floats (as_integer applies to lets)
    return sign + str(rng.randint(0, 10 ** rng.choice([1, 2, 5, 15]))) + ".0"


def int_text(rng, small=False):
    if small:
        return str(rng.randrange(0, 5))
    k = rng.randrange(8)
    if k == 0:
        return str(rng.randrange(10 ** 18, 10 ** 40))
    if k == 1:
        return "-" + str(rng.randrange(1, 10 ** rng.choice([1, 3, 25])))
    if k == 2:
        return rng.choice(["+", "00", "-0", "+0"]) + str(rng.randrange(0, 50))
    return str(rng.randrange(0, 10))


IDENT_POOL = ["a", "b", "x", "y", "k", "n", "N", "q", "t0", "x_1", "_u", "Q", "e5", "E3", "inf", "nan", "loop2", "letx",
              "registers", "maps", "alpha", "th.eta", "a.b", "v.1.w", "macro_", "i", "j", "w", "zz", "_", "__", "A9"]


# ------------------------------------------------------------------------------------------------ the AST
# arg  = ("id", name) | ("int", text, value) | ("flt", text, value) | ("item", arrname, ("int", text, value) | ("id", name))
# stmt = ("gate", name, [arg]) | ("seq", [stmt]) | ("par", [stmt]) | ("loop", countref, ("seq"|"par", [stmt]))
#      | ("sub", countref | None, [stmt]) | ("macro", name, [param], ("seq"|"par", [stmt]))
# ref  = ("int", text, value) | ("id", name)

NOGS_SIG = {"g0": "q", "g1": "qq", "g2": "qn", "g3": "nq", "g4": "", "g5": "qqn", "g6": "R", "g7": "n", "g8": "nnn",
            "lib.g": "q", "G_9": "nq"}


class ProgGen:
    def __init__(self, rng, gs, maxdepth=6):
        self.rng = rng
        self.gs = gs
        self.maxdepth = maxdepth
        self.used = set()
        self.usepulses = []
        self.lets = []        # (name, ("int"|"flt", text, value))  value AFTER as_integer
        self.letval = {}
        self.reg = None       # (name, ref, size)
        self.maps = []        # (name, src, form)
        self.rsize = {}       # register-like name -> list of fundamental indices
        self.qubits = {}      # single-qubit alias -> fundamental index
        self.macros = {}      # name -> kinds string
        self.macro_sub = {}   # name -> does its expansion contain a subcircuit block
        self.top = []         # top-level statements, macro definitions interleaved
        self.header_order = []
        self.feat = Counter()
        self.gsig = {k: v.replace("i", "I") if k == "P" else v.replace("i", "F") for k, v in SIG.items()} if gs else dict(NOGS_SIG)
        if gs:
            self.gsig["prepare_all"] = ""
            self.gsig["measure_all"] = ""

    def fresh(self, prefix=None):
        rng = self.rng
        for _ in range(50):
            n = rng.choice(IDENT_POOL) if prefix is None or rng.random() < 0.5 else prefix + str(rng.randrange(100))
            if n not in self.used and n not in self.gsig:
                self.used.add(n)
                return n
        n = "v%d" % len(self.used)
        self.used.add(n)
        return n

    # ---------------------------------------------------------------- header
    def header(self):
        rng = self.rng
        if rng.random() < 0.2:
            for _ in range(rng.choice([1, 1, 2])):
                self.usepulses.append(rng.choice(["qscout.v1.std", "mod.pulses", "a.b.c", "x", ".rel.mod", "Y_1"]))
        size = rng.randrange(2, 7)
        size_by_let = rng.random() < 0.4
        nlets = rng.choice([0, 1, 2, 3, 4, 5])
        size_let_at = rng.randrange(nlets + 1) if size_by_let else None
        size_let = None
        for i in range(nlets + (1 if size_by_let else 0)):
            name = self.fresh("c")
            if size_by_let and i == size_let_at:
                txt = str(size) if rng.random() < 0.7 else "%d.0" % size
                lit = ("int", txt, size) if "." not in txt else ("flt", txt, size)
                size_let = name
            else:
                r = rng.random()
                if r < 0.35:
                    t = int_text(rng, small=True)
                    lit = ("int", t, int(t))
                elif r < 0.5:
                    t = int_text(rng)
                    lit = ("int", t, int(t))
                elif r < 0.6:
                    t = rng.choice(["-1", "-2", "1", "2"])
                    lit = ("int", t, int(t))
                else:
                    t = float_text(rng)
                    while abs(float(t)) >= 2.0 ** 53 and rng.random() < 0.8:
                        t = float_text(rng)
                    lit = ("flt", t, as_integer(float(t)))
            self.lets.append((name, lit))
            self.letval[name] = lit[2]
        with_reg = rng.random() < 0.93
        if with_reg:
            rname = self.fresh("r")
            ref = ("id", size_let) if size_by_let else ("int", str(size), size)
            self.reg = (rname, ref, size)
            self.rsize[rname] = list(range(size))
            for _ in range(rng.choice([0, 0, 1, 2, 3, 4])):
                self.one_map()
        # order of the header statements in the text: any order that declares before use
        items = [("let", i) for i in range(len(self.lets))]
        rest = ([("reg", 0)] if self.reg else []) + [("map", i) for i in range(len(self.maps))]
        if rng.random() < 0.5:
            self.header_order = items + rest
        else:
            # interleave lets with register/maps keeping relative orders; a let must precede its first use
            order, li, ri = [], 0, 0
            need = self.first_use()
            while li < len(items) or ri < len(rest):
                can_rest = ri < len(rest) and all(need.get(j, 10 ** 9) > ri for j in range(li, len(items)))
                if li < len(items) and (not can_rest or rng.random() < 0.5):
                    order.append(items[li]); li += 1
                elif can_rest:
                    order.append(rest[ri]); ri += 1
            self.header_order = order

    def first_use(self):
        """let index -> index in [reg, map0, map1, ...] of its first use"""
        need = {}
        names = [n for n, _ in self.lets]

        def use(name, at):
            if name in names:
                j = names.index(name)
                need[j] = min(need.get(j, 10 ** 9), at)
        if self.reg:
            if self.reg[1][0] == "id":
                use(self.reg[1][1], 0)
            for i, (_n, _src, form) in enumerate(self.maps):
                for ref in form[1:]:
                    if ref is not None and ref[0] == "id":
                        use(ref[1], i + 1)
        return need

    def int_lets(self, pred):
        return [n for n, v in self.letval.items() if isinstance(v, int) and pred(v)]

    def bound(self, v, may_default):
        """write the bound `v` as a literal, a let of that value, or leave it out"""
        rng = self.rng
        c = self.int_lets(lambda x: x == v)
        r = rng.random()
        if may_default and r < 0.4:
            self.feat["bound_default"] += 1
            return None
        if c and r < 0.75:
            self.feat["bound_let"] += 1
            return ("id", rng.choice(c))
        return ("int", str(v), v)

    def one_map(self):
        rng = self.rng
        src = rng.choice(list(self.rsize))
        qs = self.rsize[src]
        S = len(qs)
        name = self.fresh("m")
        k = rng.random()
        if S == 0 or k < 0.2:
            self.maps.append((name, src, ("whole",)))
            self.rsize[name] = list(qs)
            self.feat["map_whole"] += 1
        elif k < 0.45:
            i = rng.randrange(S)
            self.maps.append((name, src, ("idx", self.bound(i, False))))
            self.qubits[name] = qs[i]
            self.feat["map_index"] += 1
        else:
            step = rng.choice([1, 1, 1, 2, 2, 3, -1, -1, -2])
            if rng.random() < 0.05:
                start = rng.randrange(S); stop = start; idx = []          # an empty slice
            elif step > 0:
                start = rng.randrange(S)
                cnt = rng.randint(1, (S - 1 - start) // step + 1)
                last = start + (cnt - 1) * step
                stop = rng.randint(last + 1, min(S, last + step))
                idx = list(range(start, stop, step))
            else:
                start = rng.randrange(S)
                cnt = rng.randint(1, start // (-step) + 1)
                last = start + (cnt - 1) * step
                stop = rng.randint(max(-1, last + step), last - 1)
                idx = list(range(start, stop, step))
            form = ("slice", self.bound(start, start == 0), self.bound(stop, stop == S), self.bound(step, step == 1))
            lets_in = [f for f in form[1:] if f is not None and f[0] == "id"]
            if lets_in and form[3] is not None and form[3][0] == "int" and rng.random() < 0.15:
                # a LITERAL zero step: `Register.__init__` checks it only when no bound is a let
                form = form[:3] + (("int", "0", 0),)
                idx = []
                self.feat["map_slice_literal_zero_step"] += 1
            self.maps.append((name, src, form))
            self.rsize[name] = [qs[i] for i in idx]
            self.feat["map_slice"] += 1
            if step < 0:
                self.feat["map_slice_negative_step"] += 1

    # ---------------------------------------------------------------- arguments
    def vis(self, cx, names):
        return [n for n in names if n not in cx["params"]]

    def params_of(self, cx, kind):
        return [n for n, k in cx["params"].items() if k == kind]

    def index_ref(self, cx, size):
        """an index < size: literal, let, parameter of kind i (its values are always 0 or 1)"""
        rng = self.rng
        r = rng.random()
        ps = self.params_of(cx, "i")
        if ps and size >= 2 and r < 0.4:
            self.feat["param_as_index"] += 1
            return ("id", rng.choice(ps))
        c = self.vis(cx, self.int_lets(lambda x: 0 <= x < size))
        if c and r < 0.65:
            self.feat["let_as_index"] += 1
            return ("id", rng.choice(c))
        v = rng.randrange(size)
        return ("int", str(v), v)

    def qubit_arg(self, cx):
        rng = self.rng
        opts = []
        regs = [n for n in self.vis(cx, list(self.rsize)) if len(self.rsize[n]) > 0]
        if regs:
            opts += ["item"] * 4
        if self.vis(cx, list(self.qubits)):
            opts += ["named"] * 2
        if self.params_of(cx, "q"):
            opts += ["pq"] * 3
        if self.params_of(cx, "R"):
            opts += ["pR"] * 3
        if not opts:
            return None
        o = rng.choice(opts)
        if o == "item":
            n = rng.choice(regs)
            return ("item", n, self.index_ref(cx, len(self.rsize[n])))
        if o == "named":
            return ("id", rng.choice(self.vis(cx, list(self.qubits))))
        if o == "pq":
            self.feat["param_as_argument"] += 1
            return ("id", rng.choice(self.params_of(cx, "q")))
        self.feat["param_as_array_name"] += 1
        return ("item", rng.choice(self.params_of(cx, "R")), self.index_ref(cx, 2))

    def number_arg(self, cx, want):
        """want: 'I' an int, 'F' int or float, 'n' any number"""
        rng = self.rng
        r = rng.random()
        ps = self.params_of(cx, "i") + (self.params_of(cx, "n") if want != "I" else [])
        if ps and r < 0.3:
            self.feat["param_as_argument"] += 1
            return ("id", rng.choice(ps))
        lets = self.vis(cx, [n for n, v in self.letval.items() if want != "I" or isinstance(v, int)])
        if lets and r < 0.55:
            return ("id", rng.choice(lets))
        if want == "I" or rng.random() < 0.4:
            t = int_text(rng)
            return ("int", t, int(t))
        t = float_text(rng)
        return ("flt", t, float(t))

    def small_count(self, cx, what):
        """a value in {0, 1} for a parameter of kind i, or any count >= 0 for a loop / subcircuit"""
        rng = self.rng
        r = rng.random()
        ps = self.params_of(cx, "i")
        if ps and r < 0.35:
            self.feat["param_as_" + what] += 1
            return ("id", rng.choice(ps))
        hi = 2 if what == "argument" else 4
        c = self.vis(cx, self.int_lets(lambda x: 0 <= x < hi))
        if c and r < 0.6:
            self.feat["let_as_" + what] += 1
            return ("id", rng.choice(c))
        v = rng.randrange(hi)
        return ("int", str(v), v)

    def register_arg(self, cx):
        rng = self.rng
        ps = self.params_of(cx, "R")
        regs = [n for n in self.vis(cx, list(self.rsize)) if len(self.rsize[n]) >= 2]
        if ps and (not regs or rng.random() < 0.5):
            self.feat["param_passed_on_or_register_arg"] += 1
            return ("id", rng.choice(ps))
        if regs:
            return ("id", rng.choice(regs))
        return None

    def gate(self, cx):
        rng = self.rng
        callable_macros = [m for m in cx["macros"] if not (self.macro_sub[m] and cx.get("no_sub"))]
        if callable_macros and rng.random() < 0.35:
            name = rng.choice(callable_macros)
            sig = self.macros[name]
            self.feat["macro_call"] += 1
        else:
            name = rng.choice(list(self.gsig))
            sig = self.gsig[name]
        args = []
        for k in sig:
            if k == "q":
                a = self.qubit_arg(cx)
            elif k == "i":
                a = self.small_count(cx, "argument")
            elif k == "R":
                a = self.register_arg(cx)
            else:
                a = self.number_arg(cx, k)
            if a is None:
                return None
            args.append(a)
        return ("gate", name, args)

    # ---------------------------------------------------------------- statements
    def stmts(self, kind, cx, depth, in_par, in_sub, top=False):
        rng = self.rng
        saved = cx.get("no_sub")
        cx["no_sub"] = bool(in_par or in_sub)
        try:
            return self.stmts_(kind, cx, depth, in_par, in_sub, top)
        finally:
            cx["no_sub"] = saved

    def stmts_(self, kind, cx, depth, in_par, in_sub, top=False):
        rng = self.rng
        n = rng.choice([0, 1, 1, 2, 2, 3, 4]) if not top else rng.choice([0, 1, 2, 3, 4, 5, 6])
        out = []
        for _ in range(n):
            r = rng.random()
            deep = depth >= self.maxdepth
            s = None
            if kind == "par":
                if r < 0.6 or deep:
                    s = self.gate(cx)
                else:
                    s = ("seq", self.stmts("seq", cx, depth + 1, True, in_sub))
            else:
                if r < 0.45 or deep:
                    s = self.gate(cx)
                elif r < 0.62:
                    s = ("par", self.stmts("par", cx, depth + 1, True, in_sub))
                elif r < 0.8:
                    bk = rng.choice(["seq", "seq", "par"])
                    s = ("loop", self.small_count(cx, "loop_count"), (bk, self.stmts(bk, cx, depth + 1, in_par or bk == "par", in_sub)))
                    self.feat["loop"] += 1
                elif r < 0.93 and not in_par and not in_sub:
                    cr = rng.random()
                    cnt = None if cr < 0.35 else self.small_count(cx, "subcircuit_count")
                    if cr > 0.9:
                        cnt = ("int", "1", 1)
                    s = ("sub", cnt, self.stmts("seq", cx, depth + 1, in_par, True))
                    self.feat["subcircuit"] += 1
                elif top:
                    s = ("seq", self.stmts("seq", cx, depth + 1, in_par, in_sub))
                    self.feat["top_level_braces"] += 1
                else:
                    s = self.gate(cx)
            if s is not None:
                if s[0] == "sub" or (s[0] == "gate" and self.macro_sub.get(s[1])):
                    cx["has_sub"] = True
                if s[0] in ("seq", "par") and not s[1]:
                    self.feat["empty_block"] += 1
                out.append(s)
        self.feat["depth_%d" % depth] += 1
        return out

    def macro(self, cx_macros):
        rng = self.rng
        name = self.fresh("M")
        np_ = rng.choice([0, 1, 1, 2, 2, 3, 4])
        params = {}
        shadowable = [n for n, _ in self.lets] + list(self.rsize) + list(self.qubits)
        for _ in range(np_):
            if shadowable and rng.random() < 0.3:
                pn = rng.choice(shadowable)
                if pn in params:
                    continue
                self.feat["param_shadows_" + ("let" if pn in self.letval else "register")] += 1
            else:
                pn = self.fresh("p")
                if pn in params:
                    continue
            params[pn] = rng.choice("qqiinR")
        if not params:
            self.feat["macro_without_parameters"] += 1
        cx = {"params": params, "macros": list(cx_macros)}
        bk = rng.choice(["seq", "seq", "seq", "par"])
        body = self.stmts(bk, cx, 1, bk == "par", False)
        # release the fresh parameter names: other macros may reuse them
        self.macros[name] = "".join(params.values())
        self.macro_sub[name] = bool(cx.get("has_sub"))
        return ("macro", name, list(params), (bk, body))

    def program(self):
        rng = self.rng
        self.header()
        nm = rng.choice([0, 1, 1, 2, 3, 4])
        defined = []
        cx = {"params": {}, "macros": defined}
        chunks = rng.choice([1, 2, 3])
        for i in range(nm):
            if rng.random() < 0.4 and i > 0:
                self.top += self.stmts("seq", cx, 0, False, False, top=True)[:2]
                if self.top and self.top[-1][0] != "macro":
                    self.feat["macro_after_statement"] += 1
            m = self.macro(defined)
            self.top.append(m)
            defined.append(m[1])
        for _ in range(chunks):
            self.top += self.stmts("seq", cx, 0, False, False, top=True)
        return self


# ------------------------------------------------------------------------------------------------ rendering

WORD = re.compile(r"[A-Za-z0-9_.+\-]")


class Layout:
    """turns token lists into text; `plain` = the generator's own style"""

    def __init__(self, rng, plain):
        self.rng = rng
        self.plain = plain

    def ws(self):
        if self.plain:
            return " "
        return self.rng.choice([" ", " ", " ", "  ", "\t", " \t ", " /* c */ ", "/**/"])

    def ows(self):
        if self.plain or self.rng.random() < 0.6:
            return ""
        return self.ws()

    def join(self, toks):
        out = ""
        for t in toks:
            if out and WORD.match(out[-1]) and WORD.match(t[0]):
                out += self.ws() if not out.endswith("*/") else self.ows() or " "
            elif out:
                out += self.ows()
            out += t
        return out

    def sep(self, par, top=False):
        if self.plain:
            return "\n"
        rng = self.rng
        if par:
            return rng.choice(["|", " | ", "\n", "\n", "|\n", "\n|", " |\t", "\n\n", "\n // c | d\n", "| /* x\n y */ "])
        return rng.choice([";", " ; ", "\n", "\n", "\n", ";\n", "\n;", "\n\n", ";;", " // c ; d\n", "\n\t", "; /* x\n y */ ", "\n/* z */\n"])

    def pad(self, par):
        if self.plain:
            return "\n"
        rng = self.rng
        r = rng.random()
        if r < 0.4:
            return self.ows()
        if r < 0.8:
            return "\n" + rng.choice(["", "\t", "  "])
        return self.sep(par) + self.ows()


def ref_tok(ref):
    return ref[1]


def arg_toks(a):
    if a[0] == "item":
        return [a[1], "[", ref_tok(a[2]), "]"]
    return [a[1]]


def render_stmt(s, L, par_ctx=False):
    """text of one statement (no trailing separator)"""
    k = s[0]
    if k == "gate":
        toks = [s[1]]
        for a in s[2]:
            toks += arg_toks(a)
        return L.join(toks)
    if k in ("seq", "par"):
        return render_block(k, s[1], L)
    if k == "loop":
        return L.join(["loop", ref_tok(s[1])]) + L.ws() + render_block(s[2][0], s[2][1], L)
    if k == "sub":
        head = ["subcircuit"] + ([ref_tok(s[1])] if s[1] is not None else [])
        return L.join(head) + L.ws() + render_block("seq", s[2], L)
    if k == "macro":
        return L.join(["macro", s[1]] + s[2]) + L.ws() + render_block(s[3][0], s[3][1], L)
    raise ValueError(k)


def render_block(kind, stmts, L):
    par = kind == "par"
    out = "<" if par else "{"
    out += L.pad(par)
    for i, s in enumerate(stmts):
        out += render_stmt(s, L)
        if i + 1 < len(stmts):
            out += L.sep(par) + L.ows()
        elif L.plain or L.rng.random() < 0.5:
            out += L.sep(par) + L.ows()
        else:
            out += L.ows()
    return out + (">" if par else "}")


def slice_toks(form):
    a, b, c = form[1:]
    t = []
    if a is not None:
        t.append(ref_tok(a))
    t.append(":")
    if b is not None:
        t.append(ref_tok(b))
    if c is not None:
        t += [":", ref_tok(c)]
    return t


def render_program(p, L):
    out = ""
    if not L.plain and L.rng.random() < 0.3:
        out += L.rng.choice(["\n", "// Jaqal\n", " ;\n", "/* header\n */\n", "\t\n\n"])
    hdr = [L.join(["from", m, "usepulses", "*"]) for m in p.usepulses]
    for kind, i in p.header_order:
        if kind == "let":
            n, lit = p.lets[i]
            hdr.append(L.join(["let", n, lit[1]]))
        elif kind == "reg":
            n, ref, _ = p.reg
            hdr.append(L.join(["register", n, "[", ref_tok(ref), "]"]))
        else:
            n, src, form = p.maps[i]
            if form[0] == "whole":
                hdr.append(L.join(["map", n, src]))
            elif form[0] == "idx":
                hdr.append(L.join(["map", n, src, "[", ref_tok(form[1]), "]"]))
            else:
                hdr.append(L.join(["map", n, src, "["] + slice_toks(form) + ["]"]))
    items = hdr + [render_stmt(s, L) for s in p.top]
    for i, it in enumerate(items):
        out += it
        if i + 1 < len(items) or L.plain or L.rng.random() < 0.7:
            out += L.sep(False, top=True) + (L.ows() if not L.plain else "")
    return out


# ------------------------------------------------------------------------------------------------ canonical token streams

SEP = ("sep",)


def num_tok(lit):
    v = lit[2]
    return ("int", v) if isinstance(v, int) else ("flt", repr(v))


def canon_ref(ref):
    return ("id", ref[1]) if ref[0] == "id" else num_tok(ref)


def canon_arg(a):
    if a[0] == "item":
        return [("id", a[1]), ("p", "["), canon_ref(a[2]), ("p", "]")]
    return [canon_ref(a)]


def canon_block(kind, stmts, out):
    out.append(("p", "<" if kind == "par" else "{"))
    for i, s in enumerate(stmts):
        if i:
            out.append(SEP)
        canon_stmt(s, out)
    out.append(("p", ">" if kind == "par" else "}"))


def canon_stmt(s, out):
    k = s[0]
    if k == "gate":
        out.append(("id", s[1]))
        for a in s[2]:
            out += canon_arg(a)
    elif k in ("seq", "par"):
        canon_block(k, s[1], out)
    elif k == "loop":
        out += [("kw", "loop"), canon_ref(s[1])]
        canon_block(s[2][0], s[2][1], out)
    elif k == "sub":
        out.append(("kw", "subcircuit"))
        if s[1] is not None and not (s[1][0] == "int" and s[1][2] == 1):
            out.append(canon_ref(s[1]))
        canon_block("seq", s[2], out)
    elif k == "macro":
        out += [("kw", "macro"), ("id", s[1])] + [("id", x) for x in s[2]]
        canon_block(s[3][0], s[3][1], out)


def canon_program(p):
    """the token stream the regenerated text must have"""
    out = []
    for m in p.usepulses:
        out += [("kw", "from"), ("mod", m), ("kw", "usepulses"), ("p", "*"), SEP]
    for n, lit in p.lets:
        out += [("kw", "let"), ("id", n), num_tok(lit), SEP]
    if p.reg:
        n, ref, _ = p.reg
        out += [("kw", "register"), ("id", n), ("p", "["), canon_ref(ref), ("p", "]"), SEP]
    for n, src, form in p.maps:
        out += [("kw", "map"), ("id", n), ("id", src)]
        if form[0] == "idx":
            out += [("p", "["), canon_ref(form[1]), ("p", "]")]
        elif form[0] == "slice":
            a, b, c = form[1:]
            out += [("p", "["), canon_ref(a) if a is not None else ("int", 0), ("p", ":"),
                    canon_ref(b) if b is not None else ("defstop", len(p.rsize[src])), ("p", ":"),
                    canon_ref(c) if c is not None else ("int", 1), ("p", "]")]
        out.append(SEP)
    for s in [x for x in p.top if x[0] == "macro"] + [x for x in p.top if x[0] != "macro"]:
        canon_stmt(s, out)
        out.append(SEP)
    while out and out[-1] == SEP:
        out.pop()
    return out


TOKEN_RE = re.compile(
    r"(?P<nl>\n+)|(?P<ws>[ \t]+)|(?P<id>[a-zA-Z_](?:\.?[a-zA-Z0-9_])*)|(?P<dot>\.(?:[a-zA-Z_](?:\.?[a-zA-Z0-9_])*)?)"
    r"|(?P<num>[-+]?[0-9]*\.[0-9]+(?:[eE][-+]?[0-9]+)?)|(?P<int>[-+]?[0-9]+)|(?P<cm>//[^\n]*)|(?P<bc>/\*.*?\*/)"
    r"|(?P<p>[<>|{};\[\],*:])", re.S)
KEYWORDS = {"register", "map", "let", "macro", "loop", "import", "usepulses", "from", "as", "branch", "subcircuit"}


def text_tokens(text):
    """own tokenizer + separator normalisation (`;`, `|`, newline runs -> one SEP; none next to a bracket)"""
    raw = []
    pos = 0
    while pos < len(text):
        m = TOKEN_RE.match(text, pos)
        if not m:
            raise ValueError(f"untokenizable at {pos}: {text[pos:pos + 20]!r}")
        pos = m.end()
        k = m.lastgroup
        v = m.group()
        if k in ("ws", "cm", "bc"):
            continue
        if k == "nl" or (k == "p" and v in ";|"):
            raw.append(SEP)
        elif k == "id":
            raw.append(("kw", v) if v in KEYWORDS else ("id", v))
        elif k == "dot":
            raw.append(("mod", v))
        elif k == "num":
            raw.append(("flt", repr(float(v))))
        elif k == "int":
            raw.append(("int", int(v)))
        else:
            raw.append(("p", v))
    out = []
    for t in raw:
        if t == SEP:
            if not out or out[-1] == SEP or out[-1] in (("p", "{"), ("p", "<")):
                continue
            out.append(t)
        else:
            if t in (("p", "}"), ("p", ">")) and out and out[-1] == SEP:
                out.pop()
            out.append(t)
    while out and out[-1] == SEP:
        out.pop()
    # the module of a usepulses statement is an IDENTIFIER or a DOTIDENTIFIER
    for i, t in enumerate(out):
        if i and out[i - 1] == ("kw", "from") and t[0] == "id":
            out[i] = ("mod", t[1])
    return out


def tokens_match(expected, got, letval):
    if len(expected) != len(got):
        return False, f"length {len(expected)} vs {len(got)}"
    for i, (e, g) in enumerate(zip(expected, got)):
        if e == g:
            continue
        if e[0] == "defstop" and (g == ("int", e[1]) or (g[0] == "id" and letval.get(g[1]) == e[1])):
            continue
        return False, f"token {i}: expected {e}, regenerated text has {g}"
    return True, ""


# ------------------------------------------------------------------------------------------------ the real code

def parse(text, gs):
    return parse_jaqal_string(text, inject_pulses=GATES if gs else None, autoload_pulses=False)


def impl_parse_program(text, gs):
    try:
        c = parse(text, gs)
    except JaqalParseError as e:
        return None, {"err": "JaqalParseError", "pos": [None if e.line == "EOF" else str(e.line), str(e.column)]}
    except Exception as e:  # noqa
        return None, {"err": type(e).__name__}
    return c, None


def _norm_defs(j):
    """the model writes `unitary: false` for the definition a macro call refers to; dump.py leaves the key out"""
    if isinstance(j, dict):
        if j.get("tag") == "macro" and "unitary" not in j:
            j["unitary"] = False
        for v in j.values():
            _norm_defs(v)
    elif isinstance(j, list):
        for v in j:
            _norm_defs(v)
    return j


def dumpc(c):
    d = dump.circuit(c)
    d.pop("keys")
    return _norm_defs(d)


def impl_round_trip(c, gs):
    def fail(stage, e):
        d = {"err": type(e).__name__, "stage": stage}
        if isinstance(e, JaqalParseError):
            d["pos"] = [None if e.line == "EOF" else str(e.line), str(e.column)]
        return d
    try:
        t = generate_jaqal_program(c)
    except Exception as e:  # noqa
        return fail("gen", e), None, None
    try:
        c2 = parse(t, gs)
    except Exception as e:  # noqa
        return fail("reparse", e), t, None
    try:
        t2 = generate_jaqal_program(c2)
    except Exception as e:  # noqa
        return fail("regen", e), t, c2
    return {"text2": t, "equal": bool(c == c2), "stable": t2 == t, "circuit2": dumpc(c2)}, t, c2


def num_val(x):
    while isinstance(x, Constant):
        x = x.value
    return x


def tnum(x):
    x = num_val(x)
    if isinstance(x, (int, float)):
        return (type(x).__name__, repr(x))
    return ("?", repr(x))


def arg_meaning(v):
    if isinstance(v, NamedQubit):
        reg, idx = v.resolve_qubit()
        return ("q", reg.name, int(idx))
    if isinstance(v, Register):
        n = int(num_val(v.size))
        return ("r", tuple((v[i].resolve_qubit()[0].name, int(v[i].resolve_qubit()[1])) for i in range(n)))
    return ("n",) + tnum(v)


def stmt_meaning(s):
    if isinstance(s, GateStatement):
        return ("g", s.name, tuple(arg_meaning(v) for v in s.parameters.values()))
    if isinstance(s, LoopStatement):
        return ("l", tnum(s.iterations), stmt_meaning(s.statements))
    if isinstance(s, BlockStatement):
        return ("b", s.parallel, s.subcircuit, tnum(s.iterations), items_meaning(s.parallel, s.statements))
    raise TypeError(s)


def items_meaning(par, stmts):
    out = []
    for s in stmts:
        if isinstance(s, BlockStatement) and not s.subcircuit and s.parallel == par:
            out.extend(items_meaning(par, s.statements))
        else:
            out.append(stmt_meaning(s))
    return tuple(out)


def meaning(c):
    try:
        c2 = expand_macros(fill_in_let(c))
        return ("ok", tuple(stmt_meaning(s) for s in c2.body.statements))
    except Exception as e:  # noqa
        return ("error", type(e).__name__)


def has_zero_step(c):
    """an alias whose slice has the literal step 0 (accepted when another bound, or the defaulted stop, is a let)"""
    for r in c.registers.values():
        sl = getattr(r, "alias_slice", None)
        if sl is not None and isinstance(sl.step, int) and sl.step == 0:
            return True
    return False


def has_same_kind_nesting(c):
    def st(s, top):
        if isinstance(s, LoopStatement):
            return st(s.statements, False)
        if isinstance(s, BlockStatement):
            for x in s.statements:
                if isinstance(x, BlockStatement) and not top and not x.subcircuit and x.parallel == s.parallel:
                    return True
                if st(x, False):
                    return True
        return False
    return st(c.body, True) or any(st(m.body, False) for m in c.macros.values())


def illegal_nesting(c):
    """a subcircuit (directly, or through a macro call) inside a parallel block or another subcircuit: the
    builder rejects the direct form, so no text can denote such a circuit"""
    msub = {}

    def has_sub(s):
        if isinstance(s, GateStatement):
            m = c.macros.get(s.name)
            if m is None:
                return False
            if s.name not in msub:
                msub[s.name] = False
                msub[s.name] = has_sub(m.body)
            return msub[s.name]
        if isinstance(s, LoopStatement):
            return has_sub(s.statements)
        return s.subcircuit or any(has_sub(x) for x in s.statements)

    def bad(s, inner):
        if isinstance(s, GateStatement):
            return inner and has_sub(s)
        if isinstance(s, LoopStatement):
            return bad(s.statements, inner)
        if s.subcircuit and inner:
            return True
        return any(bad(x, inner or s.subcircuit or s.parallel) for x in s.statements)
    return bad(c.body, False) or any(bad(m.body, False) for m in c.macros.values())


PASSES = ["expand_macros", "expand_macros_keep", "fill_in_let", "fill_in_let_override", "fill_in_map", "expand_subcircuits",
          "unit_timing", "let_map_macro"]


def apply_pass(name, c, rng):
    if name == "expand_macros":
        return expand_macros(c)
    if name == "expand_macros_keep":
        return expand_macros(c, preserve_definitions=True)
    if name == "fill_in_let":
        return fill_in_let(c)
    if name == "fill_in_let_override":
        ov = {}
        for k, v in c.constants.items():
            if rng.random() < 0.5:
                x = v.value
                ov[k] = x if rng.random() < 0.3 else (x + 1 if isinstance(x, int) and rng.random() < 0.7 else float(x) * 2 + 0.25)
        return fill_in_let(c, override_dict=ov)
    if name == "fill_in_map":
        return fill_in_map(fill_in_let(c))
    if name == "expand_subcircuits":
        return expand_subcircuits(c)
    if name == "unit_timing":
        return normalize_blocks_with_unitary_timing(c)
    if name == "let_map_macro":
        return expand_macros(fill_in_map(fill_in_let(c)))
    raise KeyError(name)


# ------------------------------------------------------------------------------------------------ mutants (rejections)

def mutate(text, rng):
    """one edit that usually makes the program unacceptable (or at least different)"""
    toks = [m for m in TOKEN_RE.finditer(text) if m.lastgroup not in ("ws", "cm", "bc")]
    if not toks:
        return text + " }", "append"
    k = rng.randrange(9)
    m = rng.choice(toks)
    a, b = m.span()
    if k == 0:
        return text[:a] + text[b:], "delete_token"
    if k == 1:
        return text[:a] + "undefined_name" + text[b:], "replace_by_unknown_name"
    if k == 2:
        ints = [t for t in toks if t.lastgroup == "int"]
        if ints:
            t = rng.choice(ints)
            return text[:t.start()] + rng.choice(["99", "-3", "1.5", "0"]) + text[t.end():], "change_int"
    if k == 3:
        return text[:a] + rng.choice(["{", "}", "<", ">", "|", ";", "[", "]", ":", "subcircuit", "loop 2 {", "$", "'01'"]) + " " + text[a:], "insert_token"
    if k == 4:
        ids = [t for t in toks if t.lastgroup == "id" and t.group() not in KEYWORDS]
        if len(ids) >= 2:
            t, u = rng.sample(ids, 2)
            return text[:t.start()] + u.group() + text[t.end():], "replace_name_by_other_name"
    if k == 5:
        return text + rng.choice(["\nlet zz9 1\n", "\nregister rr9[2]\n", "\nmap mm9 nothing\n", "\n}\n", "\n< subcircuit { } >\n",
                                  "\nsubcircuit { subcircuit { } }\n", "\nloop 2 subcircuit { }\n", "\n{ { } }\n", "\nmacro zz9 { }\nmacro zz9 { }\n"]), "append_statement"
    if k == 6:
        return rng.choice(["register rr9[2]\n", "let zz9 0\n", "register rr9[0]\n"]) + text, "prepend_statement"
    if k == 7:
        return text[:b] + " " + m.group() + text[b:], "duplicate_token"
    return text[:a] + rng.choice(["1e400.0", "1.0e999", ".5", "1e-06", "0x10", " 999999999999 "]) + text[b:], "replace_by_odd_number"


# ------------------------------------------------------------------------------------------------ builder API circuits

def api_number(rng):
    k = rng.randrange(8)
    if k == 0:
        return rng.choice([0.0, -0.0, 1.0, 2.0, -3.0, 1e22, 1e16, 1e15, 1e-4, 1e-5, 5e-324, 1.7976931348623157e308, -2.2250738585072014e-308])
    if k == 1:
        return rng.randrange(-10 ** 30, 10 ** 30)
    if k == 2:
        return rng.uniform(-1, 1) * 10.0 ** rng.randint(-300, 300)
    if k == 3:
        return float(rng.randrange(-50, 50))
    if k == 4:
        return rng.random()
    return rng.randrange(-5, 10)


def api_circuit(rng, integral_floats):
    """-> (CircuitBuilder, description) : a circuit built through the object-oriented builder; legal identifiers,
    finite numbers, Jaqal's nesting rules"""
    gs = rng.random() < 0.4
    b = CircuitBuilder(native_gates=GATES if gs else None)
    desc = []
    names = list(IDENT_POOL)
    rng.shuffle(names)
    uneval = lambda: rng.random() < 0.5   # noqa
    lets = {}
    for _ in range(rng.choice([0, 1, 2, 3])):
        n = names.pop()
        v = api_number(rng) if rng.random() < 0.6 else rng.randrange(0, 4)
        obj = b.let(n, v, unevaluated=uneval())
        lets[n] = (as_integer(v), obj)
        desc.append(("let", n, repr(v)))
    size = rng.randrange(2, 6)
    rn = names.pop()
    size_lets = [n for n, (v, _) in lets.items() if isinstance(v, int) and v == size]
    if integral_floats and rng.random() < 0.5:
        sz = float(size)
    elif size_lets and rng.random() < 0.6:
        n = rng.choice(size_lets)
        sz = n if rng.random() < 0.5 or not isinstance(lets[n][1], Constant) else lets[n][1]
    else:
        sz = size
    reg = b.register(rn, sz, unevaluated=uneval() or isinstance(sz, str))
    desc.append(("register", rn, repr(sz)))
    regs = {rn: (size, reg)}
    qubits = []
    for _ in range(rng.choice([0, 1, 2])):
        n = names.pop()
        src = rng.choice(list(regs))
        S, sobj = regs[src]
        srcarg = sobj if isinstance(sobj, Register) and rng.random() < 0.5 else src
        uneval = (lambda: True) if isinstance(srcarg, str) else (lambda: rng.random() < 0.5)   # noqa
        k = rng.random()
        if k < 0.3 or S < 1:
            o = b.map(n, srcarg, unevaluated=uneval())
            regs[n] = (S, o)
            desc.append(("map", n, src))
        elif k < 0.6:
            i = rng.randrange(S)
            iv = float(i) if integral_floats else i
            o = b.map(n, srcarg, iv, unevaluated=uneval())
            qubits.append((n, o))
            desc.append(("map", n, src, repr(iv)))
        else:
            start = rng.randrange(S)
            stop = rng.randint(start + 1, S)
            step = rng.choice([None, 1, 1, 2])
            sl = slice(start if rng.random() < 0.7 or start else None, stop if rng.random() < 0.7 or stop != S else None, step)
            o = b.map(n, srcarg, sl, unevaluated=uneval())
            regs[n] = (len(range(start, stop, step or 1)), o)
            desc.append(("map", n, src, repr(sl)))
    gsig = ({k: v.replace("i", "I") if k == "P" else v.replace("i", "F") for k, v in SIG.items()} if gs else dict(NOGS_SIG))

    def qubit(params):
        o = rng.random()
        if params.get("q") and o < 0.3:
            return rng.choice(params["q"])
        if qubits and o < 0.5:
            n, obj = rng.choice(qubits)
            return obj if isinstance(obj, NamedQubit) and rng.random() < 0.5 else n
        n = rng.choice(list(regs))
        S, obj = regs[n]
        if S < 1:
            n = rn; S, obj = regs[rn]
        i = rng.randrange(S)
        if isinstance(obj, Register) and rng.random() < 0.4 and not params:
            return obj[i]
        ii = float(i) if rng.random() < 0.2 else i       # array_item applies as_integer
        return ("array_item", n, ii)

    def number(want, params):
        if params.get("n") and rng.random() < 0.3:
            return rng.choice(params["n"])
        c = [n for n, (v, _) in lets.items() if want != "I" or isinstance(v, int)]
        if c and rng.random() < 0.3:
            n = rng.choice(c)
            return lets[n][1] if isinstance(lets[n][1], Constant) and rng.random() < 0.5 and not params else n
        v = api_number(rng)
        if want == "I":
            v = v if isinstance(v, int) else rng.randrange(-3, 9)
        return v

    def add_gate(blk, params):
        name = rng.choice(list(gsig))
        args = []
        for k in gsig[name]:
            if k == "q":
                args.append(qubit(params))
            elif k == "R":
                n = rng.choice(list(regs))
                args.append(regs[n][1] if isinstance(regs[n][1], Register) and rng.random() < 0.5 and not params else n)
            elif k == "i":
                args.append(rng.choice(params["i"]) if params.get("i") and rng.random() < 0.5 else rng.randrange(0, 2))
            else:
                args.append(number(k, params))
        blk.gate(name, *args)

    def count(params):
        if params.get("i") and rng.random() < 0.4:
            return rng.choice(params["i"])
        c = [n for n, (v, _) in lets.items() if isinstance(v, int) and 0 <= v < 4]
        if c and rng.random() < 0.4:
            n = rng.choice(c)
            return lets[n][1] if isinstance(lets[n][1], Constant) and rng.random() < 0.5 and not params else n
        return rng.randrange(0, 4)

    def fill(blk, kind, depth, in_par, in_sub, params):
        for _ in range(rng.choice([0, 1, 2, 3])):
            r = rng.random()
            if r < 0.5 or depth > 4:
                add_gate(blk, params)
            elif kind == "par":
                fill(blk.block(parallel=False), "seq", depth + 1, True, in_sub, params)
            elif r < 0.65:
                fill(blk.block(parallel=True), "par", depth + 1, True, in_sub, params)
            elif r < 0.8:
                bk = rng.choice(["seq", "par"])
                inner = SequentialBlockBuilder() if bk == "seq" else ParallelBlockBuilder()
                fill(inner, bk, depth + 1, in_par or bk == "par", in_sub, params)
                blk.loop(count(params), inner, unevaluated=True)
            elif not in_par and not in_sub:
                it = rng.choice([None, None, 1, "cnt"])
                it = count(params) if it == "cnt" else it
                fill(blk.subcircuit(it), "seq", depth + 1, in_par, True, params)
            else:
                add_gate(blk, params)

    if not gs and rng.random() < 0.5:
        mname = names.pop()
        ps = {"q": [names.pop()], "n": [names.pop()], "i": [names.pop()]}
        body = SequentialBlockBuilder() if rng.random() < 0.7 else ParallelBlockBuilder()
        fill(body, "seq" if isinstance(body, SequentialBlockBuilder) else "par", 1, isinstance(body, ParallelBlockBuilder), False, ps)
        b.macro(mname, ps["q"] + ps["n"] + ps["i"], body, unevaluated=True)
        gsig[mname] = "qni"
        desc.append(("macro", mname))
    fill(b, "seq", 0, False, False, {})
    return b, gs, desc


def sx_json(x):
    """JSON rendering of a builder expression for the case record"""
    if isinstance(x, (list, tuple)):
        return [sx_json(y) for y in x]
    if isinstance(x, (str, int, float)) or x is None:
        return repr(x) if isinstance(x, float) else x
    if isinstance(x, slice):
        return repr(x)
    return f"<{type(x).__name__} {getattr(x, 'name', '')}>"


# ------------------------------------------------------------------------------------------------ driver

def call_driver(driver, reqs):
    if not reqs:
        return []
    data = "".join(json.dumps(r) + "\n" for r in reqs)
    proc = subprocess.run([driver], input=data, capture_output=True, text=True, check=True)
    lines = proc.stdout.splitlines()
    if len(lines) != len(reqs):
        raise RuntimeError(f"driver answered {len(lines)} lines for {len(reqs)} requests")
    out = []
    for line in lines:
        ans = json.loads(line)
        out.append(ans["out"] if "out" in ans else {"driver_error": ans.get("err", line)})
    return out


# ------------------------------------------------------------------------------------------------ run

ORACLES = ["reparse_equal", "text_fixpoint", "same_meaning", "nothing_lost", "after_passes", "builder_api",
           "no_same_kind_nesting_from_parser", "generate_never_raises_on_parsed", "literal_zero_step_rejected"]


class Acc:
    def __init__(self, driver):
        self.driver = driver
        self.corr = {op: {"cases": 0, "disagreements": []} for op in ("parse_program", "round_trip", "round_trip_layers")}
        self.oracle = {k: {"cases": 0, "failures": []} for k in ORACLES}
        self.dist = Counter()
        self.samples = []
        self.nontrivial = set()
        self.reqs = []
        self.expect = []

    def ask(self, op, req, case, impl):
        self.reqs.append(dict(req, op=op))
        self.expect.append((op, case, impl))
        if len(self.reqs) >= 1000:
            self.flush()

    def flush(self):
        if not self.reqs or self.driver is None:
            self.reqs, self.expect = [], []
            return
        answers = call_driver(self.driver, self.reqs)
        for (op, case, impl), model in zip(self.expect, answers):
            self.corr[op]["cases"] += 1
            if model != impl:
                if len(self.corr[op]["disagreements"]) < 20:
                    self.corr[op]["disagreements"].append({"case": case, "model": model, "impl": impl})
                else:
                    self.corr[op]["more_disagreements"] = self.corr[op].get("more_disagreements", 0) + 1
        self.reqs, self.expect = [], []

    def check(self, name, ok, case, detail):
        self.oracle[name]["cases"] += 1
        if not ok:
            if len(self.oracle[name]["failures"]) < 20:
                self.oracle[name]["failures"].append({"case": case, "detail": detail})
            else:
                self.oracle[name]["more_failures"] = self.oracle[name].get("more_failures", 0) + 1


def make_program(seed, idx):
    rng = random.Random(f"{seed}:c01:{idx}")
    gs = rng.random() < 0.5
    p = ProgGen(rng, gs).program()
    L = Layout(rng, plain=rng.random() < 0.25)
    text = render_program(p, L)
    return p, gs, text, rng


def trip_oracles(acc, c, gs, case, prog=None):
    """the direct oracles on one accepted circuit; returns the impl answer for `round_trip`"""
    acc.check("literal_zero_step_rejected", not has_zero_step(c), case, "a slice alias with the literal step 0 was accepted")
    ans, t, c2 = impl_round_trip(c, gs)
    acc.check("generate_never_raises_on_parsed", t is not None, case, f"{ans}")
    if t is None:
        return ans
    if c2 is None:
        acc.check("reparse_equal", False, case, f"generated text is rejected: {ans}; text: {t!r}")
        return ans
    eq1, eq2 = bool(c == c2), bool(c2 == c)
    acc.check("reparse_equal", eq1 and eq2, case, f"c == c2: {eq1}, c2 == c: {eq2}; generated: {t!r}")
    if "stable" in ans:
        acc.check("text_fixpoint", ans["stable"], case, f"first: {t!r}; second: {generate_jaqal_program(c2)!r}")
    m1, m2 = meaning(c), meaning(c2)
    acc.check("same_meaning", m1 == m2, case, f"before: {m1!r}"[:600] + f" after: {m2!r}"[:600])
    acc.dist["meaning:" + m1[0]] += 1
    acc.check("no_same_kind_nesting_from_parser", not has_same_kind_nesting(c), case, "parser output has a directly nested same-kind block")
    if prog is not None:
        try:
            got = text_tokens(t)
            ok, why = tokens_match(canon_program(prog), got, prog.letval)
        except Exception as e:  # noqa
            ok, why = False, f"{type(e).__name__}: {e}"
        acc.check("nothing_lost", ok, case, why + f"; generated: {t!r}")
    return ans


def pass_oracles(acc, c, gs, case, rng, names, shadowing=False):
    oname = "after_passes"
    if shadowing:
        acc.dist["after_passes:program_with_shadowing_parameter"] += 1
    for name in names:
        try:
            cp = apply_pass(name, c, rng)
        except Exception as e:  # noqa
            acc.dist[f"pass:{name}:not_applicable:{type(e).__name__}"] += 1
            continue
        if illegal_nesting(cp):
            acc.dist[f"pass:{name}:not_applicable:result_nests_subcircuit_illegally"] += 1
            continue
        acc.dist[f"pass:{name}:applied"] += 1
        pcase = dict(case, **{"pass": name})
        try:
            t = generate_jaqal_program(cp)
        except Exception as e:  # noqa
            acc.check(oname, False, pcase, f"generator raises {type(e).__name__}: {e}")
            continue
        try:
            c2 = parse(t, gs)
        except Exception as e:  # noqa
            acc.check(oname, False, pcase, f"text generated after the pass is rejected: {type(e).__name__}: {e}; text: {t!r}")
            continue
        m1, m2 = meaning(cp), meaning(c2)
        nest = has_same_kind_nesting(cp)
        acc.dist[f"pass:{name}:same_kind_nesting:{nest}"] += 1
        problems = []
        if m1 != m2:
            problems.append(f"meaning differs: {m1!r}"[:500] + f" vs {m2!r}"[:500])
        if generate_jaqal_program(c2) != t:
            problems.append("second generation differs")
        if not nest and not (cp == c2 and c2 == cp):
            problems.append("P(c) != parse(gen(P(c)))")
        acc.check(oname, not problems, pcase, "; ".join(problems) + f"; text: {t!r}")


def process_program(acc, seed, idx, thorough):
    p, gs, text, rng = make_program(seed, idx)
    case = {"kind": "program", "seed": seed, "idx": idx, "text": text, "gs": gs}
    natives = NATIVES_JSON if gs else None
    c, err = impl_parse_program(text, gs)
    # `as_integer(float)` is `int(float)`: the exact BINARY value. The model's floats are exact decimals (DESIGN 3.3),
    # so an integral let value >= 2^53 is outside the model; such programs only go through the direct oracles.
    outside = any(lit[0] == "flt" and abs(float(lit[1])) >= 2.0 ** 53 for _n, lit in p.lets)
    if outside:
        acc.dist["outside_model:integral_let_float_ge_2^53"] += 1
        ask = lambda *a: None   # noqa
    else:
        ask = acc.ask
    for k, v in p.feat.items():
        acc.dist["feature:" + k] += 1 if v else 0
    acc.dist["gate_set" if gs else "no_gate_set"] += 1
    if c is None:
        acc.dist["generated_program_rejected:" + err["err"]] += 1
        ask("parse_program", {"text": text, "natives": natives}, case, err)
        ask("round_trip", {"text": text, "natives": natives}, case, dict(err, stage="parse"))
    else:
        acc.dist["accepted"] += 1
        acc.nontrivial.add(text)
        ask("parse_program", {"text": text, "natives": natives}, case, {"ok": dumpc(c)})
        ans = trip_oracles(acc, c, gs, case, prog=p)
        ask("round_trip", {"text": text, "natives": natives}, case, ans)
        if "equal" in ans and ans["equal"] and ans["stable"]:
            # the layer statements of the Lean development (tokens derive / lexing the generated text / rebuilding the
            # S-expression), evaluated inside the model: all hold whenever the real code round-trips
            ask("round_trip_layers", {"text": text, "natives": natives}, case, {"printable": True, "A": True, "B": True, "C": True, "Cexact": True})
        names = PASSES if thorough or idx % 2 == 0 else rng.sample(PASSES, 3)
        shadow = any(k.startswith("param_shadows") for k in p.feat)
        acc.dist["semantically_illegal_nesting_accepted_by_builder"] += 1 if illegal_nesting(c) else 0
        pass_oracles(acc, c, gs, case, rng, names, shadowing=shadow)
        if len(acc.samples) < 4 and len(text) > 150:
            acc.samples.append(case)
    # mutants: rejections (and the occasional accepted variant) for the correspondence
    for j in range(2 if thorough else 1):
        mt, how = mutate(text, rng)
        mcase = {"kind": "mutant", "seed": seed, "idx": idx, "mutation": how, "text": mt, "gs": gs}
        mc, merr = impl_parse_program(mt, gs)
        if mc is None:
            acc.dist["mutant_rejected:" + merr["err"]] += 1
            ask("parse_program", {"text": mt, "natives": natives}, mcase, merr)
        else:
            acc.dist["mutant_accepted"] += 1
            acc.nontrivial.add(mt)
            ask("parse_program", {"text": mt, "natives": natives}, mcase, {"ok": dumpc(mc)})
            ans = trip_oracles(acc, mc, gs, mcase)
            ask("round_trip", {"text": mt, "natives": natives}, mcase, ans)


def process_api(acc, seed, idx, integral_floats):
    rng = random.Random(f"{seed}:c01api:{idx}:{integral_floats}")
    oracle = "builder_api"
    if integral_floats:
        acc.dist["builder_api:integral_float_size_or_index"] += 1
    try:
        b, gs, desc = api_circuit(rng, integral_floats)
        expr = sx_json(b.expression)
    except Exception as e:  # noqa
        acc.dist[f"api_construction_raises:{type(e).__name__}"] += 1
        return
    case = {"kind": "api", "seed": seed, "idx": idx, "integral_floats": integral_floats, "gs": gs, "expression": expr}
    try:
        c = b.build()
    except Exception as e:  # noqa
        acc.dist[f"api_build_raises:{type(e).__name__}"] += 1
        return
    acc.dist["api_built"] += 1
    acc.nontrivial.add(json.dumps(expr))
    ans, t, c2 = impl_round_trip(c, gs)
    if c2 is None or "err" in ans:
        acc.check(oracle, False, case, f"{ans}; text: {t!r}")
        return
    m1, m2 = meaning(c), meaning(c2)
    problems = []
    if not (c == c2 and c2 == c):
        problems.append("c != parse(gen(c))")
    if not ans["stable"]:
        problems.append("second generation differs")
    if m1 != m2:
        problems.append(f"meaning differs: {m1!r}"[:500] + f" vs {m2!r}"[:500])
    acc.check(oracle, not problems, case, "; ".join(problems) + f"; text: {t!r}")
    if not integral_floats and idx % 3 == 0:
        pass_oracles(acc, c, gs, case, rng, rng.sample(PASSES, 2))


class _Timeout(Exception):
    pass


def guarded(acc, what, f, *args):
    """run one case under a watchdog: a case that takes more than 20 s is recorded, not waited for"""
    import signal

    def on_alarm(_sig, _frm):
        raise _Timeout()
    try:
        old = signal.signal(signal.SIGALRM, on_alarm)
    except ValueError:        # not in the main thread: no watchdog
        return f(acc, *args)
    signal.alarm(20)
    try:
        return f(acc, *args)
    except _Timeout:
        acc.dist[f"TIMEOUT:{what}:{args}"] += 1
    finally:
        signal.alarm(0)
        signal.signal(signal.SIGALRM, old)


def run(seed: int, n: int, driver: str = DEFAULT_DRIVER, thorough: bool = False) -> dict:
    _imports()
    acc = Acc(driver)
    nprog = n * (4 if thorough else 1)
    for i in range(nprog):
        guarded(acc, "program", process_program, seed, i, thorough)
    for i in range(max(1, nprog // 2)):
        guarded(acc, "api", process_api, seed, i, False)
    for i in range(max(1, nprog // 8)):
        guarded(acc, "api", process_api, seed, i, True)
    acc.flush()
    return {"corr": acc.corr, "oracle": acc.oracle, "distribution": dict(sorted(acc.dist.items())),
            "samples": acc.samples, "nontrivial": len(acc.nontrivial)}


def big_int_text(digits: int) -> str:
    n = "9" * digits
    return f"register r[{n}]\nlet m -{n}\nmap a r[m:]\nmap b a[:]\n"


def probe_open_findings() -> dict:
    """the known open finding of C01 on the current tree: {name: {"accepted": bool, "answer": ...}}"""
    _imports()
    out = {}
    for name, digits in (("big_computed_int_4300", 4300), ("big_computed_int_4299", 4299)):
        text = big_int_text(digits)
        c, err = impl_parse_program(text, False)
        if c is None:
            out[name] = {"accepted": False, "answer": err}
            continue
        ans, t, c2 = impl_round_trip(c, False)
        ans = {k: v for k, v in ans.items() if k not in ("text2", "circuit2")}
        out[name] = {"accepted": True, "answer": ans, "round_trip_ok": bool(t is not None and c2 is not None and c == c2)}
    return out


def replay(case: dict, driver: str = DEFAULT_DRIVER) -> dict:
    _imports()
    acc = Acc(driver)
    kind = case.get("kind")
    if kind == "api":
        process_api(acc, case["seed"], case["idx"], case.get("integral_floats", False))
        fails = [f for o in acc.oracle.values() for f in o["failures"]]
        return {"model": None, "impl": None, "oracle_ok": not fails, "detail": "; ".join(f["detail"] for f in fails)[:2000]}
    text, gs = case["text"], case["gs"]
    natives = NATIVES_JSON if gs else None
    prog = None
    if kind == "program" and "seed" in case:
        p, gs2, text2, _ = make_program(case["seed"], case["idx"])
        if text2 == text and gs2 == gs:
            prog = p
    c, err = impl_parse_program(text, gs)
    if c is None:
        impl = err
        model = call_driver(driver, [{"op": "parse_program", "text": text, "natives": natives}])[0] if driver else None
        return {"model": model, "impl": impl, "oracle_ok": None, "detail": "rejected by the implementation"}
    impl = trip_oracles(acc, c, gs, case, prog=prog)
    if "pass" in case:
        pass_oracles(acc, c, gs, case, random.Random(f"{case.get('seed')}:replay"), [case["pass"]])
    else:
        pass_oracles(acc, c, gs, case, random.Random(f"{case.get('seed')}:replay"), PASSES)
    model = call_driver(driver, [{"op": "round_trip", "text": text, "natives": natives}])[0] if driver else None
    fails = [dict(f, oracle=k) for k, o in acc.oracle.items() for f in o["failures"]]
    return {"model": model, "impl": impl, "oracle_ok": not fails,
            "detail": "; ".join(f"{f['oracle']}: {f['detail']}" for f in fails)[:3000]}


def main():
    ap = argparse.ArgumentParser()
    ap.add_argument("--driver", default=DEFAULT_DRIVER)
    ap.add_argument("--n", type=int, default=400)
    ap.add_argument("--seed", type=int, default=0)
    ap.add_argument("--thorough", action="store_true")
    ap.add_argument("--json", action="store_true")
    ap.add_argument("--open-findings", action="store_true", help="only run the probes of the known open finding")
    a = ap.parse_args()
    if a.open_findings:
        res = probe_open_findings()
        print(json.dumps(res, indent=1))
        sys.exit(0 if all(r.get("round_trip_ok") or not r["accepted"] for r in res.values()) else 1)
    res = run(a.seed, a.n, a.driver, a.thorough)
    if a.json:
        print(json.dumps(res))
    else:
        for op, r in res["corr"].items():
            print(f"corr {op}: {r['cases']} cases, {len(r['disagreements']) + r.get('more_disagreements', 0)} disagreements")
            for d in r["disagreements"][:3]:
                print("   ", json.dumps(d)[:1500])
        for k, r in res["oracle"].items():
            print(f"oracle {k}: {r['cases']} cases, {len(r['failures']) + r.get('more_failures', 0)} failures")
            for d in r["failures"][:3]:
                print("   ", json.dumps(d)[:1500])
        print("nontrivial:", res["nontrivial"])
        for k, v in res["distribution"].items():
            print(f"   {k}: {v}")
    bad = sum(len(r["disagreements"]) for r in res["corr"].values()) + sum(len(r["failures"]) for r in res["oracle"].values())
    sys.exit(1 if bad else 0)


if __name__ == "__main__":
    main()
